package main

import (
	"fmt"
	"go/ast"
	"go/token"
	"strings"
)

// HandleGet family (C11): statement order of header flush vs table store in handleGet, and whether the exit path
// compares the table entry with the handler's own connection before deleting it.
func genHandleGet(root *pkgSrc) {
	flushBeforeStore := true // unknown => bad region
	identity := false
	if fd, _ := root.funcDecl("httpServerHandler.handleGet"); fd != nil {
		var flushPos, storePos, waitPos token.Pos
		ast.Inspect(fd.Body, func(n ast.Node) bool {
			switch x := n.(type) {
			case *ast.CallExpr:
				if t := root.text(x); t == "flusher.Flush()" && flushPos == 0 {
					flushPos = x.Pos()
				}
			case *ast.AssignStmt:
				if len(x.Lhs) == 1 {
					if ix, ok := x.Lhs[0].(*ast.IndexExpr); ok && root.text(ix.X) == "h.getSSEConnections" && storePos == 0 {
						storePos = x.Pos()
					}
				}
			case *ast.UnaryExpr:
				if x.Op == token.ARROW && strings.Contains(root.text(x), "connCtx.Done()") {
					waitPos = x.Pos()
				}
			}
			return true
		})
		if flushPos != 0 && storePos != 0 {
			flushBeforeStore = flushPos < storePos
		}
		// every delete(h.getSSEConnections, …) after the wait must sit inside an `if` whose condition compares with conn
		deletes, guarded := 0, 0
		var walk func(n ast.Node, inGuard bool)
		walk = func(n ast.Node, inGuard bool) {
			ast.Inspect(n, func(m ast.Node) bool {
				switch x := m.(type) {
				case *ast.IfStmt:
					g := inGuard
					cond := root.text(x.Cond)
					if x.Init != nil {
						cond = root.text(x.Init) + ";" + cond
					}
					if strings.Contains(cond, "== conn") || strings.Contains(cond, "conn ==") {
						g = true
					}
					walk(x.Body, g)
					if x.Else != nil {
						walk(x.Else, inGuard)
					}
					return false
				case *ast.CallExpr:
					if id, ok := x.Fun.(*ast.Ident); ok && id.Name == "delete" && len(x.Args) == 2 && root.text(x.Args[0]) == "h.getSSEConnections" && x.Pos() > waitPos && waitPos != 0 {
						deletes++
						if inGuard {
							guarded++
						}
					}
				}
				return true
			})
		}
		walk(fd.Body, false)
		identity = waitPos != 0 && deletes == guarded // no unguarded delete on the exit path (zero deletes = nothing evicted)
	}
	// closed mark: the exit path sets conn.closed under conn.writeLock after the wait, and both writers check it after
	// taking conn.writeLock
	closedMark := false
	if fd, _ := root.funcDecl("httpServerHandler.handleGet"); fd != nil {
		src := root.text(fd)
		if i := strings.Index(src, "<-connCtx.Done()"); i >= 0 {
			tail := src[i:]
			l := strings.Index(tail, "conn.writeLock.Lock()")
			m := strings.Index(tail, "conn.closed = true")
			u := strings.Index(tail, "conn.writeLock.Unlock()")
			closedMark = l >= 0 && m > l && u > m
		}
	}
	for _, fn := range []string{"httpServerHandler.sendNotificationToGetSSE", "httpServerHandler.SendRequest"} {
		fd, _ := root.funcDecl(fn)
		if fd == nil {
			closedMark = false
			continue
		}
		src := root.text(fd)
		l := strings.Index(src, "conn.writeLock.Lock()")
		c := strings.Index(src, "if conn.closed")
		w := strings.Index(src, "conn.sseResponder.send")
		if !(l >= 0 && c > l && w > c) {
			closedMark = false
		}
	}
	// atomic steps: (a) registration = lookup of the session's entry, cancel of the stream found, store of the new entry in
	// ONE exclusive critical section of the table lock; (b) exit = "is the entry still mine?" and the delete in ONE exclusive
	// critical section. (Split in two, two racing re-opens can both survive / an old exit can evict a newer stream.)
	storeAtomic, exitAtomic := false, false
	if fd, _ := root.funcDecl("httpServerHandler.handleGet"); fd != nil {
		type ev struct {
			pos  token.Pos
			kind string // Lock RLock Unlock RUnlock lookup cancel store cmp delete wait
		}
		var evs []ev
		ast.Inspect(fd.Body, func(n ast.Node) bool {
			switch x := n.(type) {
			case *ast.FuncLit:
				return false // deferred closures run at another time
			case *ast.CallExpr:
				if sel, ok := x.Fun.(*ast.SelectorExpr); ok {
					if root.text(sel.X) == "h.getSSEConnectionsLock" {
						evs = append(evs, ev{x.Pos(), sel.Sel.Name})
					}
					if sel.Sel.Name == "cancelFunc" && !strings.HasPrefix(root.text(sel.X), "conn") {
						evs = append(evs, ev{x.Pos(), "cancel"})
					}
				}
				if id, ok := x.Fun.(*ast.Ident); ok && id.Name == "delete" && len(x.Args) == 2 && root.text(x.Args[0]) == "h.getSSEConnections" {
					evs = append(evs, ev{x.Pos(), "delete"})
				}
			case *ast.AssignStmt:
				for _, l := range x.Lhs {
					if ix, ok := l.(*ast.IndexExpr); ok && root.text(ix.X) == "h.getSSEConnections" {
						evs = append(evs, ev{x.Pos(), "store"})
					}
				}
				for _, r := range x.Rhs {
					if ix, ok := r.(*ast.IndexExpr); ok && root.text(ix.X) == "h.getSSEConnections" {
						evs = append(evs, ev{r.Pos(), "lookup"})
					}
				}
			case *ast.BinaryExpr:
				if x.Op == token.EQL && (root.text(x.Y) == "conn" || root.text(x.X) == "conn") {
					evs = append(evs, ev{x.Pos(), "cmp"})
				}
			case *ast.UnaryExpr:
				if x.Op == token.ARROW && strings.Contains(root.text(x), "connCtx.Done()") {
					evs = append(evs, ev{x.Pos(), "wait"})
				}
			}
			return true
		})
		for i := range evs {
			for j := i + 1; j < len(evs); j++ {
				if evs[j].pos < evs[i].pos {
					evs[i], evs[j] = evs[j], evs[i]
				}
			}
		}
		// walk: which critical section (index of its Lock, exclusive or not) each event lies in
		type where struct {
			sec  int
			excl bool
		}
		in := map[string][]where{}
		sec, held, excl, waited := 0, false, false, false
		for _, e := range evs {
			switch e.kind {
			case "Lock", "RLock":
				sec++
				held, excl = true, e.kind == "Lock"
			case "Unlock", "RUnlock":
				held = false
			case "wait":
				waited = true
			default:
				k := e.kind
				if waited {
					k = "exit:" + k
				}
				w := where{sec: 0}
				if held {
					w = where{sec, excl}
				}
				in[k] = append(in[k], w)
			}
		}
		same := func(kinds ...string) bool {
			s := -1
			for _, k := range kinds {
				if len(in[k]) == 0 {
					return false
				}
				for _, w := range in[k] {
					if w.sec == 0 || !w.excl {
						return false
					}
					if s == -1 {
						s = w.sec
					}
					if w.sec != s {
						return false
					}
				}
			}
			return true
		}
		storeAtomic = same("lookup", "cancel", "store")
		exitAtomic = len(in["exit:delete"]) == 0 || same("exit:lookup", "exit:cmp", "exit:delete")
	}
	// client side (streamable_client.go establishGetSSE): the previous stream's context is cancelled and the new one
	// installed under the slot's mutex, and the reader goroutine it starts never cancels or replaces the SHARED slot's
	// context (a newer stream may own the slot by the time an old reader exits): only its own captured ctx/cancel.
	clientReplaceLocked, clientExitOwnOnly := false, false
	if fd, _ := root.funcDecl("streamableHTTPClientTransport.establishGetSSE"); fd != nil {
		src := root.text(fd)
		l := strings.Index(src, "t.getSSEConn.mutex.Lock()")
		d := strings.Index(src, "defer t.getSSEConn.mutex.Unlock()")
		cOld := strings.Index(src, "t.getSSEConn.cancel()")
		st := strings.Index(src, "t.getSSEConn.cancel = ")
		g := strings.Index(src, "go func()")
		clientReplaceLocked = l >= 0 && d > l && cOld > d && st > cOld && g > st
		clientExitOwnOnly = g >= 0
		ast.Inspect(fd.Body, func(n ast.Node) bool {
			gs, ok := n.(*ast.GoStmt)
			if !ok {
				return true
			}
			ast.Inspect(gs.Call, func(m ast.Node) bool {
				switch x := m.(type) {
				case *ast.CallExpr:
					if t := root.text(x.Fun); t == "t.getSSEConn.cancel" {
						clientExitOwnOnly = false
					}
				case *ast.AssignStmt:
					for _, lh := range x.Lhs {
						if t := root.text(lh); t == "t.getSSEConn.ctx" || t == "t.getSSEConn.cancel" {
							clientExitOwnOnly = false
						}
					}
				}
				return true
			})
			return false
		})
	}
	var b strings.Builder
	b.WriteString(header)
	b.WriteString("import Mcp.Model.Streams\nnamespace Mcp.Gen\n")
	fmt.Fprintf(&b, "/-- client `establishGetSSE`: the old stream is cancelled and the new one installed under the slot mutex; the reader goroutine's exit cancels / replaces nothing of the shared slot. -/\ndef clientGetReplaceLocked : Bool := %s\ndef clientGetExitOwnOnly : Bool := %s\n", leanBool(clientReplaceLocked), leanBool(clientExitOwnOnly))
	fmt.Fprintf(&b, "/-- `handleGet`: the registration (lookup, cancel of the stream found, store) is one exclusive critical section of the table lock; so is the exit (identity check and delete). -/\ndef handleGetStoreAtomic : Bool := %s\ndef handleGetExitAtomic : Bool := %s\n", leanBool(storeAtomic), leanBool(exitAtomic))
	fmt.Fprintf(&b, "/-- `handleGet`: (headers flushed before the table store, exit path removes the entry only if it is its own, exit marks the connection closed for writers). -/\ndef handleGetFacts : Mcp.Streams.Facts := ⟨%s, %s, %s⟩\n", leanBool(flushBeforeStore), leanBool(identity), leanBool(closedMark))
	b.WriteString("end Mcp.Gen\n")
	writeIfChanged("HandleGet.lean", b.String())
}

func init() { generators = append(generators, genHandleGet) }
