package main

import (
	"fmt"
	"go/ast"
	"go/token"
	"strings"
)

// HandleGet family (C11): statement order of header flush vs table store in handleGet, and whether the exit path
// compares the table entry with the handler's own connection before deleting it.
func genHandleGet(root *pkgSrc) {
	flushBeforeStore := true // unknown => bad region
	identity := false
	if fd, _ := root.funcDecl("httpServerHandler.handleGet"); fd != nil {
		var flushPos, storePos, waitPos token.Pos
		ast.Inspect(fd.Body, func(n ast.Node) bool {
			switch x := n.(type) {
			case *ast.CallExpr:
				if t := root.text(x); t == "flusher.Flush()" && flushPos == 0 {
					flushPos = x.Pos()
				}
			case *ast.AssignStmt:
				if len(x.Lhs) == 1 {
					if ix, ok := x.Lhs[0].(*ast.IndexExpr); ok && root.text(ix.X) == "h.getSSEConnections" && storePos == 0 {
						storePos = x.Pos()
					}
				}
			case *ast.UnaryExpr:
				if x.Op == token.ARROW && strings.Contains(root.text(x), "connCtx.Done()") {
					waitPos = x.Pos()
				}
			}
			return true
		})
		if flushPos != 0 && storePos != 0 {
			flushBeforeStore = flushPos < storePos
		}
		// every delete(h.getSSEConnections, …) after the wait must sit inside an `if` whose condition compares with conn
		deletes, guarded := 0, 0
		var walk func(n ast.Node, inGuard bool)
		walk = func(n ast.Node, inGuard bool) {
			ast.Inspect(n, func(m ast.Node) bool {
				switch x := m.(type) {
				case *ast.IfStmt:
					g := inGuard
					cond := root.text(x.Cond)
					if x.Init != nil {
						cond = root.text(x.Init) + ";" + cond
					}
					if strings.Contains(cond, "== conn") || strings.Contains(cond, "conn ==") {
						g = true
					}
					walk(x.Body, g)
					if x.Else != nil {
						walk(x.Else, inGuard)
					}
					return false
				case *ast.CallExpr:
					if id, ok := x.Fun.(*ast.Ident); ok && id.Name == "delete" && len(x.Args) == 2 && root.text(x.Args[0]) == "h.getSSEConnections" && x.Pos() > waitPos && waitPos != 0 {
						deletes++
						if inGuard {
							guarded++
						}
					}
				}
				return true
			})
		}
		walk(fd.Body, false)
		identity = waitPos != 0 && deletes == guarded // no unguarded delete on the exit path (zero deletes = nothing evicted)
	}
	// closed mark: the exit path sets conn.closed under conn.writeLock after the wait, and both writers check it after
	// taking conn.writeLock
	closedMark := false
	if fd, _ := root.funcDecl("httpServerHandler.handleGet"); fd != nil {
		src := root.text(fd)
		if i := strings.Index(src, "<-connCtx.Done()"); i >= 0 {
			tail := src[i:]
			l := strings.Index(tail, "conn.writeLock.Lock()")
			m := strings.Index(tail, "conn.closed = true")
			u := strings.Index(tail, "conn.writeLock.Unlock()")
			closedMark = l >= 0 && m > l && u > m
		}
	}
	for _, fn := range []string{"httpServerHandler.sendNotificationToGetSSE", "httpServerHandler.SendRequest"} {
		fd, _ := root.funcDecl(fn)
		if fd == nil {
			closedMark = false
			continue
		}
		src := root.text(fd)
		l := strings.Index(src, "conn.writeLock.Lock()")
		c := strings.Index(src, "if conn.closed")
		w := strings.Index(src, "conn.sseResponder.send")
		if !(l >= 0 && c > l && w > c) {
			closedMark = false
		}
	}
	var b strings.Builder
	b.WriteString(header)
	b.WriteString("import Mcp.Model.Streams\nnamespace Mcp.Gen\n")
	fmt.Fprintf(&b, "/-- `handleGet`: (headers flushed before the table store, exit path removes the entry only if it is its own, exit marks the connection closed for writers). -/\ndef handleGetFacts : Mcp.Streams.Facts := ⟨%s, %s, %s⟩\n", leanBool(flushBeforeStore), leanBool(identity), leanBool(closedMark))
	b.WriteString("end Mcp.Gen\n")
	writeIfChanged("HandleGet.lean", b.String())
}

func init() { generators = append(generators, genHandleGet) }
