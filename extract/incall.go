package main

import (
	"fmt"
	"go/ast"
	"path/filepath"
	"strings"
)

// InCall family (C10): which sseutil.Writer objects (= event-id counters) write on one POST-SSE stream, and the shape
// of the client's POST-SSE read loop (synchronous handler dispatch; early return only without handlers).
// Everything not recognised is emitted as the non-compliant value.

// icWriterFieldValue returns the source text of the value given to the field `sseWriter` in the composite literal of
// type typeName inside function fn ("" = not found).
func icWriterFieldValue(root *pkgSrc, fn, typeName string) string {
	fd, _ := root.funcDecl(fn)
	if fd == nil || fd.Body == nil {
		return ""
	}
	val := ""
	ast.Inspect(fd.Body, func(n ast.Node) bool {
		cl, ok := n.(*ast.CompositeLit)
		if !ok {
			return true
		}
		if id, ok := cl.Type.(*ast.Ident); !ok || id.Name != typeName {
			return true
		}
		for _, el := range cl.Elts {
			if kv, ok := el.(*ast.KeyValueExpr); ok {
				if k, ok := kv.Key.(*ast.Ident); ok && k.Name == "sseWriter" {
					val = strings.Join(strings.Fields(root.text(kv.Value)), "")
				}
			}
		}
		return true
	})
	return val
}

func icIsParam(fd *ast.FuncDecl, name string) bool {
	if fd == nil || fd.Type.Params == nil {
		return false
	}
	for _, f := range fd.Type.Params.List {
		for _, n := range f.Names {
			if n.Name == name {
				return true
			}
		}
	}
	return false
}

func icHasGoStmt(fd *ast.FuncDecl) bool {
	found := false
	ast.Inspect(fd.Body, func(n ast.Node) bool {
		if _, ok := n.(*ast.GoStmt); ok {
			found = true
		}
		return true
	})
	return found
}

// icCallsDirect: the function body contains a call whose callee text is callee, outside any func literal / go / defer.
func icCallsDirect(root *pkgSrc, fd *ast.FuncDecl, callee string) bool {
	found := false
	var walk func(n ast.Node)
	walk = func(n ast.Node) {
		ast.Inspect(n, func(m ast.Node) bool {
			switch x := m.(type) {
			case *ast.FuncLit, *ast.GoStmt, *ast.DeferStmt:
				return false
			case *ast.CallExpr:
				if root.text(x.Fun) == callee {
					found = true
				}
			}
			return true
		})
	}
	walk(fd.Body)
	return found
}

// icSenderMarshalsFirst: every method of sseNotificationSender either delegates (`return <recv>.SendCustomNotification(…)`,
// the stream not mentioned) or has, among its top-level statements, `x, err := json.Marshal(…)` directly followed by
// `if err != nil { return … }` with the stream (<recv>.writer / .sseWriter / .flusher) not mentioned up to there, and
// afterwards exactly one use of <recv>.writer: `<recv>.sseWriter.WriteEvent(<recv>.writer, sseutil.Event{… Data: x …})`.
// Both SendCustomNotification and SendNotification must be of the second form.
func icSenderMarshalsFirst(root *pkgSrc) bool {
	squeeze := func(n ast.Node) string { return strings.Join(strings.Fields(root.text(n)), "") }
	marshals := map[string]bool{}
	for _, fn := range root.sortedFiles() {
		for _, d := range root.files[fn].Decls {
			fd, ok := d.(*ast.FuncDecl)
			if !ok || !strings.HasPrefix(funcName(fd), "sseNotificationSender.") {
				continue
			}
			if fd.Body == nil || len(fd.Recv.List) != 1 || len(fd.Recv.List[0].Names) != 1 {
				return false
			}
			recv := fd.Recv.List[0].Names[0].Name
			stream := func(t string) bool {
				return strings.Contains(t, recv+".writer") || strings.Contains(t, recv+".sseWriter") || strings.Contains(t, recv+".flusher")
			}
			// delegation
			if len(fd.Body.List) == 1 {
				if rs, ok := fd.Body.List[0].(*ast.ReturnStmt); ok && len(rs.Results) == 1 {
					if c, ok := rs.Results[0].(*ast.CallExpr); ok && root.text(c.Fun) == recv+".SendCustomNotification" && !stream(squeeze(rs)) {
						continue
					}
				}
			}
			idx, data := -1, ""
			for i, st := range fd.Body.List {
				as, ok := st.(*ast.AssignStmt)
				if !ok || len(as.Lhs) != 2 || len(as.Rhs) != 1 {
					continue
				}
				if c, ok := as.Rhs[0].(*ast.CallExpr); ok && root.text(c.Fun) == "json.Marshal" && root.text(as.Lhs[1]) == "err" {
					idx, data = i, root.text(as.Lhs[0])
					break
				}
			}
			if idx < 0 || idx+1 >= len(fd.Body.List) {
				return false
			}
			guard, ok := fd.Body.List[idx+1].(*ast.IfStmt)
			if !ok || squeeze(guard.Cond) != "err!=nil" || guard.Else != nil || len(guard.Body.List) != 1 {
				return false
			}
			if _, ok := guard.Body.List[0].(*ast.ReturnStmt); !ok {
				return false
			}
			for _, st := range fd.Body.List[:idx+2] {
				if stream(squeeze(st)) {
					return false
				}
			}
			post := ""
			for _, st := range fd.Body.List[idx+2:] {
				post += squeeze(st) + ";"
			}
			if strings.Count(post, recv+".writer") != 1 || !strings.Contains(post, recv+".sseWriter.WriteEvent("+recv+".writer,sseutil.Event{") ||
				!(strings.Contains(post, "Data:"+data+",") || strings.Contains(post, "Data:"+data+"}")) || strings.Contains(post, recv+".flusher") {
				return false
			}
			marshals[fd.Name.Name] = true
		}
	}
	return marshals["SendCustomNotification"] && marshals["SendNotification"]
}

func genInCall(root *pkgSrc) {
	// ---- server side: writer objects on the POST-SSE stream
	senderVal := icWriterFieldValue(root, "newSSENotificationSender", "sseNotificationSender")
	responderVal := icWriterFieldValue(root, "newSSEResponder", "sseResponder")
	senderFd, _ := root.funcDecl("newSSENotificationSender")
	senderOwns := true // unknown => its own writer
	if senderVal != "" && senderVal != "sseutil.NewWriter()" && icIsParam(senderFd, senderVal) {
		senderOwns = false
	}
	responderOwns := responderVal == "sseutil.NewWriter()"
	// the call in handlePostRequest: when the sender takes its writer as a parameter, it must be the responder's
	senderGetsResponders := false
	if fd, _ := root.funcDecl("httpServerHandler.handlePostRequest"); fd != nil {
		ast.Inspect(fd.Body, func(n ast.Node) bool {
			c, ok := n.(*ast.CallExpr)
			if !ok || root.text(c.Fun) != "newSSENotificationSender" {
				return true
			}
			fresh, fromResponder := false, false
			for _, a := range c.Args {
				t := root.text(a)
				if strings.Contains(t, "NewWriter(") {
					fresh = true
				}
				if strings.Contains(t, "sseResponder.sseWriter") || strings.Contains(t, "responder.sseWriter") {
					fromResponder = true
				}
			}
			senderGetsResponders = fromResponder && !fresh
			return true
		})
	}
	// sseutil.Writer.GenerateEventID: "evt-%d-%d" of (millisecond timestamp, atomic.AddUint64(&<recv>.eventCounter, 1))
	idIsMsCounter, counterPerWriter := false, true
	sse := loadDir(filepath.Join(*repo, "internal", "sseutil"))
	if fd, _ := sse.funcDecl("Writer.GenerateEventID"); fd != nil && fd.Body != nil && fd.Recv != nil && len(fd.Recv.List) == 1 && len(fd.Recv.List[0].Names) == 1 {
		recv := fd.Recv.List[0].Names[0].Name
		counterVar, fmtOK, incOK := "", false, false
		stmts := 0
		ast.Inspect(fd.Body, func(n ast.Node) bool {
			switch x := n.(type) {
			case *ast.AssignStmt:
				stmts++
				if len(x.Lhs) == 1 && len(x.Rhs) == 1 {
					rhs := strings.Join(strings.Fields(sse.text(x.Rhs[0])), "")
					if strings.HasPrefix(rhs, "atomic.AddUint64(&") && strings.HasSuffix(rhs, ",1)") {
						target := strings.TrimSuffix(strings.TrimPrefix(rhs, "atomic.AddUint64(&"), ",1)")
						if id, ok := x.Lhs[0].(*ast.Ident); ok {
							counterVar = id.Name
							incOK = true
							counterPerWriter = strings.HasPrefix(target, recv+".")
						}
					}
				}
			case *ast.IncDecStmt, *ast.IfStmt, *ast.ForStmt:
				stmts += 10 // anything beyond the two assignments and the return: not recognised
			case *ast.ReturnStmt:
				if len(x.Results) == 1 {
					if c, ok := x.Results[0].(*ast.CallExpr); ok && sse.text(c.Fun) == "fmt.Sprintf" && len(c.Args) == 3 {
						if sse.text(c.Args[0]) == `"evt-%d-%d"` && counterVar != "" && sse.text(c.Args[2]) == counterVar {
							fmtOK = true
						}
					}
				}
			}
			return true
		})
		idIsMsCounter = fmtOK && incOK && stmts == 2 && len(fd.Body.List) == 3
	}
	writers := 0 // 0 = not recognised
	switch {
	case !idIsMsCounter:
		writers = 0
	case !counterPerWriter:
		writers = 1
	case senderOwns && responderOwns:
		writers = 2
	case !senderOwns && senderGetsResponders && responderOwns:
		writers = 1
	default:
		writers = 0
	}

	// ---- client side: the POST-SSE read loop
	syncDispatch, drain := false, false
	hFd, _ := root.funcDecl("streamableHTTPClientTransport.handleSSEResponse")
	pFd, _ := root.funcDecl("streamableHTTPClientTransport.processEventData")
	nFd, _ := root.funcDecl("streamableHTTPClientTransport.handleNotificationMessage")
	if hFd != nil && pFd != nil && nFd != nil && hFd.Body != nil && pFd.Body != nil && nFd.Body != nil {
		syncDispatch = !icHasGoStmt(hFd) && !icHasGoStmt(pFd) && !icHasGoStmt(nFd) &&
			icCallsDirect(root, hFd, "t.processEventData") &&
			icCallsDirect(root, pFd, "t.handleNotificationMessage") &&
			icCallsDirect(root, nFd, "handler")
		// every successful return (`return <non-nil>, nil`) sits under an `io.EOF` test or under `len(handlers) == 0`
		okAll, sawEOF, sawGuarded := true, false, false
		var walk func(n ast.Node, conds []string)
		walk = func(n ast.Node, conds []string) {
			ast.Inspect(n, func(m ast.Node) bool {
				switch x := m.(type) {
				case *ast.IfStmt:
					c := strings.Join(strings.Fields(root.text(x.Cond)), "")
					walk(x.Body, append(append([]string{}, conds...), c))
					if x.Else != nil {
						walk(x.Else, conds)
					}
					return false
				case *ast.FuncLit:
					return false
				case *ast.ReturnStmt:
					if len(x.Results) == 2 && root.text(x.Results[1]) == "nil" && root.text(x.Results[0]) != "nil" {
						eof, guarded := false, false
						for _, c := range conds {
							if strings.Contains(c, "io.EOF") {
								eof = true
							}
							if c == "len(handlers)==0" {
								guarded = true
							}
						}
						if eof {
							sawEOF = true
						} else if guarded {
							sawGuarded = true
						} else {
							okAll = false
						}
					}
				}
				return true
			})
		}
		walk(hFd.Body, nil)
		drain = okAll && sawEOF
		_ = sawGuarded
	}

	var b strings.Builder
	b.WriteString(header)
	b.WriteString("namespace Mcp.Gen\n")
	fmt.Fprintf(&b, "/-- `newSSENotificationSender` creates its own `sseutil.Writer` (unknown ⇒ true). -/\ndef icSenderOwnsWriter : Bool := %s\n", leanBool(senderOwns))
	fmt.Fprintf(&b, "/-- `newSSEResponder` creates its own `sseutil.Writer`. -/\ndef icResponderOwnsWriter : Bool := %s\n", leanBool(responderOwns))
	fmt.Fprintf(&b, "/-- `handlePostRequest` hands the responder's writer to the notification sender. -/\ndef icSenderGetsResponderWriter : Bool := %s\n", leanBool(senderGetsResponders))
	fmt.Fprintf(&b, "/-- `GenerateEventID` is `Sprintf(\"evt-%%d-%%d\", ms, atomic.AddUint64(&counter, 1))` and nothing else. -/\ndef icIdIsMsCounter : Bool := %s\n", leanBool(idIsMsCounter))
	fmt.Fprintf(&b, "/-- the counter is a field of the writer object (false: package level). -/\ndef icCounterPerWriter : Bool := %s\n", leanBool(counterPerWriter))
	fmt.Fprintf(&b, "/-- independent event-id counters on one POST-SSE stream (0 = not recognised). -/\ndef icPostStreamWriters : Nat := %d\n", writers)
	fmt.Fprintf(&b, "/-- client: handleSSEResponse → processEventData → handleNotificationMessage → handler(...) without `go`. -/\ndef icDispatchSync : Bool := %s\n", leanBool(syncDispatch))
	fmt.Fprintf(&b, "/-- client: every successful return of the read loop is at EOF or under `len(handlers) == 0`. -/\ndef icDrainWithHandlers : Bool := %s\n", leanBool(drain))
	fmt.Fprintf(&b, "/-- server: the sender marshals the whole notification (`json.Marshal`, error ⇒ return) before it touches the stream; the event data is that byte slice. -/\ndef icMarshalBeforeWrite : Bool := %s\n", leanBool(icSenderMarshalsFirst(root)))
	b.WriteString("end Mcp.Gen\n")
	writeIfChanged("InCallFacts.lean", b.String())
}

func init() { generators = append(generators, genInCall) }
