package main

import (
	"fmt"
	"go/ast"
	"go/token"
	"path/filepath"
	"strings"
)

// SchemaTagFacts family (C18): which function parses the numbers of a `jsonschema` tag in
// internal/schema/converter.go parseJSONSchemaTags (`minimum`, `maximum`, a number-typed `default`), and whether
// parseFiniteFloat rejects NaN and ±Inf. strconv.ParseFloat accepts the spellings NaN / Inf / Infinity; a schema
// holding such a bound cannot be encoded as JSON. Everything that is not recognised is emitted as "unknown" / false,
// which the Lean side treats as "non-finite values get through".
func init() { generators = append(generators, genSchemaTags) }

func genSchemaTags(_ *pkgSrc) {
	sp := loadDir(filepath.Join(*repo, "internal", "schema"))
	parsers := map[string]string{"minimum": "unknown", "maximum": "unknown", "default:number": "unknown"}

	norm := func(n ast.Node) string { return strings.Join(strings.Fields(sp.text(n)), " ") }

	// the body of a case clause must be exactly `if v, err := F(value…); err == nil { … } [else { … }]`: F is the parser
	calleeOfClause := func(body []ast.Stmt) string {
		if len(body) != 1 {
			return "unknown"
		}
		is, ok := body[0].(*ast.IfStmt)
		if !ok || is.Init == nil || norm(is.Cond) != "err == nil" {
			return "unknown"
		}
		as, ok := is.Init.(*ast.AssignStmt)
		if !ok || as.Tok != token.DEFINE || len(as.Lhs) != 2 || len(as.Rhs) != 1 || norm(as.Lhs[1]) != "err" {
			return "unknown"
		}
		call, ok := as.Rhs[0].(*ast.CallExpr)
		if !ok || len(call.Args) == 0 || norm(call.Args[0]) != "value" {
			return "unknown"
		}
		// no other call on `value` anywhere in the clause (a second, unchecked parse would bypass the first)
		calls := 0
		ast.Inspect(is, func(n ast.Node) bool {
			if c, ok := n.(*ast.CallExpr); ok && len(c.Args) > 0 && norm(c.Args[0]) == "value" {
				calls++
			}
			return true
		})
		if calls != 1 {
			return "unknown"
		}
		return norm(call.Fun)
	}
	caseLabel := func(cc *ast.CaseClause) string {
		if len(cc.List) != 1 {
			return ""
		}
		if bl, ok := cc.List[0].(*ast.BasicLit); ok && bl.Kind == token.STRING {
			return strings.Trim(bl.Value, "\"")
		}
		return ""
	}

	if fd, _ := sp.funcDecl("parseJSONSchemaTags"); fd != nil && fd.Body != nil {
		seen := map[string]int{}
		ast.Inspect(fd.Body, func(n ast.Node) bool {
			sw, ok := n.(*ast.SwitchStmt)
			if !ok || sw.Tag == nil || norm(sw.Tag) != "key" {
				return true
			}
			for _, st := range sw.Body.List {
				cc, ok := st.(*ast.CaseClause)
				if !ok {
					continue
				}
				switch lbl := caseLabel(cc); lbl {
				case "minimum", "maximum":
					seen[lbl]++
					parsers[lbl] = calleeOfClause(cc.Body)
				case "default":
					// the inner `switch (*schema.Type)[0]`: its `case "number":` clause
					for _, s := range cc.Body {
						ast.Inspect(s, func(m ast.Node) bool {
							isw, ok := m.(*ast.SwitchStmt)
							if !ok {
								return true
							}
							for _, ist := range isw.Body.List {
								icc, ok := ist.(*ast.CaseClause)
								if ok && caseLabel(icc) == "number" {
									seen["default:number"]++
									parsers["default:number"] = calleeOfClause(icc.Body)
								}
							}
							return true
						})
					}
				}
			}
			return true
		})
		for k, n := range seen {
			if n != 1 { // the keyword handled in more than one place: not the shape this extractor understands
				parsers[k] = "unknown"
			}
		}
		// any other direct use of strconv.ParseFloat in the function outside these clauses is a parser the table does
		// not describe
		direct := 0
		ast.Inspect(fd.Body, func(n ast.Node) bool {
			if c, ok := n.(*ast.CallExpr); ok && norm(c.Fun) == "strconv.ParseFloat" {
				direct++
			}
			return true
		})
		listed := 0
		for _, v := range parsers {
			if v == "strconv.ParseFloat" {
				listed++
			}
		}
		if direct != listed {
			for k := range parsers {
				parsers[k] = "unknown"
			}
		}
	}

	// parseFiniteFloat: f, err := strconv.ParseFloat(value, 64); if err != nil { return 0, err };
	// if math.IsNaN(f) || math.IsInf(f, 0) { return <zero>, <non-nil error> }; return f, nil
	finite := false
	if fd, _ := sp.funcDecl("parseFiniteFloat"); fd != nil && fd.Body != nil && fd.Recv == nil &&
		fd.Type.Params != nil && len(fd.Type.Params.List) == 1 && len(fd.Type.Params.List[0].Names) == 1 &&
		fd.Type.Results != nil && norm(fd.Type.Results) == "(float64, error)" {
		param := fd.Type.Params.List[0].Names[0].Name
		b := fd.Body.List
		ok := len(b) == 4
		var fvar string
		if ok {
			as, isAs := b[0].(*ast.AssignStmt)
			ok = isAs && as.Tok == token.DEFINE && len(as.Lhs) == 2 && len(as.Rhs) == 1 && norm(as.Lhs[1]) == "err" &&
				norm(as.Rhs[0]) == "strconv.ParseFloat("+param+", 64)"
			if ok {
				fvar = norm(as.Lhs[0])
				ok = fvar != "_" && fvar != ""
			}
		}
		if ok {
			is, isIf := b[1].(*ast.IfStmt)
			ok = isIf && is.Init == nil && is.Else == nil && norm(is.Cond) == "err != nil" && len(is.Body.List) == 1
			if ok {
				rs, isRet := is.Body.List[0].(*ast.ReturnStmt)
				ok = isRet && len(rs.Results) == 2 && norm(rs.Results[1]) == "err"
			}
		}
		if ok {
			is, isIf := b[2].(*ast.IfStmt)
			ok = isIf && is.Init == nil && is.Else == nil && len(is.Body.List) == 1
			if ok {
				c := norm(is.Cond)
				ok = c == "math.IsNaN("+fvar+") || math.IsInf("+fvar+", 0)" || c == "math.IsInf("+fvar+", 0) || math.IsNaN("+fvar+")"
			}
			if ok {
				rs, isRet := is.Body.List[0].(*ast.ReturnStmt)
				ok = isRet && len(rs.Results) == 2
				if ok {
					e := norm(rs.Results[1])
					ok = e != "nil" && (strings.HasPrefix(e, "fmt.Errorf(") || strings.HasPrefix(e, "errors.New("))
				}
			}
		}
		if ok {
			rs, isRet := b[3].(*ast.ReturnStmt)
			ok = isRet && len(rs.Results) == 2 && norm(rs.Results[0]) == fvar && norm(rs.Results[1]) == "nil"
		}
		finite = ok
	}

	var sb strings.Builder
	sb.WriteString(header)
	sb.WriteString("namespace Mcp.Gen\n\n")
	sb.WriteString("/-- internal/schema/converter.go parseJSONSchemaTags: the function that parses the value of `minimum`, of `maximum` and of a\n    `default` on a number-typed field: (keyword, callee); `unknown` = not the shape `if v, err := F(value…); err == nil`. -/\n")
	sb.WriteString("def tagNumberParsers : List (List Nat × List Nat) := [\n")
	keys := []string{"minimum", "maximum", "default:number"}
	for i, k := range keys {
		sep := ","
		if i == len(keys)-1 {
			sep = ""
		}
		fmt.Fprintf(&sb, "  (%s, %s)%s  -- %s: %s\n", leanText(k), leanText(parsers[k]), sep, k, parsers[k])
	}
	sb.WriteString("]\n\n")
	sb.WriteString("/-- parseFiniteFloat is `strconv.ParseFloat` followed by `if math.IsNaN(f) || math.IsInf(f, 0) { return …, <error> }`. -/\n")
	fmt.Fprintf(&sb, "def tagFiniteCheck : Bool := %s\n\nend Mcp.Gen\n", leanBool(finite))
	writeIfChanged("SchemaTagFacts.lean", sb.String())
}
