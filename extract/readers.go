package main

import (
	"fmt"
	"go/ast"
	"go/token"
	"strconv"
	"strings"
)

// Readers family (C07): three structural facts about the client-side readers of server output.
//
//	getLimit      handleGetSSEEvents: the line limit of the GET-stream reader. bufio.Scanner without Buffer() = 65536,
//	              with Buffer(buf, max) = max(max, cap(buf)) when both are evaluable; a ReadString/ReadBytes loop = none;
//	              anything else = some 0 (unknown: every line is "too long" for the model, the diff will object).
//	latchGuarded  handleEndpointEvent: every close(…endpointChan) sits inside a sync.Once.Do literal, the default clause of a
//	              select that also receives from the channel, or an `if` whose condition is a CompareAndSwap/Swap or reads
//	              a field that the function assigns (a one-shot flag owned by the single reader goroutine).
//	stdioOnError  readLoop: what happens after a non-EOF read/decode error — `continue` on the same json.Decoder (spin: the
//	              decoder's error is sticky), leaving the loop (stop), or a line reader that drops the line (resync).
//	              Unknown shapes are reported as spin.
func rdGenReaders(root *pkgSrc) {
	limit := rdGetLimit(root)
	guarded := rdLatchGuarded(root)
	onErr := rdStdioOnError(root)
	var b strings.Builder
	b.WriteString(header)
	b.WriteString("import Mcp.Model.Readers\nnamespace Mcp.Gen\n")
	b.WriteString("/-- client readers: GET-stream line limit (`bufio.Scanner`), endpoint latch guarded, stdio loop after a decode error. -/\n")
	fmt.Fprintf(&b, "def rdFacts : Mcp.Readers.Facts := ⟨%s, %s, .%s⟩\n", limit, leanBool(guarded), onErr)
	b.WriteString("/-- streamable client: only ids that are valid HTTP header field values are stored in `lastEventID` / sent as `Last-Event-ID`. -/\n")
	fmt.Fprintf(&b, "def rdIdChecked : Bool := %s\n", leanBool(rdIdChecked(root)))
	b.WriteString("end Mcp.Gen\n")
	writeIfChanged("ReaderFacts.lean", b.String())
}

func init() { generators = append(generators, rdGenReaders) }

// rdEvalInt evaluates integer constant expressions of the shapes used for buffer sizes.
func rdEvalInt(root *pkgSrc, e ast.Expr, depth int) (int64, bool) {
	if depth > 8 {
		return 0, false
	}
	switch x := e.(type) {
	case *ast.BasicLit:
		if x.Kind == token.INT {
			v, err := strconv.ParseInt(strings.ReplaceAll(x.Value, "_", ""), 0, 64)
			return v, err == nil
		}
	case *ast.ParenExpr:
		return rdEvalInt(root, x.X, depth+1)
	case *ast.BinaryExpr:
		a, ok1 := rdEvalInt(root, x.X, depth+1)
		c, ok2 := rdEvalInt(root, x.Y, depth+1)
		if !ok1 || !ok2 {
			return 0, false
		}
		switch x.Op {
		case token.MUL:
			return a * c, true
		case token.ADD:
			return a + c, true
		case token.SUB:
			return a - c, true
		case token.SHL:
			if c >= 0 && c < 40 {
				return a << uint(c), true
			}
		}
	case *ast.SelectorExpr:
		if root.text(x) == "bufio.MaxScanTokenSize" {
			return 65536, true
		}
	case *ast.Ident:
		for _, fn := range root.sortedFiles() {
			for _, d := range root.files[fn].Decls {
				gd, ok := d.(*ast.GenDecl)
				if !ok || gd.Tok != token.CONST {
					continue
				}
				for _, s := range gd.Specs {
					vs := s.(*ast.ValueSpec)
					for i, n := range vs.Names {
						if n.Name == x.Name && i < len(vs.Values) {
							return rdEvalInt(root, vs.Values[i], depth+1)
						}
					}
				}
			}
		}
	case *ast.CallExpr: // int(…), int64(…)
		if id, ok := x.Fun.(*ast.Ident); ok && (id.Name == "int" || id.Name == "int64") && len(x.Args) == 1 {
			return rdEvalInt(root, x.Args[0], depth+1)
		}
	}
	return 0, false
}

func rdGetLimit(root *pkgSrc) string {
	fd, _ := root.funcDecl("streamableHTTPClientTransport.handleGetSSEEvents")
	if fd == nil || fd.Body == nil {
		return "(some 0)"
	}
	scanner, lineReader, otherRead := false, false, false
	limit := int64(65536)
	bufferKnown := true
	ast.Inspect(fd.Body, func(n ast.Node) bool {
		call, ok := n.(*ast.CallExpr)
		if !ok {
			return true
		}
		t := root.text(call.Fun)
		switch {
		case t == "bufio.NewScanner":
			scanner = true
		case strings.HasSuffix(t, ".Buffer") && len(call.Args) == 2:
			mx, ok := rdEvalInt(root, call.Args[1], 0)
			if !ok {
				bufferKnown = false
				return true
			}
			// cap of the initial buffer: make([]byte, n) / make([]byte, 0, n)
			if mk, ok := call.Args[0].(*ast.CallExpr); ok && root.text(mk.Fun) == "make" && len(mk.Args) >= 2 {
				if c, ok := rdEvalInt(root, mk.Args[len(mk.Args)-1], 0); ok && c > mx {
					mx = c
				}
			} else if root.text(call.Args[0]) != "nil" {
				bufferKnown = false
			}
			limit = mx
		case strings.HasSuffix(t, ".ReadString"), strings.HasSuffix(t, ".ReadBytes"):
			lineReader = true
		case strings.HasSuffix(t, ".ReadLine"), strings.HasSuffix(t, ".ReadSlice"), strings.HasSuffix(t, ".Read"):
			otherRead = true
		}
		return true
	})
	switch {
	case scanner && !lineReader && !otherRead && bufferKnown && limit > 0:
		return fmt.Sprintf("(some %d)", limit)
	case lineReader && !scanner && !otherRead:
		return "none"
	}
	return "(some 0)"
}

// rdParents runs f on every node below root with the stack of its ancestors (outermost first).
func rdParents(n ast.Node, f func(n ast.Node, stack []ast.Node)) {
	var stack []ast.Node
	ast.Inspect(n, func(m ast.Node) bool {
		if m == nil {
			stack = stack[:len(stack)-1]
			return true
		}
		f(m, stack)
		stack = append(stack, m)
		return true
	})
}

func rdLatchGuarded(root *pkgSrc) bool {
	closes, guarded := 0, 0
	for _, fn := range root.sortedFiles() {
		for _, d := range root.files[fn].Decls {
			fd, ok := d.(*ast.FuncDecl)
			if !ok || fd.Body == nil {
				continue
			}
			// fields the function assigns
			assigned := map[string]bool{}
			ast.Inspect(fd.Body, func(n ast.Node) bool {
				if as, ok := n.(*ast.AssignStmt); ok {
					for _, l := range as.Lhs {
						assigned[root.text(l)] = true
					}
				}
				return true
			})
			rdParents(fd.Body, func(n ast.Node, stack []ast.Node) {
				call, ok := n.(*ast.CallExpr)
				if !ok {
					return
				}
				id, ok := call.Fun.(*ast.Ident)
				if !ok || id.Name != "close" || len(call.Args) != 1 || !strings.Contains(root.text(call.Args[0]), "endpointChan") {
					return
				}
				closes++
				ch := root.text(call.Args[0])
				ok = false
				for i, a := range stack {
					switch x := a.(type) {
					case *ast.FuncLit: // once.Do(func() { close(ch) })
						if i > 0 {
							if c, isCall := stack[i-1].(*ast.CallExpr); isCall {
								if sel, isSel := c.Fun.(*ast.SelectorExpr); isSel && sel.Sel.Name == "Do" {
									ok = true
								}
							}
						}
					case *ast.CommClause: // select { case <-ch: default: close(ch) }
						if x.Comm == nil && i > 1 {
							if sel, isSel := stack[i-2].(*ast.SelectStmt); isSel {
								for _, cl := range sel.Body.List {
									cc := cl.(*ast.CommClause)
									if cc.Comm != nil && strings.Contains(root.text(cc.Comm), "<-"+ch) {
										ok = true
									}
								}
							}
						}
					case *ast.IfStmt:
						inBody := i+1 < len(stack) && stack[i+1] == ast.Node(x.Body)
						if !inBody {
							continue
						}
						cond := root.text(x.Cond)
						if strings.Contains(cond, "CompareAndSwap(") || strings.Contains(cond, ".Swap(") {
							ok = true
						}
						ast.Inspect(x.Cond, func(m ast.Node) bool {
							if se, isSel := m.(*ast.SelectorExpr); isSel && assigned[root.text(se)] {
								ok = true
							}
							return true
						})
					}
				}
				if ok {
					guarded++
				}
			})
		}
	}
	return closes > 0 && closes == guarded
}

// rdIdChecked: streamable_client.go — the `id:` value of an SSE event only reaches the Last-Event-ID header when it is a valid
// header field value.  Recognised shapes (anything else = false):
//
//	(a) every assignment `t.lastEventID = X` of the transport's methods either assigns the result of a call to a function whose
//	    name says so (…valid… / …sanitiz… / …safe…, case-insensitive: `t.lastEventID = sanitizeEventID(x)`), or sits in the body
//	    of an `if` whose condition calls such a function; assigning a literal "" is always fine;
//	(b) or every `Header.Set(httputil.LastEventIDHeader | "Last-Event-ID", t.lastEventID)` sits in the body of an `if` / in the
//	    clause of an `else if` whose condition calls such a function.
func rdIdChecked(root *pkgSrc) bool {
	says := func(name string) bool {
		n := strings.ToLower(name)
		return strings.Contains(n, "valid") || strings.Contains(n, "sanitiz") || strings.Contains(n, "safe")
	}
	callSays := func(e ast.Node) bool {
		found := false
		ast.Inspect(e, func(m ast.Node) bool {
			if c, ok := m.(*ast.CallExpr); ok {
				t := root.text(c.Fun)
				if i := strings.LastIndex(t, "."); i >= 0 {
					t = t[i+1:]
				}
				if says(t) {
					found = true
				}
			}
			return true
		})
		return found
	}
	guardedByIf := func(stack []ast.Node) bool {
		for i, a := range stack {
			if x, ok := a.(*ast.IfStmt); ok && i+1 < len(stack) && stack[i+1] == ast.Node(x.Body) && callSays(x.Cond) {
				return true
			}
		}
		return false
	}
	assigns, okAssigns, sets, okSets := 0, 0, 0, 0
	for _, fn := range root.sortedFiles() {
		for _, d := range root.files[fn].Decls {
			fd, ok := d.(*ast.FuncDecl)
			if !ok || fd.Body == nil || !strings.HasPrefix(funcName(fd), "streamableHTTPClientTransport.") {
				continue
			}
			rdParents(fd.Body, func(n ast.Node, stack []ast.Node) {
				switch x := n.(type) {
				case *ast.AssignStmt:
					for i, l := range x.Lhs {
						if !strings.HasSuffix(root.text(l), ".lastEventID") || strings.HasPrefix(root.text(l), "options.") || i >= len(x.Rhs) {
							continue
						}
						assigns++
						if root.text(x.Rhs[i]) == `""` || callSays(x.Rhs[i]) || guardedByIf(stack) {
							okAssigns++
						}
					}
				case *ast.CallExpr:
					if strings.HasSuffix(root.text(x.Fun), "Header.Set") && len(x.Args) == 2 &&
						(strings.Contains(root.text(x.Args[0]), "LastEventIDHeader") || strings.Contains(root.text(x.Args[0]), "Last-Event-ID")) &&
						strings.HasSuffix(root.text(x.Args[1]), "t.lastEventID") {
						sets++
						if guardedByIf(stack) {
							okSets++
						}
					}
				}
			})
		}
	}
	return (assigns > 0 && assigns == okAssigns) || (sets > 0 && sets == okSets)
}

func rdLastBranch(root *pkgSrc, body *ast.BlockStmt) string {
	if body == nil || len(body.List) == 0 {
		return "fallthrough"
	}
	switch x := body.List[len(body.List)-1].(type) {
	case *ast.BranchStmt:
		if x.Tok == token.CONTINUE {
			return "continue"
		}
		return "leave"
	case *ast.ReturnStmt:
		return "leave"
	}
	return "fallthrough"
}

func rdStdioOnError(root *pkgSrc) string {
	fd, _ := root.funcDecl("stdioClientTransport.readLoop")
	if fd == nil || fd.Body == nil {
		return "spin"
	}
	usesDecode, usesLines, usesUnmarshal := false, false, false
	var decodeErrBody, unmarshalErrBody *ast.BlockStmt
	ast.Inspect(fd.Body, func(n ast.Node) bool {
		switch x := n.(type) {
		case *ast.CallExpr:
			t := root.text(x.Fun)
			switch {
			case strings.HasSuffix(t, ".Decode"):
				usesDecode = true
			case strings.HasSuffix(t, ".ReadBytes"), strings.HasSuffix(t, ".ReadString"):
				usesLines = true
			case t == "json.Unmarshal":
				usesUnmarshal = true
			}
		case *ast.IfStmt:
			if x.Init != nil && strings.Contains(root.text(x.Cond), "err != nil") {
				it := root.text(x.Init)
				if strings.Contains(it, ".Decode(") && decodeErrBody == nil {
					decodeErrBody = x.Body
				}
				if strings.Contains(it, "json.Unmarshal(") && unmarshalErrBody == nil {
					unmarshalErrBody = x.Body
				}
			}
		}
		return true
	})
	switch {
	case usesDecode && decodeErrBody != nil:
		if rdLastBranch(root, decodeErrBody) == "leave" {
			return "stop"
		}
		return "spin" // continue / fall through to the next turn with the same decoder
	case !usesDecode && usesLines && usesUnmarshal && unmarshalErrBody != nil:
		switch rdLastBranch(root, unmarshalErrBody) {
		case "continue":
			return "resync"
		case "leave":
			return "stop"
		}
	}
	return "spin"
}
