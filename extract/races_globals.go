package main

// T-gen family "Globals" (property C20): every package-level variable of the library (root package `mcp` and every
// package below internal/; test files and verif hooks excluded) with
//   - what its value is (`vkind`): immutable (basic / flat struct / func value / error made by errors.New or
//     fmt.Errorf), sync (sync.* / atomic.* / channel), safe (an object documented or assumed to be safe for
//     concurrent use: Logger, *regexp.Regexp, a struct that carries its own locks — its fields are in the field
//     table), container (slice / map / array / pointer / struct with such parts: mutable interior), opaque (an object
//     of a type this extractor cannot see into — `rand.New(…)`, `bytes.NewBuffer(…)`, any interface value: its
//     methods may mutate it), unknown (declaration not understood);
//   - every syntactic access, in the declaring package and in every other package of the library (`pkg.Var`), as
//       w  the variable, an element or a field of it is assigned / incremented / deleted from / appended to / copied
//          into / its address is taken,
//       u  a method is called through it, or its value — a reference — is handed on (argument, return value, stored)
//          so that code elsewhere can reach what it refers to,
//       r  a read that cannot change anything (value copy of a flat type, range, len, index read, comparison, call
//          of a func value),
//     together with the package-level mutexes lexically held (same lock walker as the field table), whether the
//     access is atomic (`atomic.F(&v, …)`), and whether it belongs to package initialisation (variable initialisers,
//     `func init`) or to a configuration setter that is assumed to run before the library is used (glConfigAPI).
//
// The Lean predicate (Mcp.Globals.gDisciplined) treats `u` as a write for container / opaque / unknown values and
// asks for one of the disciplines of the field table: never written after initialisation, all accesses atomic, one
// common package-level mutex.  What is not understood is emitted as opaque / unknown / `u`: non-compliant.
//
// Output: lean/Mcp/Gen/Globals.lean (plain data, identifiers prefixed `rcG`) and Globals.sites.json next to it (the
// same records with file:line, for the harness that maps race-detector reports back to variables).

import (
	"encoding/json"
	"fmt"
	"go/ast"
	"go/token"
	"go/types"
	"io/fs"
	"os"
	"path/filepath"
	"regexp"
	"sort"
	"strings"
)

func init() { generators = append(generators, glGenGlobals) }

// Exported configuration setters that are meant to be called before the library is used from several goroutines
// (process-wide configuration; assumption listed in checklib/props.d/C20.json and pinned by the Lean theorem
// C20_globals_config_assumed).
var glConfigAPI = map[string]bool{
	"SetDefaultLogger": true,
}

// Library interfaces whose implementations are assumed safe for concurrent use (props.d/C20.json: user-supplied
// objects … Logger …).
var glSafeLocalTypes = map[string]bool{"Logger": true}

var (
	glSyncTypeRe  = regexp.MustCompile(`^\*?(sync\.(Mutex|RWMutex|Map|Once|Pool|WaitGroup|Cond)|atomic\.(Int32|Int64|Uint32|Uint64|Uintptr|Bool|Value|Pointer\[.*\]))$`)
	glFlatForeign = map[string]bool{"time.Duration": true, "time.Month": true, "time.Weekday": true, "os.FileMode": true, "fs.FileMode": true, "reflect.Kind": true}
	glSafeForeign = map[string]bool{"*regexp.Regexp": true, "*strings.Replacer": true, "*zap.Logger": true, "*zap.SugaredLogger": true}
	glSafeCtors   = map[string]string{"regexp.MustCompile": "*regexp.Regexp", "regexp.MustCompilePOSIX": "*regexp.Regexp", "strings.NewReplacer": "*strings.Replacer"}
	glErrorCtors  = map[string]bool{"errors.New": true, "fmt.Errorf": true}
)

type glSite struct {
	Fn     string   `json:"fn"`
	Kind   string   `json:"kind"` // r | w | u
	Sync   string   `json:"sync"` // plain | atomic
	Held   []rcHeld `json:"held"`
	Init   bool     `json:"init"`   // package initialisation or configuration setter
	Config bool     `json:"config"` // … the latter
	File   string   `json:"file"`
	Line   int      `json:"line"`
	pos    token.Pos
}

type glVar struct {
	Pkg   string
	Name  string
	Type  string
	VKind string
	Why   string
	flat  bool
	home  *glPkg
	obj   types.Object
	sites []glSite
}

type glPkg struct {
	*rcPkg
	name    string // "mcp", "retry", …
	path    string // import path
	vars    map[types.Object]*glVar
	byName  map[string]*glVar
	parents map[ast.Node]ast.Node
	specs   map[types.Object]*ast.TypeSpec
}

// flatTypeExpr: the type denoted by a type expression has no interior to mutate — decided on the syntax, because the
// extractor's importer gives no types for other packages (`time.Duration` fields would look invalid).
func (p *glPkg) flatTypeExpr(e ast.Expr, depth int) bool {
	if depth > 8 {
		return false
	}
	switch x := e.(type) {
	case *ast.ParenExpr:
		return p.flatTypeExpr(x.X, depth+1)
	case *ast.Ident:
		tn, ok := p.info.Uses[x].(*types.TypeName)
		if !ok {
			return false
		}
		if tn.Pkg() == nil {
			b, isBasic := tn.Type().(*types.Basic)
			return isBasic && b.Kind() != types.Invalid && b.Kind() != types.UnsafePointer
		}
		if ts := p.specs[tn]; ts != nil {
			return p.flatTypeExpr(ts.Type, depth+1)
		}
	case *ast.SelectorExpr:
		return glFlatForeign[p.src.text(x)]
	case *ast.StructType:
		for _, f := range x.Fields.List {
			if !p.flatTypeExpr(f.Type, depth+1) {
				return false
			}
		}
		return true
	case *ast.ArrayType:
		return x.Len != nil && p.flatTypeExpr(x.Elt, depth+1)
	case *ast.FuncType:
		return true
	}
	return false
}

func glModulePath() string {
	b, err := os.ReadFile(filepath.Join(*repo, "go.mod"))
	if err != nil {
		return ""
	}
	for _, l := range strings.Split(string(b), "\n") {
		if f := strings.Fields(l); len(f) == 2 && f[0] == "module" {
			return f[1]
		}
	}
	return ""
}

func glFlat(t types.Type, depth int) bool {
	if t == nil || depth > 8 {
		return false
	}
	switch x := t.(type) {
	case *types.Basic:
		return x.Kind() != types.Invalid && x.Kind() != types.UnsafePointer
	case *types.Named:
		if x.Obj() != nil && x.Obj().Pkg() == nil && x.Obj().Name() == "error" {
			return false
		}
		return glFlat(x.Underlying(), depth+1)
	case *types.Alias:
		return glFlat(types.Unalias(x), depth+1)
	case *types.Struct:
		for i := 0; i < x.NumFields(); i++ {
			if !glFlat(x.Field(i).Type(), depth+1) {
				return false
			}
		}
		return true
	case *types.Array:
		return glFlat(x.Elem(), depth+1)
	case *types.Signature:
		return true
	}
	return false
}

func glValid(t types.Type) bool {
	if t == nil {
		return false
	}
	if b, ok := t.(*types.Basic); ok && b.Kind() == types.Invalid {
		return false
	}
	return !strings.Contains(types.TypeString(t, nil), "invalid type")
}

// glCallName: "errors.New" for a call `errors.New(…)` whose qualifier is an imported package (by import path's last
// element, so a renamed import does not hide it).
func (p *glPkg) glCallName(e ast.Expr) string {
	call, ok := e.(*ast.CallExpr)
	if !ok {
		return ""
	}
	sel, ok := call.Fun.(*ast.SelectorExpr)
	if !ok {
		return ""
	}
	id, ok := sel.X.(*ast.Ident)
	if !ok {
		return ""
	}
	pn, ok := p.info.Uses[id].(*types.PkgName)
	if !ok {
		return ""
	}
	path := pn.Imported().Path()
	return path[strings.LastIndex(path, "/")+1:] + "." + sel.Sel.Name
}

func glHead(src *pkgSrc, e ast.Expr) string {
	switch x := e.(type) {
	case *ast.CallExpr:
		return src.text(x.Fun) + "(…)"
	case *ast.UnaryExpr:
		if x.Op == token.AND {
			return "&" + glHead(src, x.X)
		}
	case *ast.CompositeLit:
		if x.Type != nil {
			return src.text(x.Type) + "{…}"
		}
	}
	s := src.text(e)
	if len(s) > 40 {
		s = s[:40] + "…"
	}
	return s
}

// classify decides what the variable holds.
func (p *glPkg) classify(v *glVar, vs *ast.ValueSpec, idx int) {
	if len(vs.Values) != 0 && len(vs.Values) != len(vs.Names) {
		v.VKind, v.Why, v.Type = "unknown", "multi-value initialiser", "?"
		return
	}
	var init ast.Expr
	if len(vs.Values) > 0 {
		init = vs.Values[idx]
	}
	declared := ""
	if vs.Type != nil {
		declared = p.src.text(vs.Type)
	}
	t := v.obj.Type()
	switch {
	case declared != "":
		v.Type = declared
	case glValid(t):
		v.Type = types.TypeString(t, func(*types.Package) string { return "" })
	case init != nil:
		v.Type = "<" + glHead(p.src, init) + ">"
	default:
		v.Type = "?"
	}
	// sync primitives and channels, by declared type or by the literal's type
	synText := declared
	if synText == "" && init != nil {
		e := init
		if u, ok := e.(*ast.UnaryExpr); ok && u.Op == token.AND {
			e = u.X
		}
		if cl, ok := e.(*ast.CompositeLit); ok && cl.Type != nil {
			synText = p.src.text(cl.Type)
		}
	}
	if glSyncTypeRe.MatchString(synText) {
		v.VKind, v.Why = "sync", "sync primitive"
		return
	}
	if glValid(t) {
		if _, isChan := t.Underlying().(*types.Chan); isChan {
			v.VKind, v.Why = "sync", "channel"
			return
		}
	}
	// error values that nobody can modify
	if init != nil && glErrorCtors[p.glCallName(init)] && (declared == "" || declared == "error") {
		v.VKind, v.Why, v.Type, v.flat = "immutable", "error value made by "+p.glCallName(init), "error", true
		return
	}
	if init != nil {
		if ty, ok := glSafeCtors[p.glCallName(init)]; ok && declared == "" {
			v.VKind, v.Why, v.Type = "safe", "documented safe for concurrent use", ty
			return
		}
	}
	synFlat := false
	switch {
	case vs.Type != nil:
		synFlat = p.flatTypeExpr(vs.Type, 0)
	case init != nil:
		switch x := init.(type) {
		case *ast.FuncLit, *ast.BasicLit:
			synFlat = true
		case *ast.CompositeLit:
			synFlat = x.Type != nil && p.flatTypeExpr(x.Type, 0)
		}
	}
	if synFlat || (glValid(t) && glFlat(t, 0)) {
		v.VKind, v.Why, v.flat = "immutable", "no interior to mutate (basic / flat struct / func value)", true
		return
	}
	if glValid(t) {
		base := t
		if ptr, ok := base.(*types.Pointer); ok {
			base = ptr.Elem()
		}
		if n, ok := base.(*types.Named); ok && n.Obj() != nil && n.Obj().Pkg() != nil {
			if _, isIface := n.Underlying().(*types.Interface); isIface && glSafeLocalTypes[n.Obj().Name()] {
				v.VKind, v.Why = "safe", "interface whose implementations are assumed safe for concurrent use"
				return
			}
			if _, isStruct := n.Underlying().(*types.Struct); isStruct && p.tracked[p.prefix+n.Obj().Name()] && !rcExtraTracked[p.prefix+n.Obj().Name()] {
				v.VKind, v.Why = "safe", "struct that carries its own locks (its fields are in the field table)"
				return
			}
		}
		switch t.Underlying().(type) {
		case *types.Slice, *types.Map, *types.Array, *types.Pointer, *types.Struct:
			v.VKind, v.Why = "container", "mutable interior"
			return
		}
		v.VKind, v.Why = "opaque", "interface / object whose methods may mutate it"
		return
	}
	switch {
	case glFlatForeign[declared]:
		v.VKind, v.Why, v.flat = "immutable", "basic type of another package", true
	case glSafeForeign[declared]:
		v.VKind, v.Why = "safe", "documented safe for concurrent use"
	case strings.HasPrefix(declared, "[]") || strings.HasPrefix(declared, "map[") || strings.HasPrefix(declared, "["):
		v.VKind, v.Why = "container", "mutable interior"
	default:
		v.VKind, v.Why = "opaque", "type not visible to the extractor: its methods may mutate the object"
	}
}

func glLoadAll(root *pkgSrc) []*glPkg {
	mod := glModulePath()
	mk := func(src *pkgSrc, prefix, rel, name string) *glPkg {
		g := &glPkg{rcPkg: rcLoad(src, prefix, rel), name: name, path: mod, vars: map[types.Object]*glVar{}, byName: map[string]*glVar{},
			parents: map[ast.Node]ast.Node{}, specs: map[types.Object]*ast.TypeSpec{}}
		if rel != "" {
			g.path = mod + "/" + filepath.ToSlash(rel)
		}
		return g
	}
	pkgs := []*glPkg{mk(root, "", "", "mcp")}
	var dirs []string
	filepath.WalkDir(filepath.Join(*repo, "internal"), func(path string, d fs.DirEntry, err error) error {
		if err == nil && d.IsDir() {
			dirs = append(dirs, path)
		}
		return nil
	})
	sort.Strings(dirs)
	for _, d := range dirs {
		src := loadDir(d)
		if len(src.files) == 0 {
			continue
		}
		rel, _ := filepath.Rel(*repo, d)
		name := filepath.ToSlash(strings.TrimPrefix(filepath.ToSlash(rel), "internal/"))
		pkgs = append(pkgs, mk(src, name+".", rel, name))
	}
	return pkgs
}

func (p *glPkg) declare() {
	for _, fname := range p.src.sortedFiles() {
		f := p.src.files[fname]
		var stack []ast.Node
		ast.Inspect(f, func(n ast.Node) bool {
			if n == nil {
				stack = stack[:len(stack)-1]
				return true
			}
			if len(stack) > 0 {
				p.parents[n] = stack[len(stack)-1]
			}
			stack = append(stack, n)
			return true
		})
		for _, d := range f.Decls {
			if gd, ok := d.(*ast.GenDecl); ok && gd.Tok == token.TYPE {
				for _, sp := range gd.Specs {
					if ts := sp.(*ast.TypeSpec); p.info.Defs[ts.Name] != nil {
						p.specs[p.info.Defs[ts.Name]] = ts
					}
				}
			}
		}
	}
	for _, fname := range p.src.sortedFiles() {
		f := p.src.files[fname]
		for _, d := range f.Decls {
			gd, ok := d.(*ast.GenDecl)
			if !ok || gd.Tok != token.VAR {
				continue
			}
			for _, sp := range gd.Specs {
				vs := sp.(*ast.ValueSpec)
				for i, n := range vs.Names {
					if n.Name == "_" {
						continue
					}
					o := p.info.Defs[n]
					if o == nil {
						continue
					}
					v := &glVar{Pkg: p.name, Name: n.Name, home: p, obj: o}
					p.classify(v, vs, i)
					// the declaration itself (with or without an initialiser) is the first write, before anything runs
					v.sites = append(v.sites, glSite{Fn: p.prefix + "var " + n.Name, Kind: "w", Sync: "plain", Init: true,
						File: filepath.ToSlash(filepath.Join(p.rel, fname)), Line: p.src.fset.Position(n.Pos()).Line, pos: n.Pos()})
					p.vars[o] = v
					p.byName[n.Name] = v
				}
			}
		}
	}
}

// occurrence: an identifier (own package) or `pkg.Name` (another package of the library) that denotes a global.
func (p *glPkg) occurrence(n ast.Node, byPath map[string]*glPkg) (*glVar, ast.Expr, *ast.Ident) {
	switch x := n.(type) {
	case *ast.Ident:
		if o := p.info.Uses[x]; o != nil {
			if v := p.vars[o]; v != nil {
				// not the Sel of a selector (a field or method that happens to resolve is never a package-level var)
				return v, x, x
			}
		}
	case *ast.SelectorExpr:
		if id, ok := x.X.(*ast.Ident); ok {
			if pn, ok := p.info.Uses[id].(*types.PkgName); ok {
				if q := byPath[pn.Imported().Path()]; q != nil {
					if v := q.byName[x.Sel.Name]; v != nil {
						return v, x, id
					}
				}
			}
		}
	}
	return nil, nil, nil
}

func (p *glPkg) isAtomicPkg(e ast.Expr) bool {
	id, ok := e.(*ast.Ident)
	if !ok {
		return false
	}
	pn, ok := p.info.Uses[id].(*types.PkgName)
	return ok && pn.Imported().Path() == "sync/atomic"
}

func (p *glPkg) builtin(call *ast.CallExpr) string {
	if id, ok := call.Fun.(*ast.Ident); ok {
		if _, isB := p.info.Uses[id].(*types.Builtin); isB || p.info.Uses[id] == nil {
			return id.Name
		}
	}
	return ""
}

// access classifies one occurrence: kind r | w | u and sync plain | atomic.
func (p *glPkg) access(v *glVar, occ ast.Expr) (kind, sync string) {
	cur := ast.Node(occ)
	depth := 0
	for {
		par := p.parents[cur]
		switch x := par.(type) {
		case *ast.ParenExpr:
			cur = x
			continue
		case *ast.SelectorExpr:
			if x.X == cur {
				cur, depth = x, depth+1
				continue
			}
		case *ast.IndexExpr:
			if x.X == cur {
				cur, depth = x, depth+1
				continue
			}
		case *ast.SliceExpr:
			if x.X == cur {
				cur, depth = x, depth+1
				continue
			}
		case *ast.StarExpr:
			cur, depth = x, depth+1
			continue
		}
		break
	}
	path := cur.(ast.Expr)
	flat := func() bool {
		if depth == 0 || v.flat {
			return v.flat
		}
		if v.home != p { // through another package's variable: the fake importer gives no types
			return false
		}
		if tv, ok := p.info.Types[path]; ok && glValid(tv.Type) {
			return glFlat(tv.Type, 0)
		}
		return false
	}
	byValue := func() (string, string) {
		if flat() {
			return "r", "plain"
		}
		return "u", "plain"
	}
	switch x := p.parents[path].(type) {
	case *ast.AssignStmt:
		for _, l := range x.Lhs {
			if l == path {
				if x.Tok == token.DEFINE {
					return "r", "plain"
				}
				return "w", "plain"
			}
		}
		return byValue()
	case *ast.IncDecStmt:
		return "w", "plain"
	case *ast.RangeStmt:
		if x.X == path {
			return "r", "plain"
		}
		if x.Key == path || x.Value == path {
			return "w", "plain"
		}
		return byValue()
	case *ast.UnaryExpr:
		if x.Op == token.AND {
			if call, ok := p.parents[x].(*ast.CallExpr); ok && len(call.Args) > 0 && call.Args[0] == ast.Expr(x) {
				if sel, ok := call.Fun.(*ast.SelectorExpr); ok && p.isAtomicPkg(sel.X) {
					if strings.HasPrefix(sel.Sel.Name, "Load") {
						return "r", "atomic"
					}
					return "w", "atomic"
				}
			}
			if v.VKind == "sync" && depth == 0 {
				return "u", "plain"
			}
			return "w", "plain"
		}
		if x.Op == token.ARROW { // receive from a channel
			return "u", "plain"
		}
		return "r", "plain"
	case *ast.CallExpr:
		if x.Fun == path {
			if depth == 0 {
				return "r", "plain" // calling a func value
			}
			// a method (or func-typed field) called through the variable
			if sel, ok := path.(*ast.SelectorExpr); ok && v.home == p {
				if s := p.info.Selections[sel]; s != nil && s.Kind() == types.MethodVal {
					if sig, ok := s.Obj().Type().(*types.Signature); ok && sig.Recv() != nil {
						if _, ptr := sig.Recv().Type().(*types.Pointer); !ptr && glFlat(sig.Recv().Type(), 0) {
							return "r", "plain"
						}
					}
				}
			}
			return "u", "plain"
		}
		argIdx := -1
		for i, a := range x.Args {
			if a == path {
				argIdx = i
			}
		}
		switch p.builtin(x) {
		case "len", "cap":
			return "r", "plain"
		case "delete", "clear":
			if argIdx == 0 {
				return "w", "plain"
			}
			return byValue()
		case "copy":
			if argIdx == 0 {
				return "w", "plain"
			}
			return "r", "plain"
		case "append":
			if argIdx == 0 {
				return "w", "plain"
			}
			if x.Ellipsis.IsValid() && argIdx == len(x.Args)-1 {
				return "r", "plain"
			}
			return byValue()
		case "close":
			return "u", "plain"
		}
		return byValue()
	case *ast.BinaryExpr:
		switch x.Op {
		case token.EQL, token.NEQ, token.LSS, token.GTR, token.LEQ, token.GEQ:
			return "r", "plain"
		}
		return byValue()
	case *ast.SendStmt:
		if x.Chan == path {
			return "u", "plain"
		}
		return byValue()
	case *ast.IfStmt, *ast.SwitchStmt, *ast.CaseClause, *ast.ForStmt:
		return "r", "plain"
	case *ast.IndexExpr: // used as an index / key
		return byValue()
	}
	return byValue()
}

// collect walks every function body and variable initialiser of the package.
func (p *glPkg) collect(byPath map[string]*glPkg) {
	scan := func(root ast.Node, fn string, file string, initPhase bool, config bool, states map[token.Pos][]rcHeld, noLocks bool) {
		ast.Inspect(root, func(n ast.Node) bool {
			if n == nil {
				return true
			}
			v, occ, key := p.occurrence(n, byPath)
			if v == nil {
				return true
			}
			if id, ok := n.(*ast.Ident); ok {
				// the Sel of `pkg.Name` / of a field selector is not an occurrence of its own
				if sel, ok := p.parents[id].(*ast.SelectorExpr); ok && sel.Sel == id {
					return true
				}
			}
			kind, sync := p.access(v, occ)
			// a function literal inside an initialiser / init() / a setter runs whenever it is called
			inLit := false
			for c := p.parents[n]; c != nil && c != root; c = p.parents[c] {
				if _, ok := c.(*ast.FuncLit); ok {
					inLit = true
					break
				}
			}
			s := glSite{Fn: fn, Kind: kind, Sync: sync, Init: (initPhase || config) && !inLit, Config: config && !inLit, File: file,
				Line: p.src.fset.Position(occ.Pos()).Line, pos: occ.Pos()}
			if inLit && (initPhase || config) {
				s.Fn = fn + "(func)"
			}
			if !noLocks {
				s.Held = states[key.Pos()]
			}
			v.sites = append(v.sites, s)
			_, isSel := n.(*ast.SelectorExpr)
			return !isSel
		})
	}
	walk := func(fn, file string, unit ast.Node, run func(w *rcWalker)) (map[token.Pos][]rcHeld, bool) {
		states := map[token.Pos][]rcHeld{}
		w := &rcWalker{p: p.rcPkg, fn: fn, file: file, unit: []ast.Node{unit}, globalLocks: true, globalKeys: map[string]bool{}}
		w.onIdent = func(id *ast.Ident, st rcState) {
			var held []rcHeld
			for k, excl := range st {
				if w.globalKeys[k] {
					held = append(held, rcHeld{Name: p.prefix + k, Excl: excl})
				}
			}
			sort.Slice(held, func(i, j int) bool { return held[i].Name < held[j].Name })
			states[id.Pos()] = held
		}
		run(w)
		return states, w.unknown
	}
	for _, fd := range p.decls {
		fn := p.prefix + funcName(fd)
		file := filepath.ToSlash(filepath.Join(p.rel, p.fileOf[fd]))
		states, unknown := walk(fn, file, fd, func(w *rcWalker) { w.block(fd.Body.List, rcState{}) })
		scan(fd.Body, fn, file, fd.Recv == nil && fd.Name.Name == "init", glConfigAPI[fn], states, unknown)
	}
	for _, fname := range p.src.sortedFiles() {
		for _, d := range p.src.files[fname].Decls {
			gd, ok := d.(*ast.GenDecl)
			if !ok || gd.Tok != token.VAR {
				continue
			}
			for _, sp := range gd.Specs {
				vs := sp.(*ast.ValueSpec)
				if len(vs.Values) == 0 {
					continue
				}
				fn := p.prefix + "var " + vs.Names[0].Name
				file := filepath.ToSlash(filepath.Join(p.rel, fname))
				for _, val := range vs.Values {
					states, unknown := walk(fn, file, vs, func(w *rcWalker) { w.expr(val, rcState{}, "r") })
					scan(val, fn, file, true, false, states, unknown)
				}
			}
		}
	}
}

// glDisciplined mirrors Mcp.Globals.gDisciplined.
func glDisciplined(v *glVar) (bool, string) {
	if v.VKind == "unknown" {
		return false, "UNDISCIPLINED (declaration not understood)"
	}
	mut := func(s glSite) bool {
		return s.Kind == "w" || (s.Kind == "u" && (v.VKind == "container" || v.VKind == "opaque" || v.VKind == "unknown"))
	}
	var live []glSite
	for _, s := range v.sites {
		if !s.Init {
			live = append(live, s)
		}
	}
	noWrite, allAtomic := true, true
	for _, s := range live {
		if mut(s) {
			noWrite = false
		}
		if s.Sync == "plain" {
			allAtomic = false
		}
	}
	if noWrite {
		for _, s := range v.sites {
			if s.Config {
				return true, "written only during initialisation and by configuration setters assumed to run before use"
			}
		}
		if len(live) == 0 {
			return true, "not touched after initialisation"
		}
		return true, "never written after initialisation"
	}
	if allAtomic {
		return true, "atomic"
	}
	for _, h := range live[0].Held {
		ok := true
		for _, s := range live {
			found := false
			for _, g := range s.Held {
				if g.Name == h.Name && (g.Excl || !mut(s)) {
					found = true
				}
			}
			if !found {
				ok = false
				break
			}
		}
		if ok {
			return true, "mutex " + h.Name
		}
	}
	return false, "UNDISCIPLINED (mutable shared state)"
}

func glGenGlobals(root *pkgSrc) {
	pkgs := glLoadAll(root)
	byPath := map[string]*glPkg{}
	for _, p := range pkgs {
		p.declare()
		byPath[p.path] = p
	}
	for _, p := range pkgs {
		p.collect(byPath)
	}
	var vars []*glVar
	for _, p := range pkgs {
		for _, v := range p.vars {
			sort.SliceStable(v.sites, func(i, j int) bool {
				a, b := v.sites[i], v.sites[j]
				if a.Fn != b.Fn {
					return a.Fn < b.Fn
				}
				if a.File != b.File {
					return a.File < b.File
				}
				return a.pos < b.pos
			})
			vars = append(vars, v)
		}
	}
	sort.Slice(vars, func(i, j int) bool {
		if vars[i].Pkg != vars[j].Pkg {
			return vars[i].Pkg < vars[j].Pkg
		}
		return vars[i].Name < vars[j].Name
	})

	vk := map[string]string{"immutable": ".immutable", "sync": ".syncType", "safe": ".safeObject", "container": ".container", "opaque": ".opaque", "unknown": ".unknown"}
	var b strings.Builder
	b.WriteString(header)
	b.WriteString("import Mcp.Model.Globals\nnamespace Mcp.Gen\nopen Mcp.Lockset Mcp.Globals\n\n")
	for i, v := range vars {
		_, why := glDisciplined(v)
		var cfg []string
		seenCfg := map[string]bool{}
		for _, s := range v.sites {
			if s.Config && !seenCfg[s.Fn] {
				seenCfg[s.Fn] = true
				cfg = append(cfg, leanText(s.Fn))
			}
		}
		fmt.Fprintf(&b, "/-- %s.%s : %s — %s (%s); %s -/\ndef rcG%d : Global :=\n  ⟨%s, %s, %s, %s, [%s], [\n", v.Pkg, v.Name, v.Type, v.VKind, v.Why, why, i,
			leanText(v.Pkg), leanText(v.Name), leanText(v.Type), vk[v.VKind], strings.Join(cfg, ", "))
		seen := map[string]bool{}
		var recs [][2]string
		for _, s := range v.sites {
			k := fmt.Sprintf("%s|%s|%s|%s|%v", s.Fn, s.Kind, s.Sync, rcHeldKey(s.Held), s.Init)
			if seen[k] {
				continue
			}
			seen[k] = true
			var hs []string
			note := ""
			for _, h := range s.Held {
				hs = append(hs, fmt.Sprintf("(%s, %s)", leanText(h.Name), leanBool(h.Excl)))
				note += " " + h.Name + map[bool]string{true: "(w)", false: "(r)"}[h.Excl]
			}
			if note == "" {
				note = " -"
			}
			kind := map[string]string{"r": ".read", "w": ".write", "u": ".use"}[s.Kind]
			sync := map[string]string{"plain": ".plain", "atomic": ".atomic"}[s.Sync]
			phase := ""
			if s.Config {
				phase = " (configuration setter)"
			} else if s.Init {
				phase = " (init)"
			}
			recs = append(recs, [2]string{fmt.Sprintf("    ⟨%s, %s, %s, [%s], %s⟩", leanText(s.Fn), kind, sync, strings.Join(hs, ", "), leanBool(s.Init)),
				fmt.Sprintf("  -- %s %s %s held:%s%s", s.Fn, s.Kind, s.Sync, note, phase)})
		}
		for j, r := range recs {
			sep := ","
			if j == len(recs)-1 {
				sep = ""
			}
			b.WriteString(r[0] + sep + r[1] + "\n")
		}
		b.WriteString("  ]⟩\n\n")
	}
	b.WriteString("/-- Every package-level variable of the library (root package and internal/…), with what it holds, the functions\n    treated as configuration setters, and its distinct access records ⟨function, kind, sync, package-level mutexes\n    lexically held (name, exclusive?), initialisation phase⟩. -/\n")
	b.WriteString("def rcGlobals : List Global :=\n")
	const chunk = 16
	if len(vars) == 0 {
		b.WriteString("  []\n")
	}
	for i := 0; i < len(vars); i += chunk {
		var names []string
		for j := i; j < i+chunk && j < len(vars); j++ {
			names = append(names, fmt.Sprintf("rcG%d", j))
		}
		op := "  "
		if i > 0 {
			op = "  ++ "
		}
		b.WriteString(op + "[" + strings.Join(names, ", ") + "]\n")
	}
	b.WriteString("\nend Mcp.Gen\n")
	writeIfChanged("Globals.lean", b.String())

	type jg struct {
		Pkg         string   `json:"pkg"`
		Name        string   `json:"name"`
		Type        string   `json:"type"`
		VKind       string   `json:"vkind"`
		Disciplined bool     `json:"disciplined"`
		Why         string   `json:"why"`
		Sites       []glSite `json:"sites"`
	}
	out := []jg{}
	for _, v := range vars {
		ok, why := glDisciplined(v)
		out = append(out, jg{v.Pkg, v.Name, v.Type, v.VKind, ok, v.Why + "; " + why, v.sites})
	}
	jb, err := json.MarshalIndent(map[string]any{"globals": out}, "", " ")
	if err != nil {
		fatal("%v", err)
	}
	writeIfChanged("Globals.sites.json", string(jb)+"\n")
}
