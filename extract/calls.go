package main

// T-gen family CallFacts (property C08): for the three client transports
//   (a) every function that inserts into a pending table (a struct field of type map[…]chan …): is the delete deferred,
//   (b) every function that obtains an *http.Response (Handle / Do) or receives one (or an io.ReadCloser) as a parameter:
//       how the body is closed,
//   (c) every select statement: which cases it has,
//   plus who closes pending channels, who calls Cmd.Wait, whether readSSE ends in close(), whether processWatcher
//   cancels, whether the asynchronous listening-stream start looks at a closed flag, whether the public Close() of the
//   clients reaches transport.close() under no condition but `transport != nil`, whether the legacy SSE client's `start`
//   bounds its stream request by the caller's context while it is being established and waits for the endpoint event
//   with a case for the stream's context (which Close() cancels), whether internal/retry's Execute waits between two
//   attempts in a select with the caller's context, whether the POST carrying the client's answer to a request of the
//   server is built with a context derived from the stream's, whether a stream-reading function holds a lock across its
//   read loop;
//   (a') for the three servers: every function that registers a server-issued request in a pending table (directly or
//   through a wrapper such as responseManager.RegisterRequest): is the delete deferred before any return can follow.
// Purely syntactic and conservative: what is not recognised in exactly the shape the source uses is emitted as
// `unknown` / `false`, which `Mcp.Calls.factsOf` treats as non-compliant.

import (
	"fmt"
	"go/ast"
	"go/token"
	"path/filepath"
	"sort"
	"strings"
)

func init() { generators = append(generators, clGen) }

var clFiles = map[string]string{"streamable_client.go": "streamable", "sse_client.go": "sse", "transport_stdio.go": "stdio"}

type clFunc struct {
	client string
	name   string // method name without receiver
	fd     *ast.FuncDecl
}

func clFuncs(root *pkgSrc) []clFunc {
	var out []clFunc
	for _, fn := range root.sortedFiles() {
		cl, ok := clFiles[fn]
		if !ok {
			continue
		}
		for _, d := range root.files[fn].Decls {
			fd, ok := d.(*ast.FuncDecl)
			if !ok || fd.Body == nil {
				continue
			}
			out = append(out, clFunc{client: cl, name: fd.Name.Name, fd: fd})
		}
	}
	sort.Slice(out, func(i, j int) bool {
		if out[i].client != out[j].client {
			return out[i].client < out[j].client
		}
		return out[i].name < out[j].name
	})
	return out
}

func clSquash(root *pkgSrc, n ast.Node) string { return strings.Join(strings.Fields(root.text(n)), "") }

// clPendingTables: names of struct fields of type map[…]chan … declared in the client files.
func clPendingTables(root *pkgSrc) map[string]bool {
	out := map[string]bool{}
	for fn := range clFiles {
		f := root.files[fn]
		if f == nil {
			continue
		}
		ast.Inspect(f, func(n ast.Node) bool {
			st, ok := n.(*ast.StructType)
			if !ok {
				return true
			}
			for _, fld := range st.Fields.List {
				if mt, ok := fld.Type.(*ast.MapType); ok {
					if _, ok := mt.Value.(*ast.ChanType); ok {
						for _, nm := range fld.Names {
							out[nm.Name] = true
						}
					}
				}
			}
			return true
		})
	}
	return out
}

// clTableOf: X in `t.<table>[k]` / `t.<table>` → table name ("" if not a pending table).
func clTableOf(e ast.Expr, tables map[string]bool) string {
	if sel, ok := e.(*ast.SelectorExpr); ok && tables[sel.Sel.Name] {
		return sel.Sel.Name
	}
	return ""
}

type clInsert struct {
	client, fn, table string
	deferred          bool
}

func clInserts(root *pkgSrc, fs []clFunc, tables map[string]bool) []clInsert {
	var out []clInsert
	for _, f := range fs {
		ast.Inspect(f.fd.Body, func(n ast.Node) bool {
			as, ok := n.(*ast.AssignStmt)
			if !ok || len(as.Lhs) != 1 {
				return true
			}
			ix, ok := as.Lhs[0].(*ast.IndexExpr)
			if !ok {
				return true
			}
			tb := clTableOf(ix.X, tables)
			if tb == "" {
				return true
			}
			key := clSquash(root, ix.Index)
			rec := clInsert{client: f.client, fn: f.name, table: tb}
			// a top-level defer after the insert whose body deletes the same key from the same table, no return in between
			var deferPos token.Pos
			for _, st := range f.fd.Body.List {
				ds, ok := st.(*ast.DeferStmt)
				if !ok || ds.Pos() < as.Pos() {
					continue
				}
				found := false
				ast.Inspect(ds, func(m ast.Node) bool {
					c, ok := m.(*ast.CallExpr)
					if !ok {
						return true
					}
					if id, ok := c.Fun.(*ast.Ident); ok && id.Name == "delete" && len(c.Args) == 2 &&
						clTableOf(c.Args[0], tables) == tb && clSquash(root, c.Args[1]) == key {
						found = true
					}
					return true
				})
				if found {
					deferPos = ds.Pos()
					break
				}
			}
			if deferPos != token.NoPos {
				rec.deferred = true
				ast.Inspect(f.fd.Body, func(m ast.Node) bool {
					if r, ok := m.(*ast.ReturnStmt); ok && r.Pos() > as.Pos() && r.Pos() < deferPos {
						rec.deferred = false
					}
					return true
				})
				// the insert itself must be unconditional (top level of the function body)
				top := false
				for _, st := range f.fd.Body.List {
					if st == ast.Stmt(as) {
						top = true
					}
				}
				if !top {
					rec.deferred = false
				}
			}
			out = append(out, rec)
			return true
		})
	}
	return out
}

type clBody struct {
	client, fn string
	obtains    bool
	how        string // deferClose | passThenDefer:<callee> | passTo:<callee> | notClosed | unknown
	reqCtx     bool
}

func clCtxParams(fd *ast.FuncDecl) map[string]bool {
	out := map[string]bool{}
	if fd.Type.Params == nil {
		return out
	}
	for _, f := range fd.Type.Params.List {
		if sel, ok := f.Type.(*ast.SelectorExpr); ok {
			if id, ok := sel.X.(*ast.Ident); ok && id.Name == "context" && sel.Sel.Name == "Context" {
				for _, n := range f.Names {
					out[n.Name] = true
				}
			}
		}
	}
	return out
}

// clIsCloseOf: is `call` the call `<v>.Body.Close()` (resp) or `<v>.Close()` (body)?
func clIsCloseOf(root *pkgSrc, call *ast.CallExpr, v string, isBody bool) bool {
	s := clSquash(root, call)
	if isBody {
		return s == v+".Close()"
	}
	return s == v+".Body.Close()"
}

func clCalleeName(c *ast.CallExpr) string {
	switch f := c.Fun.(type) {
	case *ast.SelectorExpr:
		return f.Sel.Name
	case *ast.Ident:
		return f.Name
	}
	return ""
}

// clPasses: does `call` pass v (or v.Body) as an argument?
func clPasses(root *pkgSrc, call *ast.CallExpr, v string) bool {
	for _, a := range call.Args {
		s := clSquash(root, a)
		if s == v || s == v+".Body" {
			return true
		}
	}
	return false
}

func clBodies(root *pkgSrc, fs []clFunc) []clBody {
	var out []clBody
	for _, f := range fs {
		if f.client == "stdio" {
			continue
		}
		ctxs := clCtxParams(f.fd)
		// request built with the function's own context parameter
		reqCtx := false
		nReq := 0
		ast.Inspect(f.fd.Body, func(n ast.Node) bool {
			c, ok := n.(*ast.CallExpr)
			if !ok {
				return true
			}
			s := clSquash(root, c.Fun)
			if s == "http.NewRequestWithContext" && len(c.Args) > 0 {
				nReq++
				if id, ok := c.Args[0].(*ast.Ident); ok && ctxs[id.Name] {
					reqCtx = true
				} else {
					reqCtx = false
				}
			} else if s == "http.NewRequest" {
				nReq++
				reqCtx = false
			}
			return true
		})
		if nReq != 1 {
			reqCtx = false
		}
		// (1) responses obtained here: `v, err := X.Handle(...)` / `X.Do(...)` / `v, err = …`
		type obtained struct {
			v   string
			pos token.Pos
		}
		var obs []obtained
		ast.Inspect(f.fd.Body, func(n ast.Node) bool {
			as, ok := n.(*ast.AssignStmt)
			if !ok || len(as.Rhs) != 1 || len(as.Lhs) != 2 {
				return true
			}
			c, ok := as.Rhs[0].(*ast.CallExpr)
			if !ok {
				return true
			}
			nm := clCalleeName(c)
			if nm != "Handle" && nm != "Do" && nm != "Get" && nm != "Post" {
				return true
			}
			if id, ok := as.Lhs[0].(*ast.Ident); ok {
				obs = append(obs, obtained{v: id.Name, pos: as.Pos()})
			}
			return true
		})
		vars := map[string]token.Pos{}
		for _, o := range obs {
			if p, ok := vars[o.v]; !ok || o.pos < p {
				vars[o.v] = o.pos
			}
		}
		var names []string
		for v := range vars {
			names = append(names, v)
		}
		sort.Strings(names)
		for _, v := range names {
			out = append(out, clBody{client: f.client, fn: f.name, obtains: true, how: clClassifyBody(root, f.fd, v, vars[v], false), reqCtx: reqCtx})
		}
		// (2) responses / bodies received as parameters
		if f.fd.Type.Params != nil {
			for _, p := range f.fd.Type.Params.List {
				t := clSquash(root, p.Type)
				if t != "*http.Response" && t != "io.ReadCloser" {
					continue
				}
				for _, nm := range p.Names {
					out = append(out, clBody{client: f.client, fn: f.name, obtains: false, how: clClassifyBody(root, f.fd, nm.Name, f.fd.Body.Pos(), t == "io.ReadCloser")})
				}
			}
		}
	}
	return out
}

// clClassifyBody: how does fd treat response variable v (obtained at position `from`)?
func clClassifyBody(root *pkgSrc, fd *ast.FuncDecl, v string, from token.Pos, isBody bool) string {
	// top-level `defer v.Body.Close()`
	var deferPos token.Pos
	for _, st := range fd.Body.List {
		if ds, ok := st.(*ast.DeferStmt); ok && ds.Pos() > from && clIsCloseOf(root, ds.Call, v, isBody) {
			deferPos = ds.Pos()
			break
		}
	}
	isErrCheck := func(ifs *ast.IfStmt) bool { // `if err != nil { … return … }` right after the call: the response is nil there
		return clSquash(root, ifs.Cond) == "err!=nil"
	}
	if deferPos != token.NoPos {
		// what lies between the obtaining statement and the defer: the error check, and possibly one `return callee(…v…)`
		callee := ""
		bad := false
		for _, st := range fd.Body.List {
			if st.Pos() <= from || st.Pos() >= deferPos {
				continue
			}
			if ifs, ok := st.(*ast.IfStmt); ok && isErrCheck(ifs) {
				continue
			}
			ast.Inspect(st, func(n ast.Node) bool {
				r, ok := n.(*ast.ReturnStmt)
				if !ok {
					return true
				}
				passed := false
				for _, res := range r.Results {
					if c, ok := res.(*ast.CallExpr); ok && clPasses(root, c, v) {
						if callee != "" && callee != clCalleeName(c) {
							bad = true
						}
						callee = clCalleeName(c)
						passed = true
					}
				}
				if !passed {
					bad = true // a return before the defer that neither is the error check nor hands the response on
				}
				return true
			})
		}
		switch {
		case bad:
			return "unknown"
		case callee != "":
			return "passThenDefer:" + callee
		}
		return "deferClose"
	}
	// no defer: handed on (go / return call) with every earlier return preceded by an explicit close?
	var passPos token.Pos
	callee := ""
	ast.Inspect(fd.Body, func(n ast.Node) bool {
		var c *ast.CallExpr
		switch x := n.(type) {
		case *ast.GoStmt:
			c = x.Call
		case *ast.ReturnStmt:
			for _, res := range x.Results {
				if cc, ok := res.(*ast.CallExpr); ok {
					c = cc
				}
			}
		}
		if c != nil && c.Pos() > from && clPasses(root, c, v) && passPos == token.NoPos {
			passPos = c.Pos()
			callee = clCalleeName(c)
		}
		return true
	})
	if passPos == token.NoPos {
		closes := false
		ast.Inspect(fd.Body, func(n ast.Node) bool {
			if c, ok := n.(*ast.CallExpr); ok && clIsCloseOf(root, c, v, isBody) {
				closes = true
			}
			return true
		})
		if closes {
			return "unknown" // closed somewhere, but not by a top-level defer: not understood
		}
		return "notClosed"
	}
	ok := true
	var walk func(list []ast.Stmt)
	walk = func(list []ast.Stmt) {
		for i, st := range list {
			if st.Pos() <= from || st.Pos() >= passPos {
				if st.End() < passPos && st.Pos() <= from {
					continue
				}
			}
			switch x := st.(type) {
			case *ast.IfStmt:
				if st.Pos() > from && st.Pos() < passPos {
					if isErrCheck(x) {
						continue
					}
					walk(x.Body.List)
				}
			case *ast.ReturnStmt:
				if st.Pos() > from && st.Pos() < passPos {
					closedBefore := false
					for j := 0; j < i; j++ {
						ast.Inspect(list[j], func(n ast.Node) bool {
							if c, ok := n.(*ast.CallExpr); ok && clIsCloseOf(root, c, v, isBody) {
								closedBefore = true
							}
							return true
						})
					}
					if !closedBefore {
						ok = false
					}
				}
			case *ast.BlockStmt:
				walk(x.List)
			case *ast.ForStmt, *ast.RangeStmt, *ast.SwitchStmt, *ast.SelectStmt, *ast.TypeSwitchStmt:
				if st.Pos() > from && st.Pos() < passPos {
					ast.Inspect(st, func(n ast.Node) bool {
						if _, isRet := n.(*ast.ReturnStmt); isRet {
							ok = false
						}
						return true
					})
				}
			}
		}
	}
	walk(fd.Body.List)
	if !ok {
		return "unknown"
	}
	return "passTo:" + callee
}

type clSelect struct {
	client, fn                           string
	ctx, tctx, recv, recvOk, timer, dflt bool
	line                                 int
}

func clSelects(root *pkgSrc, fs []clFunc) []clSelect {
	var out []clSelect
	for _, f := range fs {
		ctxs := clCtxParams(f.fd)
		ast.Inspect(f.fd.Body, func(n ast.Node) bool {
			sel, ok := n.(*ast.SelectStmt)
			if !ok {
				return true
			}
			rec := clSelect{client: f.client, fn: f.name, line: root.line(sel)}
			for _, cc := range sel.Body.List {
				cl := cc.(*ast.CommClause)
				if cl.Comm == nil {
					rec.dflt = true
					continue
				}
				var rx ast.Expr
				nLhs := 0
				switch c := cl.Comm.(type) {
				case *ast.ExprStmt:
					rx = c.X
				case *ast.AssignStmt:
					if len(c.Rhs) == 1 {
						rx = c.Rhs[0]
						nLhs = len(c.Lhs)
					}
				}
				u, ok := rx.(*ast.UnaryExpr)
				if !ok || u.Op != token.ARROW {
					continue // a send case (or something not understood): no fact
				}
				s := clSquash(root, u.X)
				switch {
				case strings.HasSuffix(s, ".Done()"):
					x := strings.TrimSuffix(s, ".Done()")
					if ctxs[x] {
						rec.ctx = true
					} else if x == "t.ctx" {
						rec.tctx = true
					}
				case strings.HasPrefix(s, "time.After("):
					rec.timer = true
				default:
					if _, isCall := u.X.(*ast.CallExpr); !isCall {
						rec.recv = true
						if nLhs == 2 {
							rec.recvOk = true
						}
					}
				}
			}
			out = append(out, rec)
			return true
		})
	}
	sort.SliceStable(out, func(i, j int) bool {
		if out[i].client != out[j].client {
			return out[i].client < out[j].client
		}
		if out[i].fn != out[j].fn {
			return out[i].fn < out[j].fn
		}
		return out[i].line < out[j].line
	})
	return out
}

// clChanClosers: functions that call close(x) where x is a pending channel: a local made as `make(chan *json.RawMessage…)`
// or the value variable of a range over a pending table.
func clChanClosers(root *pkgSrc, fs []clFunc, tables map[string]bool) [][2]string {
	var out [][2]string
	for _, f := range fs {
		pend := map[string]bool{}
		ast.Inspect(f.fd.Body, func(n ast.Node) bool {
			switch x := n.(type) {
			case *ast.AssignStmt:
				if len(x.Lhs) == 1 && len(x.Rhs) == 1 {
					if id, ok := x.Lhs[0].(*ast.Ident); ok && strings.HasPrefix(clSquash(root, x.Rhs[0]), "make(chan*json.RawMessage") {
						pend[id.Name] = true
					}
				}
			case *ast.RangeStmt:
				if clTableOf(x.X, tables) != "" {
					if id, ok := x.Value.(*ast.Ident); ok {
						pend[id.Name] = true
					}
				}
			}
			return true
		})
		closes := false
		ast.Inspect(f.fd.Body, func(n ast.Node) bool {
			if c, ok := n.(*ast.CallExpr); ok {
				if id, ok := c.Fun.(*ast.Ident); ok && id.Name == "close" && len(c.Args) == 1 {
					if a, ok := c.Args[0].(*ast.Ident); ok && pend[a.Name] {
						closes = true
					}
				}
			}
			return true
		})
		if closes {
			out = append(out, [2]string{f.client, f.name})
		}
	}
	return out
}

func clWaitSites(root *pkgSrc, fs []clFunc) []string {
	var out []string
	for _, f := range fs {
		if f.client != "stdio" {
			continue
		}
		n := 0
		ast.Inspect(f.fd.Body, func(x ast.Node) bool {
			if c, ok := x.(*ast.CallExpr); ok {
				s := clSquash(root, c)
				if strings.HasSuffix(s, ".Wait()") && !strings.Contains(s, "Process.Wait()") {
					n++
				}
			}
			return true
		})
		for i := 0; i < n; i++ {
			out = append(out, f.name)
		}
	}
	return out
}

func clFind(fs []clFunc, client, name string) *ast.FuncDecl {
	for _, f := range fs {
		if f.client == client && f.name == name {
			return f.fd
		}
	}
	return nil
}

// clReaderCloses: readSSE has `t.close()` as a top-level statement after its loop.
func clReaderCloses(root *pkgSrc, fs []clFunc) bool {
	fd := clFind(fs, "sse", "readSSE")
	if fd == nil {
		return false
	}
	seenLoop := false
	for _, st := range fd.Body.List {
		if _, ok := st.(*ast.ForStmt); ok {
			seenLoop = true
		}
		if es, ok := st.(*ast.ExprStmt); ok && seenLoop && clSquash(root, es.X) == "t.close()" {
			return true
		}
	}
	return false
}

func clWatcherCancels(root *pkgSrc, fs []clFunc) bool {
	fd := clFind(fs, "stdio", "processWatcher")
	if fd == nil {
		return false
	}
	found := false
	ast.Inspect(fd.Body, func(n ast.Node) bool {
		if es, ok := n.(*ast.ExprStmt); ok && clSquash(root, es.X) == "t.cancel()" {
			found = true
		}
		return true
	})
	// and the Wait precedes it
	waits := false
	ast.Inspect(fd.Body, func(n ast.Node) bool {
		if c, ok := n.(*ast.CallExpr); ok && strings.HasSuffix(clSquash(root, c), ".Wait()") {
			waits = true
		}
		return true
	})
	return found && waits
}

// clStartGuarded: establishGetSSE or establishGetSSEConnection returns early when a closed flag is set.
func clStartGuarded(root *pkgSrc, fs []clFunc) bool {
	for _, name := range []string{"establishGetSSE", "establishGetSSEConnection"} {
		fd := clFind(fs, "streamable", name)
		if fd == nil {
			continue
		}
		for _, st := range fd.Body.List {
			ifs, ok := st.(*ast.IfStmt)
			if !ok || !strings.Contains(strings.ToLower(clSquash(root, ifs.Cond)), "closed") {
				continue
			}
			for _, b := range ifs.Body.List {
				if _, ok := b.(*ast.ReturnStmt); ok {
					return true
				}
			}
		}
	}
	return false
}

// clCloseUnguarded: the clients whose public Close() (Client.Close for the Streamable and legacy SSE transports,
// StdioClient.Close for stdio) reaches `c.transport.close()` under no condition but `c.transport != nil`: every enclosing
// `if` tests exactly that, and every statement that precedes the call on its way and contains a `return` is
// `if c.transport == nil { return … }`.
func clCloseUnguarded(root *pkgSrc) []string {
	ok := func(file, recv string) bool {
		f := root.files[file]
		if f == nil {
			return false
		}
		for _, d := range f.Decls {
			fd, isFn := d.(*ast.FuncDecl)
			if !isFn || fd.Body == nil || fd.Name.Name != "Close" || fd.Recv == nil || len(fd.Recv.List) != 1 {
				continue
			}
			if clSquash(root, fd.Recv.List[0].Type) != "*"+recv || len(fd.Recv.List[0].Names) != 1 {
				continue
			}
			r := fd.Recv.List[0].Names[0].Name
			return clReachesUnguarded(root, fd.Body.List, r+".transport.close()", r+".transport")
		}
		return false
	}
	var out []string
	if ok("client.go", "Client") {
		out = append(out, "sse", "streamable")
	}
	if ok("stdio_client.go", "StdioClient") {
		out = append(out, "stdio")
	}
	sort.Strings(out)
	return out
}

func clContains(root *pkgSrc, n ast.Node, call string) bool {
	found := false
	ast.Inspect(n, func(m ast.Node) bool {
		if c, ok := m.(*ast.CallExpr); ok && clSquash(root, c) == call {
			found = true
		}
		return true
	})
	return found
}

func clHasReturn(n ast.Node) bool {
	found := false
	ast.Inspect(n, func(m ast.Node) bool {
		switch m.(type) {
		case *ast.ReturnStmt:
			found = true
		case *ast.FuncLit:
			return false
		}
		return true
	})
	return found
}

func clReachesUnguarded(root *pkgSrc, stmts []ast.Stmt, call, tr string) bool {
	for _, st := range stmts {
		if !clContains(root, st, call) {
			// a statement on the way: may not leave the function, except for the nil check of the transport; a call in it may
			// not be deferred/conditional logic we do not understand either: only returns matter here
			if clHasReturn(st) {
				ifs, ok := st.(*ast.IfStmt)
				if !ok || ifs.Init != nil || ifs.Else != nil || clSquash(root, ifs.Cond) != tr+"==nil" {
					return false
				}
			}
			continue
		}
		switch x := st.(type) {
		case *ast.ExprStmt, *ast.AssignStmt, *ast.ReturnStmt:
			return true // err := c.transport.close() / c.transport.close() / return c.transport.close()
		case *ast.IfStmt:
			if x.Init != nil && clContains(root, x.Init, call) {
				return true // if err := c.transport.close(); err != nil { … }
			}
			if x.Init != nil || clSquash(root, x.Cond) != tr+"!=nil" {
				return false
			}
			return clReachesUnguarded(root, x.Body.List, call, tr)
		case *ast.BlockStmt:
			return clReachesUnguarded(root, x.List, call, tr)
		default:
			return false
		}
	}
	return false
}

// ---- (a') server-side pending tables

var srvFiles = map[string]string{"streamable_server.go": "streamable", "sse_server.go": "sse", "stdio_server.go": "stdio"}

type srvInsert struct {
	server, fn, table string
	deferred          bool
}

// srvTables: map-typed struct fields of the server files whose name says pending / responses.
func srvTables(root *pkgSrc) map[string]bool {
	out := map[string]bool{}
	for fn := range srvFiles {
		f := root.files[fn]
		if f == nil {
			continue
		}
		ast.Inspect(f, func(n ast.Node) bool {
			st, ok := n.(*ast.StructType)
			if !ok {
				return true
			}
			for _, fld := range st.Fields.List {
				if _, ok := fld.Type.(*ast.MapType); ok {
					for _, nm := range fld.Names {
						l := strings.ToLower(nm.Name)
						if strings.Contains(l, "pending") || l == "responses" {
							out[nm.Name] = true
						}
					}
				}
			}
			return true
		})
	}
	return out
}

func srvParamIndex(fd *ast.FuncDecl, name string) int {
	i := 0
	if fd.Type.Params == nil {
		return -1
	}
	for _, p := range fd.Type.Params.List {
		for _, nm := range p.Names {
			if nm.Name == name {
				return i
			}
			i++
		}
	}
	return -1
}

type srvWrapper struct {
	table string
	arg   int
}

func srvInserts(root *pkgSrc) []srvInsert {
	tables := srvTables(root)
	type fn struct {
		server string
		fd     *ast.FuncDecl
	}
	var fs []fn
	var files []string
	for f := range srvFiles {
		files = append(files, f)
	}
	sort.Strings(files)
	for _, file := range files {
		f := root.files[file]
		if f == nil {
			continue
		}
		for _, d := range f.Decls {
			if fd, ok := d.(*ast.FuncDecl); ok && fd.Body != nil {
				fs = append(fs, fn{srvFiles[file], fd})
			}
		}
	}
	hasDeferredDelete := func(fd *ast.FuncDecl) bool {
		found := false
		ast.Inspect(fd.Body, func(n ast.Node) bool {
			if ds, ok := n.(*ast.DeferStmt); ok {
				ast.Inspect(ds, func(m ast.Node) bool {
					if c, ok := m.(*ast.CallExpr); ok {
						if id, ok := c.Fun.(*ast.Ident); ok && id.Name == "delete" {
							found = true
						}
					}
					return true
				})
			}
			return true
		})
		return found
	}
	// wrappers: a function whose only business with the table is the insert (key = one of its parameters), resp. the delete
	inserters := map[string]srvWrapper{}
	deleters := map[string]srvWrapper{}
	for _, f := range fs {
		ast.Inspect(f.fd.Body, func(n ast.Node) bool {
			switch x := n.(type) {
			case *ast.AssignStmt:
				if len(x.Lhs) == 1 {
					if ix, ok := x.Lhs[0].(*ast.IndexExpr); ok {
						if tb := clTableOf(ix.X, tables); tb != "" {
							if id, ok := ix.Index.(*ast.Ident); ok {
								if i := srvParamIndex(f.fd, id.Name); i >= 0 && !hasDeferredDelete(f.fd) {
									inserters[f.fd.Name.Name] = srvWrapper{tb, i}
								}
							}
						}
					}
				}
			case *ast.CallExpr:
				if id, ok := x.Fun.(*ast.Ident); ok && id.Name == "delete" && len(x.Args) == 2 {
					if tb := clTableOf(x.Args[0], tables); tb != "" {
						if k, ok := x.Args[1].(*ast.Ident); ok {
							if i := srvParamIndex(f.fd, k.Name); i >= 0 {
								deleters[f.fd.Name.Name] = srvWrapper{tb, i}
							}
						}
					}
				}
			}
			return true
		})
	}
	// deletesKey: does the defer statement delete `key` from `tb` (directly, in a function literal, or through a deleter)?
	deletesKey := func(ds *ast.DeferStmt, tb, key string) bool {
		found := false
		ast.Inspect(ds, func(m ast.Node) bool {
			c, ok := m.(*ast.CallExpr)
			if !ok {
				return true
			}
			if id, ok := c.Fun.(*ast.Ident); ok && id.Name == "delete" && len(c.Args) == 2 && clTableOf(c.Args[0], tables) == tb && clSquash(root, c.Args[1]) == key {
				found = true
			}
			if w, ok := deleters[clCalleeName(c)]; ok && w.table == tb && w.arg < len(c.Args) && clSquash(root, c.Args[w.arg]) == key {
				found = true
			}
			return true
		})
		return found
	}
	var out []srvInsert
	for _, f := range fs {
		if _, isWrapper := inserters[f.fd.Name.Name]; isWrapper {
			continue
		}
		for idx, st := range f.fd.Body.List {
			_ = idx
			// an insert anywhere inside this top-level statement
			type site struct {
				pos      token.Pos
				tb, key  string
				topLevel bool
			}
			var sites []site
			ast.Inspect(st, func(n ast.Node) bool {
				switch x := n.(type) {
				case *ast.FuncLit:
					return false
				case *ast.AssignStmt:
					if len(x.Lhs) == 1 {
						if ix, ok := x.Lhs[0].(*ast.IndexExpr); ok {
							if tb := clTableOf(ix.X, tables); tb != "" {
								sites = append(sites, site{x.Pos(), tb, clSquash(root, ix.Index), ast.Stmt(x) == st})
							}
						}
					}
				case *ast.CallExpr:
					if w, ok := inserters[clCalleeName(x)]; ok && w.arg < len(x.Args) {
						top := false
						switch y := st.(type) {
						case *ast.ExprStmt:
							top = y.X == ast.Expr(x)
						case *ast.AssignStmt:
							top = len(y.Rhs) == 1 && y.Rhs[0] == ast.Expr(x)
						}
						sites = append(sites, site{x.Pos(), w.table, clSquash(root, x.Args[w.arg]), top})
					}
				}
				return true
			})
			for _, si := range sites {
				rec := srvInsert{server: f.server, fn: f.fd.Name.Name, table: si.tb}
				var deferPos token.Pos
				for _, st2 := range f.fd.Body.List {
					if ds, ok := st2.(*ast.DeferStmt); ok && ds.Pos() > si.pos && deletesKey(ds, si.tb, si.key) {
						deferPos = ds.Pos()
						break
					}
				}
				if deferPos != token.NoPos && si.topLevel {
					rec.deferred = true
					ast.Inspect(f.fd.Body, func(m ast.Node) bool {
						if r, ok := m.(*ast.ReturnStmt); ok && r.Pos() > si.pos && r.Pos() < deferPos {
							rec.deferred = false
						}
						return true
					})
				}
				out = append(out, rec)
			}
		}
	}
	sort.Slice(out, func(i, j int) bool {
		if out[i].server != out[j].server {
			return out[i].server < out[j].server
		}
		return out[i].fn < out[j].fn
	})
	return out
}

// clStartFacts: the legacy SSE client's `start` (the first stage of its handshake).
//
//	bounded: the stream request ends with the caller's context while it is being established — it is built with the
//	  function's own context parameter, or with a context X made by `X, C := context.WithCancel(…)` and a goroutine of the
//	  function runs `select { case <-P.Done(): … C() … }` for a context parameter P;
//	selStream: every select of the function that waits on the caller's context (the wait for the endpoint event) also has
//	  the case `<-X.Done()` — Close() cancels X.
func clStartFacts(root *pkgSrc, fs []clFunc) (bounded, selStream bool) {
	fd := clFind(fs, "sse", "start")
	if fd == nil {
		return false, false
	}
	ctxs := clCtxParams(fd)
	// the context the request is built with
	reqCtx := ""
	ast.Inspect(fd.Body, func(n ast.Node) bool {
		if c, ok := n.(*ast.CallExpr); ok && clCalleeName(c) == "NewRequestWithContext" && len(c.Args) > 0 {
			if id, ok := c.Args[0].(*ast.Ident); ok {
				reqCtx = id.Name
			}
		}
		return true
	})
	if reqCtx == "" {
		return false, false
	}
	// X, C := context.WithCancel(…)
	cancelOf := ""
	ast.Inspect(fd.Body, func(n ast.Node) bool {
		as, ok := n.(*ast.AssignStmt)
		if !ok || len(as.Lhs) != 2 || len(as.Rhs) != 1 {
			return true
		}
		call, ok := as.Rhs[0].(*ast.CallExpr)
		if !ok || clSquash(root, call.Fun) != "context.WithCancel" {
			return true
		}
		x, ok1 := as.Lhs[0].(*ast.Ident)
		c, ok2 := as.Lhs[1].(*ast.Ident)
		if ok1 && ok2 && x.Name == reqCtx {
			cancelOf = c.Name
		}
		return true
	})
	isDoneOf := func(e ast.Expr, of func(string) bool) bool { // `<-V.Done()`
		u, ok := e.(*ast.UnaryExpr)
		if !ok || u.Op != token.ARROW {
			return false
		}
		c, ok := u.X.(*ast.CallExpr)
		if !ok {
			return false
		}
		sel, ok := c.Fun.(*ast.SelectorExpr)
		if !ok || sel.Sel.Name != "Done" {
			return false
		}
		id, ok := sel.X.(*ast.Ident)
		return ok && of(id.Name)
	}
	commExpr := func(cc *ast.CommClause) ast.Expr {
		switch x := cc.Comm.(type) {
		case *ast.ExprStmt:
			return x.X
		case *ast.AssignStmt:
			if len(x.Rhs) == 1 {
				return x.Rhs[0]
			}
		}
		return nil
	}
	if ctxs[reqCtx] {
		bounded = true
	} else if cancelOf != "" {
		for _, st := range fd.Body.List {
			g, ok := st.(*ast.GoStmt)
			if !ok {
				continue
			}
			fl, ok := g.Call.Fun.(*ast.FuncLit)
			if !ok {
				continue
			}
			watches := false
			overChans := map[string]bool{}
			ast.Inspect(fl.Body, func(n ast.Node) bool {
				cc, ok := n.(*ast.CommClause)
				if !ok || cc.Comm == nil {
					return true
				}
				if e := commExpr(cc); e != nil && isDoneOf(e, func(v string) bool { return ctxs[v] }) {
					for _, b := range cc.Body {
						if clContains(root, b, cancelOf+"()") {
							watches = true
						}
					}
				} else if e != nil { // the case that ends the watcher: `<-X` for a channel X
					if u, ok := e.(*ast.UnaryExpr); ok && u.Op == token.ARROW {
						if id, ok := u.X.(*ast.Ident); ok {
							overChans[id.Name] = true
						}
					}
				}
				return true
			})
			// the watcher lives for the whole of the function: the channel that ends it is closed by a top-level `defer
			// close(X)` and by nothing else (a watcher that is ended once the response headers are in leaves what follows —
			// reading the body of a non-200 answer — unbounded)
			if watches {
				for x := range overChans {
					deferred, plain := false, false
					for _, st2 := range fd.Body.List {
						if ds, ok := st2.(*ast.DeferStmt); ok && clSquash(root, ds.Call) == "close("+x+")" {
							deferred = true
						}
					}
					ast.Inspect(fd.Body, func(n ast.Node) bool {
						if es, ok := n.(*ast.ExprStmt); ok && clSquash(root, es.X) == "close("+x+")" {
							plain = true
						}
						return true
					})
					if deferred && !plain {
						bounded = true
					}
				}
			}
		}
	}
	// the selects of the function itself (not of its goroutines) that wait on the caller's context
	selStream = true
	waits := 0
	var walk func(n ast.Node)
	walk = func(n ast.Node) {
		ast.Inspect(n, func(m ast.Node) bool {
			switch x := m.(type) {
			case *ast.FuncLit:
				return false
			case *ast.SelectStmt:
				hasCtx, hasStream := false, false
				for _, c := range x.Body.List {
					cc := c.(*ast.CommClause)
					if cc.Comm == nil {
						continue
					}
					if e := commExpr(cc); e != nil {
						if isDoneOf(e, func(v string) bool { return ctxs[v] }) {
							hasCtx = true
						}
						if isDoneOf(e, func(v string) bool { return v == reqCtx && !ctxs[v] }) {
							hasStream = true
						}
					}
				}
				if hasCtx {
					waits++
					if !hasStream && !ctxs[reqCtx] {
						selStream = false
					}
				}
			}
			return true
		})
	}
	walk(fd.Body)
	if waits == 0 {
		selStream = false
	}
	return bounded, selStream
}

// clBackoffCtx: internal/retry Execute — between two attempts it waits in a select that has both `<-P.Done()` for its context
// parameter P and a timer case (`<-time.After(…)` / a timer's channel), and the function never calls time.Sleep.
func clBackoffCtx() bool {
	rp := loadDir(filepath.Join(*repo, "internal", "retry"))
	fd, _ := rp.funcDecl("Execute")
	if fd == nil || fd.Body == nil {
		return false
	}
	ctxs := clCtxParams(fd)
	sleeps, good := false, false
	ast.Inspect(fd.Body, func(n ast.Node) bool {
		switch x := n.(type) {
		case *ast.CallExpr:
			if clSquash(rp, x.Fun) == "time.Sleep" {
				sleeps = true
			}
		case *ast.SelectStmt:
			hasCtx, hasTimer, hasDefault := false, false, false
			for _, c := range x.Body.List {
				cc := c.(*ast.CommClause)
				if cc.Comm == nil {
					hasDefault = true
					continue
				}
				txt := clSquash(rp, cc.Comm)
				for p := range ctxs {
					if strings.HasSuffix(txt, "<-"+p+".Done()") {
						hasCtx = true
					}
				}
				if strings.Contains(txt, "<-time.After(") || strings.HasSuffix(txt, ".C") {
					hasTimer = true
				}
			}
			if hasCtx && hasTimer && !hasDefault {
				good = true
			}
		}
		return true
	})
	return good && !sleeps
}

// clAnswerBound: the clients whose POST carrying the answer to a request of the server (Streamable sendResponseToServer, legacy
// SSE sendResponseMessage) is built with a context X made by context.WithTimeout / WithCancel / WithDeadline directly from a
// variable P that the function reads from the stream's connection record (`P := t.<conn>.ctx`; `P = context.Background()`
// under `if P == nil` is the only other assignment allowed) — the context Close() cancels.
func clAnswerBound(root *pkgSrc, fs []clFunc) []string {
	var out []string
	for _, site := range [][2]string{{"sse", "sendResponseMessage"}, {"streamable", "sendResponseToServer"}} {
		fd := clFind(fs, site[0], site[1])
		if fd == nil {
			continue
		}
		x := ""
		ast.Inspect(fd.Body, func(n ast.Node) bool {
			if c, ok := n.(*ast.CallExpr); ok && clCalleeName(c) == "NewRequestWithContext" && len(c.Args) > 0 {
				if id, ok := c.Args[0].(*ast.Ident); ok {
					x = id.Name
				}
			}
			return true
		})
		if x == "" {
			continue
		}
		parent, ok := "", true
		nX := 0
		ast.Inspect(fd.Body, func(n ast.Node) bool {
			as, isAs := n.(*ast.AssignStmt)
			if !isAs || len(as.Lhs) == 0 {
				return true
			}
			if id, isID := as.Lhs[0].(*ast.Ident); isID && id.Name == x {
				nX++
				call, isCall := as.Rhs[0].(*ast.CallExpr)
				if !isCall || len(call.Args) == 0 {
					ok = false
					return true
				}
				switch clSquash(root, call.Fun) {
				case "context.WithTimeout", "context.WithCancel", "context.WithDeadline":
				default:
					ok = false
				}
				if p, isP := call.Args[0].(*ast.Ident); isP {
					parent = p.Name
				} else {
					ok = false
				}
			}
			return true
		})
		if !ok || nX != 1 || parent == "" {
			continue
		}
		fromStream := false
		ast.Inspect(fd.Body, func(n ast.Node) bool {
			as, isAs := n.(*ast.AssignStmt)
			if !isAs || len(as.Lhs) != 1 || len(as.Rhs) != 1 {
				return true
			}
			if id, isID := as.Lhs[0].(*ast.Ident); !isID || id.Name != parent {
				return true
			}
			rhs := clSquash(root, as.Rhs[0])
			switch {
			case strings.HasPrefix(rhs, "t.") && strings.HasSuffix(rhs, "Conn.ctx"):
				fromStream = true
			case rhs == "context.Background()":
				// allowed only as the nil fallback
			default:
				ok = false
			}
			return true
		})
		if ok && fromStream {
			out = append(out, site[0])
		}
	}
	sort.Strings(out)
	return out
}

// clLockFree: the clients none of whose stream-reading functions holds a lock across its read loop. A stream-reading
// function is a function of the client's transport file with a `for` loop that contains a read call (ReadString /
// ReadBytes / ReadLine / Scan / Decode). In such a function (function literals apart): no `defer X.Unlock()` /
// `defer X.RUnlock()`, and among the top-level statements before the loop every `X.Lock()` / `X.RLock()` statement has its
// `X.Unlock()` / `X.RUnlock()` statement. A client without any stream-reading function is not listed (not understood).
func clLockFree(root *pkgSrc, fs []clFunc) []string {
	isRead := func(n ast.Node) bool {
		found := false
		ast.Inspect(n, func(m ast.Node) bool {
			if c, ok := m.(*ast.CallExpr); ok {
				switch clCalleeName(c) {
				case "ReadString", "ReadBytes", "ReadLine", "Scan", "Decode":
					found = true
				}
			}
			return true
		})
		return found
	}
	lockCall := func(st ast.Stmt) (string, string) { // (mutex expression, Lock|RLock|Unlock|RUnlock)
		es, ok := st.(*ast.ExprStmt)
		if !ok {
			return "", ""
		}
		c, ok := es.X.(*ast.CallExpr)
		if !ok {
			return "", ""
		}
		sel, ok := c.Fun.(*ast.SelectorExpr)
		if !ok {
			return "", ""
		}
		switch sel.Sel.Name {
		case "Lock", "RLock", "Unlock", "RUnlock":
			return clSquash(root, sel.X), sel.Sel.Name
		}
		return "", ""
	}
	readers := map[string]int{}
	bad := map[string]bool{}
	for _, f := range fs {
		loopAt := -1
		for i, st := range f.fd.Body.List {
			if fs, ok := st.(*ast.ForStmt); ok && isRead(fs) {
				loopAt = i
				break
			}
			if rs, ok := st.(*ast.RangeStmt); ok && isRead(rs) {
				loopAt = i
				break
			}
		}
		if loopAt < 0 {
			continue
		}
		readers[f.client]++
		// deferred unlocks anywhere in the function (function literals apart)
		var walk func(n ast.Node)
		walk = func(n ast.Node) {
			ast.Inspect(n, func(m ast.Node) bool {
				switch x := m.(type) {
				case *ast.FuncLit:
					return false
				case *ast.DeferStmt:
					if sel, ok := x.Call.Fun.(*ast.SelectorExpr); ok && (sel.Sel.Name == "Unlock" || sel.Sel.Name == "RUnlock") {
						bad[f.client] = true
					}
					if fl, ok := x.Call.Fun.(*ast.FuncLit); ok { // defer func() { … X.Unlock() … }()
						ast.Inspect(fl.Body, func(k ast.Node) bool {
							if c, ok := k.(*ast.CallExpr); ok {
								if n := clCalleeName(c); n == "Unlock" || n == "RUnlock" {
									bad[f.client] = true
								}
							}
							return true
						})
					}
				}
				return true
			})
		}
		walk(f.fd.Body)
		held := map[string]int{}
		for _, st := range f.fd.Body.List[:loopAt] {
			mx, op := lockCall(st)
			switch op {
			case "Lock", "RLock":
				held[mx]++
			case "Unlock", "RUnlock":
				held[mx]--
			}
		}
		for _, n := range held {
			if n > 0 {
				bad[f.client] = true
			}
		}
	}
	var out []string
	for cl, n := range readers {
		if n > 0 && !bad[cl] {
			out = append(out, cl)
		}
	}
	sort.Strings(out)
	return out
}

// srvGetExitDeadlineFirst: on the exit path of the Streamable server's handleGet (the top-level statements after the wait
// `<-connCtx.Done()`), the write deadline is set (a call of SetWriteDeadline) before the stream's write lock is taken
// (`….writeLock.Lock()`): the deadline is what releases a writer that is blocked on a peer which no longer reads — and
// that writer holds the lock.
func srvGetExitDeadlineFirst(root *pkgSrc) bool {
	f := root.files["streamable_server.go"]
	if f == nil {
		return false
	}
	for _, d := range f.Decls {
		fd, ok := d.(*ast.FuncDecl)
		if !ok || fd.Body == nil || fd.Name.Name != "handleGet" {
			continue
		}
		waitAt, deadlineAt, lockAt := -1, -1, -1
		for i, st := range fd.Body.List {
			txt := clSquash(root, st)
			switch {
			case waitAt < 0 && strings.HasPrefix(txt, "<-") && strings.HasSuffix(txt, ".Done()"):
				waitAt = i
			case waitAt >= 0 && deadlineAt < 0 && strings.Contains(txt, "SetWriteDeadline(") && !strings.Contains(txt, "writeLock"):
				if _, isBlock := st.(*ast.BlockStmt); !isBlock {
					deadlineAt = i
				}
			case waitAt >= 0 && lockAt < 0 && strings.HasSuffix(txt, ".writeLock.Lock()"):
				lockAt = i
			}
		}
		return waitAt >= 0 && deadlineAt > waitAt && lockAt > deadlineAt
	}
	return false
}

func clLeanClient(c string) string { return "." + c }

func clLeanHow(h string) string {
	switch {
	case strings.HasPrefix(h, "passThenDefer:"):
		return ".passThenDefer " + leanText(strings.TrimPrefix(h, "passThenDefer:"))
	case strings.HasPrefix(h, "passTo:"):
		return ".passTo " + leanText(strings.TrimPrefix(h, "passTo:"))
	case h == "deferClose", h == "notClosed":
		return "." + h
	}
	return ".unknown"
}

func clGen(root *pkgSrc) {
	fs := clFuncs(root)
	tables := clPendingTables(root)
	var b strings.Builder
	b.WriteString(header)
	b.WriteString("import Mcp.Model.Calls\nnamespace Mcp.Gen.CallFacts\nopen Mcp.Calls\n")
	b.WriteString("/-- (a) Every function of the client transports that inserts into a pending table. -/\ndef clInserts : List InsertSite := [")
	for i, r := range clInserts(root, fs, tables) {
		if i > 0 {
			b.WriteString(",")
		}
		fmt.Fprintf(&b, "\n  -- %s %s → %s\n  { client := %s, fn := %s, table := %s, deleteDeferred := %s }", r.client, r.fn, r.table, clLeanClient(r.client), leanText(r.fn), leanText(r.table), leanBool(r.deferred))
	}
	b.WriteString("]\n")
	b.WriteString("/-- (b) Every function of the HTTP client transports that obtains an `*http.Response` or receives one / its body. -/\ndef clBodies : List BodySite := [")
	for i, r := range clBodies(root, fs) {
		if i > 0 {
			b.WriteString(",")
		}
		fmt.Fprintf(&b, "\n  -- %s %s (%s): %s\n  { client := %s, fn := %s, obtains := %s, how := %s, reqCtx := %s }", r.client, r.fn, map[bool]string{true: "obtains", false: "parameter"}[r.obtains], r.how,
			clLeanClient(r.client), leanText(r.fn), leanBool(r.obtains), clLeanHow(r.how), leanBool(r.reqCtx))
	}
	b.WriteString("]\n")
	b.WriteString("/-- (c) Every select statement of the client transports. -/\ndef clSelects : List SelectSite := [")
	for i, r := range clSelects(root, fs) {
		if i > 0 {
			b.WriteString(",")
		}
		fmt.Fprintf(&b, "\n  -- %s %s\n  { client := %s, fn := %s, ctx := %s, tctx := %s, recv := %s, recvOk := %s, timer := %s, dflt := %s }", r.client, r.fn,
			clLeanClient(r.client), leanText(r.fn), leanBool(r.ctx), leanBool(r.tctx), leanBool(r.recv), leanBool(r.recvOk), leanBool(r.timer), leanBool(r.dflt))
	}
	b.WriteString("]\n")
	b.WriteString("/-- Functions that close a pending channel. -/\ndef clChanClosers : List (Client × Mcp.Str.Text) := [")
	for i, r := range clChanClosers(root, fs, tables) {
		if i > 0 {
			b.WriteString(", ")
		}
		fmt.Fprintf(&b, "\n  -- %s %s\n  (%s, %s)", r[0], r[1], clLeanClient(r[0]), leanText(r[1]))
	}
	b.WriteString("]\n")
	b.WriteString("/-- Call sites of `Cmd.Wait` in the stdio transport (function names, one entry per call). -/\ndef clWaitSites : List Mcp.Str.Text := [")
	for i, r := range clWaitSites(root, fs) {
		if i > 0 {
			b.WriteString(", ")
		}
		fmt.Fprintf(&b, "\n  -- %s\n  %s", r, leanText(r))
	}
	b.WriteString("]\n")
	b.WriteString("/-- (a') Every function of the three servers that registers a server-issued request in a pending table. -/\ndef srvInserts : List SrvInsertSite := [")
	for i, r := range srvInserts(root) {
		if i > 0 {
			b.WriteString(",")
		}
		fmt.Fprintf(&b, "\n  -- %s server %s → %s\n  { server := .%s, fn := %s, table := %s, deleteDeferred := %s }", r.server, r.fn, r.table, r.server, leanText(r.fn), leanText(r.table), leanBool(r.deferred))
	}
	b.WriteString("]\n")
	startBounded, startSelStream := clStartFacts(root, fs)
	var bound []string
	for _, c := range clAnswerBound(root, fs) {
		bound = append(bound, clLeanClient(c))
	}
	var lockFree []string
	for _, c := range clLockFree(root, fs) {
		lockFree = append(lockFree, clLeanClient(c))
	}
	var unguarded []string
	for _, c := range clCloseUnguarded(root) {
		unguarded = append(unguarded, clLeanClient(c))
	}
	fmt.Fprintf(&b, "def clTables : Tables :=\n  { inserts := clInserts, bodies := clBodies, selects := clSelects, chanClosers := clChanClosers, answerBound := [%s], lockFree := [%s], closeUnguarded := [%s], waitSites := clWaitSites,\n    readerCloses := %s, watcherCancels := %s, startGuarded := %s, getExitDeadlineFirst := %s, backoffCtx := %s, startBounded := %s, startSelStream := %s }\n",
		strings.Join(bound, ", "), strings.Join(lockFree, ", "), strings.Join(unguarded, ", "), leanBool(clReaderCloses(root, fs)), leanBool(clWatcherCancels(root, fs)), leanBool(clStartGuarded(root, fs)), leanBool(srvGetExitDeadlineFirst(root)), leanBool(clBackoffCtx()), leanBool(startBounded), leanBool(startSelStream))
	b.WriteString("end Mcp.Gen.CallFacts\n")
	writeIfChanged("CallFacts.lean", b.String())
}
