package main

// T-gen family "CtxFlow" (property C13): where request-scoped values can get stored, and which context the
// server-side request path hands on.
//
//   cfCarrierFields  every struct field / package-level variable of package mcp whose declared type can hold a
//                    context.Context, a Session or a notification sender (directly or through pointer / slice /
//                    map / channel);
//   cfStores         every assignment, composite-literal element, channel send or Store/Swap-style method call
//                    that puts a value of such a type into a struct field or a package-level variable (also when
//                    the field itself is typed interface{}: the static type of the stored value decides);
//   cfCtxArgs        for every call in the server-side files that passes a context.Context: where that context
//                    comes from (the function's own parameter / derived from it by calls that take it / the
//                    request's r.Context() / context.Background() / a struct field / a package variable / ...);
//   cfFilterCalls    the calls of the three list filters and the class of their context argument;
//   cfListFieldWrites  field / package-variable writes inside the three list handlers (a cached filter result
//                    would have to be written somewhere);
//   cfPostFold, cfCtxFuncWriters, cfSSE*   shape of the context-function fold in handlePost, who writes the slice,
//                    and how legacy SSE applies its single function.
//
// Types come from go/types with the standard library imported from source (so context.Context, *http.Request,
// time.Time are real) and every other import faked (their identifiers stay untyped; errors are ignored).
// Everything not recognised is emitted as "unknown…", which the Lean predicates treat as non-compliant.
// Not tracked (the property is labelled partial): values captured by closures stored in func-typed fields,
// aliasing through user code, reflect, unsafe.

import (
	"fmt"
	"go/ast"
	"go/importer"
	"go/token"
	"go/types"
	"os"
	"path/filepath"
	"sort"
	"strings"
)

func init() { generators = append(generators, genCtxFlow) }

// server-side files whose calls are classified in cfCtxArgs.
var cfServerFiles = []string{"handler.go", "manager_prompt.go", "manager_resource.go", "manager_tools.go",
	"mcp_notification.go", "notifier.go", "responder.go", "responder_json.go", "responder_sse.go", "server.go",
	"session.go", "sse_server.go", "streamable_server.go"}

type cfImporter struct {
	src   types.Importer
	cache map[string]*types.Package // the library's own internal packages, type-checked from source
}

// the module path of /repo: its internal packages are real to the type checker (a *session.Session IS a Session).
const cfModule = "trpc.group/trpc-go/trpc-mcp-go/"

func (i cfImporter) Import(path string) (*types.Package, error) {
	if strings.HasPrefix(path, cfModule+"internal/") {
		if p, ok := i.cache[path]; ok {
			return p, nil
		}
		dir := filepath.Join(*repo, filepath.FromSlash(strings.TrimPrefix(path, cfModule)))
		if st, err := os.Stat(dir); err == nil && st.IsDir() {
			sub := loadDir(dir)
			var files []*ast.File
			for _, n := range sub.sortedFiles() {
				files = append(files, sub.files[n])
			}
			name := path[strings.LastIndex(path, "/")+1:]
			i.cache[path] = types.NewPackage(path, name) // import cycles cannot happen in compiling code; be safe anyway
			conf := types.Config{Importer: i, Error: func(error) {}}
			if p, _ := conf.Check(path, sub.fset, files, nil); p != nil {
				i.cache[path] = p
				return p, nil
			}
		}
	}
	first := path
	if k := strings.Index(path, "/"); k >= 0 {
		first = path[:k]
	}
	if !strings.Contains(first, ".") { // standard library
		if p, err := i.src.Import(path); err == nil {
			return p, nil
		}
	}
	name := path
	if k := strings.LastIndex(path, "/"); k >= 0 {
		name = path[k+1:]
	}
	if strings.HasPrefix(name, "v") && len(name) <= 3 && strings.Contains(path, "/") {
		rest := path[:strings.LastIndex(path, "/")]
		name = rest[strings.LastIndex(rest, "/")+1:]
	}
	pkg := types.NewPackage(path, name)
	pkg.MarkComplete()
	return pkg, nil
}

type cfPkg struct {
	root    *pkgSrc
	info    *types.Info
	pkg     *types.Package
	session *types.Interface
	sender  *types.Interface
}

func cfLoad(root *pkgSrc) *cfPkg {
	info := &types.Info{Types: map[ast.Expr]types.TypeAndValue{}, Uses: map[*ast.Ident]types.Object{},
		Defs: map[*ast.Ident]types.Object{}, Selections: map[*ast.SelectorExpr]*types.Selection{}}
	var files []*ast.File
	for _, n := range root.sortedFiles() {
		files = append(files, root.files[n])
	}
	conf := types.Config{Importer: cfImporter{importer.ForCompiler(root.fset, "source", nil), map[string]*types.Package{}}, Error: func(error) {}}
	pkg, _ := conf.Check("mcp", root.fset, files, info)
	c := &cfPkg{root: root, info: info, pkg: pkg}
	if pkg != nil {
		c.session = cfIface(pkg, "Session")
		c.sender = cfIface(pkg, "notificationSender")
	}
	return c
}

func cfIface(pkg *types.Package, name string) *types.Interface {
	o := pkg.Scope().Lookup(name)
	if o == nil {
		return nil
	}
	if i, ok := o.Type().Underlying().(*types.Interface); ok && i.NumMethods() > 0 {
		return i
	}
	return nil
}

func cfIsContext(t types.Type) bool {
	n, ok := t.(*types.Named)
	return ok && n.Obj() != nil && n.Obj().Pkg() != nil && n.Obj().Pkg().Path() == "context" && n.Obj().Name() == "Context"
}

func cfValid(t types.Type) bool {
	if t == nil {
		return false
	}
	if b, ok := t.(*types.Basic); ok && b.Kind() == types.Invalid {
		return false
	}
	return true
}

// cfKind: "ctx" | "session" | "sender" | "" — what a value of type t can carry.
func (c *cfPkg) cfKind(t types.Type, depth int) string {
	if !cfValid(t) || depth > 6 {
		return ""
	}
	if cfIsContext(t) {
		return "ctx"
	}
	if _, isTuple := t.(*types.Tuple); isTuple {
		return ""
	}
	if p, isPtr := t.(*types.Pointer); isPtr && !cfValid(p.Elem()) {
		return ""
	}
	if !cfValid(t.Underlying()) {
		return ""
	}
	if _, isSig := t.Underlying().(*types.Signature); isSig {
		return ""
	}
	for _, cand := range []types.Type{t, types.NewPointer(t)} {
		if _, isPtr := t.(*types.Pointer); isPtr && cand != t {
			continue
		}
		if c.session != nil && types.Implements(cand, c.session) {
			return "session"
		}
		if c.sender != nil && types.Implements(cand, c.sender) {
			return "sender"
		}
	}
	switch u := t.Underlying().(type) {
	case *types.Pointer:
		return c.cfKind(u.Elem(), depth+1)
	case *types.Slice:
		return c.cfKind(u.Elem(), depth+1)
	case *types.Array:
		return c.cfKind(u.Elem(), depth+1)
	case *types.Chan:
		return c.cfKind(u.Elem(), depth+1)
	case *types.Map:
		if k := c.cfKind(u.Elem(), depth+1); k != "" {
			return k
		}
		return c.cfKind(u.Key(), depth+1)
	}
	return ""
}

func cfNamed(t types.Type) string {
	for i := 0; i < 3 && t != nil; i++ {
		if p, ok := t.(*types.Pointer); ok {
			t = p.Elem()
			continue
		}
		break
	}
	if n, ok := t.(*types.Named); ok && n.Obj() != nil {
		return n.Obj().Name()
	}
	return ""
}

// cfTarget: "Type.field" for a struct-field selector (through index / paren / star), "var name" for a
// package-level variable; "" for anything local. Second result: the declared type of the target.
func (c *cfPkg) cfTarget(e ast.Expr) (string, types.Type) {
	for {
		switch x := e.(type) {
		case *ast.ParenExpr:
			e = x.X
			continue
		case *ast.IndexExpr:
			e = x.X
			continue
		case *ast.StarExpr:
			e = x.X
			continue
		case *ast.SliceExpr:
			e = x.X
			continue
		}
		break
	}
	switch x := e.(type) {
	case *ast.SelectorExpr:
		if sel, ok := c.info.Selections[x]; ok && sel.Kind() == types.FieldVal {
			owner := cfNamed(sel.Recv())
			if owner == "" {
				// a field of an anonymous struct: name it through the field that holds the struct
				if outer, _ := c.cfTarget(x.X); outer != "" {
					owner = outer
				} else {
					owner = "?"
				}
			}
			return owner + "." + sel.Obj().Name(), sel.Obj().Type()
		}
	case *ast.Ident:
		if o, ok := c.info.Uses[x].(*types.Var); ok && c.pkg != nil && o.Parent() == c.pkg.Scope() {
			return "var " + o.Name(), o.Type()
		}
	}
	return "", nil
}

type cfStore struct{ fn, target, kind, how, expr string }

func cfShort(s string) string {
	s = strings.Join(strings.Fields(s), " ")
	if len(s) > 70 {
		s = s[:67] + "..."
	}
	return s
}

func (c *cfPkg) cfStoresIn(fn string, body ast.Node, out *[]cfStore) {
	add := func(target string, declared types.Type, val ast.Expr, valType types.Type, how string) {
		if target == "" {
			return
		}
		k := c.cfKind(declared, 0)
		if k == "" {
			k = c.cfKind(valType, 0)
		}
		if k == "" {
			return
		}
		txt := ""
		if val != nil {
			txt = cfShort(c.root.text(val))
		}
		*out = append(*out, cfStore{fn, target, k, how, txt})
	}
	ast.Inspect(body, func(n ast.Node) bool {
		switch x := n.(type) {
		case *ast.AssignStmt:
			for i, l := range x.Lhs {
				target, decl := c.cfTarget(l)
				if target == "" {
					continue
				}
				var val ast.Expr
				var vt types.Type
				if len(x.Rhs) == len(x.Lhs) {
					val = x.Rhs[i]
					vt = c.info.TypeOf(val)
				} else if len(x.Rhs) == 1 {
					val = x.Rhs[0]
					if tup, ok := c.info.TypeOf(val).(*types.Tuple); ok && i < tup.Len() {
						vt = tup.At(i).Type()
					}
				}
				// an indexed / dereferenced target stores an element: the element decides through the value's type
				add(target, decl, val, vt, "assign")
			}
		case *ast.CompositeLit:
			t := c.info.TypeOf(x)
			st, ok := types.Type(nil), false
			if cfValid(t) {
				st, ok = t.Underlying(), true
			}
			s, isStruct := st.(*types.Struct)
			if !ok || !isStruct {
				return true
			}
			owner := cfNamed(t)
			if owner == "" {
				owner = "?"
			}
			for i, el := range x.Elts {
				if kv, ok := el.(*ast.KeyValueExpr); ok {
					if id, ok := kv.Key.(*ast.Ident); ok {
						for j := 0; j < s.NumFields(); j++ {
							if s.Field(j).Name() == id.Name {
								add(owner+"."+id.Name, s.Field(j).Type(), kv.Value, c.info.TypeOf(kv.Value), "lit")
							}
						}
					}
				} else if i < s.NumFields() {
					add(owner+"."+s.Field(i).Name(), s.Field(i).Type(), el, c.info.TypeOf(el), "lit")
				}
			}
		case *ast.SendStmt:
			target, _ := c.cfTarget(x.Chan)
			add(target, nil, x.Value, c.info.TypeOf(x.Value), "send")
		case *ast.CallExpr:
			sel, ok := x.Fun.(*ast.SelectorExpr)
			if !ok {
				return true
			}
			switch sel.Sel.Name {
			case "Store", "Swap", "CompareAndSwap", "LoadOrStore", "Set", "Put", "Add", "Push":
			default:
				return true
			}
			target, _ := c.cfTarget(sel.X)
			if target == "" {
				return true
			}
			for _, a := range x.Args {
				if c.cfKind(c.info.TypeOf(a), 0) != "" {
					add(target, nil, a, c.info.TypeOf(a), "call "+sel.Sel.Name)
				}
			}
		}
		return true
	})
}

// ---- where does a context argument come from

type cfScope struct {
	c       *cfPkg
	params  map[types.Object]bool
	assigns map[types.Object][]ast.Expr
	zero    map[types.Object]bool // declared without a value
}

func (c *cfPkg) cfScopeOf(fd *ast.FuncDecl) *cfScope {
	s := &cfScope{c: c, params: map[types.Object]bool{}, assigns: map[types.Object][]ast.Expr{}, zero: map[types.Object]bool{}}
	addParams := func(ft *ast.FuncType) {
		if ft == nil || ft.Params == nil {
			return
		}
		for _, f := range ft.Params.List {
			for _, n := range f.Names {
				if o := c.info.Defs[n]; o != nil {
					s.params[o] = true
				}
			}
		}
	}
	addParams(fd.Type)
	if fd.Recv != nil {
		for _, f := range fd.Recv.List {
			for _, n := range f.Names {
				if o := c.info.Defs[n]; o != nil {
					s.params[o] = true
				}
			}
		}
	}
	obj := func(e ast.Expr) types.Object {
		id, ok := e.(*ast.Ident)
		if !ok {
			return nil
		}
		if o := c.info.Defs[id]; o != nil {
			return o
		}
		return c.info.Uses[id]
	}
	ast.Inspect(fd.Body, func(n ast.Node) bool {
		switch x := n.(type) {
		case *ast.FuncLit:
			addParams(x.Type)
		case *ast.AssignStmt:
			for i, l := range x.Lhs {
				o := obj(l)
				if o == nil {
					continue
				}
				if len(x.Rhs) == len(x.Lhs) {
					s.assigns[o] = append(s.assigns[o], x.Rhs[i])
				} else if len(x.Rhs) == 1 {
					s.assigns[o] = append(s.assigns[o], x.Rhs[0])
				}
			}
		case *ast.ValueSpec:
			for i, n := range x.Names {
				o := c.info.Defs[n]
				if o == nil {
					continue
				}
				if i < len(x.Values) {
					s.assigns[o] = append(s.assigns[o], x.Values[i])
				} else if len(x.Values) == 1 {
					s.assigns[o] = append(s.assigns[o], x.Values[0])
				} else {
					s.zero[o] = true
				}
			}
		case *ast.RangeStmt:
			for _, e := range []ast.Expr{x.Key, x.Value} {
				if e != nil {
					if o := obj(e); o != nil {
						s.assigns[o] = append(s.assigns[o], x.X)
					}
				}
			}
		}
		return true
	})
	return s
}

func cfGood(class string) bool { return class == "param" || class == "derived" || class == "request" }

func cfJoin(classes []string, all string) string {
	for _, k := range classes {
		if !cfGood(k) {
			return k
		}
	}
	return all
}

// class of a context-valued expression.
func (s *cfScope) class(e ast.Expr, seen map[types.Object]bool) string {
	c := s.c
	switch x := e.(type) {
	case *ast.ParenExpr:
		return s.class(x.X, seen)
	case *ast.Ident:
		o := c.info.Uses[x]
		if o == nil {
			o = c.info.Defs[x]
		}
		if o == nil {
			return "unknown"
		}
		if v, ok := o.(*types.Var); ok && c.pkg != nil && v.Parent() == c.pkg.Scope() {
			return "global:" + v.Name()
		}
		if seen[o] {
			return "derived" // x = f(x): decided by the other definitions
		}
		seen2 := map[types.Object]bool{o: true}
		for k := range seen {
			seen2[k] = true
		}
		var cl []string
		for _, r := range s.assigns[o] {
			cl = append(cl, s.class(r, seen2))
		}
		if s.params[o] {
			return cfJoin(cl, "param")
		}
		if s.zero[o] && len(cl) == 0 {
			return "unknown"
		}
		if len(cl) == 0 {
			return "unknown"
		}
		return cfJoin(cl, "derived")
	case *ast.SelectorExpr:
		if t, _ := c.cfTarget(x); t != "" {
			return "field:" + strings.TrimPrefix(t, "var ")
		}
		return "unknown"
	case *ast.CallExpr:
		if sel, ok := x.Fun.(*ast.SelectorExpr); ok {
			if id, ok := sel.X.(*ast.Ident); ok {
				if pn, ok := c.info.Uses[id].(*types.PkgName); ok && pn.Imported().Path() == "context" &&
					(sel.Sel.Name == "Background" || sel.Sel.Name == "TODO") {
					return "background"
				}
			}
			if sel.Sel.Name == "Context" && len(x.Args) == 0 {
				if p, ok := c.info.TypeOf(sel.X).(*types.Pointer); ok {
					if n, ok := p.Elem().(*types.Named); ok && n.Obj().Pkg() != nil && n.Obj().Pkg().Path() == "net/http" && n.Obj().Name() == "Request" {
						if cfGood(s.class(sel.X, seen)) {
							return "request"
						}
						return "unknown-request"
					}
				}
			}
		}
		var cl []string
		for i, a := range x.Args {
			if s.isCtxArg(x, i, a) {
				cl = append(cl, s.class(a, seen))
			}
		}
		if len(cl) == 0 {
			return "opaque:" + cfShort(c.root.text(x.Fun))
		}
		return cfJoin(cl, "derived")
	}
	return "unknown"
}

// isCtxArg: the argument is a context.Context by its own type, or (when its type is unresolved) by the callee's signature.
func (s *cfScope) isCtxArg(call *ast.CallExpr, i int, a ast.Expr) bool {
	c := s.c
	if t := c.info.TypeOf(a); cfValid(t) {
		return cfIsContext(t)
	}
	if sig, ok := c.info.TypeOf(call.Fun).(*types.Signature); ok && sig != nil {
		if i < sig.Params().Len() {
			return cfIsContext(sig.Params().At(i).Type())
		}
	}
	return false
}

type cfArg struct{ fn, callee, arg, class string }

func (c *cfPkg) cfArgsIn(fd *ast.FuncDecl, out *[]cfArg) {
	s := c.cfScopeOf(fd)
	fn := funcName(fd)
	ast.Inspect(fd.Body, func(n ast.Node) bool {
		call, ok := n.(*ast.CallExpr)
		if !ok {
			return true
		}
		for i, a := range call.Args {
			if s.isCtxArg(call, i, a) {
				*out = append(*out, cfArg{fn, cfShort(c.root.text(call.Fun)), cfShort(c.root.text(a)), s.class(a, map[types.Object]bool{})})
			}
		}
		return true
	})
}

// ---- shape facts

// cfFoldShape: handlePost must read
//
//	X := <ctx parameter>
//	for _, fn := range <recv>.httpContextFuncs { X = fn(X, <request parameter>) }
//
// and hand X (never reassigned elsewhere) to handlePostRequest / handlePostNotification / handlePostResponse.
func cfFoldShape(root *pkgSrc) (shape string, passes bool) {
	fd, _ := root.funcDecl("httpServerHandler.handlePost")
	if fd == nil || fd.Body == nil || fd.Recv == nil || len(fd.Recv.List) != 1 || len(fd.Recv.List[0].Names) != 1 {
		return "unknown", false
	}
	recv := fd.Recv.List[0].Names[0].Name
	ctxParam, reqParam := "", ""
	for _, f := range fd.Type.Params.List {
		t := mwSquash(root.text(f.Type))
		for _, n := range f.Names {
			if t == "context.Context" && ctxParam == "" {
				ctxParam = n.Name
			}
			if t == "*http.Request" && reqParam == "" {
				reqParam = n.Name
			}
		}
	}
	if ctxParam == "" || reqParam == "" {
		return "unknown", false
	}
	shape = "unknown"
	acc := ""
	for i, st := range fd.Body.List {
		switch loop := st.(type) {
		case *ast.RangeStmt:
			if mwSquash(root.text(loop.X)) != recv+".httpContextFuncs" {
				continue
			}
			if i == 0 || loop.Value == nil || len(loop.Body.List) != 1 {
				return "unknown", false
			}
			init, ok := fd.Body.List[i-1].(*ast.AssignStmt)
			if !ok || init.Tok != token.DEFINE || len(init.Lhs) != 1 || mwSquash(root.text(init.Rhs[0])) != ctxParam {
				return "unknown", false
			}
			acc = mwSquash(root.text(init.Lhs[0]))
			v := mwSquash(root.text(loop.Value))
			if mwSquash(root.mwCodeText(loop.Body.List[0])) == acc+"="+v+"("+acc+","+reqParam+")" {
				shape = "ascending"
			}
		case *ast.ForStmt:
			src := mwSquash(root.mwCodeText(loop))
			if !strings.Contains(src, recv+".httpContextFuncs") {
				continue
			}
			if i == 0 || loop.Init == nil || loop.Cond == nil || loop.Post == nil || len(loop.Body.List) != 1 {
				return "unknown", false
			}
			init, ok := fd.Body.List[i-1].(*ast.AssignStmt)
			if !ok || init.Tok != token.DEFINE || len(init.Lhs) != 1 || mwSquash(root.text(init.Rhs[0])) != ctxParam {
				return "unknown", false
			}
			acc = mwSquash(root.text(init.Lhs[0]))
			as, ok := loop.Init.(*ast.AssignStmt)
			if !ok || len(as.Lhs) != 1 {
				return "unknown", false
			}
			iv := mwSquash(root.text(as.Lhs[0]))
			slice := recv + ".httpContextFuncs"
			if mwSquash(root.mwCodeText(loop.Body.List[0])) != acc+"="+slice+"["+iv+"]("+acc+","+reqParam+")" {
				return "unknown", false
			}
			in, cond, post := mwSquash(root.text(loop.Init)), mwSquash(root.text(loop.Cond)), mwSquash(root.text(loop.Post))
			if in == iv+":=0" && cond == iv+"<len("+slice+")" && (post == iv+"++" || post == iv+"+=1") {
				shape = "ascending"
			} else if in == iv+":=len("+slice+")-1" && cond == iv+">=0" && (post == iv+"--" || post == iv+"-=1") {
				shape = "descending"
			}
		}
	}
	if acc == "" {
		return "unknown", false
	}
	// acc is assigned only by its definition and inside the loop; the three branches get it.
	n := 0
	ast.Inspect(fd.Body, func(nd ast.Node) bool {
		if as, ok := nd.(*ast.AssignStmt); ok {
			for _, l := range as.Lhs {
				if mwSquash(root.text(l)) == acc {
					n++
				}
			}
		}
		return true
	})
	src := mwSquash(root.mwCodeText(fd.Body))
	passes = n == 2
	for _, callee := range []string{"handlePostRequest", "handlePostNotification", "handlePostResponse"} {
		if strings.Count(src, recv+"."+callee+"(") != 1 || strings.Count(src, recv+"."+callee+"("+acc+",") != 1 {
			passes = false
		}
	}
	return shape, passes
}

// cfFieldWriters: every write (assignment / composite literal element / inc-dec) of the struct fields named in
// targets ("Type.field"), resolved through go/types.
func (c *cfPkg) cfFieldWriters(targets ...string) []string {
	root := c.root
	want := map[string]bool{}
	for _, t := range targets {
		want[t] = true
	}
	var out []string
	for _, fname := range root.sortedFiles() {
		for _, d := range root.files[fname].Decls {
			fd, ok := d.(*ast.FuncDecl)
			if !ok || fd.Body == nil {
				continue
			}
			ast.Inspect(fd.Body, func(n ast.Node) bool {
				switch x := n.(type) {
				case *ast.AssignStmt:
					for i, l := range x.Lhs {
						if t, _ := c.cfTarget(l); want[t] {
							r := "?"
							if i < len(x.Rhs) {
								r = mwSquash(root.mwCodeText(x.Rhs[i]))
							}
							out = append(out, funcName(fd)+": "+mwSquash(root.text(l))+x.Tok.String()+r)
						}
					}
				case *ast.CompositeLit:
					owner := cfNamed(c.info.TypeOf(x))
					for _, el := range x.Elts {
						if kv, ok := el.(*ast.KeyValueExpr); ok {
							if id, ok := kv.Key.(*ast.Ident); ok && want[owner+"."+id.Name] {
								out = append(out, funcName(fd)+": "+id.Name+":"+mwSquash(root.mwCodeText(kv.Value)))
							}
						}
					}
				case *ast.IncDecStmt:
					if t, _ := c.cfTarget(x.X); want[t] {
						out = append(out, funcName(fd)+": "+mwSquash(root.text(x)))
					}
				}
				return true
			})
		}
	}
	sort.Strings(out)
	return out
}

// cfSSEMessageShape: handleMessage must read   ctx := r.Context(); if s.contextFunc != nil { ctx = s.contextFunc(ctx, r) };
// ctx = s.createSessionContext(ctx, session)   with r its own request parameter, and createSessionContext must add
// session, server and client session to the context it is given.
func cfSSEMessageShape(root *pkgSrc) (appliesToPost bool, injects bool) {
	fd, _ := root.funcDecl("SSEServer.handleMessage")
	if fd != nil && fd.Body != nil && fd.Recv != nil && len(fd.Recv.List) == 1 && len(fd.Recv.List[0].Names) == 1 {
		recv := fd.Recv.List[0].Names[0].Name
		req := ""
		for _, f := range fd.Type.Params.List {
			if mwSquash(root.text(f.Type)) == "*http.Request" && len(f.Names) == 1 {
				req = f.Names[0].Name
			}
		}
		src := mwSquash(root.mwCodeText(fd.Body))
		want := "ctx:=" + req + ".Context()if" + recv + ".contextFunc!=nil{ctx=" + recv + ".contextFunc(ctx," + req + ")}ctx=" + recv + ".createSessionContext(ctx,session)"
		appliesToPost = req != "" && strings.Count(src, want) == 1 && strings.Count(src, "ctx=") == 2 && strings.Count(src, "ctx:=") == 1 &&
			strings.Contains(src, recv+".handleRequestMessage(ctx,rawMessage,session)") &&
			strings.Contains(src, recv+".handleNotificationMessage(ctx,rawMessage,session)") &&
			strings.Contains(src, "session,err:="+recv+".getSessionFromRequest("+req+")")
	}
	fd, _ = root.funcDecl("SSEServer.createSessionContext")
	if fd != nil && fd.Body != nil && fd.Recv != nil && len(fd.Recv.List) == 1 && len(fd.Recv.List[0].Names) == 1 {
		recv := fd.Recv.List[0].Names[0].Name
		src := mwSquash(root.mwCodeText(fd.Body))
		injects = src == "{ctx=setSessionToContext(ctx,session)ctx=setServerToContext(ctx,"+recv+")ctx=withClientSession(ctx,session)returnctx}"
	}
	return
}

// ---- list handlers: fresh memory in, fresh memory out

// cfFreshLocal: e is a local identifier all of whose definitions are `make(...)`, a composite literal, or
// `append(<itself>, ...)` — i.e. memory created inside this call of the function.
func (s *cfScope) cfFreshLocal(e ast.Expr) (bool, string) {
	c := s.c
	id, ok := e.(*ast.Ident)
	if !ok {
		return false, cfShort(c.root.text(e))
	}
	o := c.info.Uses[id]
	if o == nil {
		o = c.info.Defs[id]
	}
	if o == nil || s.params[o] || len(s.assigns[o]) == 0 {
		return false, id.Name
	}
	if v, ok := o.(*types.Var); ok && c.pkg != nil && v.Parent() == c.pkg.Scope() {
		return false, "global " + id.Name
	}
	for _, r := range s.assigns[o] {
		switch x := r.(type) {
		case *ast.CompositeLit:
			continue
		case *ast.CallExpr:
			if f, ok := x.Fun.(*ast.Ident); ok {
				if _, isBuiltin := c.info.Uses[f].(*types.Builtin); isBuiltin {
					if f.Name == "make" {
						continue
					}
					if f.Name == "append" && len(x.Args) > 0 {
						if a, ok := x.Args[0].(*ast.Ident); ok && c.info.Uses[a] == o {
							continue
						}
					}
				}
			}
		}
		return false, id.Name + " := " + cfShort(c.root.text(r))
	}
	return true, ""
}

func cfIsPool(t types.Type) bool {
	if p, ok := t.(*types.Pointer); ok {
		t = p.Elem()
	}
	n, ok := t.(*types.Named)
	return ok && n.Obj() != nil && n.Obj().Pkg() != nil && n.Obj().Pkg().Path() == "sync" && n.Obj().Name() == "Pool"
}

type cfListFact struct{ a, b, verdict string }

// cfListMemory inspects one list handler: which getter feeds the filter and whether that getter returns memory made
// in the call (not kept anywhere); whether the slices put into the result are made in the call; any sync.Pool use.
func (c *cfPkg) cfListMemory(handler string, filterField string) (snap cfListFact, results []cfListFact, pools []cfListFact) {
	snap = cfListFact{handler, "unknown", "unknown: handler not found"}
	fd, _ := c.root.funcDecl(handler)
	if fd == nil || fd.Body == nil {
		return
	}
	sc := c.cfScopeOf(fd)
	owner := handler[:strings.Index(handler, ".")]
	poolScan := func(fn string, body ast.Node) {
		ast.Inspect(body, func(n ast.Node) bool {
			if e, ok := n.(ast.Expr); ok {
				if _, isCall := e.(*ast.CallExpr); !isCall {
					if t := c.info.TypeOf(e); cfValid(t) && cfIsPool(t) {
						pools = append(pools, cfListFact{fn, cfShort(c.root.text(e)), "pool"})
						return false
					}
				}
			}
			return true
		})
	}
	poolScan(handler, fd.Body)
	// the filter call and the slice it gets
	getter := ""
	snap.verdict = "unknown: filter call not found"
	ast.Inspect(fd.Body, func(n ast.Node) bool {
		call, ok := n.(*ast.CallExpr)
		if !ok {
			return true
		}
		sel, ok := call.Fun.(*ast.SelectorExpr)
		if !ok || sel.Sel.Name != filterField || len(call.Args) != 2 {
			return true
		}
		id, ok := call.Args[1].(*ast.Ident)
		if !ok {
			snap.verdict = "unknown: filter argument " + cfShort(c.root.text(call.Args[1]))
			return true
		}
		o := c.info.Uses[id]
		snap.verdict = "unknown: no definition of " + id.Name
		for _, r := range sc.assigns[o] {
			rc, ok := r.(*ast.CallExpr)
			if !ok {
				snap.verdict = "shared: " + id.Name + " := " + cfShort(c.root.text(r))
				getter = ""
				break
			}
			if rc == call {
				continue // the filter's own result assigned back
			}
			gs, ok := rc.Fun.(*ast.SelectorExpr)
			if !ok || len(rc.Args) != 0 {
				snap.verdict = "shared: " + id.Name + " := " + cfShort(c.root.text(r))
				getter = ""
				break
			}
			if s2, ok := c.info.Selections[gs]; ok && s2.Kind() == types.MethodVal && cfNamed(s2.Recv()) == owner {
				getter = owner + "." + gs.Sel.Name
			} else {
				snap.verdict = "shared: " + id.Name + " := " + cfShort(c.root.text(r))
				getter = ""
				break
			}
		}
		return true
	})
	if getter != "" {
		snap.b = getter
		gd, _ := c.root.funcDecl(getter)
		if gd == nil || gd.Body == nil {
			snap.verdict = "unknown: getter not found"
		} else {
			poolScan(getter, gd.Body)
			gs := c.cfScopeOf(gd)
			snap.verdict = "fresh"
			nret := 0
			ast.Inspect(gd.Body, func(n ast.Node) bool {
				switch x := n.(type) {
				case *ast.FuncLit:
					return false
				case *ast.ReturnStmt:
					nret++
					if len(x.Results) != 1 {
						snap.verdict = "unknown: return shape"
						return true
					}
					if ok, why := gs.cfFreshLocal(x.Results[0]); !ok && snap.verdict == "fresh" {
						snap.verdict = "shared: returns " + why
					}
				case *ast.AssignStmt:
					for i, l := range x.Lhs {
						if t, _ := c.cfTarget(l); t != "" && !cfLocalRoot(c, l, gd) && snap.verdict == "fresh" {
							r := ""
							if i < len(x.Rhs) {
								r = cfShort(c.root.text(x.Rhs[i]))
							}
							snap.verdict = "shared: writes " + t + " = " + r
						}
					}
				}
				return true
			})
			if nret == 0 {
				snap.verdict = "unknown: no return"
			}
		}
	}
	// the slices of the result object
	ast.Inspect(fd.Body, func(n ast.Node) bool {
		cl, ok := n.(*ast.CompositeLit)
		if !ok {
			return true
		}
		tn := cfNamed(c.info.TypeOf(cl))
		if !strings.HasPrefix(tn, "List") || !strings.HasSuffix(tn, "Result") {
			return true
		}
		for _, el := range cl.Elts {
			kv, ok := el.(*ast.KeyValueExpr)
			if !ok {
				results = append(results, cfListFact{handler, tn, "unknown: positional element"})
				continue
			}
			t := c.info.TypeOf(kv.Value)
			if !cfValid(t) {
				results = append(results, cfListFact{handler, tn + "." + cfShort(c.root.text(kv.Key)), "unknown: untyped " + cfShort(c.root.text(kv.Value))})
				continue
			}
			if _, isSlice := t.Underlying().(*types.Slice); !isSlice {
				continue
			}
			v := "fresh"
			if ok, why := sc.cfFreshLocal(kv.Value); !ok {
				v = "shared: " + why
			}
			results = append(results, cfListFact{handler, tn + "." + cfShort(c.root.text(kv.Key)), v})
		}
		return true
	})
	return
}

func cfTuple(parts ...string) string {
	var q []string
	for _, p := range parts {
		q = append(q, leanText(p))
	}
	return "(" + strings.Join(q, ", ") + ")"
}

func cfCmt(s string) string { return strings.ReplaceAll(strings.ReplaceAll(s, "-/", "- /"), "\n", " ") }

func genCtxFlow(root *pkgSrc) {
	c := cfLoad(root)

	// carrier fields
	type cfField struct{ target, kind string }
	var fields []cfField
	if c.pkg != nil {
		names := c.pkg.Scope().Names()
		sort.Strings(names)
		for _, n := range names {
			switch o := c.pkg.Scope().Lookup(n).(type) {
			case *types.TypeName:
				if st, ok := o.Type().Underlying().(*types.Struct); ok && !o.IsAlias() {
					var walk func(prefix string, st *types.Struct, depth int)
					walk = func(prefix string, st *types.Struct, depth int) {
						for i := 0; i < st.NumFields(); i++ {
							ft := st.Field(i).Type()
							if k := c.cfKind(ft, 0); k != "" {
								fields = append(fields, cfField{prefix + "." + st.Field(i).Name(), k})
							}
							if inner, ok := ft.(*types.Struct); ok && depth < 4 {
								walk(prefix+"."+st.Field(i).Name(), inner, depth+1)
							}
						}
					}
					walk(n, st, 0)
				}
			case *types.Var:
				if k := c.cfKind(o.Type(), 0); k != "" {
					fields = append(fields, cfField{"var " + n, k})
				}
			}
		}
	}
	sort.Slice(fields, func(i, j int) bool { return fields[i].target < fields[j].target })

	// stores
	var stores []cfStore
	for _, fname := range root.sortedFiles() {
		for _, d := range root.files[fname].Decls {
			switch x := d.(type) {
			case *ast.FuncDecl:
				if x.Body != nil {
					c.cfStoresIn(funcName(x), x.Body, &stores)
				}
			case *ast.GenDecl:
				if x.Tok == token.VAR {
					for _, sp := range x.Specs {
						vs := sp.(*ast.ValueSpec)
						for i, n := range vs.Names {
							if o, ok := c.info.Defs[n].(*types.Var); ok && i < len(vs.Values) {
								k := c.cfKind(o.Type(), 0)
								if k == "" {
									k = c.cfKind(c.info.TypeOf(vs.Values[i]), 0)
								}
								if k != "" {
									stores = append(stores, cfStore{"var " + n.Name, "var " + n.Name, k, "init", cfShort(root.text(vs.Values[i]))})
								}
							}
							c.cfStoresIn("var "+n.Name, vs, &stores)
						}
					}
				}
			}
		}
	}
	sort.Slice(stores, func(i, j int) bool {
		a, b := stores[i], stores[j]
		if a.target != b.target {
			return a.target < b.target
		}
		if a.fn != b.fn {
			return a.fn < b.fn
		}
		if a.expr != b.expr {
			return a.expr < b.expr
		}
		return a.how < b.how
	})
	// one record per (function, target, expression)
	var ustores []cfStore
	for i, s := range stores {
		if i > 0 && s == stores[i-1] {
			continue
		}
		ustores = append(ustores, s)
	}
	stores = ustores

	// context arguments on the server side
	var args []cfArg
	srv := map[string]bool{}
	for _, f := range cfServerFiles {
		srv[f] = true
	}
	listHandlers := map[string]bool{"toolManager.handleListTools": true, "promptManager.handleListPrompts": true, "resourceManager.handleListResources": true}
	var listWrites []cfStore
	foundList := map[string]bool{}
	for _, fname := range root.sortedFiles() {
		for _, d := range root.files[fname].Decls {
			fd, ok := d.(*ast.FuncDecl)
			if !ok || fd.Body == nil {
				continue
			}
			if srv[fname] {
				c.cfArgsIn(fd, &args)
			}
			if listHandlers[funcName(fd)] {
				foundList[funcName(fd)] = true
				// any write to a field / package variable (whatever its type)
				ast.Inspect(fd.Body, func(n ast.Node) bool {
					switch x := n.(type) {
					case *ast.AssignStmt:
						for _, l := range x.Lhs {
							if t, _ := c.cfTarget(l); t != "" {
								// fields of values created inside the function are local
								if !cfLocalRoot(c, l, fd) {
									listWrites = append(listWrites, cfStore{fn: funcName(fd), target: t, expr: cfShort(root.text(x))})
								}
							}
						}
					case *ast.IncDecStmt:
						if t, _ := c.cfTarget(x.X); t != "" && !cfLocalRoot(c, x.X, fd) {
							listWrites = append(listWrites, cfStore{fn: funcName(fd), target: t, expr: cfShort(root.text(x))})
						}
					case *ast.CallExpr:
						if sel, ok := x.Fun.(*ast.SelectorExpr); ok {
							switch sel.Sel.Name {
							case "Store", "Swap", "CompareAndSwap", "LoadOrStore":
								if t, _ := c.cfTarget(sel.X); t != "" && !cfLocalRoot(c, sel.X, fd) {
									listWrites = append(listWrites, cfStore{fn: funcName(fd), target: t, expr: cfShort(root.text(x))})
								}
							}
						}
					}
					return true
				})
			}
		}
	}
	for fn := range listHandlers {
		if !foundList[fn] {
			listWrites = append(listWrites, cfStore{fn: fn, target: "unknown", expr: "function not found"})
		}
	}
	sort.Slice(listWrites, func(i, j int) bool {
		if listWrites[i].fn != listWrites[j].fn {
			return listWrites[i].fn < listWrites[j].fn
		}
		return listWrites[i].expr < listWrites[j].expr
	})
	sort.Slice(args, func(i, j int) bool {
		a, b := args[i], args[j]
		if a.fn != b.fn {
			return a.fn < b.fn
		}
		if a.callee != b.callee {
			return a.callee < b.callee
		}
		if a.arg != b.arg {
			return a.arg < b.arg
		}
		return a.class < b.class
	})
	var uargs []cfArg
	for i, a := range args {
		if i > 0 && a == args[i-1] {
			continue
		}
		uargs = append(uargs, a)
	}
	args = uargs
	var filterCalls []cfArg
	for _, a := range args {
		if strings.HasSuffix(a.callee, ".toolListFilter") || strings.HasSuffix(a.callee, ".promptListFilter") || strings.HasSuffix(a.callee, ".resourceListFilter") {
			f := a
			f.callee = a.callee[strings.LastIndex(a.callee, ".")+1:]
			filterCalls = append(filterCalls, f)
		}
	}

	shape, passes := cfFoldShape(root)
	writers := c.cfFieldWriters("serverConfig.httpContextFuncs", "httpServerHandler.httpContextFuncs")
	sseWriters := c.cfFieldWriters("SSEServer.contextFunc")
	ssePost, sseInject := cfSSEMessageShape(root)
	var listSnaps, listResults, listPools []cfListFact
	for _, hf := range [][2]string{{"promptManager.handleListPrompts", "promptListFilter"}, {"resourceManager.handleListResources", "resourceListFilter"}, {"toolManager.handleListTools", "toolListFilter"}} {
		sn, rs, ps := c.cfListMemory(hf[0], hf[1])
		listSnaps = append(listSnaps, sn)
		listResults = append(listResults, rs...)
		listPools = append(listPools, ps...)
	}

	var b strings.Builder
	b.WriteString(header)
	b.WriteString("namespace Mcp.Gen\n\n")
	b.WriteString("/-- Struct fields and package-level variables of package mcp whose declared type can hold a `context.Context` (ctx), a `Session` (session) or a notification sender (sender): (target, kind). -/\n")
	b.WriteString("def cfCarrierFields : List (List Nat × List Nat) := [\n")
	for i, f := range fields {
		sep := ","
		if i == len(fields)-1 {
			sep = ""
		}
		fmt.Fprintf(&b, "  %s%s  -- %s : %s\n", cfTuple(f.target, f.kind), sep, f.target, f.kind)
	}
	b.WriteString("]\n\n")
	b.WriteString("/-- Every store of a ctx / session / sender value into a struct field or package-level variable: (function, target, kind, expression). -/\n")
	b.WriteString("def cfStores : List (List Nat × List Nat × List Nat × List Nat) := [\n")
	for i, s := range stores {
		sep := ","
		if i == len(stores)-1 {
			sep = ""
		}
		fmt.Fprintf(&b, "  %s%s  -- %s: %s <- %s  (%s, %s)\n", cfTuple(s.fn, s.target, s.kind, s.expr), sep, s.fn, s.target, cfCmt(s.expr), s.kind, s.how)
	}
	b.WriteString("]\n\n")
	b.WriteString("/-- Every context argument passed by a call in the server-side files: (function, callee, argument, class). class = param | derived | request | background | field:T.f | global:v | opaque:f | unknown. -/\n")
	b.WriteString("def cfCtxArgs : List (List Nat × List Nat × List Nat × List Nat) := [\n")
	for i, a := range args {
		sep := ","
		if i == len(args)-1 {
			sep = ""
		}
		fmt.Fprintf(&b, "  %s%s  -- %s: %s(… %s …) %s\n", cfTuple(a.fn, a.callee, a.arg, a.class), sep, a.fn, cfCmt(a.callee), cfCmt(a.arg), a.class)
	}
	b.WriteString("]\n\n")
	b.WriteString("/-- The calls of the list filters: (function, filter field, context argument, class). -/\n")
	b.WriteString("def cfFilterCalls : List (List Nat × List Nat × List Nat × List Nat) := [\n")
	for i, a := range filterCalls {
		sep := ","
		if i == len(filterCalls)-1 {
			sep = ""
		}
		fmt.Fprintf(&b, "  %s%s  -- %s: %s(%s, …) %s\n", cfTuple(a.fn, a.callee, a.arg, a.class), sep, a.fn, a.callee, cfCmt(a.arg), a.class)
	}
	b.WriteString("]\n\n")
	b.WriteString("/-- Writes to struct fields / package-level variables inside handleListTools / handleListPrompts / handleListResources: (function, target). -/\n")
	b.WriteString("def cfListFieldWrites : List (List Nat × List Nat) := [\n")
	for i, s := range listWrites {
		sep := ","
		if i == len(listWrites)-1 {
			sep = ""
		}
		fmt.Fprintf(&b, "  %s%s  -- %s: %s\n", cfTuple(s.fn, s.target), sep, s.fn, cfCmt(s.expr))
	}
	b.WriteString("]\n\n")
	b.WriteString("/-- Where the slice a list filter receives comes from: (handler, getter, verdict). fresh = the getter returns memory it made in that call and keeps no reference to it. -/\n")
	b.WriteString("def cfListSnapshots : List (List Nat × List Nat × List Nat) := [\n")
	for i, f := range listSnaps {
		sep := ","
		if i == len(listSnaps)-1 {
			sep = ""
		}
		fmt.Fprintf(&b, "  %s%s  -- %s <- %s: %s\n", cfTuple(f.a, f.b, f.verdict), sep, f.a, f.b, cfCmt(f.verdict))
	}
	b.WriteString("]\n\n")
	b.WriteString("/-- The slices put into the list result objects: (handler, result field, verdict). fresh = made inside that call of the handler. -/\n")
	b.WriteString("def cfListResults : List (List Nat × List Nat × List Nat) := [\n")
	for i, f := range listResults {
		sep := ","
		if i == len(listResults)-1 {
			sep = ""
		}
		fmt.Fprintf(&b, "  %s%s  -- %s: %s %s\n", cfTuple(f.a, f.b, f.verdict), sep, f.a, f.b, cfCmt(f.verdict))
	}
	b.WriteString("]\n\n")
	b.WriteString("/-- Uses of a sync.Pool inside the list handlers and their getters: (function, expression). -/\n")
	b.WriteString("def cfListPoolUses : List (List Nat × List Nat) := [\n")
	for i, f := range listPools {
		sep := ","
		if i == len(listPools)-1 {
			sep = ""
		}
		fmt.Fprintf(&b, "  %s%s  -- %s: %s\n", cfTuple(f.a, f.b), sep, f.a, cfCmt(f.b))
	}
	b.WriteString("]\n\n")
	fmt.Fprintf(&b, "/-- `handlePost` folds `h.httpContextFuncs` over the request context first-registered-first (shape found: %s). -/\ndef cfPostFoldAscending : Bool := %s\n", shape, leanBool(shape == "ascending"))
	fmt.Fprintf(&b, "def cfPostFoldDescending : Bool := %s\n", leanBool(shape == "descending"))
	fmt.Fprintf(&b, "/-- the folded context (assigned nowhere else) is what handlePostRequest / handlePostNotification / handlePostResponse receive. -/\ndef cfPostPassesEnriched : Bool := %s\n", leanBool(passes))
	regOK := len(writers) == 2 &&
		writers[0] == "WithHTTPContextFunc: s.config.httpContextFuncs=append(s.config.httpContextFuncs,fn)" &&
		writers[1] == "withTransportHTTPContextFuncs: h.httpContextFuncs=funcs"
	if fd, _ := root.funcDecl("Server.initComponents"); fd == nil ||
		strings.Count(mwSquash(root.mwCodeText(fd.Body)), "withTransportHTTPContextFuncs(s.config.httpContextFuncs)") != 1 {
		regOK = false
	}
	fmt.Fprintf(&b, "/-- `WithHTTPContextFunc` appends, `initComponents` hands the slice to the transport unchanged, nothing else writes it. Writers found: %s -/\ndef cfCtxFuncsRegisteredInOrder : Bool := %s\n", cfCmt(strings.Join(writers, " | ")), leanBool(regOK))
	sseSingle := len(sseWriters) == 1 && sseWriters[0] == "WithSSEContextFunc: s.contextFunc=fn"
	fmt.Fprintf(&b, "/-- legacy SSE keeps ONE context function (`WithSSEContextFunc` overwrites: the last option wins). Writers found: %s -/\ndef cfSSESingleCtxFunc : Bool := %s\n", cfCmt(strings.Join(sseWriters, " | ")), leanBool(sseSingle))
	fmt.Fprintf(&b, "/-- `SSEServer.handleMessage` applies the context function to the POST it is serving (not to the stream's GET) and passes the result on. -/\ndef cfSSEAppliesToPost : Bool := %s\n", leanBool(ssePost))
	fmt.Fprintf(&b, "/-- `createSessionContext` adds session, server and client session to the context it is given. -/\ndef cfSSEInjects : Bool := %s\n", leanBool(sseInject))
	appends := c.cfFieldAppends()
	b.WriteString("/-- Every `append(F, …)` whose first argument is a struct field or package-level variable: (function, target, verdict). assign-back = the result is assigned to that same field (`F = append(F, …)`, the registration idiom); aliased = the result goes anywhere else — when F has spare capacity the new element is written into F's backing array, shared by every concurrent caller. -/\n")
	b.WriteString("def cfFieldAppends : List (List Nat × List Nat × List Nat) := [\n")
	for i, a := range appends {
		sep := ","
		if i == len(appends)-1 {
			sep = ""
		}
		fmt.Fprintf(&b, "  %s%s  -- %s: append(%s, …) %s\n", cfTuple(a[0], a[1], a[2]), sep, a[0], a[1], a[2])
	}
	b.WriteString("]\n\n")
	b.WriteString("/-- How the session a request is processed with is found: (function, verdict). delegates = the adapter has no state of its own and returns the manager's answer; guarded-map-read = one read of the id-keyed map under the manager's lock, returned as read; own-header = handlePost looks up under the request's own Mcp-Session-Id header and hands on exactly that session; keyed-load = one sync.Map Load under the request's own sessionId parameter. -/\n")
	b.WriteString("def cfSessionLookups : List (List Nat × List Nat) := [\n")
	lookups := cfSessionLookups(root)
	for i, l := range lookups {
		sep := ","
		if i == len(lookups)-1 {
			sep = ""
		}
		fmt.Fprintf(&b, "  %s%s  -- %s: %s\n", cfTuple(l[0], l[1]), sep, l[0], cfCmt(l[1]))
	}
	b.WriteString("]\n")
	b.WriteString("\nend Mcp.Gen\n")
	writeIfChanged("CtxFlow.lean", b.String())
}

// cfLocalRoot: the written selector's root identifier is a variable declared inside fd (not a parameter / receiver).
func cfLocalRoot(c *cfPkg, e ast.Expr, fd *ast.FuncDecl) bool {
	for {
		switch x := e.(type) {
		case *ast.ParenExpr:
			e = x.X
			continue
		case *ast.IndexExpr:
			e = x.X
			continue
		case *ast.StarExpr:
			e = x.X
			continue
		case *ast.SelectorExpr:
			e = x.X
			continue
		}
		break
	}
	id, ok := e.(*ast.Ident)
	if !ok {
		return false
	}
	o := c.info.Uses[id]
	if o == nil {
		return false
	}
	if c.pkg != nil && o.Parent() == c.pkg.Scope() {
		return false
	}
	if o.Pos() < fd.Body.Pos() || o.Pos() > fd.Body.End() {
		return false // parameter or receiver
	}
	// a local that aliases something reachable from outside (x := m.field) is not tracked: only values built here
	return true
}

// ---- session lookup: which session object a request is processed with
//
// cfSessionLookups: (function, verdict) for every step between "the id the request carries" and "the session object
// put into its context". The good verdicts say: the session is found by ONE read of the id-keyed registry under its
// lock (or one sync.Map Load), under the id of the request being served, and nothing is remembered outside that
// registry (no "last lookup" cache, no per-server current session). Anything else is "unknown: …".

// cfRecvName: the receiver identifier of a method.
func cfRecvName(fd *ast.FuncDecl) string {
	if fd == nil || fd.Recv == nil || len(fd.Recv.List) != 1 || len(fd.Recv.List[0].Names) != 1 {
		return ""
	}
	return fd.Recv.List[0].Names[0].Name
}

// cfRecvFields: the set of fields selected on the receiver inside the body (recv.X).
func cfRecvFields(fd *ast.FuncDecl, recv string) []string {
	set := map[string]bool{}
	ast.Inspect(fd.Body, func(n ast.Node) bool {
		if sel, ok := n.(*ast.SelectorExpr); ok {
			if id, ok := sel.X.(*ast.Ident); ok && id.Name == recv {
				set[sel.Sel.Name] = true
			}
		}
		return true
	})
	var l []string
	for k := range set {
		l = append(l, k)
	}
	sort.Strings(l)
	return l
}

// cfDefsOf: the right-hand sides assigned to identifier `name` anywhere in the body (":=", "=", var), as squashed text;
// for a multi-value assignment from one call the text is "<i>#<call>".
func cfDefsOf(p *pkgSrc, body ast.Node, name string) []string {
	var out []string
	ast.Inspect(body, func(n ast.Node) bool {
		switch x := n.(type) {
		case *ast.AssignStmt:
			for i, l := range x.Lhs {
				if id, ok := l.(*ast.Ident); ok && id.Name == name {
					if len(x.Rhs) == len(x.Lhs) {
						out = append(out, mwSquash(p.mwCodeText(x.Rhs[i])))
					} else if len(x.Rhs) == 1 {
						out = append(out, fmt.Sprintf("%d#%s", i, mwSquash(p.mwCodeText(x.Rhs[0]))))
					}
				}
			}
		case *ast.ValueSpec:
			for i, id := range x.Names {
				if id.Name == name {
					if i < len(x.Values) {
						out = append(out, mwSquash(p.mwCodeText(x.Values[i])))
					} else if len(x.Values) == 0 {
						out = append(out, "zero")
					}
				}
			}
		case *ast.RangeStmt:
			for _, e := range []ast.Expr{x.Key, x.Value} {
				if id, ok := e.(*ast.Ident); ok && id.Name == name {
					out = append(out, "range#"+mwSquash(p.mwCodeText(x.X)))
				}
			}
		case *ast.IncDecStmt:
			if id, ok := x.X.(*ast.Ident); ok && id.Name == name {
				out = append(out, "incdec")
			}
		case *ast.UnaryExpr:
			if id, ok := x.X.(*ast.Ident); ok && id.Name == name && x.Op == token.AND {
				out = append(out, "addr-taken")
			}
		}
		return true
	})
	sort.Strings(out)
	return out
}

func cfStructFieldNames(p *pkgSrc, typ string) (names []string, found bool) {
	for _, fn := range p.sortedFiles() {
		for _, d := range p.files[fn].Decls {
			gd, ok := d.(*ast.GenDecl)
			if !ok || gd.Tok != token.TYPE {
				continue
			}
			for _, sp := range gd.Specs {
				ts := sp.(*ast.TypeSpec)
				st, ok := ts.Type.(*ast.StructType)
				if !ok || ts.Name.Name != typ {
					continue
				}
				found = true
				for _, f := range st.Fields.List {
					t := mwSquash(p.text(f.Type))
					if len(f.Names) == 0 {
						names = append(names, "embedded:"+t)
					}
					for _, n := range f.Names {
						names = append(names, n.Name+":"+t)
					}
				}
			}
		}
	}
	sort.Strings(names)
	return
}

func cfParamNames(fd *ast.FuncDecl) []string {
	var l []string
	for _, f := range fd.Type.Params.List {
		for _, n := range f.Names {
			l = append(l, n.Name)
		}
	}
	return l
}

// cfAdapterLookup: sessionManagerAdapter.getSession must be `return a.manager.GetSession(id)` and the adapter must have
// no field besides the manager.
func cfAdapterLookup(root *pkgSrc) string {
	fields, ok := cfStructFieldNames(root, "sessionManagerAdapter")
	if !ok {
		return "unknown: type sessionManagerAdapter not found"
	}
	if strings.Join(fields, " ") != "manager:*session.SessionManager" {
		return "unknown: adapter fields " + cfShort(strings.Join(fields, " "))
	}
	fd, _ := root.funcDecl("sessionManagerAdapter.getSession")
	recv := cfRecvName(fd)
	if fd == nil || fd.Body == nil || recv == "" {
		return "unknown: sessionManagerAdapter.getSession not found"
	}
	ps := cfParamNames(fd)
	if len(ps) != 1 {
		return "unknown: parameters"
	}
	if got := mwSquash(root.mwCodeText(fd.Body)); got != "{return"+recv+".manager.GetSession("+ps[0]+")}" {
		return "unknown: body " + cfShort(got)
	}
	return "delegates"
}

// cfManagerLookup: session.SessionManager.GetSession takes the manager's lock first, reads the map once under the id it
// was given, touches no other field, and returns what that read gave.
func cfManagerLookup(sp *pkgSrc) string {
	fields, ok := cfStructFieldNames(sp, "SessionManager")
	if !ok {
		return "unknown: type SessionManager not found"
	}
	holders := 0
	for _, f := range fields {
		t := f[strings.Index(f, ":")+1:]
		if strings.Contains(t, "Session") {
			holders++
			if f != "sessions:map[string]*Session" {
				return "unknown: manager field " + cfShort(f)
			}
		}
		if strings.Contains(t, "atomic.") || strings.Contains(t, "interface{}") || t == "any" || strings.Contains(t, "sync.Map") {
			return "unknown: manager field " + cfShort(f)
		}
	}
	if holders != 1 {
		return "unknown: manager fields " + cfShort(strings.Join(fields, " "))
	}
	fd, _ := sp.funcDecl("SessionManager.GetSession")
	recv := cfRecvName(fd)
	if fd == nil || fd.Body == nil || recv == "" {
		return "unknown: SessionManager.GetSession not found"
	}
	ps := cfParamNames(fd)
	if len(ps) != 1 || len(fd.Body.List) < 3 {
		return "unknown: shape"
	}
	id := ps[0]
	s0, s1 := mwSquash(sp.mwCodeText(fd.Body.List[0])), mwSquash(sp.mwCodeText(fd.Body.List[1]))
	okLock := (s0 == recv+".mu.RLock()" && s1 == "defer"+recv+".mu.RUnlock()") || (s0 == recv+".mu.Lock()" && s1 == "defer"+recv+".mu.Unlock()")
	if !okLock {
		return "unknown: not under the manager's lock: " + cfShort(s0+" "+s1)
	}
	if got := strings.Join(cfRecvFields(fd, recv), ","); got != "mu,sessions" {
		return "unknown: touches " + got
	}
	// the single read of the map
	reads, val, okv := 0, "", ""
	shape := true
	ast.Inspect(fd.Body, func(n ast.Node) bool {
		switch x := n.(type) {
		case *ast.AssignStmt:
			if len(x.Rhs) == 1 && mwSquash(sp.text(x.Rhs[0])) == recv+".sessions["+id+"]" && len(x.Lhs) == 2 && x.Tok == token.DEFINE {
				reads++
				val, okv = mwSquash(sp.text(x.Lhs[0])), mwSquash(sp.text(x.Lhs[1]))
				return false
			}
		case *ast.SelectorExpr:
			if mwSquash(sp.text(x)) == recv+".sessions" {
				shape = false // a use of the map that is not the keyed read
			}
		case *ast.FuncLit, *ast.GoStmt:
			shape = false
		}
		return true
	})
	if reads != 1 || !shape || val == "" || val == "_" {
		return "unknown: map read shape"
	}
	if d := cfDefsOf(sp, fd.Body, val); len(d) != 1 {
		return "unknown: " + val + " reassigned"
	}
	if d := cfDefsOf(sp, fd.Body, okv); len(d) != 1 {
		return "unknown: " + okv + " reassigned"
	}
	nret := 0
	good := true
	ast.Inspect(fd.Body, func(n ast.Node) bool {
		if r, ok := n.(*ast.ReturnStmt); ok {
			nret++
			if len(r.Results) != 2 {
				good = false
				return true
			}
			a, b := mwSquash(sp.text(r.Results[0])), mwSquash(sp.text(r.Results[1]))
			if !((a == val && b == okv) || (a == "nil" && b == "false")) {
				good = false
			}
		}
		return true
	})
	if nret == 0 || !good {
		return "unknown: returns something else than the map read"
	}
	return "guarded-map-read"
}

// cfPostLookup: handlePost processes a request with the session it looked up under the request's OWN Mcp-Session-Id
// header (or a new / temporary one), and hands exactly that variable on.
func cfPostLookup(root *pkgSrc) string {
	fd, _ := root.funcDecl("httpServerHandler.handlePost")
	recv := cfRecvName(fd)
	if fd == nil || fd.Body == nil || recv == "" {
		return "unknown: handlePost not found"
	}
	req := ""
	for _, f := range fd.Type.Params.List {
		if mwSquash(root.text(f.Type)) == "*http.Request" && len(f.Names) == 1 {
			req = f.Names[0].Name
		}
	}
	if req == "" {
		return "unknown: request parameter"
	}
	// the lookups
	var keys []string
	ast.Inspect(fd.Body, func(n ast.Node) bool {
		if call, ok := n.(*ast.CallExpr); ok {
			if mwSquash(root.text(call.Fun)) == recv+".sessionManager.getSession" && len(call.Args) == 1 {
				keys = append(keys, mwSquash(root.text(call.Args[0])))
			}
		}
		return true
	})
	if len(keys) != 1 {
		return fmt.Sprintf("unknown: %d getSession calls", len(keys))
	}
	if d := cfDefsOf(root, fd.Body, keys[0]); len(d) != 1 || d[0] != req+".Header.Get(httputil.SessionIDHeader)" {
		return "unknown: lookup key " + cfShort(keys[0]+" := "+strings.Join(d, " | "))
	}
	// the variable handed on
	sessVar := ""
	for _, callee := range []string{"handlePostRequest", "handlePostNotification", "handlePostResponse"} {
		n := 0
		bad := false
		ast.Inspect(fd.Body, func(nd ast.Node) bool {
			if call, ok := nd.(*ast.CallExpr); ok && mwSquash(root.text(call.Fun)) == recv+"."+callee {
				n++
				if len(call.Args) == 0 {
					bad = true
					return true
				}
				last := mwSquash(root.text(call.Args[len(call.Args)-1]))
				if sessVar == "" {
					sessVar = last
				} else if sessVar != last {
					bad = true
				}
			}
			return true
		})
		if n != 1 || bad {
			return "unknown: " + callee + " call shape"
		}
	}
	defs := cfDefsOf(root, fd.Body, sessVar)
	want := []string{"0#" + recv + ".sessionManager.getSession(" + keys[0] + ")", recv + ".sessionManager.createSession()", "newSession()", "zero"}
	sort.Strings(want)
	if strings.Join(defs, " | ") != strings.Join(want, " | ") {
		return "unknown: session variable " + cfShort(sessVar+" := "+strings.Join(defs, " | "))
	}
	return "own-header"
}

// cfSSELookup: legacy SSE finds the session by ONE sync.Map Load under the request's own sessionId query parameter.
func cfSSELookup(root *pkgSrc) string {
	fd, _ := root.funcDecl("SSEServer.getSessionFromRequest")
	recv := cfRecvName(fd)
	if fd == nil || fd.Body == nil || recv == "" {
		return "unknown: getSessionFromRequest not found"
	}
	ps := cfParamNames(fd)
	if len(ps) != 1 {
		return "unknown: parameters"
	}
	req := ps[0]
	if got := strings.Join(cfRecvFields(fd, recv), ","); got != "sessions" {
		return "unknown: touches " + got
	}
	var loads []string
	uses := 0
	ast.Inspect(fd.Body, func(n ast.Node) bool {
		switch x := n.(type) {
		case *ast.CallExpr:
			if mwSquash(root.text(x.Fun)) == recv+".sessions.Load" && len(x.Args) == 1 {
				loads = append(loads, mwSquash(root.text(x.Args[0])))
			}
		case *ast.SelectorExpr:
			if mwSquash(root.text(x)) == recv+".sessions" {
				uses++
			}
		}
		return true
	})
	if len(loads) != 1 || uses != 1 {
		return fmt.Sprintf("unknown: %d loads, %d uses of the registry", len(loads), uses)
	}
	key := loads[0]
	kd := cfDefsOf(root, fd.Body, key)
	if len(kd) != 1 || !strings.HasSuffix(kd[0], `.Get("sessionId")`) {
		return "unknown: lookup key " + cfShort(key+" := "+strings.Join(kd, " | "))
	}
	q := strings.TrimSuffix(kd[0], `.Get("sessionId")`)
	if q != req+".URL.Query()" {
		if qd := cfDefsOf(root, fd.Body, q); len(qd) != 1 || qd[0] != req+".URL.Query()" {
			return "unknown: query source " + cfShort(q)
		}
	}
	// every non-nil session returned is the type assertion of the loaded value
	good, nret := true, 0
	why := ""
	ast.Inspect(fd.Body, func(n ast.Node) bool {
		r, ok := n.(*ast.ReturnStmt)
		if !ok {
			return true
		}
		nret++
		if len(r.Results) != 2 {
			good = false
			return true
		}
		a := mwSquash(root.text(r.Results[0]))
		if a == "nil" {
			return true
		}
		d := cfDefsOf(root, fd.Body, a)
		if len(d) != 1 || !strings.HasPrefix(d[0], "0#") || !strings.HasSuffix(d[0], ".(*sseSession)") {
			good, why = false, a+" := "+strings.Join(d, " | ")
			return true
		}
		v := strings.TrimSuffix(strings.TrimPrefix(d[0], "0#"), ".(*sseSession)")
		if vd := cfDefsOf(root, fd.Body, v); len(vd) != 1 || vd[0] != "0#"+recv+".sessions.Load("+key+")" {
			good, why = false, v+" := "+strings.Join(vd, " | ")
		}
		return true
	})
	if !good || nret == 0 {
		return "unknown: returns " + cfShort(why)
	}
	return "keyed-load"
}

func cfSessionLookups(root *pkgSrc) [][2]string {
	sp := loadDir(filepath.Join(*repo, "internal", "session"))
	return [][2]string{
		{"SSEServer.getSessionFromRequest", cfSSELookup(root)},
		{"httpServerHandler.handlePost", cfPostLookup(root)},
		{"session.SessionManager.GetSession", cfManagerLookup(sp)},
		{"sessionManagerAdapter.getSession", cfAdapterLookup(root)},
	}
}

// cfFieldAppends: every append whose first argument is a struct field / package-level variable, and what becomes
// of the result.
func (c *cfPkg) cfFieldAppends() [][3]string {
	var out [][3]string
	isAppend := func(e ast.Expr) (*ast.CallExpr, string) {
		call, ok := e.(*ast.CallExpr)
		if !ok || len(call.Args) == 0 {
			return nil, ""
		}
		id, ok := call.Fun.(*ast.Ident)
		if !ok || id.Name != "append" {
			return nil, ""
		}
		if _, isBuiltin := c.info.Uses[id].(*types.Builtin); !isBuiltin && c.info.Uses[id] != nil {
			return nil, ""
		}
		// a full slice expression F[:n:n] cannot alias: skip it
		if se, ok := call.Args[0].(*ast.SliceExpr); ok && se.Slice3 {
			return nil, ""
		}
		t, _ := c.cfTarget(call.Args[0])
		return call, t
	}
	for _, fname := range c.root.sortedFiles() {
		for _, d := range c.root.files[fname].Decls {
			fd, ok := d.(*ast.FuncDecl)
			if !ok || fd.Body == nil {
				continue
			}
			back := map[*ast.CallExpr]bool{}
			ast.Inspect(fd.Body, func(n ast.Node) bool {
				as, ok := n.(*ast.AssignStmt)
				if !ok || len(as.Lhs) != len(as.Rhs) {
					return true
				}
				for i, r := range as.Rhs {
					if call, t := isAppend(r); call != nil && t != "" && as.Tok == token.ASSIGN {
						// F = append(F, …) and the delete idiom F = append(F[:i], F[i+1:]…): the result replaces F itself
						first := call.Args[0]
						if se, ok := first.(*ast.SliceExpr); ok {
							first = se.X
						}
						if mwSquash(c.root.text(as.Lhs[i])) == mwSquash(c.root.text(first)) {
							back[call] = true
						}
					}
				}
				return true
			})
			ast.Inspect(fd.Body, func(n ast.Node) bool {
				e, ok := n.(ast.Expr)
				if !ok {
					return true
				}
				if call, t := isAppend(e); call != nil && t != "" {
					v := "aliased"
					if back[call] {
						v = "assign-back"
					}
					out = append(out, [3]string{funcName(fd), t, v})
				}
				return true
			})
		}
	}
	sort.Slice(out, func(i, j int) bool {
		for k := 0; k < 3; k++ {
			if out[i][k] != out[j][k] {
				return out[i][k] < out[j][k]
			}
		}
		return false
	})
	var u [][3]string
	for i, a := range out {
		if i > 0 && a == out[i-1] {
			continue
		}
		u = append(u, a)
	}
	return u
}
