package main

// T-gen family ReqPaths (property C19): one record per function of package mcp that builds an http.Request.
// Purely syntactic and conservative: every construct that is not recognised in exactly the shape the current
// source uses is emitted as `unknown` / `false`, which the Lean predicate `Mcp.ReqPaths.compliant` rejects.

import (
	"fmt"
	"go/ast"
	"go/token"
	"sort"
	"strings"
)

func init() { generators = append(generators, genReqPaths) }

type rpRecord struct {
	client, fn                                  string
	verb, url, ctx, via                         string
	headers, session, errRet, ordered, usesClnt bool
	before                                      int
}

// parent links for the statements of one function
type rpParents map[ast.Node]ast.Node

func rpParentMap(root ast.Node) rpParents {
	pm := rpParents{}
	var stack []ast.Node
	ast.Inspect(root, func(n ast.Node) bool {
		if n == nil {
			stack = stack[:len(stack)-1]
			return true
		}
		if len(stack) > 0 {
			pm[n] = stack[len(stack)-1]
		}
		stack = append(stack, n)
		return true
	})
	return pm
}

func rpSquash(s string) string { return strings.Join(strings.Fields(s), "") }

func rpIsHTTPNewRequest(c *ast.CallExpr) (withCtx, ok bool) {
	sel, ok2 := c.Fun.(*ast.SelectorExpr)
	if !ok2 {
		return false, false
	}
	if id, ok3 := sel.X.(*ast.Ident); !ok3 || id.Name != "http" {
		return false, false
	}
	switch sel.Sel.Name {
	case "NewRequestWithContext":
		return true, true
	case "NewRequest":
		return false, true
	}
	return false, false
}

// rpStmtChain returns the ancestors of n up to (excluding) the function body, innermost first.
func rpStmtChain(pm rpParents, n ast.Node, body *ast.BlockStmt) []ast.Node {
	var out []ast.Node
	for p := pm[n]; p != nil && p != ast.Node(body); p = pm[p] {
		out = append(out, p)
	}
	return out
}

// enclosing control statements (if/for/range/switch/select/func literal/go/defer) of n inside body
func rpControls(pm rpParents, n ast.Node, body *ast.BlockStmt) []ast.Node {
	var out []ast.Node
	for _, a := range rpStmtChain(pm, n, body) {
		switch a.(type) {
		case *ast.IfStmt, *ast.ForStmt, *ast.RangeStmt, *ast.SwitchStmt, *ast.TypeSwitchStmt, *ast.SelectStmt,
			*ast.FuncLit, *ast.GoStmt, *ast.DeferStmt, *ast.CaseClause, *ast.CommClause:
			out = append(out, a)
		}
	}
	return out
}

func rpCtxParams(fd *ast.FuncDecl) map[string]bool {
	out := map[string]bool{}
	if fd.Type.Params == nil {
		return out
	}
	for _, f := range fd.Type.Params.List {
		if sel, ok := f.Type.(*ast.SelectorExpr); ok {
			if id, ok := sel.X.(*ast.Ident); ok && id.Name == "context" && sel.Sel.Name == "Context" {
				for _, n := range f.Names {
					out[n.Name] = true
				}
			}
		}
	}
	return out
}

// definition expression of a local identifier (first `name, … := expr` / `name := expr` in the body)
func rpLocalDef(fd *ast.FuncDecl, name string) ast.Expr {
	def, n := rpLocalDefN(fd, name)
	if n != 1 {
		return nil // never or several times assigned: not understood
	}
	return def
}

// rpAllDefs returns every right-hand side assigned to the identifier in the body.
func rpAllDefs(fd *ast.FuncDecl, name string) []ast.Expr {
	var defs []ast.Expr
	ast.Inspect(fd.Body, func(x ast.Node) bool {
		as, ok := x.(*ast.AssignStmt)
		if !ok {
			return true
		}
		for i, l := range as.Lhs {
			if id, ok := l.(*ast.Ident); ok && id.Name == name {
				if len(as.Rhs) == 1 {
					defs = append(defs, as.Rhs[0])
				} else if i < len(as.Rhs) {
					defs = append(defs, as.Rhs[i])
				}
			}
		}
		return true
	})
	return defs
}

// rpAssigned reports whether the identifier is ever on the left of an assignment in the body.
func rpAssigned(fd *ast.FuncDecl, name string) bool {
	_, n := rpLocalDefN(fd, name)
	return n > 0
}

func rpLocalDefN(fd *ast.FuncDecl, name string) (ast.Expr, int) {
	var def ast.Expr
	n := 0
	ast.Inspect(fd.Body, func(x ast.Node) bool {
		as, ok := x.(*ast.AssignStmt)
		if !ok {
			return true
		}
		for i, l := range as.Lhs {
			if id, ok := l.(*ast.Ident); ok && id.Name == name {
				n++
				if len(as.Rhs) == 1 {
					def = as.Rhs[0]
				} else if i < len(as.Rhs) {
					def = as.Rhs[i]
				}
			}
		}
		return true
	})
	return def, n
}

// rpGetSSEChain verifies that the context connectGetSSE receives is derived from the handshake's:
// Client.Initialize: `go t.establishGetSSEConnection(ctx)` with its own ctx parameter,
// establishGetSSEConnection(ctx): `t.establishGetSSE(ctx)`,
// establishGetSSE(parentCtx): `ctx, cancel := context.WithCancel(icontext.WithoutCancel(parentCtx))` … `t.connectGetSSE(ctx)`.
func rpGetSSEChain(root *pkgSrc) bool {
	ini, _ := root.funcDecl("Client.Initialize")
	est, _ := root.funcDecl("streamableHTTPClientTransport.establishGetSSEConnection")
	get, _ := root.funcDecl("streamableHTTPClientTransport.establishGetSSE")
	if ini == nil || est == nil || get == nil {
		return false
	}
	onlyCallWithParam := func(fd *ast.FuncDecl, callee string) bool {
		ps := rpCtxParams(fd)
		found, okAll := 0, true
		ast.Inspect(fd.Body, func(n ast.Node) bool {
			c, ok := n.(*ast.CallExpr)
			if !ok {
				return true
			}
			if sel, ok := c.Fun.(*ast.SelectorExpr); ok && sel.Sel.Name == callee {
				found++
				if len(c.Args) != 1 {
					okAll = false
					return true
				}
				id, ok := c.Args[0].(*ast.Ident)
				if !ok || !ps[id.Name] || rpAssigned(fd, id.Name) {
					okAll = false
				}
			}
			return true
		})
		return found >= 1 && okAll
	}
	if !onlyCallWithParam(ini, "establishGetSSEConnection") || !onlyCallWithParam(est, "establishGetSSE") {
		return false
	}
	// establishGetSSE: every connectGetSSE(x) has x defined as WithCancel(WithoutCancel(<param>))
	ps := rpCtxParams(get)
	found, okAll := 0, true
	ast.Inspect(get.Body, func(n ast.Node) bool {
		c, ok := n.(*ast.CallExpr)
		if !ok {
			return true
		}
		if sel, ok := c.Fun.(*ast.SelectorExpr); ok && sel.Sel.Name == "connectGetSSE" {
			found++
			id, ok := c.Args[0].(*ast.Ident)
			if len(c.Args) != 1 || !ok || !rpDerivedDetached(root, get, id.Name, ps) {
				okAll = false
			}
		}
		return true
	})
	if found != 1 || !okAll {
		return false
	}
	// and no other function of the package calls connectGetSSE / establishGetSSE with something else
	for _, name := range []string{"connectGetSSE", "establishGetSSE"} {
		for _, fn := range root.sortedFiles() {
			for _, d := range root.files[fn].Decls {
				fd, ok := d.(*ast.FuncDecl)
				if !ok || fd.Body == nil {
					continue
				}
				callers := false
				ast.Inspect(fd.Body, func(n ast.Node) bool {
					if c, ok := n.(*ast.CallExpr); ok {
						if sel, ok := c.Fun.(*ast.SelectorExpr); ok && sel.Sel.Name == name {
							callers = true
						}
					}
					return true
				})
				if callers {
					want := map[string]string{"connectGetSSE": "streamableHTTPClientTransport.establishGetSSE", "establishGetSSE": "streamableHTTPClientTransport.establishGetSSEConnection"}[name]
					if funcName(fd) != want {
						return false
					}
				}
			}
		}
	}
	return true
}

// rpDerivedDetached: local `name` is defined once as context.WithCancel(icontext.WithoutCancel(P)) (or
// context.WithoutCancel) with P a context parameter of fd.
func rpDerivedDetached(root *pkgSrc, fd *ast.FuncDecl, name string, params map[string]bool) bool {
	def := rpLocalDef(fd, name)
	if def == nil {
		return false
	}
	s := rpSquash(root.text(def))
	for p := range params {
		if s == "context.WithCancel(icontext.WithoutCancel("+p+"))" || s == "context.WithCancel(context.WithoutCancel("+p+"))" {
			return true
		}
	}
	return false
}

// rpCalledFromGoroutine: some call site of method `name` in the function's own file lies inside a go statement.
func rpCalledFromGoroutine(root *pkgSrc, file, name string) bool {
	res := false
	for _, fn := range []string{file} {
		f := root.files[fn]
		if f == nil {
			continue
		}
		ast.Inspect(f, func(n ast.Node) bool {
			g, ok := n.(*ast.GoStmt)
			if !ok {
				return true
			}
			ast.Inspect(g, func(m ast.Node) bool {
				if c, ok := m.(*ast.CallExpr); ok {
					if sel, ok := c.Fun.(*ast.SelectorExpr); ok && sel.Sel.Name == name {
						res = true
					}
				}
				return true
			})
			return true
		})
	}
	return res
}

// rpSSEBaseOverride: NewSSEClient writes the custom path into the URL that becomes baseURL.
func rpSSEBaseOverride(root *pkgSrc) bool {
	fd, _ := root.funcDecl("NewSSEClient")
	if fd == nil {
		return false
	}
	var urlVar string
	ovPos, litPos := token.NoPos, token.NoPos
	ast.Inspect(fd.Body, func(n ast.Node) bool {
		switch x := n.(type) {
		case *ast.IfStmt:
			c := rpSquash(root.text(x.Cond))
			if (c == `config.path!=""` || c == "len(config.path)!=0") && x.Else == nil && x.Init == nil && len(x.Body.List) == 1 {
				if as, ok := x.Body.List[0].(*ast.AssignStmt); ok && len(as.Lhs) == 1 && len(as.Rhs) == 1 && as.Tok == token.ASSIGN {
					l := rpSquash(root.text(as.Lhs[0]))
					if strings.HasSuffix(l, ".Path") && rpSquash(root.text(as.Rhs[0])) == "config.path" {
						urlVar = strings.TrimSuffix(l, ".Path")
						ovPos = x.Pos()
					}
				}
			}
		case *ast.KeyValueExpr:
			if k, ok := x.Key.(*ast.Ident); ok && k.Name == "baseURL" {
				if v, ok := x.Value.(*ast.Ident); ok && urlVar != "" && v.Name == urlVar {
					litPos = x.Pos()
				} else {
					litPos = token.NoPos
					urlVar = "\x00" // a different expression: not understood
				}
			}
		}
		return true
	})
	if ovPos == token.NoPos || litPos == token.NoPos || ovPos > litPos {
		return false
	}
	// the if statement must be a top-level statement of the function (unconditional)
	for _, st := range fd.Body.List {
		if st.Pos() == ovPos {
			return true
		}
	}
	return false
}

func rpAnalyse(root *pkgSrc, fd *ast.FuncDecl, file string) rpRecord {
	r := rpRecord{fn: fd.Name.Name, verb: "unknown", url: "unknown", ctx: "none", via: "unknown"}
	switch file {
	case "streamable_client.go":
		r.client = "streamable"
	case "sse_client.go":
		r.client = "sse"
	default:
		r.client = "other"
	}
	pm := rpParentMap(fd.Body)
	recv := ""
	if fd.Recv != nil && len(fd.Recv.List) == 1 && len(fd.Recv.List[0].Names) == 1 {
		recv = fd.Recv.List[0].Names[0].Name
	}
	// ---- the request construction
	var newCalls []*ast.CallExpr
	ast.Inspect(fd.Body, func(n ast.Node) bool {
		if c, ok := n.(*ast.CallExpr); ok {
			if _, ok := rpIsHTTPNewRequest(c); ok {
				newCalls = append(newCalls, c)
			}
		}
		return true
	})
	if len(newCalls) != 1 || recv == "" {
		return r
	}
	nc := newCalls[0]
	as, ok := pm[nc].(*ast.AssignStmt)
	if !ok || len(as.Lhs) < 1 || len(rpControls(pm, nc, fd.Body)) != 0 {
		return r
	}
	reqID, ok := as.Lhs[0].(*ast.Ident)
	if !ok {
		return r
	}
	req := reqID.Name
	withCtx, _ := rpIsHTTPNewRequest(nc)
	args := nc.Args
	if withCtx {
		if len(args) != 4 {
			return r
		}
		args = args[1:]
	} else if len(args) != 3 {
		return r
	}
	switch rpSquash(root.text(args[0])) {
	case "http.MethodGet", `"GET"`:
		r.verb = "get"
	case "http.MethodPost", `"POST"`:
		r.verb = "post"
	case "http.MethodDelete", `"DELETE"`:
		r.verb = "delete"
	}
	// ---- the send
	type sendSite struct {
		pos                token.Pos
		handle             bool
		clientOK, reqOK    bool
		inNilGuardThen     bool
		inNilGuardElse     bool
		otherwiseCondition bool
	}
	var sends []sendSite
	isReq := func(e ast.Expr) bool {
		s := rpSquash(root.text(e))
		return s == req || strings.HasPrefix(s, req+".WithContext(")
	}
	ast.Inspect(fd.Body, func(n ast.Node) bool {
		c, ok := n.(*ast.CallExpr)
		if !ok {
			return true
		}
		sel, ok := c.Fun.(*ast.SelectorExpr)
		if !ok {
			return true
		}
		x := rpSquash(root.text(sel.X))
		var s *sendSite
		switch {
		case sel.Sel.Name == "Handle" && strings.HasSuffix(x, "httpReqHandler"):
			s = &sendSite{pos: c.Pos(), handle: true}
			if len(c.Args) == 3 {
				s.clientOK = x == recv+".httpReqHandler" && rpSquash(root.text(c.Args[1])) == recv+".httpClient"
				s.reqOK = isReq(c.Args[2])
			}
		case sel.Sel.Name == "Do" || sel.Sel.Name == "RoundTrip":
			s = &sendSite{pos: c.Pos()}
			if len(c.Args) == 1 {
				s.clientOK = x == recv+".httpClient"
				s.reqOK = isReq(c.Args[0])
			}
		case (x == "http" || strings.HasSuffix(x, "httpClient") || strings.HasSuffix(x, "Client")) &&
			(sel.Sel.Name == "Get" || sel.Sel.Name == "Post" || sel.Sel.Name == "Head" || sel.Sel.Name == "PostForm"):
			s = &sendSite{pos: c.Pos()} // a convenience sender: never the built request
		}
		if s == nil {
			return true
		}
		for _, ctl := range rpControls(pm, c, fd.Body) {
			ifs, ok := ctl.(*ast.IfStmt)
			if ok && ifs.Init == nil && rpSquash(root.text(ifs.Cond)) == recv+".httpReqHandler!=nil" && len(rpControls(pm, ifs, fd.Body)) == 0 {
				if c.Pos() >= ifs.Body.Pos() && c.End() <= ifs.Body.End() {
					s.inNilGuardThen = true
				} else {
					s.inNilGuardElse = true
				}
			} else {
				s.otherwiseCondition = true
			}
		}
		sends = append(sends, *s)
		return true
	})
	sendPos := token.NoPos
	switch {
	case len(sends) == 1 && !sends[0].otherwiseCondition && !sends[0].inNilGuardThen && !sends[0].inNilGuardElse && sends[0].reqOK:
		if sends[0].handle {
			r.via = "handler"
		} else {
			r.via = "bare"
		}
		r.usesClnt = sends[0].clientOK
		sendPos = sends[0].pos
	case len(sends) == 2 && sends[0].handle && !sends[1].handle && sends[0].inNilGuardThen && sends[1].inNilGuardElse &&
		!sends[0].otherwiseCondition && !sends[1].otherwiseCondition && sends[0].reqOK && sends[1].reqOK:
		r.via = "handlerNilFallback"
		r.usesClnt = sends[0].clientOK && sends[1].clientOK
		sendPos = sends[0].pos
	}
	if len(sends) > 0 && sendPos == token.NoPos {
		sendPos = sends[0].pos
		for _, s := range sends {
			if s.pos < sendPos {
				sendPos = s.pos
			}
		}
	}
	between := func(p token.Pos) bool { return p > nc.End() && (sendPos == token.NoPos || p < sendPos) }

	// ---- URL
	urlExpr := rpSquash(root.text(args[1]))
	pathAssigns, overrideOK := 0, false
	ast.Inspect(fd.Body, func(n ast.Node) bool {
		a, ok := n.(*ast.AssignStmt)
		if !ok {
			return true
		}
		for _, l := range a.Lhs {
			ls := rpSquash(root.text(l))
			if ls == req+".URL" || strings.HasPrefix(ls, req+".URL.") || ls == req+".Host" {
				pathAssigns++
				ctl := rpControls(pm, a, fd.Body)
				if ls == req+".URL.Path" && len(a.Rhs) == 1 && rpSquash(root.text(a.Rhs[0])) == recv+".path" && a.Tok == token.ASSIGN && len(ctl) == 1 && between(a.Pos()) {
					if ifs, ok := ctl[0].(*ast.IfStmt); ok && ifs.Init == nil && ifs.Else == nil && len(ifs.Body.List) == 1 {
						c := rpSquash(root.text(ifs.Cond))
						if c == "len("+recv+".path)!=0" || c == recv+`.path!=""` || c == "len("+recv+".path)>0" {
							overrideOK = true
						}
					}
				}
			}
		}
		return true
	})
	switch urlExpr {
	case recv + ".serverURL.String()":
		if pathAssigns == 1 && overrideOK {
			r.url = "serverOverride"
		} else if pathAssigns == 0 {
			r.url = "serverPlain"
		}
	case recv + ".endpoint.String()":
		if pathAssigns == 0 {
			r.url = "endpoint"
		}
	case recv + ".baseURL.String()":
		if pathAssigns == 0 {
			if rpSSEBaseOverride(root) {
				r.url = "baseOverride"
			} else {
				r.url = "basePlain"
			}
		}
	}

	// ---- static header loop: for k, vs := range t.httpHeaders { for _, v := range vs { req.Header.Add(k, v) } }
	for _, st := range fd.Body.List {
		rs, ok := st.(*ast.RangeStmt)
		if !ok || rpSquash(root.text(rs.X)) != recv+".httpHeaders" || !between(rs.Pos()) {
			continue
		}
		k, ok1 := rs.Key.(*ast.Ident)
		vs, ok2 := rs.Value.(*ast.Ident)
		if !ok1 || !ok2 || len(rs.Body.List) != 1 {
			continue
		}
		in, ok := rs.Body.List[0].(*ast.RangeStmt)
		if !ok || rpSquash(root.text(in.X)) != vs.Name || in.Value == nil || len(in.Body.List) != 1 {
			continue
		}
		v, ok := in.Value.(*ast.Ident)
		if !ok {
			continue
		}
		if es, ok := in.Body.List[0].(*ast.ExprStmt); ok && rpSquash(root.text(es.X)) == req+".Header.Add("+k.Name+","+v.Name+")" {
			r.headers = true
		}
	}
	// nothing may remove or overwrite headers afterwards (Header.Del / req.Header = …)
	ast.Inspect(fd.Body, func(n ast.Node) bool {
		switch x := n.(type) {
		case *ast.CallExpr:
			if s := rpSquash(root.text(x.Fun)); s == req+".Header.Del" {
				r.headers = false
			}
		case *ast.AssignStmt:
			for _, l := range x.Lhs {
				if rpSquash(root.text(l)) == req+".Header" {
					r.headers = false
				}
			}
		}
		return true
	})

	// ---- session header
	ast.Inspect(fd.Body, func(n ast.Node) bool {
		c, ok := n.(*ast.CallExpr)
		if !ok || rpSquash(root.text(c.Fun)) != req+".Header.Set" || len(c.Args) != 2 {
			return true
		}
		if rpSquash(root.text(c.Args[0])) != "httputil.SessionIDHeader" || rpSquash(root.text(c.Args[1])) != recv+".sessionID" || !between(c.Pos()) {
			return true
		}
		ctl := rpControls(pm, c, fd.Body)
		switch len(ctl) {
		case 0:
			r.session = true
		case 1:
			if ifs, ok := ctl[0].(*ast.IfStmt); ok && ifs.Init == nil && c.Pos() >= ifs.Body.Pos() && c.End() <= ifs.Body.End() {
				cond := rpSquash(root.text(ifs.Cond))
				if cond == recv+`.sessionID!=""` || cond == recv+`.sessionID!=""&&!`+recv+".isStateless" {
					r.session = true
				}
			}
		}
		return true
	})

	// ---- before-request
	params := rpCtxParams(fd)
	type bsite struct {
		call *ast.CallExpr
	}
	var bs []bsite
	ast.Inspect(fd.Body, func(n ast.Node) bool {
		if c, ok := n.(*ast.CallExpr); ok {
			if sel, ok := c.Fun.(*ast.SelectorExpr); ok && sel.Sel.Name == "applyHTTPBeforeRequest" {
				bs = append(bs, bsite{c})
			}
		}
		return true
	})
	for _, b := range bs {
		n := 1
		for _, ctl := range rpControls(pm, b.call, fd.Body) {
			switch ctl.(type) {
			case *ast.ForStmt, *ast.RangeStmt:
				n = 2
			}
		}
		r.before += n
	}
	if len(bs) == 1 {
		c := bs[0].call
		r.ctx = "unknown"
		ctl := rpControls(pm, c, fd.Body)
		// accepted shapes: [if err := call; err != nil] optionally inside [if t.client != nil]
		guardOK := false
		var own *ast.IfStmt
		if len(ctl) >= 1 {
			if ifs, ok := ctl[0].(*ast.IfStmt); ok && ifs.Init != nil && c.Pos() >= ifs.Init.Pos() && c.End() <= ifs.Init.End() {
				own = ifs
			}
		}
		if own != nil {
			switch len(ctl) {
			case 1:
				guardOK = true
			case 2:
				if g, ok := ctl[1].(*ast.IfStmt); ok && g.Init == nil && g.Else == nil && rpSquash(root.text(g.Cond)) == recv+".client!=nil" && rpSquash(root.text(c.Fun)) == recv+".client.applyHTTPBeforeRequest" {
					guardOK = true
				}
			}
		}
		argsOK := len(c.Args) == 2 && rpSquash(root.text(c.Args[1])) == req
		r.ordered = guardOK && argsOK && between(c.Pos()) && sendPos != token.NoPos
		if own != nil && argsOK {
			// if err := …; err != nil { …; return …err… }
			if as, ok := own.Init.(*ast.AssignStmt); ok && len(as.Lhs) == 1 && as.Tok == token.DEFINE {
				if e, ok := as.Lhs[0].(*ast.Ident); ok && rpSquash(root.text(own.Cond)) == e.Name+"!=nil" && len(own.Body.List) >= 1 {
					ret, ok := own.Body.List[len(own.Body.List)-1].(*ast.ReturnStmt)
					if ok && len(ret.Results) == 0 && (fd.Type.Results == nil || len(fd.Type.Results.List) == 0) {
						// a function without results (the answer senders): nobody to return the error to, a bare
						// return before the send is all that can be asked
						r.errRet = true
					} else if ok && len(ret.Results) >= 1 {
						last := ret.Results[len(ret.Results)-1]
						uses := false
						ast.Inspect(last, func(n ast.Node) bool {
							if id, ok := n.(*ast.Ident); ok && id.Name == e.Name {
								uses = true
							}
							return true
						})
						r.errRet = uses
					}
				}
			}
		}
		if argsOK {
			if a0 := rpSquash(root.text(c.Args[0])); strings.Contains(a0, "context.Background()") || strings.Contains(a0, "context.TODO()") {
				r.ctx = "background"
			}
			if id, ok := c.Args[0].(*ast.Ident); ok {
				switch {
				case params[id.Name] && !rpAssigned(fd, id.Name):
					if rpCalledFromGoroutine(root, file, fd.Name.Name) {
						if fd.Name.Name == "connectGetSSE" && rpGetSSEChain(root) {
							r.ctx = "handshake"
						}
					} else {
						r.ctx = "caller"
					}
				case rpDerivedDetached(root, fd, id.Name, params):
					r.ctx = "handshake"
				default:
					if def := rpLocalDef(fd, id.Name); def != nil {
						s := rpSquash(root.text(def))
						switch {
						case strings.Contains(s, "context.Background()") || strings.Contains(s, "context.TODO()"):
							r.ctx = "background"
						case strings.Contains(s, recv+".getSSEConn.ctx") || strings.Contains(s, recv+".sseConn.ctx"):
							r.ctx = "unknown"
							if rpStreamCtxKept(root, rpStreamField(s, recv), fd.Name.Name) {
								r.ctx = "handshake"
							}
						default:
							// one level of indirection: ctx derived from a local that is initialised from the stream's context
							// (`parent := t.getSSEConn.ctx; if parent == nil { parent = context.Background() }` — the fallback only
							// applies when there is no stream at all)
							ast.Inspect(def, func(n ast.Node) bool {
								if id2, ok := n.(*ast.Ident); ok && id2.Name != id.Name {
									stream, other := false, false
									streamField := ""
									for _, d2 := range rpAllDefs(fd, id2.Name) {
										s2 := rpSquash(root.text(d2))
										switch {
										case strings.Contains(s2, recv+".getSSEConn.ctx") || strings.Contains(s2, recv+".sseConn.ctx"):
											stream = true
											streamField = rpStreamField(s2, recv)
										case s2 == "context.Background()":
											// nil fallback
										default:
											other = true
										}
									}
									if stream && !other {
										r.ctx = "unknown"
										if rpStreamCtxKept(root, streamField, fd.Name.Name) {
											r.ctx = "handshake"
										}
									}
								}
								return true
							})
						}
					}
				}
			}
		}
	} else if len(bs) > 1 {
		r.ctx = "unknown"
	}
	return r
}

func genReqPaths(root *pkgSrc) {
	var recs []rpRecord
	var stray []string
	for _, file := range root.sortedFiles() {
		for _, d := range root.files[file].Decls {
			fd, ok := d.(*ast.FuncDecl)
			if !ok || fd.Body == nil {
				continue
			}
			builds, sendsHTTP := false, false
			ast.Inspect(fd.Body, func(n ast.Node) bool {
				c, ok := n.(*ast.CallExpr)
				if !ok {
					return true
				}
				if _, ok := rpIsHTTPNewRequest(c); ok {
					builds = true
				}
				if sel, ok := c.Fun.(*ast.SelectorExpr); ok {
					x := rpSquash(root.text(sel.X))
					switch sel.Sel.Name {
					case "Handle":
						if strings.HasSuffix(x, "httpReqHandler") {
							sendsHTTP = true
						}
					case "Do":
						if strings.HasSuffix(x, "httpClient") || strings.HasSuffix(x, "Client") || x == "client" {
							sendsHTTP = true
						}
					case "Get", "Post", "Head", "PostForm":
						if x == "http" || strings.HasSuffix(x, "httpClient") || x == "http.DefaultClient" {
							sendsHTTP = true
						}
					}
				}
				return true
			})
			if builds {
				recs = append(recs, rpAnalyse(root, fd, file))
			} else if sendsHTTP && funcName(fd) != "defaultHTTPReqHandler.Handle" {
				stray = append(stray, funcName(fd))
			}
		}
	}
	sort.Slice(recs, func(i, j int) bool {
		if recs[i].client != recs[j].client {
			return recs[i].client < recs[j].client
		}
		return recs[i].fn < recs[j].fn
	})
	sort.Strings(stray)
	var b strings.Builder
	b.WriteString(header)
	b.WriteString("import Mcp.Model.ReqPaths\nnamespace Mcp.Gen.ReqPaths\nopen Mcp.ReqPaths\n")
	b.WriteString("/-- Every function of package mcp that builds an `http.Request`, with the customisation it applies. -/\n")
	b.WriteString("def paths : List ReqPath := [")
	for i, r := range recs {
		if i > 0 {
			b.WriteString(",")
		}
		fmt.Fprintf(&b, "\n  -- %s %s\n  { client := .%s, fn := %s, verb := .%s, url := .%s, headersLoop := %s, sessionHeader := %s,\n    beforeCalls := %d, beforeCtx := .%s, beforeErrReturns := %s, beforeOrdered := %s, via := .%s, usesClient := %s }",
			r.client, r.fn, r.client, leanText(r.fn), r.verb, r.url, leanBool(r.headers), leanBool(r.session),
			r.before, r.ctx, leanBool(r.errRet), leanBool(r.ordered), r.via, leanBool(r.usesClnt))
	}
	b.WriteString("]\n")
	b.WriteString("/-- Functions that send HTTP (`Handle` / `Do` / `http.Get`…) without building the request themselves. -/\n")
	b.WriteString("def straySenders : List Mcp.Str.Text := [")
	for i, s := range stray {
		if i > 0 {
			b.WriteString(", ")
		}
		fmt.Fprintf(&b, "%s /- %s -/", leanText(s), s)
	}
	b.WriteString("]\n")
	of := rpOptionFacts(root)
	b.WriteString("/-- `WithHTTPHeaders` given several times: does `c.transportConfig.httpHeaders` get merged into per key (legacy SSE reads it), and does the replayed transport option merge per key (Streamable). -/\n")
	fmt.Fprintf(&b, "def optFacts : OptFacts := { cfgMerges := %s, optMerges := %s }\n", leanBool(of.cfgMerges), leanBool(of.optMerges))
	b.WriteString("/-- Both transports start from the configuration's header map; the legacy client's configuration is `extractTransportConfig(options)`: the options applied in the order given; `NewClient` applies the options in order and replays the transport options. -/\n")
	fmt.Fprintf(&b, "def headersFromConfig : Bool := %s\n", leanBool(of.fromConfig))
	b.WriteString("/-- Options that are plain assignments (given several times, the last one is in force): (option, verdict). -/\n")
	b.WriteString("def lastWinsOptions : List (Mcp.Str.Text × Mcp.Str.Text) := [")
	for i, l := range of.lastWins {
		if i > 0 {
			b.WriteString(", ")
		}
		fmt.Fprintf(&b, "(%s, %s) /- %s: %s -/", leanText(l[0]), leanText(l[1]), l[0], strings.ReplaceAll(l[1], "-/", "- /"))
	}
	b.WriteString("]\nend Mcp.Gen.ReqPaths\n")
	writeIfChanged("ReqPaths.lean", b.String())
}

// ---- the stream context the answers inherit is kept for as long as answers can be built
//
// sendResponseToServer / sendResponseMessage read the listening stream's context from a field and fall back to
// context.Background() when it is nil. That is "the handshake's context" only if (1) nothing ever clears the field
// (no assignment of nil to it anywhere in the package) and every other assignment stores a context derived from a
// parameter, and (2) the answer is built synchronously on the stream's reader goroutine: no function on the call
// chain from the stream's read loop down to the answer sender is started with `go` (a detached answer can outlive
// the stream and whatever the stream's goroutine does on exit).
func rpStreamCtxKept(root *pkgSrc, field string, sender string) bool {
	// (1) assignments to <x>.<field>.ctx
	okAssign, n := true, 0
	for _, fn := range root.sortedFiles() {
		ast.Inspect(root.files[fn], func(x ast.Node) bool {
			as, ok := x.(*ast.AssignStmt)
			if !ok {
				return true
			}
			for i, l := range as.Lhs {
				ls := rpSquash(root.text(l))
				if !strings.HasSuffix(ls, "."+field+".ctx") {
					continue
				}
				n++
				if len(as.Rhs) != len(as.Lhs) {
					okAssign = false
					continue
				}
				if id, ok := as.Rhs[i].(*ast.Ident); !ok || id.Name == "nil" {
					okAssign = false
				}
			}
			return true
		})
	}
	if !okAssign || n == 0 {
		return false
	}
	// the type the sender belongs to, and the methods every type has (to tell t.handleIncomingRequest of this
	// transport from the method of the same name of another one)
	owner := ""
	methods := map[string]bool{}
	for _, fn := range root.sortedFiles() {
		for _, d := range root.files[fn].Decls {
			if fd, ok := d.(*ast.FuncDecl); ok {
				methods[funcName(fd)] = true
				if fd.Name.Name == sender && fd.Recv != nil && strings.Contains(funcName(fd), ".") {
					if owner != "" {
						return false // two types with a sender of that name: not understood
					}
					owner = strings.SplitN(funcName(fd), ".", 2)[0]
				}
			}
		}
	}
	if owner == "" {
		return false
	}
	// (2) no `go` / detached closure on the chain of callers of the sender, up to the stream's own goroutine
	targets := map[string]bool{sender: true} // method names of `owner`
	for changed := true; changed; {
		changed = false
		for _, fn := range root.sortedFiles() {
			for _, d := range root.files[fn].Decls {
				fd, ok := d.(*ast.FuncDecl)
				if !ok || fd.Body == nil {
					continue
				}
				fdOwner, recv := "", cfRecvName(fd)
				if k := strings.Index(funcName(fd), "."); k >= 0 {
					fdOwner = funcName(fd)[:k]
				}
				// does this call reach a target method of `owner`?
				hits := func(c *ast.CallExpr) bool {
					sel, ok := c.Fun.(*ast.SelectorExpr)
					if !ok || !targets[sel.Sel.Name] {
						return false
					}
					if id, ok := sel.X.(*ast.Ident); ok && id.Name == recv && recv != "" {
						return fdOwner == owner // a call on the function's own receiver: same type or not
					}
					// a call on some other expression: it is `owner`'s method unless the expression is known to be of a
					// type that has its own method of that name and is not `owner` — not decidable syntactically: count it
					return true
				}
				bad := false
				var walk func(n ast.Node, detached bool)
				walk = func(n ast.Node, detached bool) {
					ast.Inspect(n, func(x ast.Node) bool {
						switch y := x.(type) {
						case *ast.GoStmt:
							walk(y.Call, true)
							return false
						case *ast.FuncLit:
							if !detached {
								walk(y.Body, true) // may run later / elsewhere: conservative
								return false
							}
						case *ast.CallExpr:
							if hits(y) {
								if detached {
									bad = true
								} else if fdOwner == owner && !targets[fd.Name.Name] {
									targets[fd.Name.Name] = true
									changed = true
								} else if fdOwner != owner {
									bad = true // reached from outside the transport: not the stream's reader
								}
							}
						}
						return true
					})
				}
				walk(fd.Body, false)
				if bad && !(fdOwner == owner && rpIsStreamRoot(root, fd, targets)) {
					return false
				}
			}
		}
	}
	return true
}

// rpIsStreamRoot: the only `go` in fd that reaches a target starts the stream's connect / read loop itself
// (connectGetSSE in establishGetSSE, readSSE in start), i.e. the goroutine the whole chain runs on.
func rpIsStreamRoot(root *pkgSrc, fd *ast.FuncDecl, targets map[string]bool) bool {
	roots := map[string]map[string]bool{"establishGetSSE": {"connectGetSSE": true}, "start": {"readSSE": true}}
	allowed := roots[fd.Name.Name]
	if allowed == nil {
		return false
	}
	ok := true
	ast.Inspect(fd.Body, func(x ast.Node) bool {
		g, isGo := x.(*ast.GoStmt)
		if !isGo {
			return true
		}
		ast.Inspect(g.Call, func(y ast.Node) bool {
			if c, isCall := y.(*ast.CallExpr); isCall {
				name := ""
				switch f := c.Fun.(type) {
				case *ast.SelectorExpr:
					name = f.Sel.Name
				case *ast.Ident:
					name = f.Name
				}
				if targets[name] && !allowed[name] {
					ok = false
				}
			}
			return true
		})
		return false
	})
	return ok
}

// ---- repeated options (client.go): how a second WithHTTPHeaders / WithHTTPBeforeRequest / … combines with the first

// rpOptionBody: the body of the func literal an option constructor returns, with the literal's parameter name.
func rpOptionBody(root *pkgSrc, name string) (*ast.BlockStmt, string, []string) {
	fd, _ := root.funcDecl(name)
	if fd == nil || fd.Body == nil || len(fd.Body.List) != 1 {
		return nil, "", nil
	}
	ret, ok := fd.Body.List[0].(*ast.ReturnStmt)
	if !ok || len(ret.Results) != 1 {
		return nil, "", nil
	}
	lit, ok := ret.Results[0].(*ast.FuncLit)
	if !ok || len(lit.Type.Params.List) != 1 || len(lit.Type.Params.List[0].Names) != 1 {
		return nil, "", nil
	}
	var ps []string
	for _, f := range fd.Type.Params.List {
		for _, n := range f.Names {
			ps = append(ps, n.Name)
		}
	}
	return lit.Body, lit.Type.Params.List[0].Names[0].Name, ps
}

// rpMergesInto: the block merges `src` per key into the map `dst`: every assignment to dst is either
// `dst = make(http.Header)` or `dst[k] = v` inside `for k, v := range src`, and that loop is there, unconditionally.
func rpMergesInto(root *pkgSrc, body *ast.BlockStmt, dst, src string) bool {
	loop := false
	for _, st := range body.List {
		if rs, ok := st.(*ast.RangeStmt); ok && rs.Key != nil && rs.Value != nil && rpSquash(root.text(rs.X)) == src && len(rs.Body.List) == 1 {
			k, v := rpSquash(root.text(rs.Key)), rpSquash(root.text(rs.Value))
			if rpSquash(root.mwCodeText(rs.Body.List[0])) == dst+"["+k+"]="+v {
				loop = true
			}
		}
	}
	if !loop {
		return false
	}
	ok := true
	ast.Inspect(body, func(x ast.Node) bool {
		as, isAs := x.(*ast.AssignStmt)
		if !isAs {
			return true
		}
		for i, l := range as.Lhs {
			ls := rpSquash(root.text(l))
			if ls == dst {
				if len(as.Rhs) != len(as.Lhs) || rpSquash(root.text(as.Rhs[i])) != "make(http.Header)" {
					ok = false
				}
			}
		}
		return true
	})
	return ok
}

type rpOptFacts struct {
	cfgMerges, optMerges, fromConfig bool
	lastWins                         [][2]string
}

func rpOptionFacts(root *pkgSrc) rpOptFacts {
	var f rpOptFacts
	if body, c, ps := rpOptionBody(root, "WithHTTPHeaders"); body != nil && len(ps) == 1 {
		f.cfgMerges = rpMergesInto(root, body, c+".transportConfig.httpHeaders", ps[0])
		// … and the transport option is appended with the same headers
		appended := strings.Count(rpSquash(root.mwCodeText(body)), c+".transportOptions=append("+c+".transportOptions,withTransportHTTPHeaders("+ps[0]+"))") == 1
		if tb, t, tps := rpOptionBody(root, "withTransportHTTPHeaders"); appended && tb != nil && len(tps) == 1 {
			f.optMerges = rpMergesInto(root, tb, t+".httpHeaders", tps[0])
		}
	}
	// both transports start from the configuration's map; the legacy one's configuration is the options applied in order
	str, _ := root.funcDecl("newStreamableHTTPClientTransport")
	sse, _ := root.funcDecl("NewSSEClient")
	ext, _ := root.funcDecl("extractTransportConfig")
	nc, _ := root.funcDecl("NewClient")
	if str != nil && sse != nil && ext != nil && nc != nil {
		s1 := rpSquash(root.mwCodeText(str.Body))
		s2 := rpSquash(root.mwCodeText(sse.Body))
		s3 := rpSquash(root.mwCodeText(ext.Body))
		s4 := rpSquash(root.mwCodeText(nc.Body))
		f.fromConfig = strings.Count(s1, "httpHeaders:config.httpHeaders,") == 1 && strings.Contains(s1, "for_,option:=rangeoptions{option(transport)}") &&
			strings.Count(s2, "config:=extractTransportConfig(options)") == 1 && strings.Count(s2, "httpHeaders:config.httpHeaders,") == 1 &&
			strings.Count(s2, "config=") == 0 && strings.Count(s2, "httpHeaders") == 2 &&
			strings.Contains(s3, "for_,option:=rangeoptions{option(tempClient)}returntempClient.transportConfig") &&
			strings.Contains(s4, "for_,option:=rangeoptions{option(client)}") &&
			strings.Count(s4, "newStreamableHTTPClientTransport(client.transportConfig,client.transportOptions...)") == 1
	}
	// options that are plain assignments (the last one wins)
	for _, o := range [][3]string{
		{"WithClientPath", "%s.transportConfig.path=%s", "%s.transportOptions=append(%s.transportOptions,withClientTransportPath(%s))"},
		{"WithHTTPBeforeRequest", "%s.httpBeforeRequestFunc=%s", ""},
		{"WithHTTPReqHandler", "%s.transportConfig.httpReqHandler=%s", "%s.transportOptions=append(%s.transportOptions,withTransportHTTPReqHandler(%s))"},
	} {
		verdict := "unknown"
		if body, c, ps := rpOptionBody(root, o[0]); body != nil && len(ps) == 1 {
			want := "{" + fmt.Sprintf(o[1], c, ps[0])
			if o[2] != "" {
				want += fmt.Sprintf(o[2], c, c, ps[0])
			}
			want += "}"
			if got := rpSquash(root.mwCodeText(body)); got == want {
				verdict = "assign"
			} else {
				verdict = "unknown: " + got
				if len(verdict) > 90 {
					verdict = verdict[:90]
				}
			}
		}
		f.lastWins = append(f.lastWins, [2]string{o[0], verdict})
	}
	return f
}

func rpStreamField(s, recv string) string {
	if strings.Contains(s, recv+".getSSEConn.ctx") {
		return "getSSEConn"
	}
	return "sseConn"
}
