package main

// T-gen family for C03 / C06 / C14 (request serving): dispatch-table keys, the cases of the stdio switch, every type
// assertion in the server request-path files (comma-ok / type switch / bare), every `go` statement of the legacy SSE and
// stdio servers with whether the goroutine has a recover, the error-code literal of every error answer.
// Syntactic and conservative: what is not recognised is emitted as a value the Lean theorems do not accept.

import (
	"fmt"
	"go/ast"
	"go/token"
	"path/filepath"
	"sort"
	"strconv"
	"strings"
)

func init() { generators = append(generators, genRpcFacts) }

var rpcRequestPathFiles = []string{"handler.go", "jsonrpc.go", "manager_lifecycle.go", "manager_prompt.go", "manager_resource.go",
	"manager_tools.go", "responder.go", "responder_json.go", "responder_sse.go", "sse_server.go", "stdio_server.go", "streamable_server.go"}

func rpcSquash(s string) string { return strings.Join(strings.Fields(s), "") }

// rpcStringConsts: package-level string constants (name -> value).
func rpcStringConsts(root *pkgSrc) (map[string]string, map[string]int) {
	strs := map[string]string{}
	ints := map[string]int{}
	for _, fn := range root.sortedFiles() {
		for _, d := range root.files[fn].Decls {
			gd, ok := d.(*ast.GenDecl)
			if !ok || gd.Tok != token.CONST {
				continue
			}
			for _, sp := range gd.Specs {
				vs, ok := sp.(*ast.ValueSpec)
				if !ok {
					continue
				}
				for i, n := range vs.Names {
					if i >= len(vs.Values) {
						continue
					}
					switch v := vs.Values[i].(type) {
					case *ast.BasicLit:
						if v.Kind == token.STRING {
							if s, err := strconv.Unquote(v.Value); err == nil {
								strs[n.Name] = s
							}
						}
						if v.Kind == token.INT {
							if k, err := strconv.Atoi(v.Value); err == nil {
								ints[n.Name] = k
							}
						}
					case *ast.UnaryExpr:
						if bl, ok := v.X.(*ast.BasicLit); ok && v.Op == token.SUB && bl.Kind == token.INT {
							if k, err := strconv.Atoi(bl.Value); err == nil {
								ints[n.Name] = -k
							}
						}
					}
				}
			}
		}
	}
	return strs, ints
}

func rpcStringOf(e ast.Expr, consts map[string]string, root *pkgSrc) string {
	switch v := e.(type) {
	case *ast.BasicLit:
		if v.Kind == token.STRING {
			if s, err := strconv.Unquote(v.Value); err == nil {
				return s
			}
		}
	case *ast.Ident:
		if s, ok := consts[v.Name]; ok {
			return s
		}
	}
	return "?" + rpcSquash(root.text(e))
}

// rpcIntOf: an integer literal / constant; ok=false when it is neither.
func rpcIntOf(e ast.Expr, ints map[string]int) (int, bool) {
	switch v := e.(type) {
	case *ast.BasicLit:
		if v.Kind == token.INT {
			k, err := strconv.Atoi(v.Value)
			return k, err == nil
		}
	case *ast.UnaryExpr:
		if v.Op == token.SUB {
			k, ok := rpcIntOf(v.X, ints)
			return -k, ok
		}
	case *ast.Ident:
		k, ok := ints[v.Name]
		return k, ok
	case *ast.ParenExpr:
		return rpcIntOf(v.X, ints)
	}
	return 0, false
}

type rpcAssertion struct {
	file, fn, text string
	kind           int // 0 comma-ok, 1 type switch, 2 bare
	line           int
}

// rpcAssertions classifies every TypeAssertExpr of a function body.
func rpcAssertions(root *pkgSrc, file string, fd *ast.FuncDecl) []rpcAssertion {
	var out []rpcAssertion
	commaOK := map[*ast.TypeAssertExpr]bool{}
	ast.Inspect(fd.Body, func(n ast.Node) bool {
		switch x := n.(type) {
		case *ast.AssignStmt:
			if len(x.Lhs) == 2 && len(x.Rhs) == 1 {
				if ta, ok := x.Rhs[0].(*ast.TypeAssertExpr); ok {
					commaOK[ta] = true
				}
			}
		case *ast.ValueSpec:
			if len(x.Names) == 2 && len(x.Values) == 1 {
				if ta, ok := x.Values[0].(*ast.TypeAssertExpr); ok {
					commaOK[ta] = true
				}
			}
		}
		return true
	})
	ast.Inspect(fd.Body, func(n ast.Node) bool {
		ta, ok := n.(*ast.TypeAssertExpr)
		if !ok {
			return true
		}
		kind := 2
		if ta.Type == nil {
			kind = 1
		} else if commaOK[ta] {
			kind = 0
		}
		out = append(out, rpcAssertion{file: file, fn: funcName(fd), text: rpcSquash(root.text(ta)), kind: kind, line: root.line(ta)})
		return true
	})
	return out
}

// rpcHasRecover: does the function body contain a deferred function literal that calls recover()?
func rpcHasRecover(body *ast.BlockStmt) bool {
	if body == nil {
		return false
	}
	found := false
	ast.Inspect(body, func(n ast.Node) bool {
		d, ok := n.(*ast.DeferStmt)
		if !ok {
			return true
		}
		ast.Inspect(d.Call, func(m ast.Node) bool {
			if c, ok := m.(*ast.CallExpr); ok {
				if id, ok := c.Fun.(*ast.Ident); ok && id.Name == "recover" {
					found = true
				}
			}
			return true
		})
		return true
	})
	return found
}

func genRpcFacts(root *pkgSrc) {
	strs, ints := rpcStringConsts(root)
	var b strings.Builder
	b.WriteString(header)
	b.WriteString("import Mcp.Model.Str\nnamespace Mcp.Gen\nopen Mcp.Str\n\n")

	// 1. keys of requestDispatchTable, in source order
	var keys []string
	if fd, _ := root.funcDecl("mcpHandler.requestDispatchTable"); fd != nil && fd.Body != nil {
		ast.Inspect(fd.Body, func(n ast.Node) bool {
			cl, ok := n.(*ast.CompositeLit)
			if !ok {
				return true
			}
			if _, isMap := cl.Type.(*ast.MapType); !isMap {
				return true
			}
			for _, e := range cl.Elts {
				if kv, ok := e.(*ast.KeyValueExpr); ok {
					keys = append(keys, rpcStringOf(kv.Key, strs, root))
				} else {
					keys = append(keys, "?element")
				}
			}
			return false
		})
	} else {
		keys = []string{"?no-dispatch-table"}
	}
	// dispatchRequest must look the method up in that table and answer ErrCodeMethodNotFound otherwise
	dispatchShape := false
	if fd, _ := root.funcDecl("mcpHandler.dispatchRequest"); fd != nil && fd.Body != nil {
		t := rpcSquash(root.text(fd.Body))
		dispatchShape = strings.Contains(t, "dispatchTable:=h.requestDispatchTable()") && strings.Contains(t, "ifhandler,ok:=dispatchTable[req.Method];ok{returnhandler(ctx,req,session)}") &&
			strings.Contains(t, "returnnewJSONRPCErrorResponse(req.ID,ErrCodeMethodNotFound,")
	}
	fmt.Fprintf(&b, "/-- keys of `requestDispatchTable` (handler.go), in source order -/\ndef rpcDispatchKeys : List Text := [%s]\n", rpcLeanTexts(keys))
	fmt.Fprintf(&b, "/-- `dispatchRequest` = table lookup, otherwise a −32601 answer -/\ndef rpcDispatchIsTableLookup : Bool := %s\n\n", leanBool(dispatchShape))

	// 2. cases of the switch on request.Method in stdioServerInternal.HandleRequest
	var cases []string
	hasDefault := false
	if fd, _ := root.funcDecl("stdioServerInternal.HandleRequest"); fd != nil && fd.Body != nil {
		ast.Inspect(fd.Body, func(n ast.Node) bool {
			sw, ok := n.(*ast.SwitchStmt)
			if !ok || sw.Tag == nil || rpcSquash(root.text(sw.Tag)) != "request.Method" {
				return true
			}
			for _, st := range sw.Body.List {
				cc := st.(*ast.CaseClause)
				if cc.List == nil {
					hasDefault = strings.Contains(rpcSquash(root.text(cc)), "-32601")
					continue
				}
				for _, e := range cc.List {
					cases = append(cases, rpcStringOf(e, strs, root))
				}
			}
			return false
		})
	} else {
		cases = []string{"?no-switch"}
	}
	fmt.Fprintf(&b, "/-- cases of the method switch of `stdioServerInternal.HandleRequest`, in source order -/\ndef rpcStdioCases : List Text := [%s]\n", rpcLeanTexts(cases))
	fmt.Fprintf(&b, "/-- its default branch answers −32601 -/\ndef rpcStdioDefaultIsMethodNotFound : Bool := %s\n\n", leanBool(hasDefault))

	// 3. type assertions in the request-path files
	var as []rpcAssertion
	for _, fn := range rpcRequestPathFiles {
		f, ok := root.files[fn]
		if !ok {
			continue
		}
		for _, d := range f.Decls {
			if fd, ok := d.(*ast.FuncDecl); ok && fd.Body != nil {
				as = append(as, rpcAssertions(root, fn, fd)...)
			}
		}
	}
	sort.SliceStable(as, func(i, j int) bool {
		if as[i].file != as[j].file {
			return as[i].file < as[j].file
		}
		return as[i].line < as[j].line
	})
	b.WriteString("/-- every type assertion in the server request-path files: (file, enclosing function, expression, kind) —\n    kind 0 = comma-ok, 1 = type switch, 2 = BARE (panics when the dynamic type differs) -/\ndef rpcAssertions : List (Text × Text × Text × Nat) := [\n")
	for i, a := range as {
		sep := ","
		if i == len(as)-1 {
			sep = ""
		}
		fmt.Fprintf(&b, "  (%s, %s, %s, %d)%s  -- %s %s\n", leanText(a.file), leanText(a.fn), leanText(a.text), a.kind, sep, a.file, strings.ReplaceAll(a.text, "\n", " "))
	}
	b.WriteString("]\n\n")
	b.WriteString("/-- the bare ones: (enclosing function, expression) -/\ndef rpcBareAssertions : List (Text × Text) := [\n")
	var bare []rpcAssertion
	for _, a := range as {
		if a.kind == 2 {
			bare = append(bare, a)
		}
	}
	for i, a := range bare {
		sep := ","
		if i == len(bare)-1 {
			sep = ""
		}
		fmt.Fprintf(&b, "  (%s, %s)%s  -- %s %s\n", leanText(a.fn), leanText(a.text), sep, a.file, a.text)
	}
	b.WriteString("]\n\n")

	// 4. go statements of the legacy SSE and stdio servers: (function, what is started, the goroutine recovers)
	type goFact struct {
		file, fn, callee string
		recovers         bool
		line             int
	}
	var gos []goFact
	for _, fn := range []string{"sse_server.go", "stdio_server.go"} {
		f, ok := root.files[fn]
		if !ok {
			continue
		}
		for _, d := range f.Decls {
			fd, ok := d.(*ast.FuncDecl)
			if !ok || fd.Body == nil {
				continue
			}
			ast.Inspect(fd.Body, func(n ast.Node) bool {
				g, ok := n.(*ast.GoStmt)
				if !ok {
					return true
				}
				gf := goFact{file: fn, fn: funcName(fd), line: root.line(g)}
				switch fun := g.Call.Fun.(type) {
				case *ast.FuncLit:
					gf.callee = "func"
					gf.recovers = rpcHasRecover(fun.Body)
				default:
					name := rpcSquash(root.text(g.Call.Fun))
					gf.callee = name
					short := name
					if i := strings.LastIndex(short, "."); i >= 0 {
						short = short[i+1:]
					}
					// the callee's declaration (function or method of any receiver) in package mcp
					for _, fn2 := range root.sortedFiles() {
						for _, d2 := range root.files[fn2].Decls {
							if fd2, ok := d2.(*ast.FuncDecl); ok && fd2.Name.Name == short && rpcHasRecover(fd2.Body) {
								gf.recovers = true
							}
						}
					}
				}
				gos = append(gos, gf)
				return true
			})
		}
	}
	sort.SliceStable(gos, func(i, j int) bool {
		if gos[i].file != gos[j].file {
			return gos[i].file < gos[j].file
		}
		return gos[i].line < gos[j].line
	})
	b.WriteString("/-- every `go` statement of sse_server.go / stdio_server.go: (enclosing function, what is started, the goroutine body or\n    the callee has a deferred recover) -/\ndef rpcGoStmts : List (Text × Text × Bool) := [\n")
	for i, g := range gos {
		sep := ","
		if i == len(gos)-1 {
			sep = ""
		}
		fmt.Fprintf(&b, "  (%s, %s, %s)%s  -- %s %s: go %s\n", leanText(g.fn), leanText(g.callee), leanBool(g.recovers), sep, g.file, g.fn, g.callee)
	}
	b.WriteString("]\n\n")

	// 5. error codes: every newJSONRPCErrorResponse / writeJSONRPCError call and every `Code:` of a JSONRPCError literal
	type codeFact struct {
		file, fn string
		code     int
		known    bool
		line     int
	}
	var codes []codeFact
	for _, fn := range rpcRequestPathFiles {
		f, ok := root.files[fn]
		if !ok {
			continue
		}
		for _, d := range f.Decls {
			fd, ok := d.(*ast.FuncDecl)
			if !ok || fd.Body == nil {
				continue
			}
			name := funcName(fd)
			if name == "newJSONRPCErrorResponse" || name == "SSEServer.writeJSONRPCError" {
				continue // the constructors themselves
			}
			ast.Inspect(fd.Body, func(n ast.Node) bool {
				switch x := n.(type) {
				case *ast.CallExpr:
					callee := rpcSquash(root.text(x.Fun))
					if callee == "newJSONRPCErrorResponse" && len(x.Args) >= 2 {
						k, ok := rpcIntOf(x.Args[1], ints)
						codes = append(codes, codeFact{fn, name, k, ok, root.line(x)})
					}
					if strings.HasSuffix(callee, ".writeJSONRPCError") && len(x.Args) >= 3 {
						k, ok := rpcIntOf(x.Args[2], ints)
						codes = append(codes, codeFact{fn, name, k, ok, root.line(x)})
					}
				case *ast.KeyValueExpr:
					if id, ok := x.Key.(*ast.Ident); ok && id.Name == "Code" {
						k, ok := rpcIntOf(x.Value, ints)
						codes = append(codes, codeFact{fn, name, k, ok, root.line(x)})
					}
				}
				return true
			})
		}
	}
	sort.SliceStable(codes, func(i, j int) bool {
		if codes[i].file != codes[j].file {
			return codes[i].file < codes[j].file
		}
		return codes[i].line < codes[j].line
	})
	b.WriteString("/-- the error code of every error answer built on the request path: (enclosing function, code); code 0 = not a literal\n    or a package constant -/\ndef rpcErrorCodes : List (Text × Int) := [\n")
	for i, c := range codes {
		sep := ","
		if i == len(codes)-1 {
			sep = ""
		}
		k := c.code
		if !c.known {
			k = 0
		}
		fmt.Fprintf(&b, "  (%s, %d)%s  -- %s %s\n", leanText(c.fn), k, sep, c.file, c.fn)
	}
	b.WriteString("]\n\n")

	// 6. index and slice expressions of internal/httputil/accept.go (each can panic when out of range): (function, expression)
	hp := loadDir(filepath.Join(*repo, "internal", "httputil"))
	type rpcIndexSite struct {
		fn, text string
		line     int
	}
	var sites []rpcIndexSite
	if f := hp.files["accept.go"]; f != nil {
		for _, d := range f.Decls {
			fd, ok := d.(*ast.FuncDecl)
			if !ok || fd.Body == nil {
				continue
			}
			ast.Inspect(fd.Body, func(n ast.Node) bool {
				switch n.(type) {
				case *ast.IndexExpr, *ast.SliceExpr:
					sites = append(sites, rpcIndexSite{funcName(fd), rpcSquash(hp.text(n)), hp.line(n)})
				}
				return true
			})
		}
	} else {
		sites = append(sites, rpcIndexSite{"?", "internal/httputil/accept.go not found", 0})
	}
	sort.SliceStable(sites, func(i, j int) bool { return sites[i].line < sites[j].line })
	b.WriteString("/-- every index / slice expression of internal/httputil/accept.go (a Go index panics when out of range):\n    (enclosing function, expression) -/\ndef rpcIndexSites : List (Text × Text) := [\n")
	for i, x := range sites {
		sep := ","
		if i == len(sites)-1 {
			sep = ""
		}
		fmt.Fprintf(&b, "  (%s, %s)%s  -- %s\n", leanText(x.fn), leanText(x.text), sep, x.text)
	}
	b.WriteString("]\n\n")

	// 7. manager_lifecycle.go: calls to methods of lifecycleManager that (transitively) acquire m.mu, made at a point
	// where m.mu MAY be held (sync.RWMutex is not reentrant: a recursive RLock dead-locks as soon as a writer queues up
	// between the two). May-hold: a lexical walk in which a lock taken on some way to a point counts as held there.
	type lcCall struct {
		caller, callee string
		line           int
	}
	lockOp := func(e ast.Expr) string { // "lock" | "unlock" | ""
		call, ok := e.(*ast.CallExpr)
		if !ok {
			return ""
		}
		sel, ok := call.Fun.(*ast.SelectorExpr)
		if !ok {
			return ""
		}
		if rpcSquash(root.text(sel.X)) != "m.mu" {
			return ""
		}
		switch sel.Sel.Name {
		case "Lock", "RLock":
			return "lock"
		case "Unlock", "RUnlock":
			return "unlock"
		}
		return ""
	}
	locksDirectly := map[string]bool{}
	calls := map[string][]string{} // caller -> lifecycleManager methods it calls (anywhere)
	var heldCalls []lcCall
	if f := root.files["manager_lifecycle.go"]; f != nil {
		for _, d := range f.Decls {
			fd, ok := d.(*ast.FuncDecl)
			if !ok || fd.Body == nil || !strings.HasPrefix(funcName(fd), "lifecycleManager.") {
				continue
			}
			name := strings.TrimPrefix(funcName(fd), "lifecycleManager.")
			var walk func(n ast.Node, held bool) bool
			methodCalls := func(n ast.Node, held bool) {
				ast.Inspect(n, func(x ast.Node) bool {
					if _, isLit := x.(*ast.FuncLit); isLit {
						return false // runs later, possibly elsewhere
					}
					if call, ok := x.(*ast.CallExpr); ok {
						if sel, ok := call.Fun.(*ast.SelectorExpr); ok {
							if id, ok := sel.X.(*ast.Ident); ok && id.Name == "m" {
								calls[name] = append(calls[name], sel.Sel.Name)
								if held {
									heldCalls = append(heldCalls, lcCall{name, sel.Sel.Name, root.line(call)})
								}
							}
						}
					}
					return true
				})
			}
			// walk returns whether m.mu may be held after n
			walk = func(n ast.Node, held bool) bool {
				switch x := n.(type) {
				case *ast.BlockStmt:
					for _, st := range x.List {
						held = walk(st, held)
					}
					return held
				case *ast.ExprStmt:
					switch lockOp(x.X) {
					case "lock":
						locksDirectly[name] = true
						return true
					case "unlock":
						return false
					}
					methodCalls(x, held)
					return held
				case *ast.DeferStmt:
					if lockOp(x.Call) == "unlock" {
						return held // released at the end of the function only
					}
					methodCalls(x, held)
					return held
				case *ast.IfStmt:
					if x.Init != nil {
						held = walk(x.Init, held)
					}
					methodCalls(x.Cond, held)
					a := walk(x.Body, held)
					b2 := held
					if x.Else != nil {
						b2 = walk(x.Else, held)
					}
					return a || b2
				case *ast.ForStmt:
					return walk(x.Body, held) || held
				case *ast.RangeStmt:
					methodCalls(x.X, held)
					return walk(x.Body, held) || held
				case *ast.SwitchStmt, *ast.TypeSwitchStmt, *ast.SelectStmt:
					out := held
					ast.Inspect(x, func(y ast.Node) bool {
						switch cc := y.(type) {
						case *ast.CaseClause:
							h := held
							for _, st := range cc.Body {
								h = walk(st, h)
							}
							out = out || h
							return false
						case *ast.CommClause:
							h := held
							for _, st := range cc.Body {
								h = walk(st, h)
							}
							out = out || h
							return false
						}
						return true
					})
					return out
				default:
					if n != nil {
						methodCalls(n, held)
					}
					return held
				}
			}
			walk(fd.Body, false)
		}
	} else {
		heldCalls = append(heldCalls, lcCall{"?", "manager_lifecycle.go not found", 0})
		locksDirectly["manager_lifecycle.go not found"] = true
	}
	// transitive closure: which methods acquire m.mu
	acquires := map[string]bool{}
	for k := range locksDirectly {
		acquires[k] = true
	}
	for changed := true; changed; {
		changed = false
		for caller, cs := range calls {
			if acquires[caller] {
				continue
			}
			for _, c := range cs {
				if acquires[c] {
					acquires[caller], changed = true, true
					break
				}
			}
		}
	}
	var nested []lcCall
	for _, c := range heldCalls {
		if acquires[c.callee] {
			nested = append(nested, c)
		}
	}
	sort.SliceStable(nested, func(i, j int) bool { return nested[i].line < nested[j].line })
	var lockers []string
	for k := range locksDirectly {
		lockers = append(lockers, k)
	}
	sort.Strings(lockers)
	fmt.Fprintf(&b, "/-- the methods of lifecycleManager that lock / read-lock m.mu themselves -/\ndef rpcLifecycleLockers : List Text := [%s]\n\n", rpcLeanTexts(lockers))
	b.WriteString("/-- calls made where m.mu may be held to a lifecycleManager method that (transitively) acquires m.mu: (caller, callee) -/\ndef rpcLifecycleNestedLocks : List (Text × Text) := [\n")
	for i, x := range nested {
		sep := ","
		if i == len(nested)-1 {
			sep = ""
		}
		fmt.Fprintf(&b, "  (%s, %s)%s  -- %s -> %s (line %d)\n", leanText(x.caller), leanText(x.callee), sep, x.caller, x.callee, x.line)
	}
	b.WriteString("]\n\n")

	// 8. the pending tables of server→client requests: `close(...)` inside the functions that wait for / deliver a peer's
	// response (SendRequest, *Response*): the waiter leaves by deleting its entry; a channel it closed would make the
	// deliverer — which looked the channel up before — panic with "send on closed channel"
	type closeSite struct {
		file, fn, text string
		line           int
	}
	var closes []closeSite
	var waiters []string
	for _, file := range []string{"stdio_server.go", "sse_server.go", "streamable_server.go", "server.go"} {
		f := root.files[file]
		if f == nil {
			closes = append(closes, closeSite{file, "?", "file not found", 0})
			continue
		}
		for _, d := range f.Decls {
			fd, ok := d.(*ast.FuncDecl)
			if !ok || fd.Body == nil {
				continue
			}
			name := funcName(fd)
			if !strings.Contains(name, "SendRequest") && !strings.Contains(name, "Response") {
				continue
			}
			waiters = append(waiters, name)
			ast.Inspect(fd.Body, func(n ast.Node) bool {
				if call, ok := n.(*ast.CallExpr); ok {
					if id, ok := call.Fun.(*ast.Ident); ok && id.Name == "close" {
						closes = append(closes, closeSite{file, name, rpcSquash(root.text(call)), root.line(call)})
					}
				}
				return true
			})
		}
	}
	sort.Strings(waiters)
	fmt.Fprintf(&b, "/-- the functions of the three servers that wait for or deliver a peer's response to a server request -/\ndef rpcResponseFunctions : List Text := [%s]\n\n", rpcLeanTexts(waiters))
	b.WriteString("/-- `close(…)` calls inside them: (function, expression) -/\ndef rpcResponseChannelCloses : List (Text × Text) := [\n")
	for i, x := range closes {
		sep := ","
		if i == len(closes)-1 {
			sep = ""
		}
		fmt.Fprintf(&b, "  (%s, %s)%s  -- %s %s line %d\n", leanText(x.fn), leanText(x.text), sep, x.file, x.fn, x.line)
	}
	b.WriteString("]\n\nend Mcp.Gen\n")
	writeIfChanged("RpcFacts.lean", b.String())
}

func rpcLeanTexts(xs []string) string {
	var parts []string
	for _, x := range xs {
		parts = append(parts, leanText(x))
	}
	return strings.Join(parts, ", ")
}
