package main

// T-gen family "GoClosures" (property C20): local variables shared with goroutines the library starts inside one
// function.  For every function of the library (root package and internal/…) and every function literal it runs with a
// `go` statement — `go func(){…}()`, or `go f(…)` where f is a local variable bound to a literal — the variables of the
// ENCLOSING function (locals, parameters, receiver, named results) that the literal WRITES: assignment, op-assignment,
// ++/--, `v = append(v, …)`, a store into a captured map (`v[k] = …`) or into a field of a captured struct value
// (`v.f = …`); stores into elements of a captured slice / array are not counted (the usual one-slot-per-goroutine
// pattern).  Per variable: the number of goroutine instances that write it (a go statement inside a loop, or in a
// literal that is itself started more than once, counts as two = "many") and, per write, the mutexes lexically held
// INSIDE the literal at that point (any `X.Lock()` … `X.Unlock()` / `defer X.Unlock()`, X a field, a package-level or a
// local mutex).  The Lean predicate (Mcp.GoClosures.lDisciplined) accepts a variable with at most one writing goroutine
// instance (the parent joins before it looks: not checked) or whose writes all hold one common mutex exclusively.
//
// Output: lean/Mcp/Gen/GoClosures.lean (plain data, identifiers prefixed `rcL`) and GoClosures.sites.json (the writes
// with file:line, for the harness that names race reports on such variables).

import (
	"encoding/json"
	"fmt"
	"go/ast"
	"go/token"
	"go/types"
	"path/filepath"
	"sort"
	"strings"
)

func init() { generators = append(generators, gcGenGoClosures) }

type gcWrite struct {
	Fn   string   `json:"fn"`   // "<function>.go#<n>": the n-th goroutine literal of the function
	Held []rcHeld `json:"held"`
	File string   `json:"file"`
	Line int      `json:"line"`
	pos  token.Pos
}

type gcVar struct {
	Fn      string    `json:"fn"`
	Var     string    `json:"var"`
	Type    string    `json:"type"`
	Writers int       `json:"writers"` // goroutine instances writing it; 2 = two or more
	Writes  []gcWrite `json:"writes"`
}

func gcDisciplined(v *gcVar) (bool, string) {
	if v.Writers <= 1 {
		return true, "one writing goroutine"
	}
	if len(v.Writes) > 0 {
		for _, h := range v.Writes[0].Held {
			ok := h.Excl
			for _, w := range v.Writes {
				found := false
				for _, g := range w.Held {
					if g.Name == h.Name && g.Excl {
						found = true
					}
				}
				ok = ok && found
			}
			if ok {
				return true, "mutex " + h.Name
			}
		}
	}
	return false, "UNDISCIPLINED (written by several goroutines of one function without a common mutex)"
}

// gcSeen: function -> number of goroutine literals examined in it (evidence that an empty table is not an empty search).
var gcSeen map[string]int

func gcCollect(p *rcPkg) []*gcVar {
	var out []*gcVar
	for _, fd := range p.decls {
		file := filepath.ToSlash(filepath.Join(p.rel, p.fileOf[fd]))
		fname := p.prefix + funcName(fd)
		// local variables bound to one function literal
		bound := map[types.Object]*ast.FuncLit{}
		rebound := map[types.Object]bool{}
		bind := func(lhs ast.Expr, rhs ast.Expr) {
			id, ok := lhs.(*ast.Ident)
			if !ok {
				return
			}
			o := p.info.Defs[id]
			if o == nil {
				o = p.info.Uses[id]
			}
			if o == nil {
				return
			}
			if fl, ok := rhs.(*ast.FuncLit); ok && bound[o] == nil && !rebound[o] {
				bound[o] = fl
			} else {
				rebound[o] = true
				delete(bound, o)
			}
		}
		ast.Inspect(fd.Body, func(n ast.Node) bool {
			switch x := n.(type) {
			case *ast.AssignStmt:
				if len(x.Lhs) == len(x.Rhs) {
					for i := range x.Lhs {
						if _, isLit := x.Rhs[i].(*ast.FuncLit); isLit || x.Tok != token.DEFINE {
							bind(x.Lhs[i], x.Rhs[i])
						}
					}
				}
			case *ast.ValueSpec:
				for i, n := range x.Names {
					if i < len(x.Values) {
						bind(n, x.Values[i])
					}
				}
			}
			return true
		})
		// go statements: which literal, how many instances
		inst := map[*ast.FuncLit]int{}
		var order []*ast.FuncLit
		var visit func(n ast.Node, mult int)
		visit = func(n ast.Node, mult int) {
			ast.Inspect(n, func(m ast.Node) bool {
				if m == nil || m == n {
					return true
				}
				switch x := m.(type) {
				case *ast.ForStmt:
					if x.Init != nil {
						visit(x.Init, mult)
					}
					visit(x.Body, 2)
					return false
				case *ast.RangeStmt:
					visit(x.Body, 2)
					return false
				case *ast.GoStmt:
					var fl *ast.FuncLit
					switch f := x.Call.Fun.(type) {
					case *ast.FuncLit:
						fl = f
					case *ast.Ident:
						if o := p.info.Uses[f]; o != nil {
							fl = bound[o]
						}
					}
					if fl != nil {
						if _, seen := inst[fl]; !seen {
							order = append(order, fl)
						}
						inst[fl] += mult
						if inst[fl] > 2 {
							inst[fl] = 2
						}
						// what the literal starts itself runs as often as the literal
						visit(fl.Body, inst[fl])
						for _, a := range x.Call.Args {
							visit(a, mult)
						}
						return false
					}
				}
				return true
			})
		}
		visit(fd.Body, 1)
		if len(order) == 0 {
			continue
		}
		gcSeen[fname] = len(order)
		isGoLit := map[*ast.FuncLit]bool{}
		for _, fl := range order {
			isGoLit[fl] = true
		}
		vars := map[types.Object]*gcVar{}
		writersOf := map[types.Object]map[*ast.FuncLit]bool{}
		for gi, fl := range order {
			// lock state at every identifier of the literal
			states := map[token.Pos][]rcHeld{}
			w := &rcWalker{p: p, fn: fname, file: file, unit: []ast.Node{fl}, anyLocks: true}
			w.onIdent = func(id *ast.Ident, st rcState) {
				var held []rcHeld
				for k, excl := range st {
					held = append(held, rcHeld{Name: k, Excl: excl})
				}
				sort.Slice(held, func(i, j int) bool { return held[i].Name < held[j].Name })
				states[id.Pos()] = held
			}
			w.block(fl.Body.List, rcState{})
			captured := func(e ast.Expr) (types.Object, *ast.Ident) {
				id, ok := e.(*ast.Ident)
				if !ok {
					return nil, nil
				}
				o, ok := p.info.Uses[id].(*types.Var)
				if !ok || o.IsField() || o.Parent() == nil || o.Parent().Parent() == types.Universe {
					return nil, nil
				}
				if o.Pos() >= fl.Pos() && o.Pos() < fl.End() {
					return nil, nil // the literal's own
				}
				if o.Pos() < fd.Pos() || o.Pos() >= fd.End() {
					return nil, nil
				}
				return o, id
			}
			note := func(lhs ast.Expr) {
				for {
					if pe, ok := lhs.(*ast.ParenExpr); ok {
						lhs = pe.X
						continue
					}
					break
				}
				var o types.Object
				var id *ast.Ident
				switch x := lhs.(type) {
				case *ast.Ident:
					o, id = captured(x)
				case *ast.IndexExpr:
					if o, id = captured(x.X); o != nil {
						if _, isMap := o.Type().Underlying().(*types.Map); !isMap {
							o = nil
						}
					}
				case *ast.SelectorExpr:
					if o, id = captured(x.X); o != nil {
						if _, isStruct := o.Type().Underlying().(*types.Struct); !isStruct {
							o = nil
						}
					}
				}
				if o == nil {
					return
				}
				v := vars[o]
				if v == nil {
					v = &gcVar{Fn: fname, Var: o.Name(), Type: strings.Join(strings.Fields(types.TypeString(o.Type(), func(*types.Package) string { return "" })), " ")}
					vars[o] = v
					writersOf[o] = map[*ast.FuncLit]bool{}
				}
				writersOf[o][fl] = true
				held := states[id.Pos()]
				if w.unknown {
					held = nil
				}
				v.Writes = append(v.Writes, gcWrite{Fn: fmt.Sprintf("%s.go#%d", fname, gi+1), Held: held, File: file,
					Line: p.src.fset.Position(lhs.Pos()).Line, pos: lhs.Pos()})
			}
			ast.Inspect(fl.Body, func(n ast.Node) bool {
				if inner, ok := n.(*ast.FuncLit); ok && isGoLit[inner] {
					return false // a goroutine of its own
				}
				switch x := n.(type) {
				case *ast.AssignStmt:
					if x.Tok != token.DEFINE {
						for _, l := range x.Lhs {
							note(l)
						}
					}
				case *ast.IncDecStmt:
					note(x.X)
				case *ast.RangeStmt:
					if x.Tok == token.ASSIGN {
						if x.Key != nil {
							note(x.Key)
						}
						if x.Value != nil {
							note(x.Value)
						}
					}
				}
				return true
			})
		}
		var objs []types.Object
		for o := range vars {
			objs = append(objs, o)
		}
		sort.Slice(objs, func(i, j int) bool { return objs[i].Pos() < objs[j].Pos() })
		for _, o := range objs {
			v := vars[o]
			for fl := range writersOf[o] {
				v.Writers += inst[fl]
			}
			if v.Writers > 2 {
				v.Writers = 2
			}
			sort.SliceStable(v.Writes, func(i, j int) bool { return v.Writes[i].pos < v.Writes[j].pos })
			out = append(out, v)
		}
	}
	return out
}

func gcGenGoClosures(root *pkgSrc) {
	var all []*gcVar
	gcSeen = map[string]int{}
	for _, g := range glLoadAll(root) {
		all = append(all, gcCollect(g.rcPkg)...)
	}
	sort.SliceStable(all, func(i, j int) bool {
		if all[i].Fn != all[j].Fn {
			return all[i].Fn < all[j].Fn
		}
		return all[i].Var < all[j].Var
	})
	var b strings.Builder
	b.WriteString(header)
	b.WriteString("import Mcp.Model.GoClosures\nnamespace Mcp.Gen\nopen Mcp.Lockset Mcp.GoClosures\n\n")
	for i, v := range all {
		_, why := gcDisciplined(v)
		fmt.Fprintf(&b, "/-- %s: %s %s — written by %s goroutine instance(s) of the function; %s -/\ndef rcL%d : SharedLocal :=\n  ⟨%s, %s, %s, %d, [\n", v.Fn, v.Var, v.Type,
			map[int]string{0: "no", 1: "one", 2: "two or more"}[v.Writers], why, i, leanText(v.Fn), leanText(v.Var), leanText(v.Type), v.Writers)
		seen := map[string]bool{}
		var recs []string
		for _, w := range v.Writes {
			k := w.Fn + "|" + rcHeldKey(w.Held)
			if seen[k] {
				continue
			}
			seen[k] = true
			var hs []string
			note := ""
			for _, h := range w.Held {
				hs = append(hs, fmt.Sprintf("(%s, %s)", leanText(h.Name), leanBool(h.Excl)))
				note += " " + h.Name + map[bool]string{true: "(w)", false: "(r)"}[h.Excl]
			}
			if note == "" {
				note = " -"
			}
			recs = append(recs, fmt.Sprintf("    ⟨%s, .write, .plain, [%s], false⟩", leanText(w.Fn), strings.Join(hs, ", "))+"\x00"+fmt.Sprintf("  -- %s held:%s", w.Fn, note))
		}
		for j, r := range recs {
			parts := strings.SplitN(r, "\x00", 2)
			sep := ","
			if j == len(recs)-1 {
				sep = ""
			}
			b.WriteString(parts[0] + sep + parts[1] + "\n")
		}
		b.WriteString("  ]⟩\n\n")
	}
	b.WriteString("/-- Every variable of a library function that a goroutine started inside that function writes: ⟨function, variable,\n    type, writing goroutine instances (2 = two or more), the distinct write records ⟨goroutine literal, write, plain,\n    mutexes lexically held inside the literal, -⟩⟩ (see extract/races_goclosures.go). -/\n")
	b.WriteString("def rcSharedLocals : List SharedLocal :=\n")
	if len(all) == 0 {
		b.WriteString("  []\n")
	}
	const chunk = 16
	for i := 0; i < len(all); i += chunk {
		var names []string
		for j := i; j < i+chunk && j < len(all); j++ {
			names = append(names, fmt.Sprintf("rcL%d", j))
		}
		op := "  "
		if i > 0 {
			op = "  ++ "
		}
		b.WriteString(op + "[" + strings.Join(names, ", ") + "]\n")
	}
	var fns []string
	for f := range gcSeen {
		fns = append(fns, f)
	}
	sort.Strings(fns)
	b.WriteString("\n/-- The functions in which goroutine literals were found and examined, with their number. -/\ndef rcGoFunctions : List (Mcp.Str.Text × Nat) := [\n")
	for i, f := range fns {
		sep := ","
		if i == len(fns)-1 {
			sep = ""
		}
		fmt.Fprintf(&b, "  (%s, %d)%s  -- %s\n", leanText(f), gcSeen[f], sep, f)
	}
	b.WriteString("]\n")
	b.WriteString("\nend Mcp.Gen\n")
	writeIfChanged("GoClosures.lean", b.String())

	type jv struct {
		*gcVar
		Disciplined bool   `json:"disciplined"`
		Why         string `json:"why"`
	}
	js := []jv{}
	for _, v := range all {
		ok, why := gcDisciplined(v)
		js = append(js, jv{v, ok, why})
	}
	jb, err := json.MarshalIndent(map[string]any{"locals": js}, "", " ")
	if err != nil {
		fatal("%v", err)
	}
	writeIfChanged("GoClosures.sites.json", string(jb)+"\n")
}
