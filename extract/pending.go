package main

import (
	"fmt"
	"go/ast"
	"go/token"
	"path/filepath"
	"regexp"
	"sort"
	"strings"
)

// Pending family (C01, C05): the five request/answer correlation tables of the library —
//   sse_client.responses, stdio_client.pendingRequests (client side),
//   streamable_server.pendingRequests, sse_server.responses, stdio_server.responses (server side) —
// how each is keyed at the insert site and at every lookup site, whether the insert has its matching deferred delete,
// whether a lookup takes the posting session into account; the `%v` comparison of the Streamable client's POST-SSE reader;
// every channel send that sits in a `select` with a `default:` branch (a frame can be dropped there); whether anything
// ever marks a legacy SSE session initialized.  Everything not recognised is emitted as "other"/false = non-compliant.

type pdTableSpec struct {
	name       string   // <file stem>.<field>
	mapSuffix  string   // the map expression ends with this (".responses"); "" = through the response manager's methods
	insertFunc string   // Type.Method holding the insert
	lookups    []string // Type.Method of every lookup site
	file       string   // the source file the table lives in
	mapField   string   // the field name of the map: every read `<x>.<mapField>[k]` in `file` is a read site
	sendPats   []string // how the issuing function puts the request on the wire: prefix of a call, or "<-" + channel text of a send statement
}

var pdTableSpecs = []pdTableSpec{
	{"sse_client.responses", ".responses", "sseClientTransport.sendRequestInternal", []string{"sseClientTransport.handleResponse"},
		"sse_client.go", "responses", []string{"t.httpReqHandler.Handle(", "t.httpClient.Do("}},
	{"sse_server.responses", ".responses", "SSEServer.SendRequest", []string{"SSEServer.handleResponseMessage", "SSEServer.handleRootsListResponse"},
		"sse_server.go", "responses", []string{"<-session.eventQueue"}},
	{"stdio_client.pendingRequests", ".pendingRequests", "stdioClientTransport.sendRequest", []string{"stdioClientTransport.handleResponse", "stdioClientTransport.handleErrorResponse"},
		"transport_stdio.go", "pendingRequests", []string{"t.encoder.Encode("}},
	{"stdio_server.responses", ".responses", "StdioServer.SendRequest", []string{"stdioServerInternal.HandleResponse"},
		"stdio_server.go", "responses", []string{"<-session.MessageChannel()"}},
	{"streamable_server.pendingRequests", "", "httpServerHandler.SendRequest", []string{"httpServerHandler.handlePostResponse"},
		"streamable_server.go", "pendingRequests", []string{"conn.sseResponder.sendRequest("}},
}

var (
	pdReInt64Assert   = regexp.MustCompile(`^[A-Za-z_][A-Za-z0-9_]*\.ID\.\(int64\)$`)
	pdReUint64OfInt64 = regexp.MustCompile(`^uint64\([A-Za-z_][A-Za-z0-9_]*\.ID\.\(int64\)\)$`)
)

type pdTableFact struct {
	name           string
	insertFunc     string
	insertKey      string
	insertKind     string
	deferredDelete bool
	lookupFuncs    []string
	lookupKinds    []string
	usesSession    bool
	insertFirst    bool     // the insert precedes the statement that puts the request on the wire, in the issuing function
	readSites      []string // every function of the table's file that reads the map (`m[k]` not as an assignment target)
	readsCompare   bool     // every one of them compares the posting session
}

// pdDefOf finds the expression a local identifier is defined by (`id := expr`, `id, ok := expr`) in a function body.
func pdDefOf(p *pkgSrc, body *ast.BlockStmt, name string) ast.Expr {
	var found ast.Expr
	ast.Inspect(body, func(n ast.Node) bool {
		as, ok := n.(*ast.AssignStmt)
		if !ok || as.Tok != token.DEFINE || len(as.Lhs) == 0 || len(as.Rhs) == 0 {
			return true
		}
		if id, ok := as.Lhs[0].(*ast.Ident); ok && id.Name == name && found == nil {
			found = as.Rhs[0]
		}
		return true
	})
	return found
}

func pdSquash(s string) string { return strings.Join(strings.Fields(s), " ") }

// pdIsIDKey: a call of the id-normalising helper requestIDKey(x).
func pdIsIDKey(p *pkgSrc, e ast.Expr) bool {
	c, ok := e.(*ast.CallExpr)
	return ok && len(c.Args) == 1 && p.text(c.Fun) == "requestIDKey"
}

func pdIsSprintfV(p *pkgSrc, e ast.Expr) bool {
	c, ok := e.(*ast.CallExpr)
	if !ok || len(c.Args) != 2 {
		return false
	}
	return p.text(c.Fun) == "fmt.Sprintf" && p.text(c.Args[0]) == `"%v"`
}

// pdInsertKind classifies the key expression of an insert.
func pdInsertKind(p *pkgSrc, e ast.Expr) string {
	if e == nil {
		return "other"
	}
	if pdIsSprintfV(p, e) {
		return "sprintfV"
	}
	if pdIsIDKey(p, e) {
		return "idKey"
	}
	t := pdSquash(p.text(e))
	switch {
	case pdReInt64Assert.MatchString(t):
		return "int64Assert"
	case pdReUint64OfInt64.MatchString(t):
		return "uint64OfInt64"
	}
	return "other"
}

// pdResolve returns the defining expression of a key that is a plain identifier (one level), else the expression itself.
func pdResolve(p *pkgSrc, body *ast.BlockStmt, e ast.Expr) ast.Expr {
	if id, ok := e.(*ast.Ident); ok {
		if d := pdDefOf(p, body, id.Name); d != nil {
			return d
		}
	}
	return e
}

// pdFloatCaseAssign: the function holds `case float64:` whose body assigns `<key> = int64(<x>)`.
func pdFloatCaseAssign(p *pkgSrc, body *ast.BlockStmt, key string) bool {
	ok := false
	ast.Inspect(body, func(n ast.Node) bool {
		cc, isCC := n.(*ast.CaseClause)
		if !isCC {
			return true
		}
		isFloat := false
		for _, t := range cc.List {
			if p.text(t) == "float64" {
				isFloat = true
			}
		}
		if !isFloat {
			return true
		}
		for _, st := range cc.Body {
			if as, isAs := st.(*ast.AssignStmt); isAs && len(as.Lhs) == 1 && len(as.Rhs) == 1 && p.text(as.Lhs[0]) == key {
				if c, isC := as.Rhs[0].(*ast.CallExpr); isC && p.text(c.Fun) == "int64" {
					ok = true
				}
			}
		}
		return true
	})
	return ok
}

// pdParseRequestIDOK: `parseRequestID` of the given receiver type converts a float64 with uint64(v).
func pdParseRequestIDOK(p *pkgSrc, recv string) bool {
	fd, _ := p.funcDecl(recv + ".parseRequestID")
	if fd == nil || fd.Body == nil {
		return false
	}
	ok := false
	ast.Inspect(fd.Body, func(n ast.Node) bool {
		cc, isCC := n.(*ast.CaseClause)
		if !isCC {
			return true
		}
		for _, t := range cc.List {
			if p.text(t) == "float64" && len(cc.Body) == 1 {
				if r, isR := cc.Body[0].(*ast.ReturnStmt); isR && len(r.Results) == 2 && pdSquash(p.text(r.Results[0])) == "uint64(v)" {
					ok = true
				}
			}
		}
		return true
	})
	return ok
}

func pdLookupKind(p *pkgSrc, fn string, body *ast.BlockStmt, key ast.Expr) string {
	if key == nil {
		return "other"
	}
	d := pdResolve(p, body, key)
	if pdIsSprintfV(p, d) {
		return "sprintfV"
	}
	if pdIsIDKey(p, d) {
		return "idKey"
	}
	if c, ok := d.(*ast.CallExpr); ok && strings.HasSuffix(p.text(c.Fun), ".parseRequestID") {
		recv := strings.SplitN(fn, ".", 2)[0]
		if pdParseRequestIDOK(p, recv) {
			return "parseRequestID"
		}
		return "other"
	}
	if id, ok := key.(*ast.Ident); ok && pdFloatCaseAssign(p, body, id.Name) {
		return "int64OfFloat64"
	}
	return "other"
}

// pdSessionCompared: the function compares something named like a session with something else (not with nil), or the
// key expression mentions the session.
func pdSessionCompared(p *pkgSrc, body *ast.BlockStmt, key ast.Expr) bool {
	if key != nil && strings.Contains(strings.ToLower(p.text(pdResolve(p, body, key))), "session") {
		return true
	}
	found := false
	ast.Inspect(body, func(n ast.Node) bool {
		be, ok := n.(*ast.BinaryExpr)
		if !ok || (be.Op != token.EQL && be.Op != token.NEQ) {
			return true
		}
		l, r := p.text(be.X), p.text(be.Y)
		if l == "nil" || r == "nil" || l == `""` || r == `""` {
			return true
		}
		if strings.Contains(strings.ToLower(l), "session") || strings.Contains(strings.ToLower(r), "session") {
			found = true
		}
		return true
	})
	return found
}

func pdAnalyseTable(p *pkgSrc, spec pdTableSpec) pdTableFact {
	f := pdTableFact{name: spec.name, insertFunc: spec.insertFunc, insertKind: "other"}
	if fd, _ := p.funcDecl(spec.insertFunc); fd != nil && fd.Body != nil {
		var keyExpr ast.Expr
		var insertPos, sendPos token.Pos
		ast.Inspect(fd.Body, func(n ast.Node) bool {
			switch x := n.(type) {
			case *ast.AssignStmt:
				if spec.mapSuffix != "" && len(x.Lhs) == 1 && x.Tok == token.ASSIGN {
					if ix, ok := x.Lhs[0].(*ast.IndexExpr); ok && strings.HasSuffix(p.text(ix.X), spec.mapSuffix) && keyExpr == nil {
						keyExpr = ix.Index
						insertPos = x.Pos()
					}
				}
			case *ast.CallExpr:
				if spec.mapSuffix == "" && strings.HasSuffix(p.text(x.Fun), ".RegisterRequest") && len(x.Args) >= 1 && keyExpr == nil {
					keyExpr = x.Args[0]
					insertPos = x.Pos()
				}
				for _, pat := range spec.sendPats {
					if !strings.HasPrefix(pat, "<-") && strings.HasPrefix(pdSquash(p.text(x)), pat) && sendPos == 0 {
						sendPos = x.Pos()
					}
				}
			case *ast.SendStmt:
				for _, pat := range spec.sendPats {
					if strings.HasPrefix(pat, "<-") && pdSquash(p.text(x.Chan)) == pat[2:] && sendPos == 0 {
						sendPos = x.Pos()
					}
				}
			}
			return true
		})
		// unknown (no insert or no send recognised) => non-compliant
		f.insertFirst = insertPos != 0 && sendPos != 0 && insertPos < sendPos
		if keyExpr != nil {
			d := pdResolve(p, fd.Body, keyExpr)
			f.insertKey = pdSquash(p.text(d))
			f.insertKind = pdInsertKind(p, d)
			keyName := p.text(keyExpr)
			// matching deferred delete: a defer at the top level of the function that deletes the same key
			for _, st := range fd.Body.List {
				ds, ok := st.(*ast.DeferStmt)
				if !ok {
					continue
				}
				ast.Inspect(ds, func(n ast.Node) bool {
					c, ok := n.(*ast.CallExpr)
					if !ok {
						return true
					}
					if id, ok := c.Fun.(*ast.Ident); ok && id.Name == "delete" && len(c.Args) == 2 && spec.mapSuffix != "" &&
						strings.HasSuffix(p.text(c.Args[0]), spec.mapSuffix) && p.text(c.Args[1]) == keyName {
						f.deferredDelete = true
					}
					if spec.mapSuffix == "" && strings.HasSuffix(p.text(c.Fun), ".UnregisterRequest") && len(c.Args) == 1 && p.text(c.Args[0]) == keyName {
						f.deferredDelete = true
					}
					return true
				})
			}
		}
	}
	sites, sitesComparing := 0, 0
	for _, lf := range spec.lookups {
		fd, _ := p.funcDecl(lf)
		if fd == nil || fd.Body == nil {
			f.lookupFuncs = append(f.lookupFuncs, lf)
			f.lookupKinds = append(f.lookupKinds, "other")
			continue
		}
		var keys []ast.Expr
		ast.Inspect(fd.Body, func(n ast.Node) bool {
			switch x := n.(type) {
			case *ast.AssignStmt:
				for _, r := range x.Rhs {
					if ix, ok := r.(*ast.IndexExpr); ok && spec.mapSuffix != "" && strings.HasSuffix(p.text(ix.X), spec.mapSuffix) {
						keys = append(keys, ix.Index)
					}
				}
			case *ast.CallExpr:
				if spec.mapSuffix == "" && strings.HasSuffix(p.text(x.Fun), ".DeliverResponse") && len(x.Args) >= 2 {
					keys = append(keys, x.Args[0])
				}
			}
			return true
		})
		if len(keys) == 0 {
			f.lookupFuncs = append(f.lookupFuncs, lf)
			f.lookupKinds = append(f.lookupKinds, "other")
			continue
		}
		for _, k := range keys {
			f.lookupFuncs = append(f.lookupFuncs, lf)
			f.lookupKinds = append(f.lookupKinds, pdLookupKind(p, lf, fd.Body, k))
			cmp := pdSessionCompared(p, fd.Body, k)
			if !cmp && spec.mapSuffix == "" {
				// the Streamable table is consulted through responseManager.DeliverResponse: the comparison may sit there
				if dd, _ := p.funcDecl("responseManager.DeliverResponse"); dd != nil && dd.Body != nil {
					cmp = pdSessionCompared(p, dd.Body, nil)
				}
			}
			sites++
			if cmp {
				sitesComparing++
			}
		}
	}
	// every read of the map, anywhere in the table's file: a function that reads the table and does not itself compare the
	// posting session is a lookup path on which a foreign answer can be accepted
	f.readsCompare = true
	if file := p.files[spec.file]; file != nil {
		for _, d := range file.Decls {
			fd, ok := d.(*ast.FuncDecl)
			if !ok || fd.Body == nil {
				continue
			}
			targets := map[ast.Expr]bool{}
			reads := 0
			ast.Inspect(fd.Body, func(n ast.Node) bool {
				switch x := n.(type) {
				case *ast.AssignStmt:
					if x.Tok == token.ASSIGN {
						for _, l := range x.Lhs {
							targets[l] = true
						}
					}
				case *ast.IndexExpr:
					if !targets[x] && strings.HasSuffix(p.text(x.X), "."+spec.mapField) {
						reads++
					}
				}
				return true
			})
			if reads > 0 {
				f.readSites = append(f.readSites, funcName(fd))
				if !pdSessionCompared(p, fd.Body, nil) {
					f.readsCompare = false
				}
			}
		}
	}
	sort.Strings(f.readSites)
	if len(f.readSites) == 0 {
		f.readsCompare = false
	}
	f.usesSession = sites > 0 && sites == sitesComparing && f.readsCompare // every lookup site takes the posting session into account
	return f
}

type pdDropFact struct{ file, fn, ch string }

func pdDropSites(p *pkgSrc) []pdDropFact {
	var out []pdDropFact
	for _, fname := range p.sortedFiles() {
		for _, d := range p.files[fname].Decls {
			fd, ok := d.(*ast.FuncDecl)
			if !ok || fd.Body == nil {
				continue
			}
			ast.Inspect(fd.Body, func(n ast.Node) bool {
				sel, ok := n.(*ast.SelectStmt)
				if !ok {
					return true
				}
				hasDefault := false
				var sends []string
				for _, cl := range sel.Body.List {
					cc := cl.(*ast.CommClause)
					if cc.Comm == nil {
						hasDefault = true
					} else if s, ok := cc.Comm.(*ast.SendStmt); ok {
						sends = append(sends, pdSquash(p.text(s.Chan)))
					}
				}
				if hasDefault {
					for _, ch := range sends {
						out = append(out, pdDropFact{fname, fd.Name.Name, ch})
					}
				}
				return true
			})
		}
	}
	sort.SliceStable(out, func(i, j int) bool {
		if out[i].file != out[j].file {
			return out[i].file < out[j].file
		}
		if out[i].fn != out[j].fn {
			return out[i].fn < out[j].fn
		}
		return out[i].ch < out[j].ch
	})
	return out
}

func pdPostSseMatcher(p *pkgSrc) (string, string) {
	fd, _ := p.funcDecl("streamableHTTPClientTransport.processEventData")
	l, r := "other", "other"
	if fd == nil || fd.Body == nil {
		return l, r
	}
	ast.Inspect(fd.Body, func(n ast.Node) bool {
		be, ok := n.(*ast.BinaryExpr)
		if !ok || be.Op != token.EQL {
			return true
		}
		if pdIsSprintfV(p, be.X) && pdIsSprintfV(p, be.Y) {
			l, r = "sprintfV", "sprintfV"
		}
		if pdIsIDKey(p, be.X) && pdIsIDKey(p, be.Y) {
			l, r = "idKey", "idKey"
		}
		return true
	})
	return l, r
}

// pdInitializeCalled: some non-test, non-hook code calls a zero-argument `.Initialize()` (marks a session initialized).
func pdInitializeCalled(p *pkgSrc) bool {
	found := false
	for _, fname := range p.sortedFiles() {
		ast.Inspect(p.files[fname], func(n ast.Node) bool {
			c, ok := n.(*ast.CallExpr)
			if !ok || len(c.Args) != 0 {
				return true
			}
			if s, ok := c.Fun.(*ast.SelectorExpr); ok && s.Sel.Name == "Initialize" {
				found = true
			}
			return true
		})
	}
	return found
}

// pdSseSendChecksInitialized: sendNotificationToSession refuses when `!session.Initialized()`.
func pdSseSendChecksInitialized(p *pkgSrc) bool {
	fd, _ := p.funcDecl("SSEServer.sendNotificationToSession")
	if fd == nil || fd.Body == nil {
		return true // unknown: assume the guard is there
	}
	return strings.Contains(p.text(fd.Body), ".Initialized()")
}

type pdDeadlineFact struct{ file, fn, call, arg string }

// pdDeadlineSites: every call of a `Set(Read|Write)?Deadline` method and every `(Read|Write|Idle|ReadHeader)Timeout` field set in a
// composite literal or assignment, in the root package and the internal packages the streams are written through.
func pdDeadlineSites(pkgs map[string]*pkgSrc) []pdDeadlineFact {
	var out []pdDeadlineFact
	var dirs []string
	for d := range pkgs {
		dirs = append(dirs, d)
	}
	sort.Strings(dirs)
	isTimeoutField := func(n string) bool {
		return n == "WriteTimeout" || n == "ReadTimeout" || n == "IdleTimeout" || n == "ReadHeaderTimeout"
	}
	for _, dir := range dirs {
		p := pkgs[dir]
		for _, fname := range p.sortedFiles() {
			for _, d := range p.files[fname].Decls {
				fd, ok := d.(*ast.FuncDecl)
				if !ok || fd.Body == nil {
					continue
				}
				ast.Inspect(fd.Body, func(n ast.Node) bool {
					switch x := n.(type) {
					case *ast.CallExpr:
						if s, ok := x.Fun.(*ast.SelectorExpr); ok && strings.HasPrefix(s.Sel.Name, "Set") && strings.HasSuffix(s.Sel.Name, "Deadline") {
							arg := ""
							if len(x.Args) > 0 {
								arg = pdSquash(p.text(x.Args[0]))
							}
							out = append(out, pdDeadlineFact{dir + fname, fd.Name.Name, s.Sel.Name, arg})
						}
					case *ast.KeyValueExpr:
						if id, ok := x.Key.(*ast.Ident); ok && isTimeoutField(id.Name) {
							out = append(out, pdDeadlineFact{dir + fname, fd.Name.Name, id.Name, pdSquash(p.text(x.Value))})
						}
					case *ast.AssignStmt:
						for i, l := range x.Lhs {
							if s, ok := l.(*ast.SelectorExpr); ok && isTimeoutField(s.Sel.Name) && i < len(x.Rhs) {
								out = append(out, pdDeadlineFact{dir + fname, fd.Name.Name, s.Sel.Name, pdSquash(p.text(x.Rhs[i]))})
							}
						}
					}
					return true
				})
			}
		}
	}
	return out
}

// pdInitializeWrites: the receiver fields written (m.F = …, m.F[k] = …, m.F++) by handleInitialize and by every method of the
// lifecycle manager it calls directly, as "func: target".
func pdInitializeWrites(p *pkgSrc) []string {
	hi, _ := p.funcDecl("lifecycleManager.handleInitialize")
	if hi == nil || hi.Body == nil {
		return []string{"?"}
	}
	fns := []string{"handleInitialize"}
	ast.Inspect(hi.Body, func(n ast.Node) bool {
		if c, ok := n.(*ast.CallExpr); ok {
			if s, ok := c.Fun.(*ast.SelectorExpr); ok {
				if id, ok := s.X.(*ast.Ident); ok && id.Name == "m" {
					fns = append(fns, s.Sel.Name)
				}
			}
		}
		return true
	})
	var out []string
	onRecv := func(e ast.Expr) bool {
		for {
			switch x := e.(type) {
			case *ast.IndexExpr:
				e = x.X
			case *ast.SelectorExpr:
				if id, ok := x.X.(*ast.Ident); ok {
					return id.Name == "m"
				}
				e = x.X
			case *ast.StarExpr:
				e = x.X
			case *ast.ParenExpr:
				e = x.X
			default:
				return false
			}
		}
	}
	for _, fn := range fns {
		fd, _ := p.funcDecl("lifecycleManager." + fn)
		if fd == nil || fd.Body == nil {
			continue
		}
		ast.Inspect(fd.Body, func(n ast.Node) bool {
			switch x := n.(type) {
			case *ast.AssignStmt:
				for _, l := range x.Lhs {
					if onRecv(l) {
						out = append(out, fn+": "+pdSquash(p.text(l)))
					}
				}
			case *ast.IncDecStmt:
				if onRecv(x.X) {
					out = append(out, fn+": "+pdSquash(p.text(x.X)))
				}
			}
			return true
		})
	}
	return out
}

// pdInitializeVersionFromParam: the ProtocolVersion of the InitializeResult built by buildInitializeResponse is one of that
// function's parameters (not something read from the manager).
func pdInitializeVersionFromParam(p *pkgSrc) bool {
	fd, _ := p.funcDecl("lifecycleManager.buildInitializeResponse")
	if fd == nil || fd.Body == nil {
		return false
	}
	params := map[string]bool{}
	for _, f := range fd.Type.Params.List {
		for _, n := range f.Names {
			params[n.Name] = true
		}
	}
	assigned := map[string]bool{} // a parameter that is assigned to in the body is no longer the caller's value
	found, ok := false, true
	ast.Inspect(fd.Body, func(n ast.Node) bool {
		switch x := n.(type) {
		case *ast.AssignStmt:
			for _, l := range x.Lhs {
				if id, isID := l.(*ast.Ident); isID {
					assigned[id.Name] = true
				}
			}
		case *ast.KeyValueExpr:
			if k, isID := x.Key.(*ast.Ident); isID && k.Name == "ProtocolVersion" {
				found = true
				id, isID := x.Value.(*ast.Ident)
				if !isID || !params[id.Name] {
					ok = false
				}
			}
		}
		return true
	})
	for name := range assigned {
		if params[name] {
			ok = false
		}
	}
	return found && ok
}

// pdActiveSessionsConds: every condition (`if`, `switch` tag / case) inside SessionManager.GetActiveSessions — the list of
// sessions a broadcast goes to is every stored session when there is none.
func pdActiveSessionsConds(sp *pkgSrc) []string {
	fd, _ := sp.funcDecl("SessionManager.GetActiveSessions")
	if fd == nil || fd.Body == nil {
		return []string{"?"}
	}
	var out []string
	ast.Inspect(fd.Body, func(n ast.Node) bool {
		switch x := n.(type) {
		case *ast.IfStmt:
			out = append(out, "if "+pdSquash(sp.text(x.Cond)))
		case *ast.SwitchStmt:
			out = append(out, "switch")
		case *ast.BranchStmt:
			out = append(out, x.Tok.String())
		}
		return true
	})
	return out
}

func pdTextList(ss []string) string {
	var parts []string
	for _, s := range ss {
		parts = append(parts, leanText(s))
	}
	return "[" + strings.Join(parts, ", ") + "]"
}

func genPending(root *pkgSrc) {
	var b strings.Builder
	b.WriteString(header)
	b.WriteString("namespace Mcp.Gen\n")
	b.WriteString("/-- one request/answer correlation table of the library (texts are code points). -/\n")
	b.WriteString("structure PdTable where\n  name : List Nat\n  insertFunc : List Nat\n  insertKey : List Nat          -- source text of the key expression at the insert\n" +
		"  insertKind : List Nat         -- idKey | sprintfV | int64Assert | uint64OfInt64 | other\n  deferredDelete : Bool         -- the insert has its matching deferred delete\n" +
		"  lookupFuncs : List (List Nat)\n  lookupKinds : List (List Nat) -- idKey | sprintfV | int64OfFloat64 | parseRequestID | other, one per lookup site\n" +
		"  lookupUsesSession : Bool      -- every lookup site and every function reading the map takes the posting session into account\n" +
		"  insertBeforeSend : Bool       -- in the issuing function the insert precedes the statement that puts the request on the wire\n" +
		"  readSites : List (List Nat)   -- every function of the table's file that reads the map\n  deriving Repr, DecidableEq\n")
	b.WriteString("def pdTables : List PdTable := [\n")
	for i, spec := range pdTableSpecs {
		f := pdAnalyseTable(root, spec)
		sep := ","
		if i == len(pdTableSpecs)-1 {
			sep = ""
		}
		fmt.Fprintf(&b, "  -- %s: insert in %s, key %s\n", f.name, f.insertFunc, strings.ReplaceAll(f.insertKey, "\n", " "))
		fmt.Fprintf(&b, "  ⟨%s, %s, %s, %s, %s, %s, %s, %s, %s, %s⟩%s\n", leanText(f.name), leanText(f.insertFunc), leanText(f.insertKey), leanText(f.insertKind),
			leanBool(f.deferredDelete), pdTextList(f.lookupFuncs), pdTextList(f.lookupKinds), leanBool(f.usesSession), leanBool(f.insertFirst), pdTextList(f.readSites), sep)
	}
	b.WriteString("]\n")
	b.WriteString("/-- a channel send inside a `select` that has a `default:` branch. -/\nstructure PdDrop where\n  file : List Nat\n  func : List Nat\n  chan : List Nat\n  deriving Repr, DecidableEq\n")
	b.WriteString("def pdDropSites : List PdDrop := [\n")
	drops := pdDropSites(root)
	for i, d := range drops {
		sep := ","
		if i == len(drops)-1 {
			sep = ""
		}
		fmt.Fprintf(&b, "  ⟨%s, %s, %s⟩%s -- %s %s %s\n", leanText(d.file), leanText(d.fn), leanText(d.ch), sep, d.file, d.fn, d.ch)
	}
	b.WriteString("]\n")
	l, r := pdPostSseMatcher(root)
	fmt.Fprintf(&b, "/-- `processEventData`: how the two sides of the id comparison are rendered. -/\ndef pdPostSseMatcher : List Nat × List Nat := (%s, %s)\n", leanText(l), leanText(r))
	fmt.Fprintf(&b, "/-- some library code calls a session's `Initialize()`. -/\ndef pdSessionInitializeCalled : Bool := %s\n", leanBool(pdInitializeCalled(root)))
	fmt.Fprintf(&b, "/-- the legacy SSE server's `sendNotificationToSession` refuses sessions that are not `Initialized()`. -/\ndef pdSseSendChecksInitialized : Bool := %s\n", leanBool(pdSseSendChecksInitialized(root)))
	b.WriteString("/-- a deadline or connection timeout set by library code (root package, internal/sseutil, internal/httputil):\n" +
		"    a `Set…Deadline` call or a `…Timeout` field of an http.Server. -/\nstructure PdDeadline where\n  file : List Nat\n  func : List Nat\n  call : List Nat\n  arg : List Nat\n  deriving Repr, DecidableEq\n")
	b.WriteString("def pdDeadlineSites : List PdDeadline := [\n")
	dls := pdDeadlineSites(map[string]*pkgSrc{"": root, "internal/sseutil/": loadDir(filepath.Join(*repo, "internal", "sseutil")),
		"internal/httputil/": loadDir(filepath.Join(*repo, "internal", "httputil"))})
	for i, d := range dls {
		sep := ","
		if i == len(dls)-1 {
			sep = ""
		}
		fmt.Fprintf(&b, "  ⟨%s, %s, %s, %s⟩%s -- %s %s %s(%s)\n", leanText(d.file), leanText(d.fn), leanText(d.call), leanText(d.arg), sep, d.file, d.fn, d.call, d.arg)
	}
	b.WriteString("]\n")
	fmt.Fprintf(&b, "/-- the fields of the lifecycle manager written while an initialize request is handled (handleInitialize and the\n    manager methods it calls), as \"func: target\". -/\ndef pdInitializeWrites : List (List Nat) := %s\n", pdTextList(pdInitializeWrites(root)))
	fmt.Fprintf(&b, "/-- the protocolVersion of the initialize result is a parameter of buildInitializeResponse. -/\ndef pdInitializeVersionFromParam : Bool := %s\n", leanBool(pdInitializeVersionFromParam(root)))
	fmt.Fprintf(&b, "/-- conditions and branch statements inside SessionManager.GetActiveSessions (internal/session). -/\ndef pdActiveSessionsConds : List (List Nat) := %s\n",
		pdTextList(pdActiveSessionsConds(loadDir(filepath.Join(*repo, "internal", "session")))))
	b.WriteString("end Mcp.Gen\n")
	writeIfChanged("PendingFacts.lean", b.String())
}

func init() { generators = append(generators, genPending) }

// ---- one id counter per client (C01): every method of Client / StdioClient that issues a request through its transport
// numbers it from the client's own counter (`c.requestID.Add(1)`); a request built without an id would be numbered by a
// transport-side fallback (`if req.ID == nil { req.ID = … }`) from another counter, and two counters feeding one pending
// table collide.

type pdClientOp struct{ client, method, idSource string }

func pdClientOps(p *pkgSrc) []pdClientOp {
	var out []pdClientOp
	for _, spec := range []struct{ file, recv string }{{"client.go", "Client"}, {"stdio_client.go", "StdioClient"}} {
		file := p.files[spec.file]
		if file == nil {
			continue
		}
		for _, d := range file.Decls {
			fd, ok := d.(*ast.FuncDecl)
			if !ok || fd.Body == nil || fd.Recv == nil || !strings.HasPrefix(funcName(fd), spec.recv+".") {
				continue
			}
			sends := false
			var idExprs []ast.Expr
			built := 0
			ast.Inspect(fd.Body, func(n ast.Node) bool {
				switch x := n.(type) {
				case *ast.CallExpr:
					t := pdSquash(p.text(x.Fun))
					if strings.HasSuffix(t, ".transport.sendRequest") || strings.HasSuffix(t, ".transport.sendRequestWithStream") {
						sends = true
					}
					if t == "newJSONRPCRequest" && len(x.Args) >= 1 {
						built++
						idExprs = append(idExprs, x.Args[0])
					}
				case *ast.CompositeLit:
					if p.text(x.Type) == "JSONRPCRequest" {
						built++
						for _, el := range x.Elts {
							if kv, ok := el.(*ast.KeyValueExpr); ok && p.text(kv.Key) == "ID" {
								idExprs = append(idExprs, kv.Value)
							}
						}
					}
				}
				return true
			})
			if !sends {
				continue
			}
			src := "other"
			switch {
			case built == 0:
				src = "other" // the request comes from somewhere this extractor does not follow
			case len(idExprs) < built:
				src = "none" // a request literal without an ID member
			default:
				src = "clientCounter"
				for _, e := range idExprs {
					if pdSquash(p.text(pdResolve(p, fd.Body, e))) != "c.requestID.Add(1)" {
						src = "other"
					}
				}
			}
			out = append(out, pdClientOp{spec.recv, fd.Name.Name, src})
		}
	}
	sort.Slice(out, func(i, j int) bool {
		if out[i].client != out[j].client {
			return out[i].client < out[j].client
		}
		return out[i].method < out[j].method
	})
	return out
}

// pdIDFallbacks: functions that number a request themselves when it comes without an id (`if req.ID == nil { req.ID = … }`).
func pdIDFallbacks(p *pkgSrc) []string {
	var out []string
	for _, fname := range []string{"transport_stdio.go", "sse_client.go", "streamable_client.go"} {
		file := p.files[fname]
		if file == nil {
			continue
		}
		for _, d := range file.Decls {
			fd, ok := d.(*ast.FuncDecl)
			if !ok || fd.Body == nil {
				continue
			}
			ast.Inspect(fd.Body, func(n ast.Node) bool {
				is, ok := n.(*ast.IfStmt)
				if !ok {
					return true
				}
				c := pdSquash(p.text(is.Cond))
				if strings.HasSuffix(c, ".ID == nil") {
					out = append(out, funcName(fd))
				}
				return true
			})
		}
	}
	sort.Strings(out)
	return out
}

func genPendingClients(root *pkgSrc) {
	var b strings.Builder
	b.WriteString(header)
	b.WriteString("namespace Mcp.Gen\n")
	b.WriteString("/-- a client method that issues a request: where the request's id comes from (clientCounter | none | other). -/\n")
	b.WriteString("structure PdClientOp where\n  client : List Nat\n  method : List Nat\n  idSource : List Nat\n  deriving Repr, DecidableEq\n")
	b.WriteString("def pdClientOps : List PdClientOp := [\n")
	ops := pdClientOps(root)
	for i, o := range ops {
		sep := ","
		if i == len(ops)-1 {
			sep = ""
		}
		fmt.Fprintf(&b, "  ⟨%s, %s, %s⟩%s -- %s.%s %s\n", leanText(o.client), leanText(o.method), leanText(o.idSource), sep, o.client, o.method, o.idSource)
	}
	b.WriteString("]\n")
	fmt.Fprintf(&b, "/-- transport functions that number a request themselves when it arrives without an id. -/\ndef pdIdFallbacks : List (List Nat) := %s\n", pdTextList(pdIDFallbacks(root)))
	b.WriteString("end Mcp.Gen\n")
	writeIfChanged("PendingClients.lean", b.String())
}

func init() { generators = append(generators, genPendingClients) }
