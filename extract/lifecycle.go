package main

// T-gen family for C16 (handshake): lean/Mcp/Gen/LifecycleFacts.lean
//   - the version lists of manager_lifecycle.go newLifecycleManager (constants resolved) and of mcp_messages.go,
//   - every exported method of Client (client.go) and StdioClient (stdio_client.go) with its class and whether the
//     not-initialized guard precedes any use of the transport,
//   - structural facts about Initialize / Close of both clients,
//   - server side: the store / lock shape of updateCapabilities and buildInitializeResponse around the shared capability map,
//     and whether handleInitialize passes selectSupportedVersion(requested) unchanged into the answer.
// Purely syntactic; anything not recognised is emitted as a value the Lean predicates reject.

import (
	"fmt"
	"go/ast"
	"go/token"
	"regexp"
	"sort"
	"strconv"
	"strings"
)

func init() { generators = append(generators, genLifecycle) }

// constString resolves a package-level string constant (literal or alias of another constant).
func constString(p *pkgSrc, name string, depth int) (string, bool) {
	if depth > 8 {
		return "", false
	}
	for _, fn := range p.sortedFiles() {
		for _, d := range p.files[fn].Decls {
			gd, ok := d.(*ast.GenDecl)
			if !ok || gd.Tok != token.CONST {
				continue
			}
			for _, s := range gd.Specs {
				vs := s.(*ast.ValueSpec)
				for i, n := range vs.Names {
					if n.Name != name || i >= len(vs.Values) {
						continue
					}
					return stringExpr(p, vs.Values[i], depth+1)
				}
			}
		}
	}
	return "", false
}

func stringExpr(p *pkgSrc, e ast.Expr, depth int) (string, bool) {
	switch x := e.(type) {
	case *ast.BasicLit:
		if x.Kind == token.STRING {
			s, err := strconv.Unquote(x.Value)
			return s, err == nil
		}
	case *ast.Ident:
		return constString(p, x.Name, depth)
	case *ast.ParenExpr:
		return stringExpr(p, x.X, depth)
	}
	return "", false
}

func stringList(p *pkgSrc, e ast.Expr) ([]string, bool) {
	cl, ok := e.(*ast.CompositeLit)
	if !ok {
		return nil, false
	}
	var out []string
	for _, el := range cl.Elts {
		s, ok := stringExpr(p, el, 0)
		if !ok {
			return nil, false
		}
		out = append(out, s)
	}
	return out, true
}

func leanTextList(l []string) string {
	var parts []string
	for _, s := range l {
		parts = append(parts, leanText(s))
	}
	return "[" + strings.Join(parts, ", ") + "]"
}

// transport methods that never put anything on the wire
var transportLocal = map[string]bool{
	"getSessionID": true, "setSessionID": true, "registerNotificationHandler": true, "unregisterNotificationHandler": true,
	"getProcessID": true, "getCommandLine": true, "isProcessRunning": true, "setRetryConfig": true, "isStatelessMode": true,
}

var lifecycleNames = map[string]bool{"Initialize": true, "Close": true, "TerminateSession": true, "RestartProcess": true, "SendInitialized": true}

type methodInfo struct {
	recv, name string
	fd         *ast.FuncDecl
	rv         string          // receiver variable
	direct     map[string]bool // transport methods called directly
	calls      map[string]bool // own methods called (c.M(...))
}

// transportCall: n is a call c.transport.X(...) -> X
func transportCall(n ast.Node, rv string) (string, bool) {
	call, ok := n.(*ast.CallExpr)
	if !ok {
		return "", false
	}
	sel, ok := call.Fun.(*ast.SelectorExpr)
	if !ok {
		return "", false
	}
	inner, ok := sel.X.(*ast.SelectorExpr)
	if !ok || inner.Sel.Name != "transport" {
		return "", false
	}
	if id, ok := inner.X.(*ast.Ident); ok && id.Name == rv {
		return sel.Sel.Name, true
	}
	return "", false
}

// ownCall: n is a call c.M(...) -> M
func ownCall(n ast.Node, rv string) (string, bool) {
	call, ok := n.(*ast.CallExpr)
	if !ok {
		return "", false
	}
	sel, ok := call.Fun.(*ast.SelectorExpr)
	if !ok {
		return "", false
	}
	if id, ok := sel.X.(*ast.Ident); ok && id.Name == rv {
		return sel.Sel.Name, true
	}
	return "", false
}

// isInitializedExpr: c.initialized or c.initialized.Load()
func isInitializedExpr(e ast.Expr, rv string) bool {
	if p, ok := e.(*ast.ParenExpr); ok {
		return isInitializedExpr(p.X, rv)
	}
	if call, ok := e.(*ast.CallExpr); ok && len(call.Args) == 0 {
		if sel, ok := call.Fun.(*ast.SelectorExpr); ok && sel.Sel.Name == "Load" {
			e = sel.X
		} else {
			return false
		}
	}
	sel, ok := e.(*ast.SelectorExpr)
	if !ok || sel.Sel.Name != "initialized" {
		return false
	}
	id, ok := sel.X.(*ast.Ident)
	return ok && id.Name == rv
}

func endsInErrorReturn(p *pkgSrc, b *ast.BlockStmt, needles ...string) bool {
	if b == nil || len(b.List) == 0 {
		return false
	}
	r, ok := b.List[len(b.List)-1].(*ast.ReturnStmt)
	if !ok || len(r.Results) == 0 {
		return false
	}
	last := r.Results[len(r.Results)-1]
	if id, ok := last.(*ast.Ident); ok && id.Name == "nil" {
		return false
	}
	txt := strings.ToLower(p.text(r))
	for _, n := range needles {
		if strings.Contains(txt, strings.ToLower(n)) {
			return true
		}
	}
	return false
}

func genLifecycle(root *pkgSrc) {
	var b strings.Builder
	b.WriteString(header)
	b.WriteString("import Mcp.Model.Lifecycle\nnamespace Mcp.Gen\nopen Mcp.Lifecycle\n")

	// ---- version lists
	var supported []string
	dflt := ""
	okS, okD := false, false
	if fd, _ := root.funcDecl("newLifecycleManager"); fd != nil {
		ast.Inspect(fd, func(n ast.Node) bool {
			kv, ok := n.(*ast.KeyValueExpr)
			if !ok {
				return true
			}
			k, ok := kv.Key.(*ast.Ident)
			if !ok {
				return true
			}
			switch k.Name {
			case "supportedVersions":
				supported, okS = stringList(root, kv.Value)
			case "defaultProtocolVersion":
				dflt, okD = stringExpr(root, kv.Value, 0)
			}
			return true
		})
	}
	if !okS {
		supported = nil
	}
	if !okD {
		dflt = "unknown"
	}
	var public []string
	for _, fn := range root.sortedFiles() {
		for _, d := range root.files[fn].Decls {
			gd, ok := d.(*ast.GenDecl)
			if !ok || gd.Tok != token.VAR {
				continue
			}
			for _, s := range gd.Specs {
				vs := s.(*ast.ValueSpec)
				for i, n := range vs.Names {
					if n.Name == "SupportedProtocolVersions" && i < len(vs.Values) {
						if l, ok := stringList(root, vs.Values[i]); ok {
							public = l
						}
					}
				}
			}
		}
	}
	// are the (unexported) setters that would replace these lists called anywhere, or the fields assigned elsewhere?
	overrides := false
	for _, fn := range root.sortedFiles() {
		ast.Inspect(root.files[fn], func(n ast.Node) bool {
			switch x := n.(type) {
			case *ast.CallExpr:
				if sel, ok := x.Fun.(*ast.SelectorExpr); ok {
					switch sel.Sel.Name {
					case "withSupportedVersions", "withProtocolVersion", "withCapabilities":
						overrides = true
					}
				}
			case *ast.FuncDecl:
				switch funcName(x) {
				case "lifecycleManager.withSupportedVersions", "lifecycleManager.withProtocolVersion", "lifecycleManager.withCapabilities", "newLifecycleManager":
					return false // the setters themselves and the constructor
				}
			case *ast.AssignStmt:
				for _, l := range x.Lhs {
					if sel, ok := l.(*ast.SelectorExpr); ok && (sel.Sel.Name == "supportedVersions" || sel.Sel.Name == "defaultProtocolVersion") {
						overrides = true
					}
				}
			}
			return true
		})
	}
	fmt.Fprintf(&b, "/-- `newLifecycleManager`: supportedVersions, defaultProtocolVersion (constants resolved; [] / \"unknown\" = not recognised). -/\n")
	fmt.Fprintf(&b, "def supportedVersions : List Mcp.Str.Text := %s\n", leanTextList(supported))
	fmt.Fprintf(&b, "def defaultProtocolVersion : Mcp.Str.Text := %s\n", leanText(dflt))
	fmt.Fprintf(&b, "/-- `mcp_messages.go` SupportedProtocolVersions (the exported list). -/\ndef publicSupportedVersions : List Mcp.Str.Text := %s\n", leanTextList(public))
	fmt.Fprintf(&b, "/-- Some code outside the constructor replaces the version lists or the capability map (withSupportedVersions / withProtocolVersion / withCapabilities called, or the fields assigned). -/\ndef lifecycleOverridesUsed : Bool := %s\n", leanBool(overrides))

	// ---- client methods
	var ms []*methodInfo
	byKey := map[string]*methodInfo{}
	for _, fn := range root.sortedFiles() {
		for _, d := range root.files[fn].Decls {
			fd, ok := d.(*ast.FuncDecl)
			if !ok || fd.Recv == nil || len(fd.Recv.List) == 0 || fd.Body == nil {
				continue
			}
			full := funcName(fd)
			parts := strings.SplitN(full, ".", 2)
			if len(parts) != 2 || (parts[0] != "Client" && parts[0] != "StdioClient") {
				continue
			}
			rv := "_"
			if len(fd.Recv.List[0].Names) > 0 {
				rv = fd.Recv.List[0].Names[0].Name
			}
			mi := &methodInfo{recv: parts[0], name: parts[1], fd: fd, rv: rv, direct: map[string]bool{}, calls: map[string]bool{}}
			ast.Inspect(fd.Body, func(n ast.Node) bool {
				if x, ok := transportCall(n, rv); ok {
					mi.direct[x] = true
				} else if m, ok := ownCall(n, rv); ok {
					mi.calls[m] = true
				}
				return true
			})
			ms = append(ms, mi)
			byKey[full] = mi
		}
	}
	// transitive set of wire-touching transport methods reachable from a method
	var reach func(mi *methodInfo, seen map[string]bool) map[string]bool
	reach = func(mi *methodInfo, seen map[string]bool) map[string]bool {
		out := map[string]bool{}
		if seen[mi.recv+"."+mi.name] {
			return out
		}
		seen[mi.recv+"."+mi.name] = true
		for x := range mi.direct {
			if !transportLocal[x] {
				out[x] = true
			}
		}
		for m := range mi.calls {
			if o, ok := byKey[mi.recv+"."+m]; ok {
				for x := range reach(o, seen) {
					out[x] = true
				}
			}
		}
		return out
	}
	// does statement s (sub-tree) touch the wire?
	touches := func(mi *methodInfo, s ast.Node) bool {
		hit := false
		ast.Inspect(s, func(n ast.Node) bool {
			if x, ok := transportCall(n, mi.rv); ok && !transportLocal[x] {
				hit = true
			} else if m, ok := ownCall(n, mi.rv); ok {
				if o, ok := byKey[mi.recv+"."+m]; ok && len(reach(o, map[string]bool{})) > 0 {
					hit = true
				}
			}
			return !hit
		})
		return hit
	}
	sort.Slice(ms, func(i, j int) bool {
		if ms[i].recv != ms[j].recv {
			return ms[i].recv < ms[j].recv
		}
		return ms[i].name < ms[j].name
	})
	b.WriteString("/-- Exported methods of Client / StdioClient: class (0 local, 1 life-cycle, 2 request, 3 notification, 4 not recognised)\n    and whether the not-initialized guard is a top-level statement before the first use of the transport. -/\ndef clientOps : List OpFact := [\n")
	first := true
	for _, mi := range ms {
		if !ast.IsExported(mi.name) {
			continue
		}
		r := reach(mi, map[string]bool{})
		guardIdx, useIdx := -1, -1
		for i, st := range mi.fd.Body.List {
			if guardIdx < 0 {
				if is, ok := st.(*ast.IfStmt); ok && is.Init == nil && is.Else == nil {
					if u, ok := is.Cond.(*ast.UnaryExpr); ok && u.Op == token.NOT && isInitializedExpr(u.X, mi.rv) &&
						endsInErrorReturn(root, is.Body, "ErrNotInitialized", "not initialized") {
						guardIdx = i
						continue
					}
				}
			}
			if useIdx < 0 && touches(mi, st) {
				useIdx = i
			}
		}
		cls := 0
		switch {
		case len(r) == 0:
			cls = 0
		case lifecycleNames[mi.name]:
			cls = 1
		case r["sendRequest"] || r["sendRequestWithStream"]:
			cls = 2
		case r["sendNotification"] && len(r) == 1:
			cls = 3
		default:
			cls = 4
		}
		guarded := guardIdx >= 0 && (useIdx < 0 || guardIdx < useIdx)
		if !first {
			b.WriteString(",\n")
		}
		first = false
		fmt.Fprintf(&b, "  { recv := %s, name := %s, cls := %d, guarded := %s } /- %s.%s -/", leanText(mi.recv), leanText(mi.name), cls, leanBool(guarded), mi.recv, mi.name)
	}
	b.WriteString("]\n")

	// ---- Initialize / Close structure
	b.WriteString("/-- Per client type: (receiver, Initialize starts with the already-initialized refusal before any transport use,\n    the flag is set to true exactly once and no error return follows it,\n    every error return after the first transport use is preceded by setState(StateDisconnected) in its block,\n    Close stores false into the flag and sets StateDisconnected, and does both on every path before any return that follows the\n    transport's close() - in particular before the one that passes a transport error on). -/\ndef clientLifecycleFacts : List (Mcp.Str.Text × Bool × Bool × Bool × Bool) := [\n")
	for i, recv := range []string{"Client", "StdioClient"} {
		refuses, once, disc, closeResets := false, false, false, false
		if mi := byKey[recv+".Initialize"]; mi != nil {
			body := mi.fd.Body.List
			// refusal first
			for _, st := range body {
				if touches(mi, st) {
					break
				}
				if is, ok := st.(*ast.IfStmt); ok && is.Init == nil && is.Else == nil && isInitializedExpr(is.Cond, mi.rv) &&
					endsInErrorReturn(root, is.Body, "ErrAlreadyInitialized", "already initialized") {
					refuses = true
					break
				}
			}
			// flag set exactly once, as a top-level statement, with no error return after it
			sets := 0
			ast.Inspect(mi.fd.Body, func(n ast.Node) bool {
				if isFlagStore(n, mi.rv, "true") {
					sets++
				}
				return true
			})
			setIdx := -1
			for i, st := range body {
				if es, ok := st.(ast.Stmt); ok && stmtIsFlagStore(es, mi.rv, "true") {
					setIdx = i
				}
			}
			if sets == 1 && setIdx >= 0 {
				once = true
				for _, st := range body[setIdx+1:] {
					ast.Inspect(st, func(n ast.Node) bool {
						if _, ok := n.(*ast.FuncLit); ok {
							return false
						}
						if r, ok := n.(*ast.ReturnStmt); ok && len(r.Results) > 0 {
							if id, ok := r.Results[len(r.Results)-1].(*ast.Ident); !ok || id.Name != "nil" {
								once = false
							}
						}
						return true
					})
				}
			}
			// failures disconnect
			useIdx := -1
			for i, st := range body {
				if touches(mi, st) {
					useIdx = i
					break
				}
			}
			if useIdx >= 0 {
				disc = true
				nErr := 0
				var walk func(list []ast.Stmt)
				walk = func(list []ast.Stmt) {
					for i, st := range list {
						switch x := st.(type) {
						case *ast.ReturnStmt:
							if len(x.Results) == 0 {
								continue
							}
							if id, ok := x.Results[len(x.Results)-1].(*ast.Ident); ok && id.Name == "nil" {
								continue
							}
							nErr++
							okPrev := false
							for _, pst := range list[:i] {
								if strings.Contains(strings.Join(strings.Fields(root.text(pst)), ""), mi.rv+".setState(StateDisconnected)") {
									if _, isIf := pst.(*ast.IfStmt); !isIf {
										okPrev = true
									}
								}
							}
							if !okPrev {
								disc = false
							}
						case *ast.IfStmt:
							walk(x.Body.List)
							if eb, ok := x.Else.(*ast.BlockStmt); ok {
								walk(eb.List)
							} else if x.Else != nil {
								disc = false
							}
						case *ast.BlockStmt:
							walk(x.List)
						case *ast.ForStmt, *ast.RangeStmt, *ast.SwitchStmt, *ast.TypeSwitchStmt, *ast.SelectStmt:
							// not expected in Initialize: do not try to understand it
							ast.Inspect(x, func(n ast.Node) bool {
								if _, ok := n.(*ast.ReturnStmt); ok {
									disc = false
								}
								return true
							})
						}
					}
				}
				walk(body[useIdx:])
				if nErr == 0 {
					disc = false
				}
			}
		}
		if mi := byKey[recv+".Close"]; mi != nil {
			flag, st := false, false
			ast.Inspect(mi.fd.Body, func(n ast.Node) bool {
				if isFlagStore(n, mi.rv, "false") {
					flag = true
				}
				if m, ok := ownCall(n, mi.rv); ok && m == "setState" {
					if call := n.(*ast.CallExpr); len(call.Args) == 1 {
						if id, ok := call.Args[0].(*ast.Ident); ok && id.Name == "StateDisconnected" {
							st = true
						}
					}
				}
				return true
			})
			// … and does so on EVERY path that follows the transport's close(): no return may lie between the first use of
			// the transport and the two resets (a Close that passes the transport error on before resetting leaves a client
			// whose child died "initialized").
			closeResets = flag && st && closeResetsOnEveryPath(mi)
		}
		if i > 0 {
			b.WriteString(",\n")
		}
		fmt.Fprintf(&b, "  (%s, %s, %s, %s, %s) /- %s -/", leanText(recv), leanBool(refuses), leanBool(once), leanBool(disc), leanBool(closeResets), recv)
	}
	b.WriteString("]\n")
	lifecycleServerFacts(root, &b)
	lifecycleAnswerFacts(root, &b)
	b.WriteString("end Mcp.Gen\n")
	writeIfChanged("LifecycleFacts.lean", b.String())
}

// closeResetsOnEveryPath walks the body of Close in statement order with (transport used, flag reset, state reset):
// a `return` (or the end of the body) reached with the transport used and a reset missing makes it false.  Resets count
// only as direct statements of the block they are in (and of the enclosing ones); what a nested block resets does not
// count after it.  Loops, switches, selects, goto, defer/go of anything touching the transport: not understood = false.
func closeResetsOnEveryPath(mi *methodInfo) bool {
	rv := mi.rv
	usesTransport := func(n ast.Node) bool {
		if n == nil {
			return false
		}
		found := false
		ast.Inspect(n, func(x ast.Node) bool {
			if _, ok := transportCall(x, rv); ok {
				found = true
			}
			return true
		})
		return found
	}
	isStateReset := func(st ast.Stmt) bool {
		es, ok := st.(*ast.ExprStmt)
		if !ok {
			return false
		}
		if m, ok := ownCall(es.X, rv); ok && m == "setState" {
			if call := es.X.(*ast.CallExpr); len(call.Args) == 1 {
				if id, ok := call.Args[0].(*ast.Ident); ok && id.Name == "StateDisconnected" {
					return true
				}
			}
		}
		return false
	}
	type pst struct{ used, flag, state bool }
	ok := true
	sawUse := false
	var walk func(list []ast.Stmt, in pst) (out pst, terminated bool)
	walk = func(list []ast.Stmt, s pst) (pst, bool) {
		for _, st := range list {
			switch x := st.(type) {
			case *ast.ReturnStmt:
				for _, r := range x.Results {
					if usesTransport(r) {
						s.used, sawUse = true, true
					}
				}
				if s.used && !(s.flag && s.state) {
					ok = false
				}
				return s, true
			case *ast.IfStmt:
				if usesTransport(x.Init) || usesTransport(x.Cond) {
					s.used, sawUse = true, true
				}
				b, tb := walk(x.Body.List, s)
				e, te := s, false
				switch el := x.Else.(type) {
				case nil:
				case *ast.BlockStmt:
					e, te = walk(el.List, s)
				case *ast.IfStmt:
					e, te = walk([]ast.Stmt{el}, s)
				default:
					ok = false
				}
				// after the if: used if used on a way that falls through; resets only those made before it
				if !tb && b.used || !te && e.used {
					s.used = true
				}
				if tb && te {
					return s, true
				}
			case *ast.BlockStmt:
				b, t := walk(x.List, s)
				if t {
					return b, true
				}
				s = b
			case *ast.ForStmt, *ast.RangeStmt, *ast.SwitchStmt, *ast.TypeSwitchStmt, *ast.SelectStmt, *ast.LabeledStmt, *ast.BranchStmt, *ast.GoStmt, *ast.DeferStmt:
				if usesTransport(x) || stmtContainsReturn(x) {
					ok = false
				}
			default:
				if stmtIsFlagStore(st, rv, "false") {
					s.flag = true
				} else if isStateReset(st) {
					s.state = true
				} else if usesTransport(st) {
					s.used, sawUse = true, true
				}
			}
		}
		return s, false
	}
	end, terminated := walk(mi.fd.Body.List, pst{})
	if !terminated && end.used && !(end.flag && end.state) {
		ok = false
	}
	return ok && sawUse
}

func stmtContainsReturn(n ast.Node) bool {
	found := false
	ast.Inspect(n, func(x ast.Node) bool {
		if _, ok := x.(*ast.FuncLit); ok {
			return false
		}
		if _, ok := x.(*ast.ReturnStmt); ok {
			found = true
		}
		return true
	})
	return found
}

// isFlagStore: `c.initialized = <val>` or `c.initialized.Store(<val>)`
func isFlagStore(n ast.Node, rv, val string) bool {
	switch x := n.(type) {
	case *ast.AssignStmt:
		if len(x.Lhs) == 1 && len(x.Rhs) == 1 && isInitializedExpr(x.Lhs[0], rv) {
			if id, ok := x.Rhs[0].(*ast.Ident); ok && id.Name == val {
				return true
			}
		}
	case *ast.CallExpr:
		if sel, ok := x.Fun.(*ast.SelectorExpr); ok && sel.Sel.Name == "Store" && len(x.Args) == 1 && isInitializedExpr(sel.X, rv) {
			if id, ok := x.Args[0].(*ast.Ident); ok && id.Name == val {
				return true
			}
		}
	}
	return false
}

func stmtIsFlagStore(s ast.Stmt, rv, val string) bool {
	if isFlagStore(s, rv, val) {
		return true
	}
	if es, ok := s.(*ast.ExprStmt); ok {
		return isFlagStore(es.X, rv, val)
	}
	return false
}

// ---------- server side: how handleInitialize computes its answer (structure only)

// selField: e is `<rv>.<field>`
func selField(e ast.Expr, rv, field string) bool {
	sel, ok := e.(*ast.SelectorExpr)
	if !ok || sel.Sel.Name != field {
		return false
	}
	id, ok := sel.X.(*ast.Ident)
	return ok && id.Name == rv
}

// muCall: n is the call `<rv>.mu.<name>()`
func muCall(n ast.Node, rv string, names ...string) bool {
	call, ok := n.(*ast.CallExpr)
	if !ok || len(call.Args) != 0 {
		return false
	}
	sel, ok := call.Fun.(*ast.SelectorExpr)
	if !ok || !selField(sel.X, rv, "mu") {
		return false
	}
	for _, nm := range names {
		if sel.Sel.Name == nm {
			return true
		}
	}
	return false
}

func recvName(fd *ast.FuncDecl) string {
	if fd.Recv != nil && len(fd.Recv.List) > 0 && len(fd.Recv.List[0].Names) > 0 {
		return fd.Recv.List[0].Names[0].Name
	}
	return "_"
}

// capsUse classifies every occurrence of `<rv>.capabilities` below n.
type capsUse struct {
	assigns   int // <rv>.capabilities = …
	mutations int // <rv>.capabilities[k] = …, delete(<rv>.capabilities, k), ++/--
	reads     int // <rv>.capabilities[k] as a value, range, len
	escapes   int // anything else: aliased, passed on, address taken (somebody else may then write through it)
}

func countCapsUses(n ast.Node, rv string) capsUse {
	var u capsUse
	classified := map[ast.Expr]bool{}
	isCaps := func(e ast.Expr) bool { return selField(e, rv, "capabilities") }
	ast.Inspect(n, func(x ast.Node) bool {
		switch t := x.(type) {
		case *ast.AssignStmt:
			for _, l := range t.Lhs {
				if isCaps(l) {
					u.assigns++
					classified[l] = true
				} else if ix, ok := l.(*ast.IndexExpr); ok && isCaps(ix.X) {
					u.mutations++
					classified[ix.X] = true
				}
			}
		case *ast.IncDecStmt:
			if ix, ok := t.X.(*ast.IndexExpr); ok && isCaps(ix.X) {
				u.mutations++
				classified[ix.X] = true
			}
		case *ast.CallExpr:
			if id, ok := t.Fun.(*ast.Ident); ok && len(t.Args) > 0 && isCaps(t.Args[0]) {
				switch id.Name {
				case "delete", "clear":
					u.mutations++
					classified[t.Args[0]] = true
				case "len":
					u.reads++
					classified[t.Args[0]] = true
				}
			}
		case *ast.IndexExpr:
			if isCaps(t.X) && !classified[t.X] {
				u.reads++
				classified[t.X] = true
			}
		case *ast.RangeStmt:
			if isCaps(t.X) {
				u.reads++
				classified[t.X] = true
			}
		}
		return true
	})
	ast.Inspect(n, func(x ast.Node) bool {
		if e, ok := x.(ast.Expr); ok && isCaps(e) && !classified[e] {
			u.escapes++
		}
		return true
	})
	return u
}

// critical: the top-level statements of body that lie inside its (single, top-level) critical section opened by
// `<rv>.mu.<lock>()` as an expression statement and closed by a top-level `<rv>.mu.<unlock>()` or a `defer` of it.
// ok = false when the locking is not of that simple shape.
func criticalSection(body *ast.BlockStmt, rv string, lock, unlock []string) (inside map[int]bool, ok bool) {
	inside = map[int]bool{}
	lockIdx, unlockIdx, deferred := -1, -1, false
	for i, st := range body.List {
		switch t := st.(type) {
		case *ast.ExprStmt:
			if muCall(t.X, rv, lock...) {
				if lockIdx >= 0 {
					return inside, false
				}
				lockIdx = i
			} else if muCall(t.X, rv, unlock...) {
				if lockIdx < 0 || unlockIdx >= 0 || deferred {
					return inside, false
				}
				unlockIdx = i
			}
		case *ast.DeferStmt:
			if muCall(t.Call, rv, unlock...) {
				if lockIdx < 0 || unlockIdx >= 0 || deferred {
					return inside, false
				}
				deferred = true
			}
		}
	}
	if lockIdx < 0 || (unlockIdx < 0 && !deferred) {
		return inside, false
	}
	// no lock / unlock call anywhere else (nested blocks, closures)
	n := 0
	ast.Inspect(body, func(x ast.Node) bool {
		if muCall(x, rv, "Lock", "Unlock", "RLock", "RUnlock", "TryLock", "TryRLock") {
			n++
		}
		return true
	})
	if n != 2 {
		return inside, false
	}
	end := len(body.List)
	if !deferred {
		end = unlockIdx
	}
	for i := lockIdx + 1; i < end; i++ {
		inside[i] = true
	}
	return inside, true
}

// the request parameter as handleInitialize reads it: params["protocolVersion"] (with or without the type assertion)
var requestedVersionExpr = regexp.MustCompile(`^[A-Za-z_][A-Za-z0-9_]*\["protocolVersion"\](\.\(string\))?$`)

func lifecycleServerFacts(root *pkgSrc, b *strings.Builder) {
	// ---- updateCapabilities: how often the shared map is stored, and where
	var shape capsUse
	locks := 0
	inCrit := false
	if fd, _ := root.funcDecl("lifecycleManager.updateCapabilities"); fd != nil && fd.Body != nil {
		rv := recvName(fd)
		shape = countCapsUses(fd.Body, rv)
		ast.Inspect(fd.Body, func(x ast.Node) bool {
			if muCall(x, rv, "Lock", "RLock", "TryLock", "TryRLock") {
				locks++
			}
			return true
		})
		if inside, ok := criticalSection(fd.Body, rv, []string{"Lock"}, []string{"Unlock"}); ok {
			// every use of the field (the store and the reads) is in a top-level statement inside the critical section
			inCrit = true
			for i, st := range fd.Body.List {
				u := countCapsUses(st, rv)
				if u.assigns+u.mutations+u.reads+u.escapes > 0 && !inside[i] {
					inCrit = false
				}
				if u.assigns > 0 {
					if _, isAssign := st.(*ast.AssignStmt); !isAssign {
						inCrit = false // conditional store
					}
				}
			}
		}
	} else {
		shape = capsUse{escapes: 1}
	}
	// ---- buildInitializeResponse: reads the map under the (read) lock, writes nothing
	readLocked := false
	if fd, _ := root.funcDecl("lifecycleManager.buildInitializeResponse"); fd != nil && fd.Body != nil {
		rv := recvName(fd)
		inside, ok := criticalSection(fd.Body, rv, []string{"RLock", "Lock"}, []string{"RUnlock", "Unlock"})
		all := countCapsUses(fd.Body, rv)
		if ok && all.assigns == 0 && all.mutations == 0 && all.reads+all.escapes > 0 {
			readLocked = true
			for i, st := range fd.Body.List {
				u := countCapsUses(st, rv)
				if u.reads+u.escapes > 0 && !inside[i] {
					readLocked = false
				}
			}
		}
	}
	// ---- nobody else touches the map: other methods of lifecycleManager (the setter and the constructor apart,
	// see lifecycleOverridesUsed), and code reaching in through a field named lifecycleManager
	others := 0
	for _, fn := range root.sortedFiles() {
		for _, d := range root.files[fn].Decls {
			fd, ok := d.(*ast.FuncDecl)
			if !ok || fd.Body == nil {
				continue
			}
			name := funcName(fd)
			if strings.HasPrefix(name, "lifecycleManager.") {
				switch name {
				case "lifecycleManager.updateCapabilities", "lifecycleManager.buildInitializeResponse", "lifecycleManager.withCapabilities":
					continue
				}
				u := countCapsUses(fd.Body, recvName(fd))
				others += u.assigns + u.mutations + u.reads + u.escapes
			}
			ast.Inspect(fd.Body, func(x ast.Node) bool {
				if sel, ok := x.(*ast.SelectorExpr); ok && sel.Sel.Name == "capabilities" {
					if inner, ok := sel.X.(*ast.SelectorExpr); ok && inner.Sel.Name == "lifecycleManager" {
						others++
					}
				}
				return true
			})
		}
	}
	fmt.Fprintf(b, "/-- `lifecycleManager.updateCapabilities` / `buildInitializeResponse` and the shared map `capabilities`: stores of the field in\n    updateCapabilities, in-place writes, uses that let the map escape (alias, argument), Lock calls, every use of the field lies in the\n    function's single top-level critical section (the store unconditional), buildInitializeResponse only reads it and does so inside its\n    (read-)locked section, uses of the map anywhere else. Not recognised = a value `UpdShape.ok` rejects. -/\n")
	fmt.Fprintf(b, "def updateCapabilitiesShape : UpdShape := { assigns := %d, mutations := %d, escapes := %d, locks := %d, inCrit := %s, readLocked := %s, others := %d }\n",
		shape.assigns, shape.mutations, shape.escapes, locks, leanBool(inCrit), leanBool(readLocked), others)

	// ---- handleInitialize: the version of the answer is selectSupportedVersion(requested), nothing in between
	direct := false
	if fd, _ := root.funcDecl("lifecycleManager.handleInitialize"); fd != nil && fd.Body != nil {
		rv := recvName(fd)
		// the call <rv>.buildInitializeResponse(X)
		var arg *ast.Ident
		nBuild := 0
		ast.Inspect(fd.Body, func(x ast.Node) bool {
			if m, ok := ownCall(x, rv); ok && m == "buildInitializeResponse" {
				nBuild++
				if call := x.(*ast.CallExpr); len(call.Args) == 1 {
					arg, _ = call.Args[0].(*ast.Ident)
				}
			}
			return true
		})
		// definitions of an identifier inside the function: (count, the single right-hand side)
		defs := func(name string) (int, ast.Expr) {
			n := 0
			var rhs ast.Expr
			ast.Inspect(fd.Body, func(x ast.Node) bool {
				switch t := x.(type) {
				case *ast.AssignStmt:
					for i, l := range t.Lhs {
						if id, ok := l.(*ast.Ident); ok && id.Name == name {
							n++
							if len(t.Lhs) == len(t.Rhs) {
								rhs = t.Rhs[i]
							} else {
								rhs = nil
								n += 100 // multi-value form: not understood
							}
						}
					}
				case *ast.ValueSpec:
					for _, id := range t.Names {
						if id.Name == name {
							n += 100
						}
					}
				case *ast.RangeStmt:
					for _, e := range []ast.Expr{t.Key, t.Value} {
						if id, ok := e.(*ast.Ident); ok && id.Name == name {
							n += 100
						}
					}
				case *ast.IncDecStmt:
					if id, ok := t.X.(*ast.Ident); ok && id.Name == name {
						n += 100
					}
				case *ast.UnaryExpr:
					if id, ok := t.X.(*ast.Ident); ok && t.Op == token.AND && id.Name == name {
						n += 100
					}
				}
				return true
			})
			return n, rhs
		}
		if nBuild == 1 && arg != nil {
			if n, rhs := defs(arg.Name); n == 1 && rhs != nil {
				if call, ok := rhs.(*ast.CallExpr); ok && len(call.Args) == 1 {
					if m, ok := ownCall(call, rv); ok && m == "selectSupportedVersion" {
						if req, ok := call.Args[0].(*ast.Ident); ok {
							if n2, rhs2 := defs(req.Name); n2 == 1 && rhs2 != nil {
								txt := strings.Join(strings.Fields(root.text(rhs2)), "")
								if requestedVersionExpr.MatchString(txt) {
									direct = true
								}
							}
						}
					}
				}
			}
		}
		// the response of handleInitialize is that call's value: `response := m.buildInitializeResponse(v)` … `return response, nil`
		// (a different return value would show in every differential run; not analysed here)
	}
	// buildInitializeResponse puts its parameter, unmodified, into ProtocolVersion
	if fd, _ := root.funcDecl("lifecycleManager.buildInitializeResponse"); direct && fd != nil && fd.Body != nil && fd.Type.Params != nil &&
		len(fd.Type.Params.List) == 1 && len(fd.Type.Params.List[0].Names) == 1 {
		param := fd.Type.Params.List[0].Names[0].Name
		okKV, writes := 0, 0
		ast.Inspect(fd.Body, func(x ast.Node) bool {
			switch t := x.(type) {
			case *ast.KeyValueExpr:
				if k, ok := t.Key.(*ast.Ident); ok && k.Name == "ProtocolVersion" {
					if v, ok := t.Value.(*ast.Ident); ok && v.Name == param {
						okKV++
					} else {
						okKV += 100
					}
				}
			case *ast.AssignStmt:
				for _, l := range t.Lhs {
					if id, ok := l.(*ast.Ident); ok && id.Name == param {
						writes++
					}
					if sel, ok := l.(*ast.SelectorExpr); ok && sel.Sel.Name == "ProtocolVersion" {
						writes++
					}
				}
			case *ast.UnaryExpr:
				if id, ok := t.X.(*ast.Ident); ok && t.Op == token.AND && id.Name == param {
					writes++
				}
			}
			return true
		})
		direct = okKV == 1 && writes == 0
	} else {
		direct = false
	}
	fmt.Fprintf(b, "/-- `handleInitialize` hands `buildInitializeResponse` a variable that is defined exactly once, as `selectSupportedVersion(requested)`\n    with `requested` defined exactly once from the request's `protocolVersion` parameter, and `buildInitializeResponse` stores that\n    parameter unchanged into `ProtocolVersion`: the session plays no part in the version of the answer. -/\n")
	fmt.Fprintf(b, "def initializeVersionDirect : Bool := %s\n", leanBool(direct))
	lifecycleCapSources(root, b)
}

// ---------- server side: what updateCapabilities looks at when it decides on the prompts / resources capabilities

var goBuiltins = map[string]bool{"len": true, "cap": true, "make": true, "new": true, "append": true, "delete": true, "copy": true, "clear": true}

// structFieldTypes: field name -> type name (through one pointer) of a struct type declared in the package.
func structFieldTypes(p *pkgSrc, typeName string) map[string]string {
	out := map[string]string{}
	for _, fn := range p.sortedFiles() {
		for _, d := range p.files[fn].Decls {
			gd, ok := d.(*ast.GenDecl)
			if !ok || gd.Tok != token.TYPE {
				continue
			}
			for _, sp := range gd.Specs {
				ts, ok := sp.(*ast.TypeSpec)
				if !ok || ts.Name.Name != typeName {
					continue
				}
				st, ok := ts.Type.(*ast.StructType)
				if !ok || st.Fields == nil {
					continue
				}
				for _, f := range st.Fields.List {
					t := f.Type
					if star, ok := t.(*ast.StarExpr); ok {
						t = star.X
					}
					tn := ""
					switch x := t.(type) {
					case *ast.Ident:
						tn = x.Name
					case *ast.SelectorExpr:
						tn = x.Sel.Name
					}
					for _, n := range f.Names {
						out[n.Name] = tn
					}
				}
			}
		}
	}
	return out
}

// plainReader: the method `<recvType>.<name>` exists, takes no parameter, mentions nothing whose name contains "filter"
// and calls nothing but builtins and methods of its own mutex field `mu` — i.e. it returns the registry as it is.
func plainReader(p *pkgSrc, recvType, name string) bool {
	fd, _ := p.funcDecl(recvType + "." + name)
	if fd == nil || fd.Body == nil || recvType == "" {
		return false
	}
	if fd.Type.Params != nil && len(fd.Type.Params.List) > 0 {
		return false
	}
	rv := recvName(fd)
	ok := true
	ast.Inspect(fd.Body, func(x ast.Node) bool {
		switch t := x.(type) {
		case *ast.Ident:
			if strings.Contains(strings.ToLower(t.Name), "filter") {
				ok = false
			}
		case *ast.FuncLit:
			ok = false
		case *ast.CallExpr:
			switch f := t.Fun.(type) {
			case *ast.Ident:
				if !goBuiltins[f.Name] {
					ok = false
				}
			case *ast.SelectorExpr:
				if !selField(f.X, rv, "mu") {
					ok = false
				}
			default:
				ok = false
			}
		}
		return true
	})
	return ok
}

func lifecycleCapSources(root *pkgSrc, b *strings.Builder) {
	type accessor struct {
		field, method string
		plain         bool
	}
	var accs []accessor
	other, params := 0, 0
	passes := false
	if fd, _ := root.funcDecl("lifecycleManager.updateCapabilities"); fd != nil && fd.Body != nil {
		rv := recvName(fd)
		fields := structFieldTypes(root, "lifecycleManager")
		paramNames := map[string]bool{}
		if fd.Type.Params != nil {
			for _, f := range fd.Type.Params.List {
				if len(f.Names) == 0 {
					params++
				}
				for _, n := range f.Names {
					params++
					paramNames[n.Name] = true
				}
			}
		}
		seen := map[string]bool{}
		ast.Inspect(fd.Body, func(x ast.Node) bool {
			if id, ok := x.(*ast.Ident); ok && paramNames[id.Name] {
				passes = true // a parameter is used at all (today there is none)
			}
			call, ok := x.(*ast.CallExpr)
			if !ok {
				return true
			}
			switch f := call.Fun.(type) {
			case *ast.Ident:
				if !goBuiltins[f.Name] {
					other++
				}
			case *ast.SelectorExpr:
				inner, isSel := f.X.(*ast.SelectorExpr)
				switch {
				case selField(f.X, rv, "mu"):
					// the manager's own mutex
				case isSel && selField(inner, rv, inner.Sel.Name) && fields[inner.Sel.Name] != "":
					k := inner.Sel.Name + "." + f.Sel.Name
					if !seen[k] {
						seen[k] = true
						accs = append(accs, accessor{inner.Sel.Name, f.Sel.Name, plainReader(root, fields[inner.Sel.Name], f.Sel.Name)})
					}
				default:
					other++
				}
			default:
				other++
			}
			return true
		})
	} else {
		other = 1
	}
	sort.Slice(accs, func(i, j int) bool {
		if accs[i].field != accs[j].field {
			return accs[i].field < accs[j].field
		}
		return accs[i].method < accs[j].method
	})
	fmt.Fprintf(b, "/-- What `lifecycleManager.updateCapabilities` consults: the methods it calls on its manager fields (field, method, and whether that method is a\n    plain registry reader: no parameter, nothing named *filter*, no calls but builtins and its own mutex), calls to anything else (builtins and\n    the manager's mutex apart), its parameters, and whether a parameter is used. Not recognised = a value `CapSources.ok` rejects. -/\n")
	fmt.Fprintf(b, "def capabilitySources : CapSources := { accessors := [")
	for i, a := range accs {
		if i > 0 {
			b.WriteString(", ")
		}
		fmt.Fprintf(b, "{ field := %s, method := %s, plain := %s } /- %s.%s -/", leanText(a.field), leanText(a.method), leanBool(a.plain), a.field, a.method)
	}
	fmt.Fprintf(b, "], otherCalls := %d, params := %d, usesParam := %s }\n", other, params, leanBool(passes))
}

// ---------- client side: how an answer to `initialize` is recognised as a refusal

// mapKeyTest: `_, <x> := <m>["<key>"]; <x>` as Init/Cond of an if statement -> key
func mapKeyTest(is *ast.IfStmt) (string, bool) {
	as, ok := is.Init.(*ast.AssignStmt)
	if !ok || len(as.Lhs) != 2 || len(as.Rhs) != 1 {
		return "", false
	}
	okVar, ok := as.Lhs[1].(*ast.Ident)
	cond, ok2 := is.Cond.(*ast.Ident)
	if !ok || !ok2 || okVar.Name != cond.Name {
		return "", false
	}
	if blank, ok := as.Lhs[0].(*ast.Ident); !ok || blank.Name != "_" {
		return "", false
	}
	ix, ok := as.Rhs[0].(*ast.IndexExpr)
	if !ok {
		return "", false
	}
	lit, ok := ix.Index.(*ast.BasicLit)
	if !ok || lit.Kind != token.STRING {
		return "", false
	}
	k, err := strconv.Unquote(lit.Value)
	return k, err == nil
}

// soleReturnIdent: the block is exactly `return <Ident>, nil` -> Ident
func soleReturnIdent(b *ast.BlockStmt) (string, bool) {
	if b == nil || len(b.List) != 1 {
		return "", false
	}
	r, ok := b.List[0].(*ast.ReturnStmt)
	if !ok || len(r.Results) != 2 {
		return "", false
	}
	id, ok := r.Results[0].(*ast.Ident)
	nl, ok2 := r.Results[1].(*ast.Ident)
	if !ok || !ok2 || nl.Name != "nil" {
		return "", false
	}
	return id.Name, true
}

func lifecycleAnswerFacts(root *pkgSrc, b *strings.Builder) {
	// ---- parseJSONRPCMessageType: the if / else-if chain that classifies a message carrying an id
	type link struct{ key, typ string }
	var chain []link
	if fd, _ := root.funcDecl("parseJSONRPCMessageType"); fd != nil && fd.Body != nil {
		for _, st := range fd.Body.List {
			is, ok := st.(*ast.IfStmt)
			if !ok {
				continue
			}
			if k, ok := mapKeyTest(is); !ok || k != "id" || len(is.Body.List) == 0 {
				continue
			}
			cur, _ := is.Body.List[0].(*ast.IfStmt)
			for cur != nil {
				k, ok1 := mapKeyTest(cur)
				t, ok2 := soleReturnIdent(cur.Body)
				if !ok1 || !ok2 {
					chain = append(chain, link{"?", "?"}) // a link that is not understood: rejected
					break
				}
				chain = append(chain, link{k, t})
				switch e := cur.Else.(type) {
				case nil:
					cur = nil
				case *ast.IfStmt:
					cur = e
				default:
					chain = append(chain, link{"?", "?"})
					cur = nil
				}
			}
			break
		}
	}
	b.WriteString("/-- `parseJSONRPCMessageType` (the stdio client transport classifies every line it reads with it): for a message that carries an `id`, the\n    if / else-if chain of member tests in order, each with the type it returns ([] / \"?\" = not recognised). -/\n")
	b.WriteString("def messageTypeChain : List (Mcp.Str.Text × Mcp.Str.Text) := [")
	for i, l := range chain {
		if i > 0 {
			b.WriteString(", ")
		}
		fmt.Fprintf(b, "(%s, %s) /- %s -> %s -/", leanText(l.key), leanText(l.typ), l.key, l.typ)
	}
	b.WriteString("]\n")

	// ---- isErrorResponse looks at the `error` member only; both Initialize functions consult it, as a top-level statement whose
	//      every path returns an error, before they parse the result
	errOnly := false
	if fd, _ := root.funcDecl("isErrorResponse"); fd != nil && fd.Body != nil {
		txt := strings.Join(strings.Fields(root.text(fd.Body)), "")
		errOnly = strings.Contains(txt, `["error"]`) && !strings.Contains(txt, `["result"]`) && !strings.Contains(txt, `"result"`)
	}
	b.WriteString("/-- Per client type: `Initialize` tests `isErrorResponse(answer)` in a top-level `if` all of whose paths return an error, before the statement\n    that parses the result; and (same for all) `isErrorResponse` looks at the `error` member only. -/\n")
	b.WriteString("def refusalCheckedFirst : List (Mcp.Str.Text × Bool) := [")
	for i, recv := range []string{"Client", "StdioClient"} {
		good := false
		if fd, _ := root.funcDecl(recv + ".Initialize"); fd != nil && fd.Body != nil && errOnly {
			checkIdx, parseIdx := -1, -1
			for j, st := range fd.Body.List {
				if is, ok := st.(*ast.IfStmt); ok && checkIdx < 0 && is.Init == nil && is.Else == nil {
					if call, ok := is.Cond.(*ast.CallExpr); ok {
						if id, ok := call.Fun.(*ast.Ident); ok && id.Name == "isErrorResponse" {
							// every return inside returns a non-nil error, and the block ends in a return
							allErr := len(is.Body.List) > 0
							if _, ok := is.Body.List[len(is.Body.List)-1].(*ast.ReturnStmt); !ok {
								allErr = false
							}
							ast.Inspect(is.Body, func(x ast.Node) bool {
								if _, ok := x.(*ast.FuncLit); ok {
									return false
								}
								if r, ok := x.(*ast.ReturnStmt); ok {
									if len(r.Results) == 0 {
										allErr = false
									} else if id, ok := r.Results[len(r.Results)-1].(*ast.Ident); ok && id.Name == "nil" {
										allErr = false
									}
								}
								return true
							})
							if allErr {
								checkIdx = j
							}
						}
					}
				}
				if parseIdx < 0 && strings.Contains(root.text(st), "parseInitializeResultFromJSON(") {
					parseIdx = j
				}
			}
			good = checkIdx >= 0 && parseIdx > checkIdx
		}
		if i > 0 {
			b.WriteString(", ")
		}
		fmt.Fprintf(b, "(%s, %s) /- %s -/", leanText(recv), leanBool(good), recv)
	}
	b.WriteString("]\n")
}
