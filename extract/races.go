package main

// T-gen family "FieldLocks" (property C20): for every field of the tracked component structs (the types that carry
// a mutex / atomic / sync.Map — i.e. the types built to be shared — plus a few explicitly listed ones) every
// syntactic access, together with
//   - the mutexes of the SAME object that are lexically held at that point (`X.mu.Lock()` … `X.mu.Unlock()`,
//     `defer X.mu.Unlock()`; RLock = shared, Lock = exclusive),
//   - whether the access is atomic (field of a sync/atomic type used through its methods, `atomic.F(&x.f, …)`)
//     or goes through a sync.Map,
//   - whether it belongs to the init phase: a key of a composite literal, an access through a variable that holds
//     a freshly built object which has not been handed out yet, through the parameter of an option closure
//     (`func(*T)` applied by constructors only), or through the receiver of an unexported method that is only ever
//     called on objects under construction.
//
// The analysis is lexical and per function (no alias analysis, no inter-procedural lock propagation): a function
// literal starts with nothing held, a lock taken through an alias is not seen, a helper called with the lock held
// is reported unguarded.  What is not understood (labels, goto) drops every lock of the function.
//
// Output: lean/Mcp/Gen/FieldLocks.lean (plain data, identifiers prefixed `rc`) and FieldLocks.sites.json next to it
// (the same records with file:line, for the harness that maps race-detector reports back to fields).

import (
	"encoding/json"
	"fmt"
	"go/ast"
	"go/token"
	"go/types"
	"path/filepath"
	"regexp"
	"sort"
	"strings"
)

func init() { generators = append(generators, rcGenFieldLocks) }

// Types tracked although they carry no sync primitive themselves.
var rcExtraTracked = map[string]bool{
	"mcpHandler": true, "serverConfig": true, "sseResponder": true, "responderFactory": true,
	"sseNotificationSender": true, "sessionManagerAdapter": true, "stdioServerInternal": true, "sseStream": true,
	"sseutil.Writer": true,
}

// Registry entries: the descriptors users register and the records the managers keep them in.  They carry no lock of
// their own — what guards them is the lock of the manager whose map / slice they were read from, so their access
// records list EVERY mutex lexically held at that point, named by the type that owns it ("toolManager.mu"; an RLock is
// shared, after the RUnlock nothing is held).  A value copy of an entry (`*toolPtr`, an entry handed to a function of
// another package) reads all of its fields, `*entry = …` writes them all.
var rcEntryTypes = map[string]bool{
	"Tool": true, "Prompt": true, "Resource": true, "ResourceTemplate": true,
	"registeredTool": true, "registeredPrompt": true, "registeredResource": true, "registerResourceTemplate": true,
}

// Exported configuration setters that are documented / meant to be called before the object is shared
// (assumption listed in checklib/props.d/C20.json).
var rcConfigAPI = map[string]bool{
	"Server.SetMethodNameModifier": true,
}

var rcSyncRe = regexp.MustCompile(`\b(sync|atomic)\.`)

type rcFieldDecl struct {
	owner string // root named struct type (with package prefix)
	path  string // field path inside it ("getSSEConn.active")
	typ   string // declared type text
	kind  string // plain | lock | atomic | syncmap | anon
	depth int    // number of path components
}

type rcHeld struct {
	Name string `json:"name"`
	Excl bool   `json:"excl"`
}

type rcSite struct {
	Type   string   `json:"type"`
	Field  string   `json:"field"`
	Fn     string   `json:"fn"`
	Kind   string   `json:"kind"` // r | w | u
	Sync   string   `json:"sync"` // plain | atomic | syncmap
	Held   []rcHeld `json:"held"`
	Init   bool     `json:"init"`
	File   string   `json:"file"`
	Line   int      `json:"line"`
	pos    token.Pos
	root   types.Object
	unit   ast.Node
	inLit  bool // key of a composite literal
	rooted ast.Expr
}

type rcPkg struct {
	prefix  string
	rel     string // directory relative to the repository root ("" for the root package)
	src     *pkgSrc
	info    *types.Info
	fields  map[types.Object]*rcFieldDecl
	tracked map[string]bool
	decls   []*ast.FuncDecl
	declOf  map[types.Object]*ast.FuncDecl
	byName  map[string][]*ast.FuncDecl // method name -> methods (for interface calls)
	fileOf  map[*ast.FuncDecl]string
}

// ---------------------------------------------------------------------------------------------------------------
// loading and field tables

type rcImporter struct{}

func (rcImporter) Import(path string) (*types.Package, error) {
	name := path
	if i := strings.LastIndex(path, "/"); i >= 0 {
		name = path[i+1:]
	}
	if strings.HasPrefix(name, "v") && len(name) <= 3 {
		rest := path[:strings.LastIndex(path, "/")]
		name = rest[strings.LastIndex(rest, "/")+1:]
	}
	pkg := types.NewPackage(path, name)
	pkg.MarkComplete()
	return pkg, nil
}

// rcLoaded: one type-check per package and run (the families FieldLocks, Globals and ApiArgs share the result and
// treat it as read-only).
var rcLoaded = map[*pkgSrc]*rcPkg{}

func rcLoad(src *pkgSrc, prefix, rel string) *rcPkg {
	if p := rcLoaded[src]; p != nil && p.prefix == prefix && p.rel == rel {
		return p
	}
	p := rcLoadFresh(src, prefix, rel)
	rcLoaded[src] = p
	return p
}

func rcLoadFresh(src *pkgSrc, prefix, rel string) *rcPkg {
	p := &rcPkg{prefix: prefix, rel: rel, src: src, fields: map[types.Object]*rcFieldDecl{}, tracked: map[string]bool{},
		declOf: map[types.Object]*ast.FuncDecl{}, byName: map[string][]*ast.FuncDecl{}, fileOf: map[*ast.FuncDecl]string{}}
	p.info = &types.Info{Types: map[ast.Expr]types.TypeAndValue{}, Uses: map[*ast.Ident]types.Object{},
		Defs: map[*ast.Ident]types.Object{}, Selections: map[*ast.SelectorExpr]*types.Selection{},
		Implicits: map[ast.Node]types.Object{}}
	var files []*ast.File
	for _, n := range src.sortedFiles() {
		files = append(files, src.files[n])
	}
	conf := types.Config{Importer: rcImporter{}, Error: func(error) {}}
	conf.Check("p", src.fset, files, p.info)

	for _, fname := range src.sortedFiles() {
		for _, d := range src.files[fname].Decls {
			switch x := d.(type) {
			case *ast.GenDecl:
				if x.Tok != token.TYPE {
					continue
				}
				for _, sp := range x.Specs {
					ts := sp.(*ast.TypeSpec)
					st, ok := ts.Type.(*ast.StructType)
					if !ok {
						continue
					}
					name := prefix + ts.Name.Name
					if p.rcDeclareFields(name, "", st, 1) || rcExtraTracked[name] || rcEntryTypes[name] {
						p.tracked[name] = true
					}
				}
			case *ast.FuncDecl:
				if x.Body == nil {
					continue
				}
				p.decls = append(p.decls, x)
				p.fileOf[x] = fname
				if o := p.info.Defs[x.Name]; o != nil {
					p.declOf[o] = x
				}
				if x.Recv != nil {
					p.byName[x.Name.Name] = append(p.byName[x.Name.Name], x)
				}
			}
		}
	}
	return p
}

// rcDeclareFields registers the fields of one struct type; reports whether a sync primitive was seen.
func (p *rcPkg) rcDeclareFields(owner, prefix string, st *ast.StructType, depth int) bool {
	hasSync := false
	for _, f := range st.Fields.List {
		typ := p.src.text(f.Type)
		kind := "plain"
		inner, isAnon := f.Type.(*ast.StructType)
		switch {
		case isAnon:
			kind = "anon"
		case typ == "sync.Map":
			kind = "syncmap"
		case strings.HasPrefix(typ, "atomic."):
			kind = "atomic"
		case rcSyncRe.MatchString(typ) && !strings.Contains(typ, "map[") && !strings.Contains(typ, "func("):
			kind = "lock"
		}
		if kind != "plain" && kind != "anon" {
			hasSync = true
		}
		for _, n := range f.Names {
			path := prefix + n.Name
			if o := p.info.Defs[n]; o != nil {
				p.fields[o] = &rcFieldDecl{owner: owner, path: path, typ: typ, kind: kind, depth: depth}
			}
			if isAnon {
				if p.rcDeclareFields(owner, path+".", inner, depth+1) {
					hasSync = true
				}
			}
		}
	}
	return hasSync
}

// rcResolve: a selector that denotes a field of a declared struct → its declaration and the expression denoting the
// object that owns it (for `t.getSSEConn.active`: owner expression `t`).
func (p *rcPkg) rcResolve(x *ast.SelectorExpr) (*rcFieldDecl, ast.Expr) {
	sel, ok := p.info.Selections[x]
	if !ok || sel.Kind() != types.FieldVal {
		return nil, nil
	}
	fd := p.fields[sel.Obj()]
	if fd == nil {
		return nil, nil
	}
	owner := x.X
	for i := 1; i < fd.depth; i++ {
		for {
			if pe, ok := owner.(*ast.ParenExpr); ok {
				owner = pe.X
				continue
			}
			break
		}
		s, ok := owner.(*ast.SelectorExpr)
		if !ok {
			return nil, nil
		}
		owner = s.X
	}
	return fd, owner
}

func rcRootIdent(e ast.Expr) *ast.Ident {
	for {
		switch x := e.(type) {
		case *ast.Ident:
			return x
		case *ast.SelectorExpr:
			e = x.X
		case *ast.ParenExpr:
			e = x.X
		case *ast.StarExpr:
			e = x.X
		case *ast.TypeAssertExpr:
			e = x.X
		case *ast.IndexExpr:
			e = x.X
		case *ast.UnaryExpr:
			if x.Op != token.AND {
				return nil
			}
			e = x.X
		default:
			return nil
		}
	}
}

// ---------------------------------------------------------------------------------------------------------------
// the lock walker (statement structure as in lockset.go: conservative joins, fixed point for loops)

type rcState map[string]bool // lock expression text -> exclusive?

func (s rcState) clone() rcState {
	c := rcState{}
	for k, v := range s {
		c[k] = v
	}
	return c
}

func rcMeet(a, b rcState) rcState {
	c := rcState{}
	for k, v := range a {
		if w, ok := b[k]; ok && w == v {
			c[k] = v
		}
	}
	return c
}

func rcSame(a, b rcState) bool {
	if len(a) != len(b) {
		return false
	}
	for k, v := range a {
		if w, ok := b[k]; !ok || w != v {
			return false
		}
	}
	return true
}

type rcBreakCtx struct {
	breaks, continues []rcState
	isLoop            bool
}

type rcWalker struct {
	p       *rcPkg
	fn      string
	file    string
	out     []rcSite
	unknown bool
	ctx     []*rcBreakCtx
	unit    []ast.Node
	// family "Globals" (races_globals.go) only — nil / false for the field table, whose output they never touch:
	// onIdent is told the lock state at every identifier the walk evaluates; with globalLocks, mutex operations on
	// expressions rooted at a package-level variable (`mu.Lock()`, `registry.mu.RLock()`) are tracked as well,
	// their keys are listed in globalKeys.
	onIdent     func(id *ast.Ident, st rcState)
	globalLocks bool
	globalKeys  map[string]bool
	// family "GoClosures" (races_goclosures.go) only: every `X.Lock()` / `X.RLock()` … counts, whatever X is (a mutex
	// declared in the enclosing function guards its locals)
	anyLocks bool
	// lock expression text -> "<owner type>.<field path>" (for the records of registry entries)
	lockNames map[string]string
}

func (w *rcWalker) curUnit() ast.Node { return w.unit[len(w.unit)-1] }

func (w *rcWalker) record(x *ast.SelectorExpr, fd *rcFieldDecl, owner ast.Expr, st rcState, kind, sync string) {
	w.recordAt(x.Sel.Pos(), x.Pos(), fd, owner, st, kind, sync)
}

func (w *rcWalker) recordAt(linePos, pos token.Pos, fd *rcFieldDecl, owner ast.Expr, st rcState, kind, sync string) {
	if !w.p.tracked[fd.owner] || fd.kind == "lock" || fd.kind == "anon" {
		return
	}
	ownerText := w.p.src.text(owner)
	var held []rcHeld
	for k, excl := range st {
		if rcEntryTypes[fd.owner] {
			if n := w.lockNames[k]; n != "" {
				held = append(held, rcHeld{Name: n, Excl: excl})
			}
		} else if strings.HasPrefix(k, ownerText+".") {
			held = append(held, rcHeld{Name: k[len(ownerText)+1:], Excl: excl})
		}
	}
	sort.Slice(held, func(i, j int) bool { return held[i].Name < held[j].Name })
	s := rcSite{Type: fd.owner, Field: fd.path, Fn: w.fn, Kind: kind, Sync: sync, Held: held, File: w.file,
		Line: w.p.src.fset.Position(linePos).Line, pos: pos, unit: w.curUnit(), rooted: owner}
	if id := rcRootIdent(owner); id != nil {
		s.root = w.p.info.Uses[id]
		if s.root == nil {
			s.root = w.p.info.Defs[id]
		}
	}
	w.out = append(w.out, s)
}

// field classifies an expression that may denote a tracked field (through parentheses).
func (w *rcWalker) field(e ast.Expr) (*ast.SelectorExpr, *rcFieldDecl, ast.Expr) {
	for {
		if pe, ok := e.(*ast.ParenExpr); ok {
			e = pe.X
			continue
		}
		break
	}
	x, ok := e.(*ast.SelectorExpr)
	if !ok {
		return nil, nil, nil
	}
	fd, owner := w.p.rcResolve(x)
	if fd == nil {
		return nil, nil, nil
	}
	return x, fd, owner
}

func (w *rcWalker) lockCall(e ast.Expr) (key, op string, ok bool) {
	call, isCall := e.(*ast.CallExpr)
	if !isCall || len(call.Args) != 0 {
		return
	}
	outer, isSel := call.Fun.(*ast.SelectorExpr)
	if !isSel {
		return
	}
	switch outer.Sel.Name {
	case "Lock", "RLock", "Unlock", "RUnlock":
	default:
		return
	}
	x, fd, _ := w.field(outer.X)
	if w.anyLocks && (fd == nil || fd.kind == "lock") {
		return w.p.src.text(outer.X), outer.Sel.Name, true
	}
	if w.globalLocks {
		if id := rcRootIdent(outer.X); id != nil && (fd == nil || fd.kind == "lock") {
			if v, isVar := w.p.info.Uses[id].(*types.Var); isVar && v.Parent() != nil && v.Parent().Parent() == types.Universe {
				k := w.p.src.text(outer.X)
				w.globalKeys[k] = true
				return k, outer.Sel.Name, true
			}
		}
	}
	if fd == nil || fd.kind != "lock" {
		return
	}
	if w.lockNames == nil {
		w.lockNames = map[string]string{}
	}
	w.lockNames[w.p.src.text(x)] = fd.owner + "." + fd.path
	return w.p.src.text(x), outer.Sel.Name, true
}

// entryOf: the registry-entry type an expression's value has (E or *E), if any.
func (w *rcWalker) entryOf(e ast.Expr) string {
	tv, ok := w.p.info.Types[e]
	if !ok || tv.Type == nil || tv.IsType() {
		return ""
	}
	t := tv.Type
	if p, ok := t.(*types.Pointer); ok {
		t = p.Elem()
	}
	if n, ok := t.(*types.Named); ok && n.Obj() != nil && n.Obj().Pkg() != nil {
		if name := w.p.prefix + n.Obj().Name(); rcEntryTypes[name] {
			if _, isStruct := n.Underlying().(*types.Struct); isStruct {
				return name
			}
		}
	}
	return ""
}

// wholeEntry records an access to every field of the entry `ptr` points to (value copy / whole assignment).
func (w *rcWalker) wholeEntry(at ast.Expr, ptr ast.Expr, owner string, st rcState, kind string) {
	var fds []*rcFieldDecl
	for _, fd := range w.p.fields {
		if fd.owner == owner && fd.depth == 1 {
			fds = append(fds, fd)
		}
	}
	sort.Slice(fds, func(i, j int) bool { return fds[i].path < fds[j].path })
	for _, fd := range fds {
		w.recordAt(at.Pos(), at.Pos(), fd, ptr, st, kind, "plain")
	}
}

var rcAtomicReads = map[string]bool{"Load": true}
var rcSyncMapReads = map[string]bool{"Load": true, "Range": true}

func (w *rcWalker) isAtomicPkg(e ast.Expr) bool {
	id, ok := e.(*ast.Ident)
	if !ok {
		return false
	}
	pn, ok := w.p.info.Uses[id].(*types.PkgName)
	return ok && pn.Imported().Path() == "sync/atomic"
}

func (w *rcWalker) exprs(es []ast.Expr, st rcState, mode string) {
	for _, e := range es {
		w.expr(e, st, mode)
	}
}

// expr scans an expression. mode: r (value read) | w (assigned / element written / deleted from) | addr (address taken).
func (w *rcWalker) expr(e ast.Expr, st rcState, mode string) {
	switch x := e.(type) {
	case nil:
	case *ast.BasicLit:
	case *ast.Ident:
		if w.onIdent != nil {
			w.onIdent(x, st)
		}
	case *ast.SelectorExpr:
		if _, fd, owner := w.field(x); fd != nil {
			kind, sync := "r", "plain"
			switch mode {
			case "w", "addr":
				kind = "w"
			case "u":
				kind = "u"
			}
			if fd.kind == "atomic" || fd.kind == "syncmap" {
				// touched other than through its methods (copied, assigned, address taken): not an atomic access
				kind = "w"
			}
			w.record(x, fd, owner, st, kind, sync)
			w.expr(owner, st, "r")
			return
		}
		w.expr(x.X, st, "r")
	case *ast.IndexExpr:
		m := "r"
		if mode == "w" || mode == "addr" {
			m = "w"
		}
		w.expr(x.X, st, m)
		w.expr(x.Index, st, "r")
	case *ast.SliceExpr:
		m := "r"
		if mode == "addr" || mode == "w" {
			m = "w"
		}
		w.expr(x.X, st, m)
		w.expr(x.Low, st, "r")
		w.expr(x.High, st, "r")
		w.expr(x.Max, st, "r")
	case *ast.ParenExpr:
		w.expr(x.X, st, mode)
	case *ast.StarExpr:
		if owner := w.entryOf(x.X); owner != "" {
			kind := "r"
			if mode == "w" {
				kind = "w"
			}
			if mode != "addr" {
				w.wholeEntry(x, x.X, owner, st, kind)
			}
		}
		w.expr(x.X, st, "r")
	case *ast.UnaryExpr:
		if x.Op == token.AND {
			if _, isLit := x.X.(*ast.CompositeLit); isLit {
				w.expr(x.X, st, "r")
			} else {
				w.expr(x.X, st, "addr")
			}
			return
		}
		w.expr(x.X, st, "r")
	case *ast.BinaryExpr:
		w.expr(x.X, st, "r")
		w.expr(x.Y, st, "r")
	case *ast.TypeAssertExpr:
		w.expr(x.X, st, "r")
	case *ast.KeyValueExpr:
		w.expr(x.Key, st, "r")
		w.expr(x.Value, st, "r")
	case *ast.CompositeLit:
		typ := ""
		if tv, ok := w.p.info.Types[x]; ok {
			typ = rcNamed(tv.Type)
		}
		for _, el := range x.Elts {
			if kv, ok := el.(*ast.KeyValueExpr); ok {
				if id, ok := kv.Key.(*ast.Ident); ok && typ != "" {
					if fo := w.p.info.Uses[id]; fo != nil {
						if fd := w.p.fields[fo]; fd != nil && w.p.tracked[fd.owner] && fd.kind != "lock" && fd.kind != "anon" {
							w.out = append(w.out, rcSite{Type: fd.owner, Field: fd.path, Fn: w.fn, Kind: "w", Sync: "plain", Init: true, inLit: true,
								File: w.file, Line: w.p.src.fset.Position(id.Pos()).Line, pos: id.Pos(), unit: w.curUnit()})
						}
					}
					w.expr(kv.Value, st, "r")
					continue
				}
				w.expr(kv.Key, st, "r")
				w.expr(kv.Value, st, "r")
				continue
			}
			w.expr(el, st, "r")
		}
	case *ast.FuncLit:
		saved := w.ctx
		w.ctx = nil
		w.unit = append(w.unit, x)
		w.block(x.Body.List, rcState{})
		w.unit = w.unit[:len(w.unit)-1]
		w.ctx = saved
	case *ast.CallExpr:
		w.call(x, st)
	default:
		ast.Inspect(e, func(n ast.Node) bool {
			if n == e {
				return true
			}
			if sub, ok := n.(ast.Expr); ok {
				w.expr(sub, st, "r")
				return false
			}
			return true
		})
	}
}

func (w *rcWalker) call(x *ast.CallExpr, st rcState) {
	if id, ok := x.Fun.(*ast.Ident); ok {
		if _, isBuiltin := w.p.info.Uses[id].(*types.Builtin); isBuiltin || w.p.info.Uses[id] == nil {
			switch id.Name {
			case "delete", "clear":
				if len(x.Args) > 0 {
					w.expr(x.Args[0], st, "w")
					w.exprs(x.Args[1:], st, "r")
				}
				return
			case "copy":
				if len(x.Args) == 2 {
					w.expr(x.Args[0], st, "w")
					w.expr(x.Args[1], st, "r")
				}
				return
			case "len", "cap", "append", "make", "new", "min", "max", "panic", "print", "println", "close":
				w.exprs(x.Args, st, "r")
				return
			}
		}
	}
	if sel, ok := x.Fun.(*ast.SelectorExpr); ok {
		// atomic.F(&x.f, …)
		if w.isAtomicPkg(sel.X) && len(x.Args) > 0 {
			if u, ok := x.Args[0].(*ast.UnaryExpr); ok && u.Op == token.AND {
				if fx, fd, owner := w.field(u.X); fd != nil {
					kind := "w"
					if strings.HasPrefix(sel.Sel.Name, "Load") {
						kind = "r"
					}
					w.record(fx, fd, owner, st, kind, "atomic")
					w.expr(owner, st, "r")
					w.exprs(x.Args[1:], st, "r")
					return
				}
			}
		}
		// method called through a field
		if fx, fd, owner := w.field(sel.X); fd != nil {
			switch fd.kind {
			case "atomic":
				kind := "w"
				if rcAtomicReads[sel.Sel.Name] {
					kind = "r"
				}
				w.record(fx, fd, owner, st, kind, "atomic")
			case "syncmap":
				kind := "w"
				if rcSyncMapReads[sel.Sel.Name] {
					kind = "r"
				}
				w.record(fx, fd, owner, st, kind, "syncmap")
			case "lock":
				// a mutex operation outside statement position (or Once.Do …): nothing to record
			default:
				w.record(fx, fd, owner, st, "u", "plain")
			}
			w.expr(owner, st, "r")
			w.exprs(x.Args, st, "r")
			return
		}
	}
	if sel, ok := x.Fun.(*ast.SelectorExpr); ok {
		if id, ok := sel.X.(*ast.Ident); ok {
			if _, isPkg := w.p.info.Uses[id].(*types.PkgName); isPkg {
				// an entry handed to another package (json.Marshal(tool) …) is read as a whole
				for _, arg := range x.Args {
					if _, isStar := arg.(*ast.StarExpr); isStar {
						continue
					}
					if owner := w.entryOf(arg); owner != "" {
						w.wholeEntry(arg, arg, owner, st, "r")
					}
				}
			}
		}
	}
	w.expr(x.Fun, st, "r")
	w.exprs(x.Args, st, "r")
}

func (w *rcWalker) pushCtx(loop bool) *rcBreakCtx {
	c := &rcBreakCtx{isLoop: loop}
	w.ctx = append(w.ctx, c)
	return c
}
func (w *rcWalker) popCtx() { w.ctx = w.ctx[:len(w.ctx)-1] }

func (w *rcWalker) block(stmts []ast.Stmt, st rcState) (rcState, bool) {
	st = st.clone()
	for _, s := range stmts {
		var term bool
		st, term = w.stmt(s, st)
		if term {
			return st, true
		}
	}
	return st, false
}

func (w *rcWalker) stmt(s ast.Stmt, st rcState) (rcState, bool) {
	switch x := s.(type) {
	case nil:
	case *ast.ExprStmt:
		if key, op, ok := w.lockCall(x.X); ok {
			st = st.clone()
			switch op {
			case "Lock":
				st[key] = true
			case "RLock":
				st[key] = false
			default:
				delete(st, key)
			}
			return st, false
		}
		w.expr(x.X, st, "r")
		if call, ok := x.X.(*ast.CallExpr); ok {
			if id, ok := call.Fun.(*ast.Ident); ok && id.Name == "panic" {
				return st, true
			}
		}
	case *ast.DeferStmt:
		if _, op, ok := w.lockCall(x.Call); ok && (op == "Unlock" || op == "RUnlock") {
			return st, false
		}
		w.expr(x.Call, st, "r")
	case *ast.GoStmt:
		// the callee's arguments are evaluated here, its body runs elsewhere (a FuncLit starts with nothing held)
		w.expr(x.Call, st, "r")
	case *ast.AssignStmt:
		w.exprs(x.Rhs, st, "r")
		if x.Tok != token.DEFINE {
			w.exprs(x.Lhs, st, "w")
		}
	case *ast.IncDecStmt:
		w.expr(x.X, st, "w")
	case *ast.SendStmt:
		w.expr(x.Chan, st, "r")
		w.expr(x.Value, st, "r")
	case *ast.ReturnStmt:
		w.exprs(x.Results, st, "r")
		return st, true
	case *ast.BranchStmt:
		if x.Label != nil || x.Tok == token.GOTO || x.Tok == token.FALLTHROUGH {
			w.unknown = true
			return st, true
		}
		if x.Tok == token.BREAK {
			if n := len(w.ctx); n > 0 {
				w.ctx[n-1].breaks = append(w.ctx[n-1].breaks, st.clone())
			}
		} else {
			for i := len(w.ctx) - 1; i >= 0; i-- {
				if w.ctx[i].isLoop {
					w.ctx[i].continues = append(w.ctx[i].continues, st.clone())
					break
				}
			}
		}
		return st, true
	case *ast.BlockStmt:
		return w.block(x.List, st)
	case *ast.LabeledStmt:
		w.unknown = true
		return w.stmt(x.Stmt, st)
	case *ast.DeclStmt:
		if gd, ok := x.Decl.(*ast.GenDecl); ok {
			for _, sp := range gd.Specs {
				if vs, ok := sp.(*ast.ValueSpec); ok {
					w.exprs(vs.Values, st, "r")
				}
			}
		}
	case *ast.IfStmt:
		st, _ = w.stmt(x.Init, st)
		w.expr(x.Cond, st, "r")
		s1, t1 := w.block(x.Body.List, st)
		s2, t2 := st, false
		if x.Else != nil {
			s2, t2 = w.stmt(x.Else, st)
		}
		switch {
		case t1 && t2:
			return st, true
		case t1:
			return s2, false
		case t2:
			return s1, false
		default:
			return rcMeet(s1, s2), false
		}
	case *ast.ForStmt:
		st, _ = w.stmt(x.Init, st)
		return w.loop(st, func(entry rcState) (rcState, bool) {
			w.expr(x.Cond, entry, "r")
			e, t := w.block(x.Body.List, entry)
			if !t {
				e, _ = w.stmt(x.Post, e)
			}
			return e, t
		}), false
	case *ast.RangeStmt:
		w.expr(x.X, st, "r")
		if x.Tok == token.ASSIGN {
			w.expr(x.Key, st, "w")
			w.expr(x.Value, st, "w")
		}
		return w.loop(st, func(entry rcState) (rcState, bool) { return w.block(x.Body.List, entry) }), false
	case *ast.SwitchStmt:
		st, _ = w.stmt(x.Init, st)
		w.expr(x.Tag, st, "r")
		return w.clauses(x.Body.List, st), false
	case *ast.TypeSwitchStmt:
		st, _ = w.stmt(x.Init, st)
		st, _ = w.stmt(x.Assign, st)
		return w.clauses(x.Body.List, st), false
	case *ast.SelectStmt:
		return w.clauses(x.Body.List, st), false
	default:
		w.unknown = true
	}
	return st, false
}

func (w *rcWalker) loop(st rcState, body func(rcState) (rcState, bool)) rcState {
	entry := st.clone()
	for iter := 0; ; iter++ {
		mark := len(w.out)
		c := w.pushCtx(true)
		end, term := body(entry)
		w.popCtx()
		next := entry
		if !term {
			next = rcMeet(next, end)
		}
		for _, cs := range c.continues {
			next = rcMeet(next, cs)
		}
		if rcSame(next, entry) || iter > 8 {
			after := entry
			for _, bs := range c.breaks {
				after = rcMeet(after, bs)
			}
			if iter > 8 {
				w.unknown = true
			}
			return after
		}
		w.out = w.out[:mark]
		entry = next
	}
}

func (w *rcWalker) clauses(list []ast.Stmt, st rcState) rcState {
	c := w.pushCtx(false)
	var ends []rcState
	hasDefault := false
	for _, cl := range list {
		var body []ast.Stmt
		entry := st
		switch y := cl.(type) {
		case *ast.CaseClause:
			if y.List == nil {
				hasDefault = true
			}
			w.exprs(y.List, st, "r")
			body = y.Body
		case *ast.CommClause:
			if y.Comm == nil {
				hasDefault = true
			} else {
				entry, _ = w.stmt(y.Comm, st)
			}
			body = y.Body
		}
		e, t := w.block(body, entry)
		if !t {
			ends = append(ends, e)
		}
	}
	w.popCtx()
	ends = append(ends, c.breaks...)
	if !hasDefault {
		ends = append(ends, st)
	}
	if len(ends) == 0 {
		return st
	}
	out := ends[0]
	for _, e := range ends[1:] {
		out = rcMeet(out, e)
	}
	return out
}

func rcNamed(t types.Type) string {
	if t == nil {
		return ""
	}
	if p, ok := t.(*types.Pointer); ok {
		t = p.Elem()
	}
	if n, ok := t.(*types.Named); ok {
		if _, isStruct := n.Underlying().(*types.Struct); isStruct {
			return n.Obj().Name()
		}
	}
	return ""
}

// ---------------------------------------------------------------------------------------------------------------
// init-phase analysis

type rcUnit struct {
	node   ast.Node
	body   *ast.BlockStmt
	decl   *ast.FuncDecl
	params []*ast.Field
	init   map[types.Object]token.Pos // init variable -> position from which it is published (NoPos: never)
}

type rcInit struct {
	p         *rcPkg
	units     map[ast.Node]*rcUnit
	order     []*rcUnit
	initOnly  map[*ast.FuncDecl]bool
	optUnsafe map[string]bool
	fresh     map[*ast.FuncDecl]bool
	valueUsed map[*ast.FuncDecl]bool
}

// optParam: the struct type T when the signature is func(*T) with no results.
func rcOptParamType(sig *types.Signature) string {
	if sig == nil || sig.Params().Len() != 1 || sig.Results().Len() != 0 || sig.Variadic() {
		return ""
	}
	pt, ok := sig.Params().At(0).Type().(*types.Pointer)
	if !ok {
		return ""
	}
	return rcNamed(pt)
}

func (a *rcInit) collectUnits() {
	for _, fd := range a.p.decls {
		u := &rcUnit{node: fd, body: fd.Body, decl: fd, params: fd.Type.Params.List}
		a.units[fd] = u
		a.order = append(a.order, u)
		ast.Inspect(fd.Body, func(n ast.Node) bool {
			if fl, ok := n.(*ast.FuncLit); ok {
				lu := &rcUnit{node: fl, body: fl.Body, decl: fd, params: fl.Type.Params.List}
				a.units[fl] = lu
				a.order = append(a.order, lu)
			}
			return true
		})
	}
}

// own walks the statements and expressions of a unit without entering nested function literals.
func rcOwn(body ast.Node, f func(n ast.Node) bool) {
	ast.Inspect(body, func(n ast.Node) bool {
		if n == body {
			return true
		}
		if _, ok := n.(*ast.FuncLit); ok {
			return false
		}
		return f(n)
	})
}

func (a *rcInit) obj(id *ast.Ident) types.Object {
	if o := a.p.info.Uses[id]; o != nil {
		return o
	}
	return a.p.info.Defs[id]
}

// callee classifies a call: the in-package declarations it may reach (static call, or by name through an interface),
// and whether it is a dynamic call of an option-shaped function value (then the option's struct type).
func (a *rcInit) callee(call *ast.CallExpr) (decls []*ast.FuncDecl, optType string, builtin bool) {
	switch f := call.Fun.(type) {
	case *ast.Ident:
		switch o := a.p.info.Uses[f].(type) {
		case *types.Func:
			if d := a.p.declOf[o]; d != nil {
				decls = append(decls, d)
			}
		case *types.Builtin:
			builtin = true
		case *types.Var:
			if sig, ok := o.Type().Underlying().(*types.Signature); ok {
				optType = rcOptParamType(sig)
			}
		case nil:
			builtin = true
		}
	case *ast.SelectorExpr:
		if sel, ok := a.p.info.Selections[f]; ok {
			switch sel.Kind() {
			case types.MethodVal:
				if fo, ok := sel.Obj().(*types.Func); ok {
					if d := a.p.declOf[fo]; d != nil {
						decls = append(decls, d)
					} else if _, isIface := sel.Recv().Underlying().(*types.Interface); isIface {
						decls = append(decls, a.p.byName[f.Sel.Name]...)
					}
				}
			case types.FieldVal:
				if sig, ok := sel.Obj().Type().Underlying().(*types.Signature); ok {
					optType = rcOptParamType(sig)
				}
			}
		}
	}
	return
}

// rooted: the expression denotes (part of) an object under construction in unit u at position pos.
func (a *rcInit) rooted(u *rcUnit, e ast.Expr, pos token.Pos) bool {
	for {
		switch x := e.(type) {
		case *ast.CallExpr:
			// builder chain: m.withX(…) returns m
			if sel, ok := x.Fun.(*ast.SelectorExpr); ok {
				decls, _, _ := a.callee(x)
				if len(decls) == 1 && a.initOnly[decls[0]] && decls[0].Recv != nil {
					e = sel.X
					continue
				}
			}
			return false
		default:
			id := rcRootIdent(e)
			if id == nil {
				return false
			}
			o := a.obj(id)
			if o == nil {
				return false
			}
			pub, ok := u.init[o]
			if !ok {
				return false
			}
			return pub == token.NoPos || pos < pub
		}
	}
}

func (a *rcInit) isFresh(u *rcUnit, e ast.Expr) bool {
	switch x := e.(type) {
	case *ast.ParenExpr:
		return a.isFresh(u, x.X)
	case *ast.UnaryExpr:
		if x.Op == token.AND {
			_, ok := x.X.(*ast.CompositeLit)
			return ok && a.litNamed(x.X.(*ast.CompositeLit))
		}
	case *ast.CompositeLit:
		return a.litNamed(x)
	case *ast.CallExpr:
		decls, _, _ := a.callee(x)
		return len(decls) == 1 && a.fresh[decls[0]]
	}
	return false
}

func (a *rcInit) litNamed(cl *ast.CompositeLit) bool {
	tv, ok := a.p.info.Types[cl]
	return ok && rcNamed(tv.Type) != ""
}

// computeFresh: functions every return of which hands out a newly built object.
func (a *rcInit) computeFresh() {
	for changed := true; changed; {
		changed = false
		for _, fd := range a.p.decls {
			if a.fresh[fd] || fd.Type.Results == nil || len(fd.Type.Results.List) == 0 {
				continue
			}
			u := a.units[fd]
			ok, n := true, 0
			rcOwn(fd.Body, func(nd ast.Node) bool {
				if r, isRet := nd.(*ast.ReturnStmt); isRet {
					n++
					if len(r.Results) == 0 {
						ok = false
						return true
					}
					e := r.Results[0]
					if id, isId := e.(*ast.Ident); isId {
						if id.Name == "nil" {
							return true
						}
						if o := a.obj(id); o != nil {
							if _, isInit := u.init[o]; isInit {
								return true
							}
						}
						ok = false
						return true
					}
					if !a.isFresh(u, e) && !a.rooted(u, e, e.Pos()) {
						ok = false
					}
				}
				return true
			})
			if ok && n > 0 {
				a.fresh[fd] = true
				changed = true
			}
		}
	}
}

// computeInitVars: variables of a unit that hold an object under construction.
func (a *rcInit) computeInitVars(u *rcUnit) {
	u.init = map[types.Object]token.Pos{}
	// (ii) option closure parameter, (iii) receiver of an init-only method
	if fl, ok := u.node.(*ast.FuncLit); ok {
		if tv, ok := a.p.info.Types[fl]; ok {
			if sig, ok := tv.Type.(*types.Signature); ok {
				if t := rcOptParamType(sig); t != "" && !a.optUnsafe[t] && len(fl.Type.Params.List) == 1 && len(fl.Type.Params.List[0].Names) == 1 {
					if o := a.p.info.Defs[fl.Type.Params.List[0].Names[0]]; o != nil {
						u.init[o] = token.NoPos
					}
				}
			}
		}
	}
	if fd, ok := u.node.(*ast.FuncDecl); ok && a.initOnly[fd] && fd.Recv != nil && len(fd.Recv.List) == 1 && len(fd.Recv.List[0].Names) == 1 {
		if o := a.p.info.Defs[fd.Recv.List[0].Names[0]]; o != nil {
			u.init[o] = token.NoPos
		}
	}
	// (i)/(iv) locals every assignment of which is a fresh object or something rooted at an init variable
	type asg struct {
		rhs ast.Expr
		pos token.Pos
	}
	assigns := map[types.Object][]asg{}
	note := func(lhs ast.Expr, rhs ast.Expr) {
		id, ok := lhs.(*ast.Ident)
		if !ok || id.Name == "_" {
			return
		}
		o := a.obj(id)
		if o == nil {
			return
		}
		if _, isParam := u.init[o]; isParam && u.init[o] == token.NoPos {
			// parameters / receivers keep their status unless reassigned from something else
		}
		assigns[o] = append(assigns[o], asg{rhs, lhs.Pos()})
	}
	rcOwn(u.body, func(n ast.Node) bool {
		switch x := n.(type) {
		case *ast.AssignStmt:
			if len(x.Lhs) == len(x.Rhs) {
				for i := range x.Lhs {
					note(x.Lhs[i], x.Rhs[i])
				}
			} else if len(x.Rhs) == 1 {
				note(x.Lhs[0], x.Rhs[0])
				for _, l := range x.Lhs[1:] {
					note(l, nil)
				}
			}
		case *ast.ValueSpec:
			for i, nm := range x.Names {
				if i < len(x.Values) {
					note(nm, x.Values[i])
				} else {
					note(nm, nil)
				}
			}
		case *ast.RangeStmt:
			if x.Key != nil {
				note(x.Key, nil)
			}
			if x.Value != nil {
				note(x.Value, nil)
			}
		}
		return true
	})
	locals := map[types.Object]bool{}
	for changed := true; changed; {
		changed = false
		for o, as := range assigns {
			if locals[o] {
				continue
			}
			if _, pre := u.init[o]; pre && !locals[o] {
				continue // parameter that is reassigned: keep simple, stays init
			}
			ok := true
			for _, s := range as {
				if s.rhs == nil {
					ok = false
					break
				}
				if a.isFresh(u, s.rhs) || a.selfChain(o, s.rhs) {
					continue
				}
				// rooted at a variable already known (publication is checked at use time)
				if a.rootedIgnoringPub(u, s.rhs, locals) {
					continue
				}
				ok = false
				break
			}
			if ok {
				locals[o] = true
				u.init[o] = token.NoPos
				changed = true
			}
		}
	}
	// publication points: locals by handing the object out, parameters / receivers by a go statement
	for o := range u.init {
		if locals[o] {
			u.init[o] = a.publishPos(u, o)
		} else {
			u.init[o] = a.goPos(u, o)
		}
	}
}

// selfChain: `v = v.method(…)` with an in-package method (a builder returning its receiver keeps v what it was).
func (a *rcInit) selfChain(o types.Object, e ast.Expr) bool {
	call, ok := e.(*ast.CallExpr)
	if !ok {
		return false
	}
	sel, ok := call.Fun.(*ast.SelectorExpr)
	if !ok {
		return false
	}
	id, ok := sel.X.(*ast.Ident)
	if !ok || a.obj(id) != o {
		return false
	}
	decls, _, _ := a.callee(call)
	if len(decls) != 1 || decls[0].Recv == nil || decls[0].Type.Results == nil || len(decls[0].Type.Results.List) != 1 {
		return false
	}
	// the method returns its own receiver type
	rt := a.p.src.text(decls[0].Type.Results.List[0].Type)
	return rt == a.p.src.text(decls[0].Recv.List[0].Type)
}

func (a *rcInit) rootedIgnoringPub(u *rcUnit, e ast.Expr, locals map[types.Object]bool) bool {
	for {
		if x, ok := e.(*ast.CallExpr); ok {
			if sel, ok := x.Fun.(*ast.SelectorExpr); ok {
				decls, _, _ := a.callee(x)
				if len(decls) == 1 && a.initOnly[decls[0]] && decls[0].Recv != nil {
					e = sel.X
					continue
				}
			}
			return false
		}
		break
	}
	id := rcRootIdent(e)
	if id == nil {
		return false
	}
	o := a.obj(id)
	if o == nil {
		return false
	}
	_, ok := u.init[o]
	return ok || locals[o]
}

// mentions: the identifier of object o occurs in n (as a value, not as the base of a selector when bareOnly).
func (a *rcInit) mentions(n ast.Node, o types.Object) bool {
	found := false
	ast.Inspect(n, func(m ast.Node) bool {
		if id, ok := m.(*ast.Ident); ok && a.obj(id) == o {
			found = true
		}
		return !found
	})
	return found
}

// isValueOf: e hands out the object itself (v, &v, a composite literal that contains it).
func (a *rcInit) isValueOf(e ast.Expr, o types.Object) bool {
	switch x := e.(type) {
	case *ast.Ident:
		return a.obj(x) == o
	case *ast.ParenExpr:
		return a.isValueOf(x.X, o)
	case *ast.UnaryExpr:
		if x.Op == token.AND {
			return a.isValueOf(x.X, o)
		}
	case *ast.CompositeLit:
		for _, el := range x.Elts {
			if kv, ok := el.(*ast.KeyValueExpr); ok {
				if a.isValueOf(kv.Value, o) {
					return true
				}
			} else if a.isValueOf(el, o) {
				return true
			}
		}
	}
	return false
}

func (a *rcInit) goPos(u *rcUnit, o types.Object) token.Pos {
	pub := token.NoPos
	ast.Inspect(u.body, func(n ast.Node) bool {
		if g, ok := n.(*ast.GoStmt); ok && a.mentions(g, o) && (pub == token.NoPos || g.Pos() < pub) {
			pub = g.Pos()
		}
		return true
	})
	return pub
}

func (a *rcInit) publishPos(u *rcUnit, o types.Object) token.Pos {
	pub := token.NoPos
	mark := func(p token.Pos) {
		if pub == token.NoPos || p < pub {
			pub = p
		}
	}
	ast.Inspect(u.body, func(n ast.Node) bool {
		switch x := n.(type) {
		case *ast.GoStmt:
			if a.mentions(x, o) {
				mark(x.Pos())
			}
		case *ast.FuncLit:
			if a.mentions(x, o) {
				mark(x.Pos())
			}
			return false
		case *ast.SendStmt:
			if a.isValueOf(x.Value, o) {
				mark(x.Pos())
			}
		case *ast.CallExpr:
			decls, optType, builtin := a.callee(x)
			friendly := builtin || optType != ""
			if len(decls) > 0 {
				friendly = true
				for _, d := range decls {
					if !a.initOnly[d] && !a.fresh[d] && !a.returnsOption(d) {
						friendly = false
					}
				}
			}
			if !friendly {
				for _, arg := range x.Args {
					if a.isValueOf(arg, o) {
						mark(x.Pos())
					}
				}
			}
		case *ast.AssignStmt:
			for i, r := range x.Rhs {
				if !a.isValueOf(r, o) {
					continue
				}
				var l ast.Expr
				if len(x.Lhs) == len(x.Rhs) {
					l = x.Lhs[i]
				} else {
					l = x.Lhs[0]
				}
				if _, isIdent := l.(*ast.Ident); isIdent {
					continue // a local alias
				}
				if a.rooted(u, l, x.Pos()) {
					continue // stored into another object under construction
				}
				mark(x.Pos())
			}
		}
		return true
	})
	return pub
}

// returnsOption: the function builds an option closure (its result is a func(*T)); what it is given ends up in an
// object under construction when the option is applied.
func (a *rcInit) returnsOption(d *ast.FuncDecl) bool {
	o, ok := a.p.info.Defs[d.Name].(*types.Func)
	if !ok {
		return false
	}
	sig, ok := o.Type().(*types.Signature)
	if !ok || sig.Results().Len() != 1 {
		return false
	}
	rs, ok := sig.Results().At(0).Type().Underlying().(*types.Signature)
	return ok && rcOptParamType(rs) != ""
}

// callSites: for every in-package function, are all its call sites applied to objects under construction?
func (a *rcInit) computeInitOnly() {
	a.initOnly = map[*ast.FuncDecl]bool{}
	for _, fd := range a.p.decls {
		if rcConfigAPI[funcName(fd)] {
			a.initOnly[fd] = true
		}
	}
	for round := 0; round < 20; round++ {
		for _, u := range a.order {
			a.computeInitVars(u)
		}
		a.computeFresh()
		for _, u := range a.order {
			a.computeInitVars(u)
		}
		good := map[*ast.FuncDecl]int{}
		bad := map[*ast.FuncDecl]bool{}
		for _, u := range a.order {
			goCalls := map[*ast.CallExpr]bool{}
			rcOwn(u.body, func(n ast.Node) bool {
				if g, ok := n.(*ast.GoStmt); ok {
					goCalls[g.Call] = true // the callee runs on another goroutine: the object is shared from here on
				}
				call, ok := n.(*ast.CallExpr)
				if !ok {
					return true
				}
				decls, _, _ := a.callee(call)
				for _, d := range decls {
					if d.Recv == nil {
						continue
					}
					sel, ok := call.Fun.(*ast.SelectorExpr)
					if ok && !goCalls[call] && a.rooted(u, sel.X, call.Pos()) {
						good[d]++
					} else {
						bad[d] = true
					}
				}
				return true
			})
		}
		changed := false
		for _, fd := range a.p.decls {
			if a.initOnly[fd] || fd.Recv == nil || ast.IsExported(fd.Name.Name) || a.valueUsed[fd] {
				continue
			}
			// all call sites on objects under construction; or no call site at all (an unexported method nobody
			// calls cannot run)
			if !bad[fd] {
				a.initOnly[fd] = true
				changed = true
			}
		}
		if !changed {
			break
		}
	}
	for _, u := range a.order {
		a.computeInitVars(u)
	}
}

func (a *rcInit) computeValueUsed() {
	inCall := map[*ast.Ident]bool{}
	for _, fd := range a.p.decls {
		ast.Inspect(fd.Body, func(n ast.Node) bool {
			if call, ok := n.(*ast.CallExpr); ok {
				switch f := call.Fun.(type) {
				case *ast.Ident:
					inCall[f] = true
				case *ast.SelectorExpr:
					inCall[f.Sel] = true
				}
			}
			return true
		})
	}
	for id, o := range a.p.info.Uses {
		if fo, ok := o.(*types.Func); ok && !inCall[id] {
			if d := a.p.declOf[fo]; d != nil {
				a.valueUsed[d] = true
			}
		}
	}
}

// unsafeOptions: struct types T for which a func(*T) value is applied to something that is not under construction.
func (a *rcInit) unsafeOptions() map[string]bool {
	out := map[string]bool{}
	for _, u := range a.order {
		rcOwn(u.body, func(n ast.Node) bool {
			call, ok := n.(*ast.CallExpr)
			if !ok {
				return true
			}
			_, optType, _ := a.callee(call)
			if optType == "" || len(call.Args) != 1 {
				return true
			}
			if !a.rooted(u, call.Args[0], call.Pos()) {
				out[optType] = true
			}
			return true
		})
	}
	return out
}

func rcAnalyseInit(p *rcPkg) *rcInit {
	a := &rcInit{p: p, units: map[ast.Node]*rcUnit{}, optUnsafe: map[string]bool{}, fresh: map[*ast.FuncDecl]bool{}, valueUsed: map[*ast.FuncDecl]bool{}}
	a.collectUnits()
	a.computeValueUsed()
	for i := 0; i < 10; i++ {
		a.fresh = map[*ast.FuncDecl]bool{}
		a.computeInitOnly()
		grew := false
		for t := range a.unsafeOptions() {
			if !a.optUnsafe[t] {
				a.optUnsafe[t] = true
				grew = true
			}
		}
		if !grew {
			break
		}
	}
	return a
}

// ---------------------------------------------------------------------------------------------------------------
// discipline (mirrors Mcp.Lockset.disciplined) and output

type rcField struct {
	Type, Field string
	Sites       []rcSite
}

func rcHolds(s rcSite, name string, needExcl bool) bool {
	for _, h := range s.Held {
		if h.Name == name && (h.Excl || !needExcl) {
			return true
		}
	}
	return false
}

func rcDisciplined(f *rcField) (bool, string) {
	var live []rcSite
	for _, s := range f.Sites {
		if !s.Init {
			live = append(live, s)
		}
	}
	allSync, noWrite := true, true
	for _, s := range live {
		if s.Sync == "plain" {
			allSync = false
		}
		if s.Kind == "w" {
			noWrite = false
		}
	}
	if noWrite {
		return true, "never written after construction"
	}
	if allSync {
		return true, "atomic"
	}
	if len(live) > 0 {
		for _, h := range live[0].Held {
			ok := true
			for _, s := range live {
				if !rcHolds(s, h.Name, s.Kind == "w") {
					ok = false
					break
				}
			}
			if ok {
				return true, "mutex " + h.Name
			}
		}
	}
	return false, "UNDISCIPLINED"
}

func rcHeldKey(h []rcHeld) string {
	var b strings.Builder
	for _, x := range h {
		fmt.Fprintf(&b, "%s:%v,", x.Name, x.Excl)
	}
	return b.String()
}

func rcCollect(p *rcPkg) []rcSite {
	a := rcAnalyseInit(p)
	var all []rcSite
	for _, fd := range p.decls {
		w := &rcWalker{p: p, fn: p.prefix + funcName(fd), file: filepath.ToSlash(filepath.Join(p.rel, p.fileOf[fd])), unit: []ast.Node{fd}}
		w.block(fd.Body.List, rcState{})
		for i := range w.out {
			s := &w.out[i]
			if w.unknown {
				s.Held = nil
			}
			if s.inLit {
				continue
			}
			u := a.units[s.unit]
			if u != nil && s.rooted != nil && a.rooted(u, s.rooted, s.pos) {
				s.Init = true
			}
		}
		all = append(all, w.out...)
	}
	// package-level variable initialisers run before anything is shared
	for _, fname := range p.src.sortedFiles() {
		for _, d := range p.src.files[fname].Decls {
			if gd, ok := d.(*ast.GenDecl); ok && gd.Tok == token.VAR {
				for _, sp := range gd.Specs {
					if vs, ok := sp.(*ast.ValueSpec); ok && len(vs.Values) > 0 {
						w := &rcWalker{p: p, fn: p.prefix + "var " + vs.Names[0].Name, file: filepath.ToSlash(filepath.Join(p.rel, fname)), unit: []ast.Node{vs}}
						w.exprs(vs.Values, rcState{}, "r")
						for i := range w.out {
							w.out[i].Init = true
						}
						all = append(all, w.out...)
					}
				}
			}
		}
	}
	return all
}

func rcGenFieldLocks(root *pkgSrc) {
	pkgs := []*rcPkg{rcLoad(root, "", "")}
	for _, sub := range []string{"session", "sseutil"} {
		pkgs = append(pkgs, rcLoad(loadDir(filepath.Join(*repo, "internal", sub)), sub+".", "internal/"+sub))
	}
	var sites []rcSite
	for _, p := range pkgs {
		sites = append(sites, rcCollect(p)...)
	}
	sort.SliceStable(sites, func(i, j int) bool {
		a, b := sites[i], sites[j]
		if a.Type != b.Type {
			return a.Type < b.Type
		}
		if a.Field != b.Field {
			return a.Field < b.Field
		}
		if a.Fn != b.Fn {
			return a.Fn < b.Fn
		}
		if a.File != b.File {
			return a.File < b.File
		}
		return a.pos < b.pos
	})
	byField := map[string]*rcField{}
	var order []string
	for _, s := range sites {
		k := s.Type + "\x00" + s.Field
		f := byField[k]
		if f == nil {
			f = &rcField{Type: s.Type, Field: s.Field}
			byField[k] = f
			order = append(order, k)
		}
		f.Sites = append(f.Sites, s)
	}
	// shared fields: touched after construction
	var fields []*rcField
	for _, k := range order {
		f := byField[k]
		live := false
		for _, s := range f.Sites {
			if !s.Init {
				live = true
			}
		}
		if live {
			fields = append(fields, f)
		}
	}

	var b strings.Builder
	b.WriteString(header)
	b.WriteString("import Mcp.Model.Lockset\nnamespace Mcp.Gen\nopen Mcp.Lockset\n\n")
	nUndisc := 0
	for i, f := range fields {
		ok, why := rcDisciplined(f)
		if !ok {
			nUndisc++
		}
		fmt.Fprintf(&b, "/-- %s.%s: %s -/\ndef rcF%d : Field :=\n  ⟨%s, %s, [\n", f.Type, f.Field, why, i, leanText(f.Type), leanText(f.Field))
		seen := map[string]bool{}
		var recs [][2]string
		for _, s := range f.Sites {
			k := fmt.Sprintf("%s|%s|%s|%s|%v", s.Fn, s.Kind, s.Sync, rcHeldKey(s.Held), s.Init)
			if seen[k] {
				continue
			}
			seen[k] = true
			var hs []string
			for _, h := range s.Held {
				hs = append(hs, fmt.Sprintf("(%s, %s)", leanText(h.Name), leanBool(h.Excl)))
			}
			kind := map[string]string{"r": ".read", "w": ".write", "u": ".use"}[s.Kind]
			sync := map[string]string{"plain": ".plain", "atomic": ".atomic", "syncmap": ".syncMap"}[s.Sync]
			note := ""
			for _, h := range s.Held {
				note += " " + h.Name + map[bool]string{true: "(w)", false: "(r)"}[h.Excl]
			}
			if note == "" {
				note = " -"
			}
			recs = append(recs, [2]string{fmt.Sprintf("    ⟨%s, %s, %s, [%s], %s⟩", leanText(s.Fn), kind, sync, strings.Join(hs, ", "), leanBool(s.Init)),
				fmt.Sprintf("  -- %s %s %s held:%s%s", s.Fn, s.Kind, s.Sync, note, map[bool]string{true: " (init)", false: ""}[s.Init])})
		}
		for j, r := range recs {
			sep := ","
			if j == len(recs)-1 {
				sep = ""
			}
			b.WriteString(r[0] + sep + r[1] + "\n")
		}
		b.WriteString("  ]⟩\n\n")
	}
	_ = nUndisc
	b.WriteString("/-- Every field of the tracked component structs that is touched after construction, with its distinct access\n    records ⟨function, kind, sync, mutexes of the same object lexically held (name, exclusive?), init-phase⟩. -/\n")
	b.WriteString("def rcSharedFields : List Field :=\n")
	const chunk = 16
	if len(fields) == 0 {
		b.WriteString("  []\n")
	}
	for i := 0; i < len(fields); i += chunk {
		var names []string
		for j := i; j < i+chunk && j < len(fields); j++ {
			names = append(names, fmt.Sprintf("rcF%d", j))
		}
		op := "  "
		if i > 0 {
			op = "  ++ "
		}
		b.WriteString(op + "[" + strings.Join(names, ", ") + "]\n")
	}
	b.WriteString("\nend Mcp.Gen\n")
	writeIfChanged("FieldLocks.lean", b.String())

	// the same records with positions, for the harness (not a Lean input)
	type jf struct {
		Type        string   `json:"type"`
		Field       string   `json:"field"`
		Disciplined bool     `json:"disciplined"`
		Why         string   `json:"why"`
		Sites       []rcSite `json:"sites"`
	}
	var out []jf
	for _, f := range fields {
		ok, why := rcDisciplined(f)
		out = append(out, jf{f.Type, f.Field, ok, why, f.Sites})
	}
	jb, err := json.MarshalIndent(map[string]any{"fields": out}, "", " ")
	if err != nil {
		fatal("%v", err)
	}
	writeIfChanged("FieldLocks.sites.json", string(jb)+"\n")
}
