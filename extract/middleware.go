package main

// T-gen family for C15 (middlewares): structural facts about how the middleware chain is built, registered and
// by-passed by notifications. Everything is syntactic and conservative: a shape that is not recognised is
// emitted as `false` / `0`, which every Lean predicate over these facts treats as non-compliant.

import (
	"fmt"
	"go/ast"
	"go/token"
	"sort"
	"strconv"
	"strings"
)

func init() { generators = append(generators, genMiddlewareFacts) }

// squash removes all white space (shape comparison of small statements).
func mwSquash(s string) string { return strings.Join(strings.Fields(s), "") }

// stripComments returns the source text of a node without // and /* */ comments.
func (p *pkgSrc) mwCodeText(n ast.Node) string {
	src := p.text(n)
	var b strings.Builder
	for i := 0; i < len(src); i++ {
		if src[i] == '"' || src[i] == '`' {
			q := src[i]
			j := i + 1
			for j < len(src) && src[j] != q {
				if q == '"' && src[j] == '\\' {
					j++
				}
				j++
			}
			if j >= len(src) {
				j = len(src) - 1
			}
			b.WriteString(src[i : j+1])
			i = j
			continue
		}
		if strings.HasPrefix(src[i:], "//") {
			for i < len(src) && src[i] != '\n' {
				i++
			}
			b.WriteByte('\n')
			continue
		}
		if strings.HasPrefix(src[i:], "/*") {
			j := strings.Index(src[i+2:], "*/")
			if j < 0 {
				break
			}
			i += j + 3
			b.WriteByte(' ')
			continue
		}
		b.WriteByte(src[i])
	}
	return b.String()
}

// loopShape classifies the body of mcpHandler.applyMiddlewares:
// "descending" = for i := len(h.middlewares)-1; i >= 0; i-- { handler = h.middlewares[i](handler) } ; return handler
// "ascending"  = the same with i := 0; i < len(h.middlewares); i++   (or a range loop over h.middlewares)
// anything else = "unknown".
func mwLoopShape(root *pkgSrc) string {
	fd, _ := root.funcDecl("mcpHandler.applyMiddlewares")
	if fd == nil || fd.Body == nil || len(fd.Body.List) != 2 {
		return "unknown"
	}
	if fd.Type.Params == nil || len(fd.Type.Params.List) != 1 || len(fd.Type.Params.List[0].Names) != 1 {
		return "unknown"
	}
	param := fd.Type.Params.List[0].Names[0].Name
	recv := ""
	if fd.Recv != nil && len(fd.Recv.List) == 1 && len(fd.Recv.List[0].Names) == 1 {
		recv = fd.Recv.List[0].Names[0].Name
	}
	if recv == "" {
		return "unknown"
	}
	ret, ok := fd.Body.List[1].(*ast.ReturnStmt)
	if !ok || len(ret.Results) != 1 || mwSquash(root.text(ret.Results[0])) != param {
		return "unknown"
	}
	slice := recv + ".middlewares"
	switch loop := fd.Body.List[0].(type) {
	case *ast.ForStmt:
		if loop.Init == nil || loop.Cond == nil || loop.Post == nil || len(loop.Body.List) != 1 {
			return "unknown"
		}
		as, ok := loop.Init.(*ast.AssignStmt)
		if !ok || as.Tok != token.DEFINE || len(as.Lhs) != 1 {
			return "unknown"
		}
		iv := mwSquash(root.text(as.Lhs[0]))
		body := mwSquash(root.mwCodeText(loop.Body.List[0]))
		if body != param+"="+slice+"["+iv+"]("+param+")" {
			return "unknown"
		}
		init, cond, post := mwSquash(root.text(loop.Init)), mwSquash(root.text(loop.Cond)), mwSquash(root.text(loop.Post))
		if init == iv+":=len("+slice+")-1" && cond == iv+">=0" && (post == iv+"--" || post == iv+"-=1") {
			return "descending"
		}
		if init == iv+":=0" && cond == iv+"<len("+slice+")" && (post == iv+"++" || post == iv+"+=1") {
			return "ascending"
		}
	case *ast.RangeStmt:
		if mwSquash(root.text(loop.X)) != slice || loop.Value == nil || len(loop.Body.List) != 1 {
			return "unknown"
		}
		v := mwSquash(root.text(loop.Value))
		if mwSquash(root.mwCodeText(loop.Body.List[0])) == param+"="+v+"("+param+")" {
			return "ascending"
		}
	}
	return "unknown"
}

// mwCallGraph: function (qualified as funcName gives it) -> simple names it calls or mentions as a selector.
// Name based, so it over-approximates (a method name reaches every method of that name).
type mwCallGraph struct {
	mentions map[string]map[string]bool // qualified function -> simple names mentioned (calls, selectors, idents)
	bySimple map[string][]string        // simple name -> qualified functions with that name
}

func mwBuildCallGraph(root *pkgSrc) *mwCallGraph {
	g := &mwCallGraph{mentions: map[string]map[string]bool{}, bySimple: map[string][]string{}}
	for _, fn := range root.sortedFiles() {
		for _, d := range root.files[fn].Decls {
			fd, ok := d.(*ast.FuncDecl)
			if !ok || fd.Body == nil {
				continue
			}
			q := funcName(fd)
			g.bySimple[fd.Name.Name] = append(g.bySimple[fd.Name.Name], q)
			m := map[string]bool{}
			ast.Inspect(fd.Body, func(n ast.Node) bool {
				switch x := n.(type) {
				case *ast.SelectorExpr:
					m[x.Sel.Name] = true
				case *ast.Ident:
					m[x.Name] = true
				}
				return true
			})
			g.mentions[q] = m
		}
	}
	return g
}

// reaches reports whether `from` (qualified) can reach a function that mentions one of `targets`
// (simple names), following mentions of package-level function / method names transitively.
// `stopAt` = simple names that are not followed (well-known leaf helpers with very common names).
func (g *mwCallGraph) mwReaches(from string, targets map[string]bool, stopAt map[string]bool) (bool, []string) {
	type item struct {
		q    string
		path []string
	}
	seen := map[string]bool{from: true}
	queue := []item{{from, []string{from}}}
	for len(queue) > 0 {
		it := queue[0]
		queue = queue[1:]
		names := make([]string, 0, len(g.mentions[it.q]))
		for n := range g.mentions[it.q] {
			names = append(names, n)
		}
		sort.Strings(names)
		for _, n := range names {
			if targets[n] {
				return true, append(it.path, n)
			}
		}
		for _, n := range names {
			if stopAt[n] {
				continue
			}
			for _, q := range g.bySimple[n] {
				if !seen[q] {
					seen[q] = true
					queue = append(queue, item{q, append(append([]string{}, it.path...), q)})
				}
			}
		}
	}
	return false, nil
}

// mwFieldWriters: one entry per site in package mcp that gives the struct field `field` a value — an assignment to a
// selector `x.field` (any receiver expression), or the key `field:` of a composite literal — named by the function the
// site is in. Function literals are named the way the Go tool chain names closures: `Outer.func1`, `Outer.func2`, nested
// `Outer.func1.1`; so a write inside the closure an option constructor returns shows up as e.g. `WithSSEServerLogger.func1`,
// never as the constructor. Shapes that could write the field without being one of the two (its address is taken, an
// unkeyed composite literal of a struct that has the field, a package-level initialiser) are emitted with a suffix
// `:address-taken` / `:unkeyed-literal` / prefix `var ` that no Lean predicate accepts. Sorted, duplicates kept.
func mwFieldWriters(root *pkgSrc, field string) (writers []string, holders []string) {
	holder := map[string]bool{}
	for _, fn := range root.sortedFiles() {
		for _, d := range root.files[fn].Decls {
			gd, ok := d.(*ast.GenDecl)
			if !ok || gd.Tok != token.TYPE {
				continue
			}
			for _, sp := range gd.Specs {
				ts, ok := sp.(*ast.TypeSpec)
				if !ok {
					continue
				}
				st, ok := ts.Type.(*ast.StructType)
				if !ok || st.Fields == nil {
					continue
				}
				for _, f := range st.Fields.List {
					for _, n := range f.Names {
						if n.Name == field {
							holder[ts.Name.Name] = true
						}
					}
				}
			}
		}
	}
	for h := range holder {
		holders = append(holders, h)
	}
	sort.Strings(holders)
	litType := func(e ast.Expr) string {
		switch t := e.(type) {
		case *ast.Ident:
			return t.Name
		case *ast.StarExpr:
			if id, ok := t.X.(*ast.Ident); ok {
				return id.Name
			}
		}
		return ""
	}
	isField := func(e ast.Expr) bool {
		for {
			p, ok := e.(*ast.ParenExpr)
			if !ok {
				break
			}
			e = p.X
		}
		sel, ok := e.(*ast.SelectorExpr)
		return ok && sel.Sel.Name == field
	}
	var walk func(body ast.Node, name string, depth int)
	walk = func(body ast.Node, name string, depth int) {
		cnt := 0
		ast.Inspect(body, func(n ast.Node) bool {
			switch x := n.(type) {
			case *ast.FuncLit:
				cnt++
				sub := fmt.Sprintf("%s.func%d", name, cnt)
				if depth > 0 {
					sub = fmt.Sprintf("%s.%d", name, cnt)
				}
				walk(x.Body, sub, depth+1)
				return false
			case *ast.AssignStmt:
				for _, l := range x.Lhs {
					if isField(l) {
						writers = append(writers, name)
					}
				}
			case *ast.IncDecStmt:
				if isField(x.X) {
					writers = append(writers, name+":incdec")
				}
			case *ast.RangeStmt:
				if (x.Key != nil && isField(x.Key)) || (x.Value != nil && isField(x.Value)) {
					writers = append(writers, name+":range-target")
				}
			case *ast.UnaryExpr:
				if x.Op == token.AND && isField(x.X) {
					writers = append(writers, name+":address-taken")
				}
			case *ast.CompositeLit:
				keyed := false
				for _, e := range x.Elts {
					if kv, ok := e.(*ast.KeyValueExpr); ok {
						keyed = true
						if id, ok := kv.Key.(*ast.Ident); ok && id.Name == field {
							writers = append(writers, name)
						}
					}
				}
				if !keyed && len(x.Elts) > 0 && x.Type != nil && holder[litType(x.Type)] {
					writers = append(writers, name+":unkeyed-literal")
				}
			}
			return true
		})
	}
	for _, fn := range root.sortedFiles() {
		for _, d := range root.files[fn].Decls {
			switch x := d.(type) {
			case *ast.FuncDecl:
				if x.Body != nil {
					walk(x.Body, funcName(x), 0)
				}
			case *ast.GenDecl:
				if x.Tok != token.VAR {
					continue
				}
				for _, sp := range x.Specs {
					vs, ok := sp.(*ast.ValueSpec)
					if !ok || len(vs.Names) == 0 {
						continue
					}
					for _, v := range vs.Values {
						walk(v, "var "+vs.Names[0].Name, 0)
					}
				}
			}
		}
	}
	sort.Strings(writers)
	return writers, holders
}

// ---- dispatch after the acknowledgement (legacy SSE answers the POST with 202 BEFORE the request is processed)

// mwLogThenReturn: a block that only logs (calls on `<recv>.logger`) and then returns without values.
func mwLogThenReturn(root *pkgSrc, b *ast.BlockStmt) bool {
	if b == nil || len(b.List) == 0 {
		return false
	}
	for i, st := range b.List {
		if i == len(b.List)-1 {
			r, ok := st.(*ast.ReturnStmt)
			return ok && len(r.Results) == 0
		}
		es, ok := st.(*ast.ExprStmt)
		if !ok {
			return false
		}
		call, ok := es.X.(*ast.CallExpr)
		if !ok || !strings.Contains(mwSquash(root.text(call.Fun)), ".logger.") {
			return false
		}
	}
	return false
}

func mwStmtKind(st ast.Stmt) string {
	switch x := st.(type) {
	case *ast.SelectStmt:
		for _, cl := range x.Body.List {
			if cc, ok := cl.(*ast.CommClause); ok && cc.Comm == nil {
				return "select-default"
			}
		}
		return "select"
	case *ast.GoStmt:
		return "go-other"
	case *ast.ReturnStmt:
		return "return"
	case *ast.IfStmt:
		return "if-other"
	case *ast.ForStmt, *ast.RangeStmt:
		return "loop"
	case *ast.SwitchStmt, *ast.TypeSwitchStmt:
		return "switch"
	case *ast.DeferStmt:
		return "defer"
	case *ast.AssignStmt:
		return "assign-other"
	case *ast.ExprStmt:
		return "call-other"
	}
	return fmt.Sprintf("unknown-%T", st)
}

// mwSSEDispatchShape classifies the top-level statements of SSEServer.handleRequestMessage (runs after the 202):
//
//	decl            var request JSONRPCRequest
//	unmarshal-guard if err := json.Unmarshal(rawMessage, &request); err != nil { log…; return }
//	go-dispatch     go s.processRequestAsync(ctx, &request, session)
//
// anything else by its statement kind (select-default, go-other, return, …). Missing function: ["missing"].
func mwSSEDispatchShape(root *pkgSrc) []string {
	fd, _ := root.funcDecl("SSEServer.handleRequestMessage")
	if fd == nil || fd.Body == nil {
		return []string{"missing"}
	}
	var out []string
	for _, st := range fd.Body.List {
		src := mwSquash(root.mwCodeText(st))
		switch x := st.(type) {
		case *ast.DeclStmt:
			if src == "varrequestJSONRPCRequest" {
				out = append(out, "decl")
				continue
			}
			out = append(out, "decl-other")
		case *ast.IfStmt:
			if x.Init != nil && x.Else == nil && mwSquash(root.text(x.Init)) == "err:=json.Unmarshal(rawMessage,&request)" &&
				mwSquash(root.text(x.Cond)) == "err!=nil" && mwLogThenReturn(root, x.Body) {
				out = append(out, "unmarshal-guard")
				continue
			}
			out = append(out, "if-other")
		case *ast.GoStmt:
			if src == "gos.processRequestAsync(ctx,&request,session)" {
				out = append(out, "go-dispatch")
				continue
			}
			out = append(out, "go-other")
		default:
			out = append(out, mwStmtKind(st))
		}
	}
	return out
}

// mwSSEProcessPrefix classifies what SSEServer.processRequestAsync does BEFORE it hands the request to the chain
// (`result, err := s.mcpHandler.handleRequest(detachedCtx, request, session)`):
//
//	detach                detachedCtx := icontext.WithoutCancel(ctx)
//	roots-response-guard  if s.isRootsListResponse(request) { s.handleRootsListResponse(request, session); return }
//	                      where isRootsListResponse = `if request.ID != nil && request.Method == "" {…}; return false`
//	                      (a message WITH a method — every request — never takes it)
//
// No hand-over statement at top level: ["missing-dispatch"].
func mwSSEProcessPrefix(root *pkgSrc) []string {
	fd, _ := root.funcDecl("SSEServer.processRequestAsync")
	if fd == nil || fd.Body == nil {
		return []string{"missing"}
	}
	rootsOK := false
	if rd, _ := root.funcDecl("SSEServer.isRootsListResponse"); rd != nil && rd.Body != nil && len(rd.Body.List) == 2 {
		ifs, ok1 := rd.Body.List[0].(*ast.IfStmt)
		ret, ok2 := rd.Body.List[1].(*ast.ReturnStmt)
		rootsOK = ok1 && ok2 && ifs.Init == nil && ifs.Else == nil && mwSquash(root.text(ifs.Cond)) == `request.ID!=nil&&request.Method==""` &&
			len(ret.Results) == 1 && mwSquash(root.text(ret.Results[0])) == "false"
	}
	var out []string
	for _, st := range fd.Body.List {
		src := mwSquash(root.mwCodeText(st))
		if src == "result,err:=s.mcpHandler.handleRequest(detachedCtx,request,session)" {
			return out
		}
		switch {
		case src == "detachedCtx:=icontext.WithoutCancel(ctx)":
			out = append(out, "detach")
		case src == "ifs.isRootsListResponse(request){s.handleRootsListResponse(request,session)return}":
			if rootsOK {
				out = append(out, "roots-response-guard")
			} else {
				out = append(out, "roots-guard-unrecognised")
			}
		default:
			out = append(out, mwStmtKind(st))
		}
	}
	return append(out, "missing-dispatch")
}

// mwSSEAckThenDispatch: in SSEServer.handleMessage the statement right after `w.WriteHeader(http.StatusAccepted)` is the
// if-chain whose first branch — `base.ID != nil && base.Method != ""` — is exactly `s.handleRequestMessage(ctx, rawMessage, session)`.
func mwSSEAckThenDispatch(root *pkgSrc) bool {
	fd, _ := root.funcDecl("SSEServer.handleMessage")
	if fd == nil || fd.Body == nil {
		return false
	}
	for i, st := range fd.Body.List {
		if mwSquash(root.mwCodeText(st)) != "w.WriteHeader(http.StatusAccepted)" {
			continue
		}
		if i+1 >= len(fd.Body.List) {
			return false
		}
		ifs, ok := fd.Body.List[i+1].(*ast.IfStmt)
		if !ok || ifs.Init != nil || mwSquash(root.text(ifs.Cond)) != `base.ID!=nil&&base.Method!=""` || len(ifs.Body.List) != 1 {
			return false
		}
		return mwSquash(root.mwCodeText(ifs.Body.List[0])) == "s.handleRequestMessage(ctx,rawMessage,session)"
	}
	return false
}

// mwSelectCount: select statements (any) in the named functions; a missing function counts as 99.
func mwSelectCount(root *pkgSrc, names ...string) int {
	n := 0
	for _, name := range names {
		fd, _ := root.funcDecl(name)
		if fd == nil || fd.Body == nil {
			return 99
		}
		ast.Inspect(fd.Body, func(x ast.Node) bool {
			if _, ok := x.(*ast.SelectStmt); ok {
				n++
			}
			return true
		})
	}
	return n
}

// leanTextListC: a list of texts with the readable form as a comment per entry.
func leanTextListC(l []string) string {
	if len(l) == 0 {
		return "[]"
	}
	var b strings.Builder
	b.WriteString("[")
	for i, x := range l {
		if i > 0 {
			b.WriteString(",")
		}
		fmt.Fprintf(&b, "\n  -- %s\n  %s", strings.ReplaceAll(x, "-/", "- /"), leanText(x))
	}
	b.WriteString("]")
	return b.String()
}

// mwSharedResults: returns of package-level variables as the (first) result of the request handlers, and the shape of
// handlePing's result.
func mwSharedResults(root *pkgSrc) (shared []string, pingShape string) {
	topSpecs := map[*ast.ValueSpec]bool{}
	pkgVars := map[string]bool{}
	for _, fname := range root.sortedFiles() {
		for _, d := range root.files[fname].Decls {
			if gd, ok := d.(*ast.GenDecl); ok && gd.Tok == token.VAR {
				for _, sp := range gd.Specs {
					if vs, ok := sp.(*ast.ValueSpec); ok {
						topSpecs[vs] = true
						for _, n := range vs.Names {
							pkgVars[n.Name] = true
						}
					}
				}
			}
		}
	}
	isPkgVar := func(e ast.Expr) (string, bool) {
		for {
			switch x := e.(type) {
			case *ast.ParenExpr:
				e = x.X
				continue
			case *ast.SelectorExpr: // a field of a package-level struct variable is as shared as the variable
				e = x.X
				continue
			case *ast.IndexExpr:
				e = x.X
				continue
			case *ast.UnaryExpr:
				e = x.X
				continue
			}
			break
		}
		id, ok := e.(*ast.Ident)
		if !ok || !pkgVars[id.Name] {
			return "", false
		}
		if id.Obj != nil {
			vs, isSpec := id.Obj.Decl.(*ast.ValueSpec)
			if !isSpec || !topSpecs[vs] {
				return "", false // a local of the same name
			}
		}
		return id.Name, true
	}
	recvs := map[string]bool{"mcpHandler": true, "toolManager": true, "promptManager": true, "resourceManager": true, "lifecycleManager": true}
	pingShape = "missing"
	var rows [][2]string
	for _, fname := range root.sortedFiles() {
		for _, d := range root.files[fname].Decls {
			fd, ok := d.(*ast.FuncDecl)
			if !ok || fd.Body == nil || fd.Recv == nil || !strings.HasPrefix(fd.Name.Name, "handle") {
				continue
			}
			fn := funcName(fd)
			if i := strings.Index(fn, "."); i < 0 || !recvs[fn[:i]] {
				continue
			}
			ast.Inspect(fd.Body, func(n ast.Node) bool {
				if _, ok := n.(*ast.FuncLit); ok {
					return false
				}
				r, ok := n.(*ast.ReturnStmt)
				if !ok || len(r.Results) == 0 {
					return true
				}
				if v, is := isPkgVar(r.Results[0]); is {
					rows = append(rows, [2]string{fn, v})
				}
				if fn == "mcpHandler.handlePing" {
					shape := "other"
					switch x := r.Results[0].(type) {
					case *ast.CompositeLit:
						shape = "literal"
					case *ast.CallExpr:
						if id, ok := x.Fun.(*ast.Ident); ok && id.Name == "make" {
							shape = "make"
						}
					case *ast.Ident:
						shape = "var:" + x.Name
					}
					if pingShape == "missing" || pingShape == shape {
						pingShape = shape
					} else {
						pingShape = "other"
					}
				}
				return true
			})
		}
	}
	sort.Slice(rows, func(i, j int) bool {
		if rows[i][0] != rows[j][0] {
			return rows[i][0] < rows[j][0]
		}
		return rows[i][1] < rows[j][1]
	})
	for _, r := range rows {
		shared = append(shared, "("+leanText(r[0])+", "+leanText(r[1])+")")
	}
	return shared, pingShape
}

func genMiddlewareFacts(root *pkgSrc) {
	shape := mwLoopShape(root)

	// use() appends
	useAppends := false
	if fd, _ := root.funcDecl("mcpHandler.use"); fd != nil && fd.Body != nil && len(fd.Body.List) == 1 && fd.Recv != nil &&
		len(fd.Recv.List[0].Names) == 1 && len(fd.Type.Params.List) == 1 && len(fd.Type.Params.List[0].Names) == 1 {
		r := fd.Recv.List[0].Names[0].Name
		p := fd.Type.Params.List[0].Names[0].Name
		useAppends = mwSquash(root.mwCodeText(fd.Body.List[0])) == r+".middlewares=append("+r+".middlewares,"+p+")"
	}

	// handleRequest: the chain is built around the core dispatch function and run once with (ctx, req)
	runsChain := false
	if fd, _ := root.funcDecl("mcpHandler.handleRequest"); fd != nil {
		src := mwSquash(root.mwCodeText(fd.Body))
		runsChain = strings.Contains(src, "wrappedHandler:=h.applyMiddlewares(coreHandler)") &&
			strings.Contains(src, "returnwrappedHandler(ctx,req)") &&
			strings.Count(src, "applyMiddlewares(") == 1 && strings.Count(src, "wrappedHandler(") == 1 &&
			strings.Contains(src, "iflen(h.middlewares)>0{") &&
			strings.Contains(src, "returnh.dispatchRequest(ctx,req,sessionFromCtx)") &&
			strings.Contains(src, "returnh.dispatchRequest(ctx,req,session)")
	}

	// registration keeps the order of the options
	regInOrder := false
	{
		okWith, okInit, okSSE := false, false, false
		if fd, _ := root.funcDecl("WithMiddleware"); fd != nil {
			okWith = strings.Contains(mwSquash(root.mwCodeText(fd.Body)), "s.pendingMiddlewares=append(s.pendingMiddlewares,middlewares...)")
		}
		if fd, _ := root.funcDecl("Server.initComponents"); fd != nil {
			src := mwSquash(root.mwCodeText(fd.Body))
			okInit = strings.Contains(src, "for_,mw:=ranges.pendingMiddlewares{s.mcpHandler.use(mw)}") && strings.Count(src, ".use(") == 1
		}
		if fd, _ := root.funcDecl("WithSSEMiddleware"); fd != nil {
			okSSE = strings.Contains(mwSquash(root.mwCodeText(fd.Body)), "for_,mw:=rangemiddlewares{s.mcpHandler.use(mw)}")
		}
		// nobody else touches the slice
		writers := 0
		for _, fn := range root.sortedFiles() {
			for _, d := range root.files[fn].Decls {
				if fd, ok := d.(*ast.FuncDecl); ok && fd.Body != nil {
					ast.Inspect(fd.Body, func(n ast.Node) bool {
						if as, ok := n.(*ast.AssignStmt); ok {
							for _, l := range as.Lhs {
								t := mwSquash(root.text(l))
								if strings.HasSuffix(t, ".middlewares") || strings.HasPrefix(t, "h.middlewares[") {
									writers++
								}
							}
						}
						return true
					})
				}
			}
		}
		regInOrder = okWith && okInit && okSSE && writers == 1
	}

	// notifications: none of the notification entry points can reach the chain
	g := mwBuildCallGraph(root)
	targets := map[string]bool{"applyMiddlewares": true, "middlewares": true, "handleRequest": true, "dispatchRequest": true}
	stop := map[string]bool{}
	entries := []string{"mcpHandler.handleNotification", "httpServerHandler.handlePostNotification",
		"SSEServer.handleNotificationMessage", "SSEServer.handleNotification", "Server.handleServerNotification"}
	bypass := true
	why := ""
	for _, e := range entries {
		if _, ok := g.mentions[e]; !ok {
			bypass = false
			why = "missing " + e
			break
		}
		if r, path := g.mwReaches(e, targets, stop); r {
			bypass = false
			why = strings.Join(path, " -> ")
			break
		}
	}
	// the POST / message entry points branch on the id: a message without id goes to the notification path
	if fd, _ := root.funcDecl("httpServerHandler.handlePost"); fd != nil {
		src := mwSquash(root.mwCodeText(fd.Body))
		if !strings.Contains(src, `ifbase.ID==nil&&base.Method!=""{h.handlePostNotification(enrichedCtx,w,r,rawMessage,base,session)return}`) {
			bypass = false
			why = "handlePost branch"
		}
	} else {
		bypass = false
	}
	if fd, _ := root.funcDecl("SSEServer.handleMessage"); fd != nil {
		src := mwSquash(root.mwCodeText(fd.Body))
		if !strings.Contains(src, `}elseifbase.ID==nil&&base.Method!=""{s.handleNotificationMessage(ctx,rawMessage,session)}`) {
			bypass = false
			why = "handleMessage branch"
		}
	} else {
		bypass = false
	}

	// error mapping: (nil, err) from the chain -> JSON-RPC error with which code
	codeConst := 0
	for _, fn := range root.sortedFiles() {
		for _, d := range root.files[fn].Decls {
			gd, ok := d.(*ast.GenDecl)
			if !ok || gd.Tok != token.CONST {
				continue
			}
			for _, s := range gd.Specs {
				vs := s.(*ast.ValueSpec)
				for i, n := range vs.Names {
					if n.Name == "ErrCodeInternal" && i < len(vs.Values) {
						if v, err := strconv.Atoi(mwSquash(root.text(vs.Values[i]))); err == nil {
							codeConst = v
						}
					}
				}
			}
		}
	}
	codeStreamable := 0
	if fd, _ := root.funcDecl("httpServerHandler.handlePostRequest"); fd != nil {
		src := mwSquash(root.mwCodeText(fd.Body))
		if strings.Count(src, "iferr!=nil{errorResp:=newJSONRPCErrorResponse(req.ID,ErrCodeInternal,err.Error(),nil)") == 2 &&
			strings.Count(src, "h.requestHandler.handleRequest(reqCtx,&req,session)") == 2 {
			codeStreamable = codeConst
		}
	}
	codeSSE := 0
	if fd, _ := root.funcDecl("SSEServer.handleRequestError"); fd != nil {
		src := mwSquash(root.mwCodeText(fd.Body))
		i := strings.Index(src, "Code:")
		if i >= 0 && strings.Contains(src, "Message:err.Error(),") {
			j := i + len("Code:")
			k := j
			for k < len(src) && (src[k] == '-' || (src[k] >= '0' && src[k] <= '9')) {
				k++
			}
			if v, err := strconv.Atoi(src[j:k]); err == nil {
				codeSSE = v
			} else if strings.HasPrefix(src[j:], "ErrCodeInternal,") {
				codeSSE = codeConst
			}
		}
	}
	if fd, _ := root.funcDecl("SSEServer.processRequestAsync"); fd != nil {
		src := mwSquash(root.mwCodeText(fd.Body))
		if !strings.Contains(src, "result,err:=s.mcpHandler.handleRequest(detachedCtx,request,session)iferr!=nil{s.handleRequestError(err,request.ID,session)return}") {
			codeSSE = 0
		}
	} else {
		codeSSE = 0
	}

	var b strings.Builder
	b.WriteString(header)
	b.WriteString("namespace Mcp.Gen\n")
	fmt.Fprintf(&b, "/-- `applyMiddlewares` wraps from the last index down to 0 around the handler (index 0 = first registered = outermost). -/\ndef mwLoopDescending : Bool := %s\n", leanBool(shape == "descending"))
	fmt.Fprintf(&b, "/-- `applyMiddlewares` wraps from index 0 upwards (last registered would be outermost). -/\ndef mwLoopAscending : Bool := %s\n", leanBool(shape == "ascending"))
	fmt.Fprintf(&b, "/-- `handleRequest` builds the chain once around the dispatch function and runs it once with the request. -/\ndef mwHandleRequestRunsChain : Bool := %s\n", leanBool(runsChain))
	fmt.Fprintf(&b, "/-- `use` appends; `WithMiddleware` appends its arguments to the pending list, `initComponents` / `WithSSEMiddleware` call `use` in order; nothing else writes the slice. -/\ndef mwUseAppends : Bool := %s\ndef mwRegistrationInOrder : Bool := %s\n", leanBool(useAppends), leanBool(regInOrder))
	fmt.Fprintf(&b, "/-- No notification entry point (Streamable, legacy SSE, handler) can reach `applyMiddlewares` / `handleRequest` / the slice (name-based call graph).%s -/\ndef mwNotificationsBypass : Bool := %s\n",
		func() string {
			if why != "" {
				return " Found: " + strings.ReplaceAll(why, "-/", "- /")
			}
			return ""
		}(), leanBool(bypass))
	fmt.Fprintf(&b, "/-- JSON-RPC code a Go error returned by the chain is answered with (0 = mapping not recognised). -/\ndef mwInternalCodeStreamable : Int := %d\ndef mwInternalCodeSSE : Int := %d\n", codeStreamable, codeSSE)
	// who gives the field `mcpHandler` (the object the middlewares are registered on) a value
	hw, holders := mwFieldWriters(root, "mcpHandler")
	b.WriteString("/-- Every site of package mcp that gives a struct field `mcpHandler` a value (assignment to a selector `….mcpHandler`, composite-literal key `mcpHandler:`), named by the function it is in; closures as `Outer.func1`; one entry per site, sorted. Anything that is not a plain write inside a named function carries a marker (`:address-taken`, `:unkeyed-literal`, `var …`). -/\ndef mwHandlerWriters : List (List Nat) := [")
	for i, w := range hw {
		if i > 0 {
			b.WriteString(",")
		}
		fmt.Fprintf(&b, "\n  -- %s\n  %s", strings.ReplaceAll(w, "-/", "- /"), leanText(w))
	}
	b.WriteString("]\n/-- The struct types that have a field `mcpHandler`. -/\ndef mwHandlerHolders : List (List Nat) := [")
	for i, h := range holders {
		if i > 0 {
			b.WriteString(",")
		}
		fmt.Fprintf(&b, "\n  -- %s\n  %s", h, leanText(h))
	}
	b.WriteString("]\n")
	// what happens between the acknowledgement of a request and its hand-over to the chain
	b.WriteString("/-- Top-level statements of `SSEServer.handleRequestMessage` (runs after the POST was answered 202), classified: `decl`, `unmarshal-guard`, `go-dispatch` (= `go s.processRequestAsync(ctx, &request, session)`), anything else by its kind (`select-default`, `go-other`, `return`, …). -/\ndef mwSSEDispatchShape : List (List Nat) := " + leanTextListC(mwSSEDispatchShape(root)) + "\n")
	b.WriteString("/-- What `SSEServer.processRequestAsync` does before `s.mcpHandler.handleRequest(detachedCtx, request, session)`: `detach`, `roots-response-guard` (taken only by messages without a method), anything else by its kind; `missing-dispatch` when the hand-over is not a top-level statement. -/\ndef mwSSEProcessPrefix : List (List Nat) := " + leanTextListC(mwSSEProcessPrefix(root)) + "\n")
	fmt.Fprintf(&b, "/-- In `SSEServer.handleMessage` the 202 is directly followed by the if-chain whose request branch is exactly `s.handleRequestMessage(ctx, rawMessage, session)`. -/\ndef mwSSEAckThenDispatch : Bool := %s\n", leanBool(mwSSEAckThenDispatch(root)))
	fmt.Fprintf(&b, "/-- `select` statements in `httpServerHandler.handlePost` + `handlePostRequest` (the Streamable path from the POST to both `handleRequest` calls is straight-line code; 99 = a function is missing). -/\ndef mwStreamableDispatchSelects : Nat := %d\n", mwSelectCount(root, "httpServerHandler.handlePost", "httpServerHandler.handlePostRequest"))
	shared, pingShape := mwSharedResults(root)
	fmt.Fprintf(&b, "/-- Result-producing request handlers (methods named handle… of mcpHandler and of the tool / prompt / resource / lifecycle managers)\n    that `return` a PACKAGE-LEVEL VARIABLE as their result: (function, variable). A result object handed out to more than one request\n    is shared by every middleware's after-stage of all of them (a modification would not be for that request only). -/\ndef mwSharedResultReturns : List (List Nat × List Nat) := [%s]\n", strings.Join(shared, ", "))
	fmt.Fprintf(&b, "/-- What `mcpHandler.handlePing` returns as its result: literal (a composite literal, fresh per call) | make | var:<name> | other | missing. -/\ndef mwPingResultShape : List Nat := %s\n", leanText(pingShape))
	b.WriteString("end Mcp.Gen\n")
	writeIfChanged("MiddlewareFacts.lean", b.String())
}
