package main

// T-gen family "ApiArgs" (property C20): what the library does with the caller's memory behind the arguments of its
// public API.  For every exported function and method of package mcp (methods of unexported types too when an exported
// interface of the package — NotificationSender, Session … — hands them to user code) and every parameter of map /
// slice (variadic included) / pointer type, a summary of where the parameter's OWN object (the map, the backing array,
// the pointee — not what its elements refer to: copies are shallow) can end up:
//   stored    assigned into memory that outlives the call (a field / element of the receiver, of another parameter, of
//             an object that was not built in the function, a package-level variable; captured by a function literal
//             that is stored),
//   sent      handed to another goroutine (channel send, go statement),
//   returned  the result aliases it (directly, inside a struct, captured by a returned closure),
//   unknown   passed to code the extractor has no summary for and does not know to be harmless,
//   copied    its contents are read into fresh memory (range, append(x, p...), copy, *p, json.Marshal) — informational.
// The analysis is a flow-insensitive, inter-procedural (package-local, fixed point over function summaries) alias
// taint: locals that hold the parameter (D) or a value that contains it (C); selecting a field / element of the
// parameter leaves the parameter's own object (self mode) — a callee that receives a CONTAINER of the caller's
// argument is judged by a second summary (deep mode) in which everything reachable from its parameter counts.
// Calls through function values and through interfaces without an implementation in the package (Logger, user
// callbacks) are synchronous uses by user code; standard-library callees are harmless only when listed.
//
// Output: lean/Mcp/Gen/ApiArgs.lean (plain data, identifiers prefixed `rcA`) and ApiArgs.sites.json (the same rows with
// the reason chains, for the harness and the reader).

import (
	"encoding/json"
	"fmt"
	"go/ast"
	"go/token"
	"go/types"
	"sort"
	"strings"
)

func init() { generators = append(generators, aaGenApiArgs) }

const (
	aaStored = iota
	aaSent
	aaReturned
	aaUnknown
	aaCopied
	aaNFlags
)

var aaFlagName = [aaNFlags]string{"stored", "sent", "returned", "unknown", "copied"}

// Standard-library (and other foreign) callees, by "<last path element>.<Func>" or "?.<Method>" (method on a value whose
// type the extractor cannot see): pure = reads its arguments before it returns and keeps nothing; holds = the result
// contains the argument.
var aaForeignPure = map[string]bool{
	"json.Marshal": true, "json.MarshalIndent": true, "json.Unmarshal": true, "json.Valid": true,
	"fmt.Sprintf": true, "fmt.Errorf": true, "fmt.Sprint": true, "fmt.Sprintln": true, "fmt.Fprintf": true, "fmt.Fprint": true, "fmt.Fprintln": true,
	"errors.Is": true, "errors.As": true, "errors.New": true, "strings.Join": true, "strings.Contains": true, "strings.HasPrefix": true,
	"bytes.Equal": true, "bytes.Contains": true, "bytes.TrimSpace": true, "reflect.TypeOf": true, "reflect.DeepEqual": true,
	"sort.Strings": true, "sort.Slice": true, "sort.SliceStable": true, "string": true,
	"?.Encode": true, "?.Write": true, "?.WriteString": true, "?.Error": true, "?.String": true, "?.Decode": true,
}
var aaForeignHolds = map[string]bool{
	"context.WithValue": true, "reflect.ValueOf": true, "bytes.NewReader": true, "bytes.NewBuffer": true, "bytes.NewBufferString": true,
	"strings.NewReader": true, "io.NopCloser": true, "json.RawMessage": true, "openapi3.NewSchemaRef": true,
}

type aaSum struct {
	flag [2][aaNFlags]bool
	why  [2][aaNFlags]string
}

type aaFunc struct {
	decl    *ast.FuncDecl
	name    string
	params  []types.Object // receiver first when there is one (nil when unnamed)
	hasRecv bool
	index   map[types.Object]int
	sum     []aaSum
	named   []types.Object // named results
	storage map[types.Object]bool
	isCtor  bool
}

type aaPkg struct {
	p      *rcPkg
	funcs  map[*ast.FuncDecl]*aaFunc
	order  []*aaFunc
	ifaceM map[string]bool // method names of the package's interfaces (an unexported interface can be handed out too: GetNotificationSender)
}

func (a *aaPkg) obj(id *ast.Ident) types.Object {
	if o := a.p.info.Uses[id]; o != nil {
		return o
	}
	return a.p.info.Defs[id]
}

func aaPkgLevel(o types.Object) bool {
	v, ok := o.(*types.Var)
	return ok && !v.IsField() && v.Parent() != nil && v.Parent().Parent() == types.Universe
}

func aaRefLike(t types.Type, depth int) bool {
	if t == nil || depth > 6 {
		return true
	}
	switch x := t.(type) {
	case *types.Basic:
		return x.Kind() == types.Invalid || x.Kind() == types.UnsafePointer
	case *types.Named:
		return aaRefLike(x.Underlying(), depth+1)
	case *types.Alias:
		return aaRefLike(types.Unalias(x), depth+1)
	case *types.Struct:
		for i := 0; i < x.NumFields(); i++ {
			if aaRefLike(x.Field(i).Type(), depth+1) {
				return true
			}
		}
		return false
	case *types.Array:
		return aaRefLike(x.Elem(), depth+1)
	case *types.Tuple:
		return true
	}
	return true
}

func (a *aaPkg) refLikeExpr(e ast.Expr) bool {
	if tv, ok := a.p.info.Types[e]; ok && tv.Type != nil {
		return aaRefLike(tv.Type, 0)
	}
	if id, ok := e.(*ast.Ident); ok {
		if o := a.obj(id); o != nil && o.Type() != nil {
			return aaRefLike(o.Type(), 0)
		}
	}
	return true
}

func aaUnparen(e ast.Expr) ast.Expr {
	for {
		p, ok := e.(*ast.ParenExpr)
		if !ok {
			return e
		}
		e = p.X
	}
}

func aaFreshExpr(e ast.Expr) bool {
	switch x := aaUnparen(e).(type) {
	case *ast.CompositeLit:
		return true
	case *ast.UnaryExpr:
		if x.Op == token.AND {
			_, ok := aaUnparen(x.X).(*ast.CompositeLit)
			return ok
		}
	case *ast.CallExpr:
		if id, ok := x.Fun.(*ast.Ident); ok && (id.Name == "make" || id.Name == "new") {
			return true
		}
	}
	return false
}

// ---------------------------------------------------------------------------------------------------------------

func aaLoad(root *pkgSrc) *aaPkg {
	a := &aaPkg{p: rcLoad(root, "", ""), funcs: map[*ast.FuncDecl]*aaFunc{}, ifaceM: map[string]bool{}}
	for _, fname := range a.p.src.sortedFiles() {
		for _, d := range a.p.src.files[fname].Decls {
			gd, ok := d.(*ast.GenDecl)
			if !ok || gd.Tok != token.TYPE {
				continue
			}
			for _, sp := range gd.Specs {
				ts := sp.(*ast.TypeSpec)
				it, ok := ts.Type.(*ast.InterfaceType)
				if !ok {
					continue
				}
				for _, m := range it.Methods.List {
					for _, n := range m.Names {
						a.ifaceM[n.Name] = true
					}
				}
			}
		}
	}
	decls := append([]*ast.FuncDecl{}, a.p.decls...)
	sort.Slice(decls, func(i, j int) bool {
		ni, nj := funcName(decls[i]), funcName(decls[j])
		if ni != nj {
			return ni < nj
		}
		return decls[i].Pos() < decls[j].Pos()
	})
	for _, fd := range decls {
		f := &aaFunc{decl: fd, name: funcName(fd), index: map[types.Object]int{}, storage: map[types.Object]bool{}}
		add := func(fl *ast.FieldList, named *[]types.Object) {
			if fl == nil {
				return
			}
			for _, fld := range fl.List {
				if len(fld.Names) == 0 {
					if named == nil {
						f.params = append(f.params, nil)
					}
					continue
				}
				for _, n := range fld.Names {
					o := a.p.info.Defs[n]
					if named != nil {
						if o != nil {
							*named = append(*named, o)
						}
						continue
					}
					if o != nil && n.Name != "_" {
						f.index[o] = len(f.params)
					}
					f.params = append(f.params, o)
				}
			}
		}
		if fd.Recv != nil {
			f.hasRecv = true
			add(fd.Recv, nil)
			if len(f.params) == 0 {
				f.params = append(f.params, nil)
			}
		}
		add(fd.Type.Params, nil)
		add(fd.Type.Results, &f.named)
		f.sum = make([]aaSum, len(f.params))
		a.funcs[fd] = f
		a.order = append(a.order, f)
	}
	for _, f := range a.order {
		a.prepare(f)
	}
	return a
}

// prepare: which locals are storage of the function's own (a struct / array VALUE, or a variable that only ever holds
// objects allocated in this function), and whether the function is a constructor (returns such an object).
func (a *aaPkg) prepare(f *aaFunc) {
	notFresh := map[types.Object]bool{}
	seen := map[types.Object]bool{}
	note := func(lhs ast.Expr, rhs ast.Expr) {
		id, ok := aaUnparen(lhs).(*ast.Ident)
		if !ok {
			return
		}
		o := a.obj(id)
		if o == nil || aaPkgLevel(o) {
			return
		}
		seen[o] = true
		if rhs == nil {
			return
		}
		if !aaFreshExpr(rhs) && !a.ctorCall(rhs) {
			notFresh[o] = true
		}
	}
	ast.Inspect(f.decl.Body, func(n ast.Node) bool {
		switch x := n.(type) {
		case *ast.AssignStmt:
			if len(x.Lhs) == len(x.Rhs) {
				for i := range x.Lhs {
					note(x.Lhs[i], x.Rhs[i])
				}
			} else {
				for _, l := range x.Lhs {
					note(l, x.Rhs[0])
					if id, ok := aaUnparen(l).(*ast.Ident); ok {
						if o := a.obj(id); o != nil {
							notFresh[o] = true
						}
					}
				}
			}
		case *ast.ValueSpec:
			for i, n := range x.Names {
				if i < len(x.Values) {
					note(n, x.Values[i])
				} else {
					note(n, nil)
				}
			}
		case *ast.RangeStmt:
			for _, e := range []ast.Expr{x.Key, x.Value} {
				if id, ok := e.(*ast.Ident); ok {
					if o := a.obj(id); o != nil {
						seen[o], notFresh[o] = true, true
					}
				}
			}
		}
		return true
	})
	for o := range seen {
		if _, isParam := f.index[o]; isParam {
			continue
		}
		valueLike := false
		if t := o.Type(); t != nil {
			switch t.Underlying().(type) {
			case *types.Struct, *types.Array:
				valueLike = true
			}
		}
		f.storage[o] = valueLike || !notFresh[o]
	}
	// constructor: every return statement of the function itself returns a fresh object first
	ctor, any := true, false
	var lits []ast.Node
	ast.Inspect(f.decl.Body, func(n ast.Node) bool {
		if n == nil {
			return true
		}
		if _, ok := n.(*ast.FuncLit); ok {
			lits = append(lits, n)
			return false
		}
		if r, ok := n.(*ast.ReturnStmt); ok {
			any = true
			if len(r.Results) == 0 {
				ctor = false
				return true
			}
			e := aaUnparen(r.Results[0])
			if aaFreshExpr(e) {
				return true
			}
			if id, ok := e.(*ast.Ident); ok {
				if o := a.obj(id); o != nil && f.storage[o] {
					if _, isPtr := o.Type().Underlying().(*types.Pointer); isPtr {
						return true
					}
				}
			}
			ctor = false
		}
		return true
	})
	f.isCtor = ctor && any
}

// ctorCall: a call of an in-package function that was already found to be a constructor (prepare runs in name order;
// a later constructor is simply not recognised — conservative).
func (a *aaPkg) ctorCall(e ast.Expr) bool {
	call, ok := aaUnparen(e).(*ast.CallExpr)
	if !ok {
		return false
	}
	for _, g := range a.callees(call) {
		if !g.isCtor {
			return false
		}
		return true
	}
	return false
}

func (a *aaPkg) callees(call *ast.CallExpr) []*aaFunc {
	fun := aaUnparen(call.Fun)
	switch x := fun.(type) {
	case *ast.IndexExpr:
		fun = aaUnparen(x.X)
	case *ast.IndexListExpr:
		fun = aaUnparen(x.X)
	}
	var out []*aaFunc
	switch f := fun.(type) {
	case *ast.Ident:
		if fo, ok := a.p.info.Uses[f].(*types.Func); ok {
			if d := a.p.declOf[fo]; d != nil && a.funcs[d] != nil {
				out = append(out, a.funcs[d])
			}
		}
	case *ast.SelectorExpr:
		if sel, ok := a.p.info.Selections[f]; ok && sel.Kind() == types.MethodVal {
			if fo, ok := sel.Obj().(*types.Func); ok {
				if d := a.p.declOf[fo]; d != nil && a.funcs[d] != nil {
					out = append(out, a.funcs[d])
				} else if _, isIface := sel.Recv().Underlying().(*types.Interface); isIface {
					for _, d := range a.p.byName[f.Sel.Name] {
						if a.funcs[d] != nil {
							out = append(out, a.funcs[d])
						}
					}
				}
			}
		}
	}
	return out
}

// ---------------------------------------------------------------------------------------------------------------
// one function, one mode

type aaRun struct {
	a       *aaPkg
	f       *aaFunc
	mode    int // 0 self, 1 deep
	D, C    map[types.Object]uint64
	changed bool
	grew    bool // a summary flag of f was newly set
}

func (r *aaRun) set(mask uint64, flag int, why string) {
	for i := range r.f.params {
		if mask&(1<<uint(i)) == 0 {
			continue
		}
		s := &r.f.sum[i]
		if !s.flag[r.mode][flag] {
			s.flag[r.mode][flag] = true
			if len(why) > 220 {
				why = why[:220] + "…"
			}
			s.why[r.mode][flag] = why
			r.grew, r.changed = true, true
		}
	}
}

func (r *aaRun) taint(o types.Object, d, c uint64) {
	if o == nil {
		return
	}
	if r.D[o]|d != r.D[o] || r.C[o]|c != r.C[o] {
		r.D[o] |= d
		r.C[o] |= c
		r.changed = true
	}
}

func (r *aaRun) text(n ast.Node) string {
	s := r.a.p.src.text(n)
	s = strings.Join(strings.Fields(s), " ")
	if len(s) > 60 {
		s = s[:60] + "…"
	}
	return s
}

func (r *aaRun) eval(e ast.Expr) (d, c uint64) {
	a := r.a
	switch x := e.(type) {
	case nil:
	case *ast.Ident:
		o := a.obj(x)
		if o == nil || !a.refLikeExpr(e) {
			return
		}
		if i, ok := r.f.index[o]; ok {
			d |= 1 << uint(i)
		}
		d |= r.D[o]
		c |= r.C[o]
	case *ast.ParenExpr:
		return r.eval(x.X)
	case *ast.SelectorExpr:
		if id, ok := x.X.(*ast.Ident); ok {
			if _, isPkg := a.p.info.Uses[id].(*types.PkgName); isPkg {
				return
			}
		}
		d0, c0 := r.eval(x.X)
		if sel, ok := a.p.info.Selections[x]; ok && sel.Kind() == types.MethodVal {
			return 0, d0 | c0 // bound method value
		}
		if !a.refLikeExpr(e) {
			return
		}
		c = c0
		if r.mode == 1 {
			c |= d0
		}
	case *ast.IndexExpr:
		d0, c0 := r.eval(x.X)
		if !a.refLikeExpr(e) {
			return
		}
		c = c0
		if r.mode == 1 {
			c |= d0
		}
	case *ast.SliceExpr:
		return r.eval(x.X)
	case *ast.StarExpr:
		d0, c0 := r.eval(x.X)
		if d0 != 0 {
			r.set(d0, aaCopied, "*"+r.text(x.X))
		}
		if !a.refLikeExpr(e) {
			return
		}
		c = c0
		if r.mode == 1 {
			c |= d0
		}
	case *ast.UnaryExpr:
		if x.Op != token.AND {
			return
		}
		inner := aaUnparen(x.X)
		if _, isLit := inner.(*ast.CompositeLit); isLit {
			return r.eval(inner)
		}
		// a pointer to (a part of) a variable: whoever holds it reaches what the variable holds
		base := inner
		for {
			switch y := base.(type) {
			case *ast.SelectorExpr:
				base = aaUnparen(y.X)
				continue
			case *ast.IndexExpr:
				base = aaUnparen(y.X)
				continue
			}
			break
		}
		d0, c0 := r.eval(base)
		return 0, d0 | c0
	case *ast.TypeAssertExpr:
		return r.eval(x.X)
	case *ast.KeyValueExpr:
		return r.eval(x.Value)
	case *ast.CompositeLit:
		for _, el := range x.Elts {
			d0, c0 := r.eval(el)
			c |= d0 | c0
		}
	case *ast.FuncLit:
		c = r.free(x)
	case *ast.CallExpr:
		return r.call(x)
	}
	return
}

// free: what a function literal captures.
func (r *aaRun) free(fl *ast.FuncLit) uint64 {
	var m uint64
	ast.Inspect(fl.Body, func(n ast.Node) bool {
		if id, ok := n.(*ast.Ident); ok {
			if o := r.a.p.info.Uses[id]; o != nil {
				if _, isVar := o.(*types.Var); isVar && r.a.refLikeExpr(id) {
					if i, ok := r.f.index[o]; ok {
						m |= 1 << uint(i)
					}
					m |= r.D[o] | r.C[o]
				}
			}
		}
		return true
	})
	return m
}

func (r *aaRun) foreignName(fun ast.Expr) (name string, recv ast.Expr) {
	switch f := fun.(type) {
	case *ast.Ident:
		return f.Name, nil
	case *ast.SelectorExpr:
		if id, ok := f.X.(*ast.Ident); ok {
			if pn, ok := r.a.p.info.Uses[id].(*types.PkgName); ok {
				path := pn.Imported().Path()
				return path[strings.LastIndex(path, "/")+1:] + "." + f.Sel.Name, nil
			}
		}
		return "?." + f.Sel.Name, f.X
	}
	return "?", nil
}

func (r *aaRun) call(x *ast.CallExpr) (d, c uint64) {
	a := r.a
	fun := aaUnparen(x.Fun)
	switch y := fun.(type) {
	case *ast.IndexExpr:
		if tv, ok := a.p.info.Types[y.X]; ok && tv.Type != nil {
			if _, isSig := tv.Type.Underlying().(*types.Signature); isSig {
				fun = aaUnparen(y.X)
			}
		}
	case *ast.IndexListExpr:
		fun = aaUnparen(y.X)
	}
	// conversion
	if tv, ok := a.p.info.Types[fun]; ok && tv.IsType() {
		if len(x.Args) == 1 {
			if !a.refLikeExpr(x) {
				r.eval(x.Args[0])
				return 0, 0
			}
			return r.eval(x.Args[0])
		}
		return
	}
	// builtins
	if id, ok := fun.(*ast.Ident); ok {
		if _, isB := a.p.info.Uses[id].(*types.Builtin); isB || (a.p.info.Uses[id] == nil && a.p.info.Defs[id] == nil) {
			switch id.Name {
			case "append":
				if len(x.Args) == 0 {
					return
				}
				d, c = r.eval(x.Args[0])
				for i, arg := range x.Args[1:] {
					d0, c0 := r.eval(arg)
					if x.Ellipsis.IsValid() && i == len(x.Args)-2 {
						if d0 != 0 {
							r.set(d0, aaCopied, "append(…, "+r.text(arg)+"...)")
						}
						c |= c0
						if r.mode == 1 {
							c |= d0
						}
					} else {
						c |= d0 | c0
					}
				}
				return
			case "copy":
				if len(x.Args) == 2 {
					d0, c0 := r.eval(x.Args[1])
					if d0 != 0 {
						r.set(d0, aaCopied, "copy(…, "+r.text(x.Args[1])+")")
					}
					m := c0
					if r.mode == 1 {
						m |= d0
					}
					r.assign(x.Args[0], 0, m, "copy")
				}
				return
			default:
				for _, arg := range x.Args {
					r.eval(arg)
				}
				return
			}
		}
	}
	// in-package callees
	if gs := a.callees(x); len(gs) > 0 {
		var rc uint64
		for _, g := range gs {
			var args []ast.Expr
			if g.hasRecv {
				if sel, ok := fun.(*ast.SelectorExpr); ok {
					args = append(args, sel.X)
				} else {
					args = append(args, nil)
				}
			}
			args = append(args, x.Args...)
			for j, arg := range args {
				if arg == nil {
					continue
				}
				pj := j
				if pj >= len(g.params) {
					pj = len(g.params) - 1
				}
				if pj < 0 {
					continue
				}
				d0, c0 := r.eval(arg)
				apply := func(mask uint64, gm int) {
					if mask == 0 {
						return
					}
					for fl := 0; fl < aaNFlags; fl++ {
						if !g.sum[pj].flag[gm][fl] {
							continue
						}
						switch fl {
						case aaReturned:
							rc |= mask
						case aaCopied:
							if gm == 0 {
								r.set(mask, aaCopied, g.name+" > "+g.sum[pj].why[gm][fl])
							}
						default:
							r.set(mask, fl, g.name+" > "+g.sum[pj].why[gm][fl])
						}
					}
				}
				apply(d0, r.mode)
				apply(c0, 1)
			}
		}
		return 0, rc
	}
	// a function value (callback, option, handler) or a method of an interface that has no implementation in this
	// package (Logger …): user code, run synchronously
	isFuncValue := false
	switch f := fun.(type) {
	case *ast.Ident:
		_, isFuncValue = a.p.info.Uses[f].(*types.Var)
	case *ast.SelectorExpr:
		if sel, ok := a.p.info.Selections[f]; ok {
			if sel.Kind() == types.FieldVal {
				isFuncValue = true
			} else if _, isIface := sel.Recv().Underlying().(*types.Interface); isIface {
				isFuncValue = true
			}
		}
	case *ast.CallExpr, *ast.FuncLit, *ast.TypeAssertExpr:
		isFuncValue = true
	}
	if isFuncValue {
		for _, arg := range x.Args {
			r.eval(arg)
		}
		if fl, ok := fun.(*ast.FuncLit); ok {
			_ = fl // its body is walked as part of this function
		}
		return
	}
	// foreign
	name, recv := r.foreignName(fun)
	var t uint64
	if recv != nil {
		d0, c0 := r.eval(recv)
		t |= d0 | c0
	}
	var dAll uint64
	for _, arg := range x.Args {
		d0, c0 := r.eval(arg)
		t |= d0 | c0
		dAll |= d0
	}
	if t == 0 {
		return
	}
	switch {
	case aaForeignPure[name]:
		if dAll != 0 && strings.HasPrefix(name, "json.Marshal") {
			r.set(dAll, aaCopied, name)
		}
		return 0, 0
	case aaForeignHolds[name]:
		return 0, t
	}
	r.set(t, aaUnknown, "passed to "+name+" ("+r.text(x)+")")
	return 0, t
}

func (r *aaRun) assign(lhs ast.Expr, d, c uint64, what string) {
	if d|c == 0 {
		return
	}
	a := r.a
	lhs = aaUnparen(lhs)
	if id, ok := lhs.(*ast.Ident); ok {
		if id.Name == "_" {
			return
		}
		o := a.obj(id)
		if o == nil {
			return
		}
		if aaPkgLevel(o) {
			r.set(d|c, aaStored, "assigned to the package-level variable "+id.Name)
			return
		}
		r.taint(o, d, c)
		return
	}
	root := rcRootIdent(lhs)
	if root != nil {
		if o := a.obj(root); o != nil && !aaPkgLevel(o) {
			if _, isParam := r.f.index[o]; !isParam && r.f.storage[o] {
				r.taint(o, 0, d|c)
				return
			}
		}
	}
	r.set(d|c, aaStored, "stored into "+r.text(lhs))
}

func (r *aaRun) pass() {
	a := r.a
	var walk func(n ast.Node) bool
	walk = func(n ast.Node) bool {
		switch x := n.(type) {
		case *ast.AssignStmt:
			if len(x.Lhs) == len(x.Rhs) {
				for i := range x.Lhs {
					d, c := r.eval(x.Rhs[i])
					r.assign(x.Lhs[i], d, c, "=")
				}
			} else if len(x.Rhs) == 1 {
				d, c := r.eval(x.Rhs[0])
				for _, l := range x.Lhs {
					r.assign(l, d, c, "=")
				}
			}
		case *ast.ValueSpec:
			if len(x.Values) == len(x.Names) {
				for i, n := range x.Names {
					d, c := r.eval(x.Values[i])
					r.assign(n, d, c, "=")
				}
			} else if len(x.Values) == 1 {
				d, c := r.eval(x.Values[0])
				for _, n := range x.Names {
					r.assign(n, d, c, "=")
				}
			}
		case *ast.SendStmt:
			d, c := r.eval(x.Value)
			r.set(d|c, aaSent, "sent on "+r.text(x.Chan))
		case *ast.GoStmt:
			var m uint64
			if fl, ok := aaUnparen(x.Call.Fun).(*ast.FuncLit); ok {
				m |= r.free(fl)
			} else if sel, ok := aaUnparen(x.Call.Fun).(*ast.SelectorExpr); ok {
				d, c := r.eval(sel.X)
				m |= d | c
			}
			for _, arg := range x.Call.Args {
				d, c := r.eval(arg)
				m |= d | c
			}
			r.set(m, aaSent, "go "+r.text(x.Call.Fun))
		case *ast.ReturnStmt:
			for _, e := range x.Results {
				d, c := r.eval(e)
				r.set(d|c, aaReturned, "return "+r.text(e))
			}
		case *ast.RangeStmt:
			d, c := r.eval(x.X)
			if d != 0 {
				r.set(d, aaCopied, "range "+r.text(x.X))
			}
			m := c
			if r.mode == 1 {
				m |= d
			}
			for _, e := range []ast.Expr{x.Key, x.Value} {
				if id, ok := e.(*ast.Ident); ok && id.Name != "_" {
					if a.refLikeExpr(id) {
						r.taint(a.obj(id), 0, m)
					}
				} else if e != nil {
					r.assign(e, 0, m, "range")
				}
			}
		case *ast.TypeSwitchStmt:
			if as, ok := x.Assign.(*ast.AssignStmt); ok && len(as.Rhs) == 1 {
				if ta, ok := aaUnparen(as.Rhs[0]).(*ast.TypeAssertExpr); ok {
					d, c := r.eval(ta.X)
					for _, cl := range x.Body.List {
						if o := a.p.info.Implicits[cl]; o != nil {
							r.taint(o, d, c)
						}
					}
				}
			}
		case *ast.CallExpr:
			r.call(x)
		}
		return true
	}
	ast.Inspect(r.f.decl.Body, walk)
	for _, o := range r.f.named {
		if m := r.D[o] | r.C[o]; m != 0 {
			r.set(m, aaReturned, "named result "+o.Name())
		}
	}
}

func (a *aaPkg) solve() {
	for round := 0; round < 40; round++ {
		grew := false
		for _, f := range a.order {
			if len(f.params) == 0 || len(f.params) > 60 {
				continue
			}
			for mode := 0; mode < 2; mode++ {
				r := &aaRun{a: a, f: f, mode: mode, D: map[types.Object]uint64{}, C: map[types.Object]uint64{}}
				for it := 0; it < 12; it++ {
					r.changed = false
					r.pass()
					if !r.changed {
						break
					}
				}
				if r.grew {
					grew = true
				}
			}
		}
		if !grew {
			return
		}
	}
	fatal("ApiArgs: summaries did not converge")
}

// ---------------------------------------------------------------------------------------------------------------

type aaRow struct {
	API      string            `json:"api"`
	Param    string            `json:"param"`
	Type     string            `json:"type"`
	Stored   bool              `json:"stored"`
	Sent     bool              `json:"sent"`
	Returned bool              `json:"returned"`
	Unknown  bool              `json:"unknown"`
	Copied   bool              `json:"copied"`
	Verdict  string            `json:"verdict"`
	Why      map[string]string `json:"why"`
	File     string            `json:"file"`
	Line     int               `json:"line"`
}

func aaVerdict(r *aaRow) string {
	switch {
	case r.Unknown:
		return "unknown"
	case r.Sent:
		return "sentAsIs"
	case r.Stored:
		return "storedAsIs"
	case r.Returned:
		return "returnedAsIs"
	case r.Copied:
		return "copied"
	}
	return "readOnly"
}

// named map / slice types of other packages that appear in the API (the extractor's importer cannot see them)
var aaForeignRefTypes = map[string]bool{"openapi3.Schemas": true, "json.RawMessage": true, "http.Header": true, "url.Values": true, "openapi3.SchemaRefs": true}

func (a *aaPkg) refParam(e ast.Expr) bool {
	switch x := e.(type) {
	case *ast.SelectorExpr:
		return aaForeignRefTypes[a.p.src.text(x)]
	case *ast.StarExpr, *ast.MapType, *ast.Ellipsis:
		return true
	case *ast.ArrayType:
		return x.Len == nil
	case *ast.ParenExpr:
		return a.refParam(x.X)
	case *ast.Ident:
		if tn, ok := a.p.info.Uses[x].(*types.TypeName); ok && tn.Pkg() != nil {
			switch tn.Type().Underlying().(type) {
			case *types.Map, *types.Slice, *types.Pointer:
				return true
			}
		}
	}
	return false
}

func aaGenApiArgs(root *pkgSrc) {
	a := aaLoad(root)
	a.solve()
	var rows []aaRow
	for _, f := range a.order {
		fd := f.decl
		if !ast.IsExported(fd.Name.Name) {
			continue
		}
		if fd.Recv != nil {
			base := strings.SplitN(f.name, ".", 2)[0]
			if !ast.IsExported(base) && !a.ifaceM[fd.Name.Name] {
				continue
			}
		}
		idx := 0
		if f.hasRecv {
			idx = 1
		}
		for _, fld := range fd.Type.Params.List {
			n := len(fld.Names)
			if n == 0 {
				n = 1
			}
			for k := 0; k < n; k++ {
				pi := idx
				idx++
				if !a.refParam(fld.Type) || len(fld.Names) == 0 || fld.Names[k].Name == "_" {
					continue
				}
				s := f.sum[pi]
				row := aaRow{API: f.name, Param: fld.Names[k].Name, Type: strings.Join(strings.Fields(a.p.src.text(fld.Type)), " "),
					Stored: s.flag[0][aaStored], Sent: s.flag[0][aaSent], Returned: s.flag[0][aaReturned], Unknown: s.flag[0][aaUnknown], Copied: s.flag[0][aaCopied],
					Why: map[string]string{}, File: a.p.fileOf[fd], Line: a.p.src.fset.Position(fd.Pos()).Line}
				for fl := 0; fl < aaNFlags; fl++ {
					if s.flag[0][fl] {
						row.Why[aaFlagName[fl]] = s.why[0][fl]
					}
				}
				row.Verdict = aaVerdict(&row)
				rows = append(rows, row)
			}
		}
	}
	sort.SliceStable(rows, func(i, j int) bool {
		if rows[i].API != rows[j].API {
			return rows[i].API < rows[j].API
		}
		return rows[i].Param < rows[j].Param
	})

	var b strings.Builder
	b.WriteString(header)
	b.WriteString("import Mcp.Model.ApiArgs\nnamespace Mcp.Gen\nopen Mcp.ApiArgs\n\n")
	for i, r := range rows {
		var whys []string
		for _, k := range []string{"unknown", "sent", "stored", "returned", "copied"} {
			if w := r.Why[k]; w != "" {
				whys = append(whys, k+": "+strings.ReplaceAll(strings.ReplaceAll(w, "-/", "- /"), "\n", " "))
			}
		}
		fmt.Fprintf(&b, "/-- %s(%s %s): %s%s -/\ndef rcA%d : ApiArg :=\n  ⟨%s, %s, %s, %s, %s, %s, %s, %s⟩\n\n", r.API, r.Param, r.Type, r.Verdict,
			map[bool]string{true: " — " + strings.Join(whys, "; "), false: ""}[len(whys) > 0], i,
			leanText(r.API), leanText(r.Param), leanText(r.Type), leanBool(r.Stored), leanBool(r.Sent), leanBool(r.Returned), leanBool(r.Unknown), leanBool(r.Copied))
	}
	b.WriteString("/-- Every parameter of map / slice / pointer type of every exported function and method of package mcp (and of the\n    methods user code reaches through the package's exported interfaces): ⟨API, parameter, type, stored, sent, returned,\n    unknown, copied⟩ — where the parameter's own object can end up (see extract/races_apiargs.go). -/\n")
	b.WriteString("def rcApiArgs : List ApiArg :=\n")
	const chunk = 16
	if len(rows) == 0 {
		b.WriteString("  []\n")
	}
	for i := 0; i < len(rows); i += chunk {
		var names []string
		for j := i; j < i+chunk && j < len(rows); j++ {
			names = append(names, fmt.Sprintf("rcA%d", j))
		}
		op := "  "
		if i > 0 {
			op = "  ++ "
		}
		b.WriteString(op + "[" + strings.Join(names, ", ") + "]\n")
	}
	b.WriteString("\nend Mcp.Gen\n")
	writeIfChanged("ApiArgs.lean", b.String())

	if rows == nil {
		rows = []aaRow{}
	}
	jb, err := json.MarshalIndent(map[string]any{"args": rows}, "", " ")
	if err != nil {
		fatal("%v", err)
	}
	writeIfChanged("ApiArgs.sites.json", string(jb)+"\n")
}
