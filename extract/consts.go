package main

import (
	"fmt"
	"go/ast"
	"go/constant"
	"go/importer"
	"go/token"
	"go/types"
	"math/big"
	"path/filepath"
	"strconv"
	"strings"
)

// typeCheck type-checks one directory with the source importer (offline, GOROOT sources only for std imports).
func typeCheck(p *pkgSrc, path string) (*types.Info, *types.Package) {
	var files []*ast.File
	for _, n := range p.sortedFiles() {
		files = append(files, p.files[n])
	}
	info := &types.Info{Types: map[ast.Expr]types.TypeAndValue{}, Defs: map[*ast.Ident]types.Object{}, Uses: map[*ast.Ident]types.Object{}}
	conf := types.Config{Importer: importer.ForCompiler(p.fset, "source", nil), Error: func(error) {}}
	pkg, _ := conf.Check(path, p.fset, files, info)
	return info, pkg
}

func constOf(pkg *types.Package, name string) constant.Value {
	if pkg == nil {
		return nil
	}
	o := pkg.Scope().Lookup(name)
	c, ok := o.(*types.Const)
	if !ok {
		return nil
	}
	return c.Val()
}

func intLit(v constant.Value) string {
	if v == nil {
		return "0 /- unknown -/"
	}
	if v.Kind() == constant.Int {
		return v.ExactString()
	}
	if v.Kind() == constant.Float {
		// integral floats only (factor limits 1.0 / 10.0)
		f, _ := constant.Float64Val(v)
		r := new(big.Float).SetFloat64(f)
		if r.IsInt() {
			i, _ := r.Int(nil)
			return i.String()
		}
	}
	return "0 /- unknown -/"
}

func genConsts(root *pkgSrc) {
	rp := loadDir(filepath.Join(*repo, "internal", "retry"))
	info, pkg := typeCheck(rp, "retry")
	// status code list
	var codes []string
	for _, f := range rp.files {
		for _, d := range f.Decls {
			gd, ok := d.(*ast.GenDecl)
			if !ok || gd.Tok != token.VAR {
				continue
			}
			for _, s := range gd.Specs {
				vs := s.(*ast.ValueSpec)
				for i, n := range vs.Names {
					if n.Name != "retryableStatusCodes" || i >= len(vs.Values) {
						continue
					}
					cl, ok := vs.Values[i].(*ast.CompositeLit)
					if !ok {
						continue
					}
					for _, e := range cl.Elts {
						codes = append(codes, evalCodeString(info, e))
					}
				}
			}
		}
	}
	var cl []string
	for _, c := range codes {
		cl = append(cl, leanText(c))
	}
	// overflow behaviour of the wait computation in Execute: is the cap applied in the float domain
	// (before the float64 -> time.Duration conversion) or only afterwards?
	oz := true
	if fd, _ := rp.funcDecl("Execute"); fd != nil {
		src := rp.text(fd)
		if strings.Contains(src, "float64(config.MaxBackoff)") {
			oz = false
		}
	}
	nanClamped := false
	if fd, _ := rp.funcDecl("Config.Validate"); fd != nil {
		src := rp.text(fd)
		if strings.Contains(src, "IsNaN") || strings.Contains(src, "!(validated.BackoffFactor >=") {
			nanClamped = true
		}
	}
	var b strings.Builder
	b.WriteString(header)
	b.WriteString("import Mcp.Model.Retry\nnamespace Mcp.Gen\n")
	fmt.Fprintf(&b, "-- source hash internal/retry: %s\n", hashFiles(rp, rp.sortedFiles()...))
	fmt.Fprintf(&b, "def retryLimits : Mcp.Retry.Limits :=\n  { minRetries := %s, maxRetries := %s, minInitial := %s, maxInitial := %s,\n    minFactor := %s, maxFactor := %s, maxMaxBackoff := %s,\n    codes := [%s] }\n",
		intLit(constOf(pkg, "MinMaxRetries")), intLit(constOf(pkg, "MaxMaxRetries")),
		intLit(constOf(pkg, "MinInitialBackoff")), intLit(constOf(pkg, "MaxInitialBackoff")),
		intLit(constOf(pkg, "MinBackoffFactor")), intLit(constOf(pkg, "MaxBackoffFactor")),
		intLit(constOf(pkg, "MaxMaxBackoff")), strings.Join(cl, ", "))
	fmt.Fprintf(&b, "/-- `Execute` converts the uncapped float product to `time.Duration` before capping (overflow ⇒ zero wait). -/\ndef retryOverflowZero : Bool := %s\n", leanBool(oz))
	fmt.Fprintf(&b, "/-- `Validate` clamps a NaN factor. -/\ndef retryNanClamped : Bool := %s\n", leanBool(nanClamped))
	b.WriteString("end Mcp.Gen\n")
	writeIfChanged("Consts.lean", b.String())
}

func evalCodeString(info *types.Info, e ast.Expr) string {
	if tv, ok := info.Types[e]; ok && tv.Value != nil && tv.Value.Kind() == constant.String {
		return constant.StringVal(tv.Value)
	}
	if call, ok := e.(*ast.CallExpr); ok && len(call.Args) == 1 {
		if sel, ok := call.Fun.(*ast.SelectorExpr); ok && sel.Sel.Name == "Itoa" {
			if tv, ok := info.Types[call.Args[0]]; ok && tv.Value != nil {
				if v, ok := constant.Int64Val(tv.Value); ok {
					return strconv.FormatInt(v, 10)
				}
			}
		}
	}
	return "unknown"
}
