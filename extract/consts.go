package main

import (
	"fmt"
	"go/ast"
	"go/constant"
	"go/importer"
	"go/token"
	"go/types"
	"math/big"
	"path/filepath"
	"sort"
	"strconv"
	"strings"
)

// typeCheck type-checks one directory with the source importer (offline, GOROOT sources only for std imports).
func typeCheck(p *pkgSrc, path string) (*types.Info, *types.Package) {
	var files []*ast.File
	for _, n := range p.sortedFiles() {
		files = append(files, p.files[n])
	}
	info := &types.Info{Types: map[ast.Expr]types.TypeAndValue{}, Defs: map[*ast.Ident]types.Object{}, Uses: map[*ast.Ident]types.Object{}}
	conf := types.Config{Importer: importer.ForCompiler(p.fset, "source", nil), Error: func(error) {}}
	pkg, _ := conf.Check(path, p.fset, files, info)
	return info, pkg
}

func constOf(pkg *types.Package, name string) constant.Value {
	if pkg == nil {
		return nil
	}
	o := pkg.Scope().Lookup(name)
	c, ok := o.(*types.Const)
	if !ok {
		return nil
	}
	return c.Val()
}

func intLit(v constant.Value) string {
	if v == nil {
		return "0 /- unknown -/"
	}
	if v.Kind() == constant.Int {
		return v.ExactString()
	}
	if v.Kind() == constant.Float {
		// integral floats only (factor limits 1.0 / 10.0)
		f, _ := constant.Float64Val(v)
		r := new(big.Float).SetFloat64(f)
		if r.IsInt() {
			i, _ := r.Int(nil)
			return i.String()
		}
	}
	return "0 /- unknown -/"
}

func genConsts(root *pkgSrc) {
	rp := loadDir(filepath.Join(*repo, "internal", "retry"))
	info, pkg := typeCheck(rp, "retry")
	// status code list
	var codes []string
	for _, f := range rp.files {
		for _, d := range f.Decls {
			gd, ok := d.(*ast.GenDecl)
			if !ok || gd.Tok != token.VAR {
				continue
			}
			for _, s := range gd.Specs {
				vs := s.(*ast.ValueSpec)
				for i, n := range vs.Names {
					if n.Name != "retryableStatusCodes" || i >= len(vs.Values) {
						continue
					}
					cl, ok := vs.Values[i].(*ast.CompositeLit)
					if !ok {
						continue
					}
					for _, e := range cl.Elts {
						codes = append(codes, evalCodeString(info, e))
					}
				}
			}
		}
	}
	var cl []string
	for _, c := range codes {
		cl = append(cl, leanText(c))
	}
	nanClamped := false
	if fd, _ := rp.funcDecl("Config.Validate"); fd != nil {
		src := rp.text(fd)
		if strings.Contains(src, "IsNaN") || strings.Contains(src, "!(validated.BackoffFactor >=") {
			nanClamped = true
		}
	}
	// overflow behaviour of the wait computation in Execute: is the cap applied in the float domain
	// (before the float64 -> time.Duration conversion) or only afterwards?
	oz := true
	if fd, _ := rp.funcDecl("Execute"); fd != nil {
		src := rp.text(fd)
		if strings.Contains(src, "float64(config.MaxBackoff)") {
			oz = false
		}
	}
	var b strings.Builder
	b.WriteString(header)
	b.WriteString("import Mcp.Model.Retry\nnamespace Mcp.Gen\n")
	fmt.Fprintf(&b, "def retryLimits : Mcp.Retry.Limits :=\n  { minRetries := %s, maxRetries := %s, minInitial := %s, maxInitial := %s,\n    minFactor := %s, maxFactor := %s, maxMaxBackoff := %s,\n    codes := [%s],\n    nanClamped := %s }\n",
		intLit(constOf(pkg, "MinMaxRetries")), intLit(constOf(pkg, "MaxMaxRetries")),
		intLit(constOf(pkg, "MinInitialBackoff")), intLit(constOf(pkg, "MaxInitialBackoff")),
		intLit(constOf(pkg, "MinBackoffFactor")), intLit(constOf(pkg, "MaxBackoffFactor")),
		intLit(constOf(pkg, "MaxMaxBackoff")), strings.Join(cl, ", "), leanBool(nanClamped))
	fmt.Fprintf(&b, "/-- `Execute` converts the uncapped float product to `time.Duration` before capping (overflow ⇒ zero wait). -/\ndef retryOverflowZero : Bool := %s\n", leanBool(oz))
	b.WriteString("end Mcp.Gen\n")
	writeIfChanged("Consts.lean", b.String())
	var sb strings.Builder
	sb.WriteString(header)
	sb.WriteString("namespace Mcp.Gen\n")
	genSessionFacts(&sb)
	genHandleGetFacts(root, &sb)
	genSessionTableFacts(&sb)
	genSessionExpiryFacts(&sb)
	sb.WriteString("end Mcp.Gen\n")
	writeIfChanged("SessionFacts.lean", sb.String())
}

func evalCodeString(info *types.Info, e ast.Expr) string {
	if tv, ok := info.Types[e]; ok && tv.Value != nil && tv.Value.Kind() == constant.String {
		return constant.StringVal(tv.Value)
	}
	if call, ok := e.(*ast.CallExpr); ok && len(call.Args) == 1 {
		if sel, ok := call.Fun.(*ast.SelectorExpr); ok && sel.Sel.Name == "Itoa" {
			if tv, ok := info.Types[call.Args[0]]; ok && tv.Value != nil {
				if v, ok := constant.Int64Val(tv.Value); ok {
					return strconv.FormatInt(v, 10)
				}
			}
		}
	}
	return "unknown"
}

// genSessionFacts: how generateSessionID draws and renders an id.
func genSessionFacts(b *strings.Builder) {
	sp := loadDir(filepath.Join(*repo, "internal", "session"))
	nbytes := 0
	crypto := false
	hexEnc := false
	// the import must be crypto/rand (not math/rand)
	importsCrypto := false
	for _, f := range sp.files {
		for _, im := range f.Imports {
			if im.Path.Value == "\"crypto/rand\"" && (im.Name == nil || im.Name.Name == "rand") {
				importsCrypto = true
			}
			if im.Path.Value == "\"math/rand\"" || im.Path.Value == "\"math/rand/v2\"" {
				importsCrypto = false
			}
		}
	}
	if fd, _ := sp.funcDecl("generateSessionID"); fd != nil {
		var bufName string
		ast.Inspect(fd, func(n ast.Node) bool {
			switch x := n.(type) {
			case *ast.AssignStmt:
				// bytes := make([]byte, N)
				if len(x.Lhs) == 1 && len(x.Rhs) == 1 {
					if call, ok := x.Rhs[0].(*ast.CallExpr); ok {
						if id, ok := call.Fun.(*ast.Ident); ok && id.Name == "make" && len(call.Args) == 2 {
							if lit, ok := call.Args[1].(*ast.BasicLit); ok {
								if v, err := strconv.Atoi(lit.Value); err == nil {
									if l, ok := x.Lhs[0].(*ast.Ident); ok {
										bufName = l.Name
										nbytes = v
									}
								}
							}
						}
					}
				}
			case *ast.CallExpr:
				if sel, ok := x.Fun.(*ast.SelectorExpr); ok {
					if pk, ok := sel.X.(*ast.Ident); ok {
						if pk.Name == "rand" && sel.Sel.Name == "Read" && len(x.Args) == 1 {
							if a, ok := x.Args[0].(*ast.Ident); ok && a.Name == bufName && importsCrypto {
								crypto = true
							}
						}
						if pk.Name == "hex" && sel.Sel.Name == "EncodeToString" && len(x.Args) == 1 {
							if a, ok := x.Args[0].(*ast.Ident); ok && a.Name == bufName {
								hexEnc = true
							}
						}
					}
				}
			}
			return true
		})
		// the function must return the hex string directly
		if hexEnc {
			hexEnc = false
			for _, st := range fd.Body.List {
				if r, ok := st.(*ast.ReturnStmt); ok && len(r.Results) == 1 {
					if call, ok := r.Results[0].(*ast.CallExpr); ok {
						if sel, ok := call.Fun.(*ast.SelectorExpr); ok && sel.Sel.Name == "EncodeToString" {
							hexEnc = true
						}
					}
				}
			}
		}
	}
	// NewSession must use generateSessionID for the ID field
	usesGen := false
	if fd, _ := sp.funcDecl("NewSession"); fd != nil {
		usesGen = strings.Contains(sp.text(fd), "ID:           generateSessionID()") || strings.Contains(strings.Join(strings.Fields(sp.text(fd)), " "), "ID: generateSessionID()")
	}
	if !usesGen {
		nbytes = 0
	}
	fmt.Fprintf(b, "/-- `generateSessionID`: number of random bytes, their source, their rendering (0/false = not recognised). -/\ndef sessionIdBytes : Nat := %d\ndef sessionIdFromCryptoRand : Bool := %s\ndef sessionIdHexEncoded : Bool := %s\n", nbytes, leanBool(crypto), leanBool(hexEnc))
}

// genHandleGetFacts: structural facts about streamable_server.go handleGet.
func genHandleGetFacts(root *pkgSrc, b *strings.Builder) {
	guards := false
	if fd, _ := root.funcDecl("httpServerHandler.handleGet"); fd != nil {
		src := root.text(fd)
		use := strings.Index(src, "h.sessionManager.getSession")
		for _, g := range []string{"h.sessionManager == nil", "!h.enableSession"} {
			if i := strings.Index(src, g); i >= 0 && (use < 0 || i < use) {
				guards = true
			}
		}
	}
	fmt.Fprintf(b, "/-- `handleGet` checks for a disabled session manager before using it. -/\ndef handleGetGuardsNoSessions : Bool := %s\n", leanBool(guards))
}

// genSessionTableFacts: every method of internal/session.SessionManager that touches the session table `m.sessions`:
// how many times it acquires the manager's mutex (a check and the act it guards must share ONE critical section —
// two acquisitions make e.g. concurrent DELETEs of one id both succeed), and whether a writer holds it exclusively.
func genSessionTableFacts(b *strings.Builder) {
	sp := loadDir(filepath.Join(*repo, "internal", "session"))
	type row struct {
		fn     string
		locks  int
		writes bool
		excl   bool
	}
	var rows []row
	for _, file := range sp.sortedFiles() {
		for _, d := range sp.files[file].Decls {
			fd, ok := d.(*ast.FuncDecl)
			if !ok || fd.Body == nil || fd.Recv == nil {
				continue
			}
			src := sp.text(fd)
			if !strings.Contains(src, ".sessions") {
				continue
			}
			r := row{fn: funcName(fd)}
			ast.Inspect(fd.Body, func(n ast.Node) bool {
				switch x := n.(type) {
				case *ast.CallExpr:
					if sel, ok := x.Fun.(*ast.SelectorExpr); ok {
						recv := sp.text(sel.X)
						if strings.HasSuffix(recv, ".mu") && !strings.Contains(recv, "session.") {
							switch sel.Sel.Name {
							case "Lock":
								r.locks++
								r.excl = true
							case "RLock":
								r.locks++
							}
						}
					}
					if id, ok := x.Fun.(*ast.Ident); ok && id.Name == "delete" && len(x.Args) == 2 && strings.HasSuffix(sp.text(x.Args[0]), ".sessions") {
						r.writes = true
					}
				case *ast.AssignStmt:
					for _, l := range x.Lhs {
						if ix, ok := l.(*ast.IndexExpr); ok && strings.HasSuffix(sp.text(ix.X), ".sessions") {
							r.writes = true
						}
					}
				}
				return true
			})
			rows = append(rows, r)
		}
	}
	sort.Slice(rows, func(i, j int) bool { return rows[i].fn < rows[j].fn })
	b.WriteString("/-- methods touching the session table: (name, acquisitions of the manager mutex, writes the table, takes the exclusive lock) -/\ndef sessionTableOps : List (String × Nat × Bool × Bool) := [")
	for i, r := range rows {
		if i > 0 {
			b.WriteString(", ")
		}
		fmt.Fprintf(b, "(%s, %d, %s, %s)", leanStr(r.fn), r.locks, leanBool(r.writes), leanBool(r.excl))
	}
	b.WriteString("]\n")
}

// durationUnits: the time package's duration constants in nanoseconds.
var durationUnits = map[string]int64{"Nanosecond": 1, "Microsecond": 1e3, "Millisecond": 1e6, "Second": 1e9, "Minute": 6e10, "Hour": 36e11}

// genSessionExpiryFacts: how many nanoseconds of idle time the sweeper (`cleanupExpiredSessions`) grants per unit of the
// `expirySeconds` argument of NewSessionManager: the right-hand side of the sweeper's `now.Sub(LastActivity) > E` is
// evaluated symbolically as coefficient x expirySeconds (through `time.Duration(..)` conversions, products with `time.*`
// constants and integer literals, and through a manager field set in the constructor's literal). 0 = not understood.
func genSessionExpiryFacts(b *strings.Builder) {
	sp := loadDir(filepath.Join(*repo, "internal", "session"))
	ctor, _ := sp.funcDecl("NewSessionManager")
	param := ""
	fieldInit := map[string]ast.Expr{}
	if ctor != nil && ctor.Type.Params != nil && len(ctor.Type.Params.List) == 1 && len(ctor.Type.Params.List[0].Names) == 1 {
		param = ctor.Type.Params.List[0].Names[0].Name
		ast.Inspect(ctor.Body, func(n ast.Node) bool {
			switch x := n.(type) {
			case *ast.KeyValueExpr:
				if k, ok := x.Key.(*ast.Ident); ok {
					fieldInit[k.Name] = x.Value
				}
			case *ast.AssignStmt:
				for i, l := range x.Lhs {
					if sel, ok := l.(*ast.SelectorExpr); ok && i < len(x.Rhs) {
						fieldInit[sel.Sel.Name] = x.Rhs[i]
					}
				}
			}
			return true
		})
	}
	var coef func(e ast.Expr, depth int) int64 // coefficient of param; 0 = unknown
	var konst func(e ast.Expr) int64            // constant value; 0 = not a constant
	konst = func(e ast.Expr) int64 {
		switch x := e.(type) {
		case *ast.ParenExpr:
			return konst(x.X)
		case *ast.BasicLit:
			if v, err := strconv.ParseInt(x.Value, 0, 64); err == nil {
				return v
			}
		case *ast.SelectorExpr:
			if pk, ok := x.X.(*ast.Ident); ok && pk.Name == "time" {
				return durationUnits[x.Sel.Name]
			}
		case *ast.BinaryExpr:
			if x.Op == token.MUL {
				return konst(x.X) * konst(x.Y)
			}
		case *ast.CallExpr:
			if len(x.Args) == 1 && sp.text(x.Fun) == "time.Duration" {
				return konst(x.Args[0])
			}
		}
		return 0
	}
	coef = func(e ast.Expr, depth int) int64 {
		if depth > 6 {
			return 0
		}
		switch x := e.(type) {
		case *ast.ParenExpr:
			return coef(x.X, depth+1)
		case *ast.Ident:
			if x.Name == param && param != "" {
				return 1
			}
		case *ast.CallExpr:
			if len(x.Args) == 1 && (sp.text(x.Fun) == "time.Duration" || sp.text(x.Fun) == "int64" || sp.text(x.Fun) == "int") {
				return coef(x.Args[0], depth+1)
			}
		case *ast.BinaryExpr:
			if x.Op == token.MUL {
				if c := konst(x.Y); c != 0 {
					return coef(x.X, depth+1) * c
				}
				if c := konst(x.X); c != 0 {
					return coef(x.Y, depth+1) * c
				}
			}
		case *ast.SelectorExpr:
			if init, ok := fieldInit[x.Sel.Name]; ok {
				return coef(init, depth+1)
			}
		}
		return 0
	}
	var perUnit, tick int64
	comparisons := 0
	if fd, _ := sp.funcDecl("SessionManager.cleanupExpiredSessions"); fd != nil {
		ast.Inspect(fd.Body, func(n ast.Node) bool {
			switch x := n.(type) {
			case *ast.BinaryExpr:
				if (x.Op == token.GTR || x.Op == token.GEQ) && strings.Contains(sp.text(x.X), ".Sub(") && strings.Contains(sp.text(x.X), "LastActivity") {
					comparisons++
					perUnit = coef(x.Y, 0)
				}
			case *ast.CallExpr:
				if sp.text(x.Fun) == "time.NewTicker" && len(x.Args) == 1 {
					tick = konst(x.Args[0])
				}
			}
			return true
		})
	}
	if comparisons != 1 {
		perUnit = 0
	}
	fmt.Fprintf(b, "/-- the sweeper deletes a session idle for more than `sessionExpiryNsPerUnit` ns per unit of NewSessionManager's argument (documented: seconds); 0 = the comparison was not understood -/\ndef sessionExpiryNsPerUnit : Nat := %d\n/-- period of the sweeper's ticker in ns -/\ndef sessionSweepTickNs : Nat := %d\n", perUnit, tick)
}
