package main

// T-gen family "RegistryLocks" (property C12): every syntactic access to the registry fields of the three
// managers and to the notification-handler tables of the three servers, together with how the guarding
// sync.RWMutex is *lexically* held at that point.
//
// Walker: `X.mu.Lock()` / `RLock()` starts a critical section on "X.mu", `Unlock()` / `RUnlock()` ends it,
// `defer X.mu.Unlock()` keeps it to the end of the function.  Control flow is joined conservatively (a key is
// held after an if/switch/loop only if it is held, in the same mode and section, on every way out).  A function
// literal starts with nothing held (it may run later on another goroutine).  Anything not understood
// (labels, goto, an unresolved selector with a registry field's name) yields "none".
//
// Output lean/Mcp/Gen/RegistryLocks.lean: plain data (always compiles).

import (
	"fmt"
	"go/ast"
	"go/token"
	"go/types"
	"sort"
	"strings"
)

func init() { generators = append(generators, genRegistryLocks) }

// field -> guarding mutex, per tracked struct type.
var lockTracked = map[string]map[string]string{
	"toolManager":     {"tools": "mu", "toolsOrder": "mu"},
	"promptManager":   {"prompts": "mu", "promptsOrder": "mu"},
	"resourceManager": {"resources": "mu", "resourcesOrder": "mu", "templates": "mu", "subscribers": "subMu"},
	"Server":          {"notificationHandlers": "notificationMu"},
	"SSEServer":       {"notificationHandlers": "notificationMu"},
	"StdioServer":     {"notificationHandlers": "notificationMu"},
}

// struct types whose container-typed fields are discovered from the declaration (so that a new registry field
// shows up in `registryFields` and breaks the coverage obligation until it is looked at).
var lockDiscover = []string{"toolManager", "promptManager", "resourceManager"}

type lsAccess struct {
	typ, field, fn string
	acc            string // read | write | escape
	held           string // none | r | w
	sect           int
	init           bool
	ord            int
	mutex          string // cbcall: the mutex (possibly) held
}

type lsHold struct {
	mode string // r | w
	sect int
}

type lsState map[string]lsHold

func (s lsState) clone() lsState {
	c := lsState{}
	for k, v := range s {
		c[k] = v
	}
	return c
}

func lsMeet(a, b lsState) lsState {
	c := lsState{}
	for k, v := range a {
		if w, ok := b[k]; ok && w == v {
			c[k] = v
		}
	}
	return c
}

func lsEqual(a, b lsState) bool {
	if len(a) != len(b) {
		return false
	}
	for k, v := range a {
		if w, ok := b[k]; !ok || w != v {
			return false
		}
	}
	return true
}

type lsBreakCtx struct {
	breaks    []lsState
	continues []lsState
	isLoop    bool
}

type lsWalker struct {
	p       *pkgSrc
	info    *types.Info
	fn      string
	nsect   int
	out     []lsAccess
	ord     int
	unknown bool
	ctx     []*lsBreakCtx
	// may-hold pass (callback calls): control flow is joined by UNION (a key counts as held after a branch if it is
	// held on SOME way out), immediately invoked and deferred function literals inherit what is held.
	may      bool
	sawLock  bool // the function takes a guard mutex of a tracked type itself
	litDepth int  // inside a function literal: its returns are not ways out of the function
}

// join: must-hold pass = intersection (a key is held only if held on every way), may-hold pass = union.
func (w *lsWalker) join(a, b lsState) lsState {
	if !w.may {
		return lsMeet(a, b)
	}
	c := a.clone()
	for k, v := range b {
		if strings.HasPrefix(k, deferKey) {
			continue // "an unlock is deferred" must hold on BOTH ways
		}
		if o, ok := c[k]; !ok || (o.mode == "r" && v.mode == "w") {
			c[k] = v
		}
	}
	for k := range a {
		if strings.HasPrefix(k, deferKey) {
			if _, ok := b[k]; !ok {
				delete(c, k)
			}
		}
	}
	return c
}

// pseudo-key of the may-hold pass: "the unlock of <key> is deferred" (joined by intersection)
const deferKey = "defer:"

// recordExit (may-hold pass): a way out of the function (return statement, end of the body) together with the guard
// mutex that is possibly still held there and whose unlock is not deferred on every way to it — a leaked lock.
func (w *lsWalker) recordExit(st lsState, kind string, at ast.Node) {
	if !w.may || w.litDepth > 0 {
		return
	}
	leaked := lsState{}
	for k, v := range st {
		if strings.HasPrefix(k, deferKey) {
			continue
		}
		if _, deferred := st[deferKey+k]; !deferred {
			leaked[k] = v
		}
	}
	held, key := strongest(leaked)
	w.ord++
	line := 0
	if at != nil {
		line = w.p.line(at)
	}
	w.out = append(w.out, lsAccess{typ: kind, field: fmt.Sprint(line), fn: w.fn, acc: "exit", held: held, mutex: key, ord: w.ord})
}

// funcValueCall: is the callee of this call a function VALUE (variable, parameter, struct field, map / slice element,
// result of another call) rather than a declared function, method, builtin or conversion?  Returns the name of the
// callee's (named) type where known.
func (w *lsWalker) funcValueCall(fun ast.Expr) (bool, string) {
	typeName := func(e ast.Expr) string {
		if tv, ok := w.info.Types[e]; ok && tv.Type != nil {
			if n, ok := tv.Type.(*types.Named); ok {
				return n.Obj().Name()
			}
		}
		return ""
	}
	switch f := fun.(type) {
	case *ast.ParenExpr:
		return w.funcValueCall(f.X)
	case *ast.Ident:
		if _, isVar := w.info.Uses[f].(*types.Var); isVar {
			return true, typeName(f)
		}
		return false, ""
	case *ast.SelectorExpr:
		if sel, ok := w.info.Selections[f]; ok {
			if sel.Kind() == types.FieldVal {
				return true, typeName(f)
			}
			return false, ""
		}
		return false, "" // package-qualified function, or nothing we can resolve
	case *ast.IndexExpr:
		if id, ok := f.X.(*ast.Ident); ok {
			if _, isFunc := w.info.Uses[id].(*types.Func); isFunc {
				return false, "" // instantiation of a generic function
			}
		}
		if tv, ok := w.info.Types[f]; ok && tv.IsType() {
			return false, ""
		}
		return true, typeName(f)
	case *ast.CallExpr:
		if tv, ok := w.info.Types[f]; ok && tv.IsType() {
			return false, ""
		}
		return true, typeName(f)
	case *ast.TypeAssertExpr:
		return true, typeName(f)
	}
	return false, ""
}

// strongest says how any guard mutex of a tracked type is (possibly) held: none | r | w, and which one.
func strongest(st lsState) (string, string) {
	mode, key := "none", ""
	keys := make([]string, 0, len(st))
	for k := range st {
		keys = append(keys, k)
	}
	sort.Strings(keys)
	for _, k := range keys {
		if strings.HasPrefix(k, deferKey) {
			continue
		}
		if m := st[k].mode; mode == "none" || (mode == "r" && m == "w") {
			mode, key = m, k
		}
	}
	return mode, key
}

// namedOf returns the name of the (pointer to a) named struct type, "" otherwise.
func namedOf(t types.Type) string {
	if t == nil {
		return ""
	}
	if p, ok := t.Underlying().(*types.Pointer); ok {
		t = p.Elem()
	}
	if p, ok := t.(*types.Pointer); ok {
		t = p.Elem()
	}
	if n, ok := t.(*types.Named); ok {
		return n.Obj().Name()
	}
	return ""
}

// fieldSel classifies a selector: (owner type, field name, resolved?).
func (w *lsWalker) fieldSel(x *ast.SelectorExpr) (string, string, bool) {
	if sel, ok := w.info.Selections[x]; ok {
		if sel.Kind() != types.FieldVal {
			return "", "", true
		}
		return namedOf(sel.Recv()), sel.Obj().Name(), true
	}
	// package-qualified identifiers are not selections
	if id, ok := x.X.(*ast.Ident); ok {
		if _, isPkg := w.info.Uses[id].(*types.PkgName); isPkg {
			return "", "", true
		}
	}
	return "", x.Sel.Name, false
}

func isRegistryFieldName(name string) bool {
	for _, fs := range lockTracked {
		if _, ok := fs[name]; ok {
			return true
		}
	}
	return false
}

func (w *lsWalker) record(x *ast.SelectorExpr, st lsState, mode string) bool {
	typ, field, resolved := w.fieldSel(x)
	if !resolved {
		if isRegistryFieldName(field) {
			w.ord++
			w.out = append(w.out, lsAccess{typ: "unresolved", field: field, fn: w.fn, acc: mode, held: "none", ord: w.ord})
			return true
		}
		return false
	}
	fs, ok := lockTracked[typ]
	if !ok {
		return false
	}
	mu, ok := fs[field]
	if !ok {
		return false
	}
	a := lsAccess{typ: typ, field: field, fn: w.fn, acc: mode, held: "none"}
	if h, ok := st[w.p.text(x.X)+"."+mu]; ok && !w.unknown {
		a.held = h.mode
		a.sect = h.sect
	}
	w.ord++
	a.ord = w.ord
	w.out = append(w.out, a)
	return true
}

// lockCall recognises `<base>.<mutex>.<Lock|RLock|Unlock|RUnlock>()` on a guard mutex of a tracked type.
func (w *lsWalker) lockCall(e ast.Expr) (key, op string, ok bool) {
	call, isCall := e.(*ast.CallExpr)
	if !isCall || len(call.Args) != 0 {
		return
	}
	outer, isSel := call.Fun.(*ast.SelectorExpr)
	if !isSel {
		return
	}
	switch outer.Sel.Name {
	case "Lock", "RLock", "Unlock", "RUnlock":
	default:
		return
	}
	inner, isSel := outer.X.(*ast.SelectorExpr)
	if !isSel {
		return
	}
	typ, field, resolved := w.fieldSel(inner)
	if !resolved {
		return
	}
	fs, tracked := lockTracked[typ]
	if !tracked {
		return
	}
	isGuard := false
	for _, mu := range fs {
		if mu == field {
			isGuard = true
		}
	}
	if !isGuard {
		return
	}
	return w.p.text(inner.X) + "." + field, outer.Sel.Name, true
}

func (w *lsWalker) exprs(es []ast.Expr, st lsState, mode string) {
	for _, e := range es {
		w.expr(e, st, mode)
	}
}

// expr scans an expression; mode says what happens to its value: read | write | escape.
func (w *lsWalker) expr(e ast.Expr, st lsState, mode string) {
	switch x := e.(type) {
	case nil:
	case *ast.Ident, *ast.BasicLit:
	case *ast.SelectorExpr:
		if w.record(x, st, mode) {
			w.expr(x.X, st, "read")
			return
		}
		w.expr(x.X, st, "read")
	case *ast.IndexExpr:
		// an element: writing it writes the container; reading or copying it out reads the container;
		// taking its address (escape via &) hands out a pointer into the container.
		m := "read"
		if mode == "write" {
			m = "write"
		} else if mode == "addr" {
			m = "escape"
		}
		w.expr(x.X, st, m)
		w.expr(x.Index, st, "read")
	case *ast.SliceExpr:
		m := mode
		if mode == "addr" {
			m = "escape"
		}
		w.expr(x.X, st, m)
		w.expr(x.Low, st, "read")
		w.expr(x.High, st, "read")
		w.expr(x.Max, st, "read")
	case *ast.ParenExpr:
		w.expr(x.X, st, mode)
	case *ast.StarExpr:
		w.expr(x.X, st, mode)
	case *ast.UnaryExpr:
		if x.Op == token.AND {
			if _, isLit := x.X.(*ast.CompositeLit); isLit {
				w.expr(x.X, st, "read")
			} else {
				w.expr(x.X, st, "addr")
			}
			return
		}
		w.expr(x.X, st, "read")
	case *ast.BinaryExpr:
		w.expr(x.X, st, "read")
		w.expr(x.Y, st, "read")
	case *ast.TypeAssertExpr:
		w.expr(x.X, st, "read")
	case *ast.KeyValueExpr:
		w.expr(x.Key, st, "read")
		w.expr(x.Value, st, "escape")
	case *ast.CompositeLit:
		typ := ""
		if tv, ok := w.info.Types[x]; ok {
			typ = namedOf(tv.Type)
		}
		fs, trackedT := lockTracked[typ]
		for _, el := range x.Elts {
			if kv, ok := el.(*ast.KeyValueExpr); ok {
				if id, ok := kv.Key.(*ast.Ident); ok && trackedT {
					if _, isField := fs[id.Name]; isField {
						w.ord++
						w.out = append(w.out, lsAccess{typ: typ, field: id.Name, fn: w.fn, acc: "write", held: "none", init: true, ord: w.ord})
					}
					w.expr(kv.Value, st, "escape")
					continue
				}
				w.expr(kv.Key, st, "read")
				w.expr(kv.Value, st, "escape")
				continue
			}
			w.expr(el, st, "escape")
		}
	case *ast.FuncLit:
		// runs with nothing held (possibly later, on another goroutine)
		saved := w.ctx
		w.ctx = nil
		w.litDepth++
		w.block(x.Body.List, lsState{})
		w.litDepth--
		w.ctx = saved
	case *ast.CallExpr:
		if lit, ok := x.Fun.(*ast.FuncLit); ok && w.may {
			// func(){…}() and defer func(){…}(): runs here, with whatever is held
			saved := w.ctx
			w.ctx = nil
			w.litDepth++
			w.block(lit.Body.List, st)
			w.litDepth--
			w.ctx = saved
			w.exprs(x.Args, st, "escape")
			return
		}
		if isCb, tn := w.funcValueCall(x.Fun); isCb {
			held, key := strongest(st)
			w.ord++
			w.out = append(w.out, lsAccess{typ: tn, field: w.p.text(x.Fun), fn: w.fn, acc: "cbcall", held: held, mutex: key, ord: w.ord})
		}
		if id, ok := x.Fun.(*ast.Ident); ok {
			if _, isBuiltin := w.info.Uses[id].(*types.Builtin); isBuiltin || w.info.Uses[id] == nil {
				switch id.Name {
				case "len", "cap", "append", "make", "new", "min", "max", "panic", "print", "println", "clear", "close":
					m := "read"
					if id.Name == "clear" {
						m = "write"
					}
					w.exprs(x.Args, st, m)
					return
				case "delete":
					if len(x.Args) > 0 {
						w.expr(x.Args[0], st, "write")
						w.exprs(x.Args[1:], st, "read")
					}
					return
				case "copy":
					if len(x.Args) == 2 {
						w.expr(x.Args[0], st, "write")
						w.expr(x.Args[1], st, "read")
					}
					return
				}
			}
		}
		if sel, ok := x.Fun.(*ast.SelectorExpr); ok {
			if ms, ok := w.info.Selections[sel]; ok && ms.Kind() == types.MethodVal {
				if typ := namedOf(ms.Recv()); lockTracked[typ] != nil {
					// a call into another function of a tracked type: its critical sections add to this function's
					w.ord++
					w.out = append(w.out, lsAccess{typ: typ, field: typ + "." + ms.Obj().Name(), fn: w.fn, acc: "call", held: "none", ord: w.ord})
				}
			}
		}
		w.expr(x.Fun, st, "read")
		w.exprs(x.Args, st, "escape")
	default:
		// type expressions etc.: nothing to see; unknown expression kinds: scan generically as reads
		ast.Inspect(e, func(n ast.Node) bool {
			if n == e {
				return true
			}
			if sub, ok := n.(ast.Expr); ok {
				w.expr(sub, st, "escape")
				return false
			}
			return true
		})
	}
}

func (w *lsWalker) pushCtx(loop bool) *lsBreakCtx {
	c := &lsBreakCtx{isLoop: loop}
	w.ctx = append(w.ctx, c)
	return c
}
func (w *lsWalker) popCtx() { w.ctx = w.ctx[:len(w.ctx)-1] }

// block walks statements in order; returns the state at the end and whether the end is unreachable.
func (w *lsWalker) block(stmts []ast.Stmt, st lsState) (lsState, bool) {
	st = st.clone()
	for _, s := range stmts {
		var term bool
		st, term = w.stmt(s, st)
		if term {
			return st, true
		}
	}
	return st, false
}

func (w *lsWalker) stmt(s ast.Stmt, st lsState) (lsState, bool) {
	switch x := s.(type) {
	case nil:
	case *ast.ExprStmt:
		if key, op, ok := w.lockCall(x.X); ok {
			w.sawLock = true
			st = st.clone()
			switch op {
			case "Lock":
				w.nsect++
				st[key] = lsHold{"w", w.nsect}
			case "RLock":
				w.nsect++
				st[key] = lsHold{"r", w.nsect}
			default:
				delete(st, key)
			}
			return st, false
		}
		w.expr(x.X, st, "read")
		if call, ok := x.X.(*ast.CallExpr); ok {
			if id, ok := call.Fun.(*ast.Ident); ok && id.Name == "panic" {
				return st, true
			}
		}
	case *ast.DeferStmt:
		if key, op, ok := w.lockCall(x.Call); ok && (op == "Unlock" || op == "RUnlock") {
			if w.may {
				st = st.clone()
				st[deferKey+key] = lsHold{"d", 0}
			}
			return st, false // held to the end of the function
		}
		w.expr(x.Call, st, "read")
	case *ast.GoStmt:
		if lit, ok := x.Call.Fun.(*ast.FuncLit); ok {
			w.expr(lit, st, "read") // another goroutine: nothing held
			w.exprs(x.Call.Args, st, "escape")
		} else {
			w.expr(x.Call, st, "read")
		}
	case *ast.AssignStmt:
		w.exprs(x.Rhs, st, "escape")
		if x.Tok != token.DEFINE {
			w.exprs(x.Lhs, st, "write")
			if x.Tok != token.ASSIGN { // op=
				w.exprs(x.Lhs, st, "read")
			}
		}
	case *ast.IncDecStmt:
		w.expr(x.X, st, "write")
	case *ast.SendStmt:
		w.expr(x.Chan, st, "read")
		w.expr(x.Value, st, "escape")
	case *ast.ReturnStmt:
		w.exprs(x.Results, st, "escape")
		w.recordExit(st, "return", x)
		return st, true
	case *ast.BranchStmt:
		if x.Label != nil || x.Tok == token.GOTO || x.Tok == token.FALLTHROUGH {
			w.unknown = true
			return st, true
		}
		if x.Tok == token.BREAK {
			if n := len(w.ctx); n > 0 {
				w.ctx[n-1].breaks = append(w.ctx[n-1].breaks, st.clone())
			}
		} else { // continue: innermost loop
			for i := len(w.ctx) - 1; i >= 0; i-- {
				if w.ctx[i].isLoop {
					w.ctx[i].continues = append(w.ctx[i].continues, st.clone())
					break
				}
			}
		}
		return st, true
	case *ast.BlockStmt:
		return w.block(x.List, st)
	case *ast.LabeledStmt:
		w.unknown = true
		return w.stmt(x.Stmt, st)
	case *ast.DeclStmt:
		if gd, ok := x.Decl.(*ast.GenDecl); ok {
			for _, sp := range gd.Specs {
				if vs, ok := sp.(*ast.ValueSpec); ok {
					w.exprs(vs.Values, st, "escape")
				}
			}
		}
	case *ast.IfStmt:
		st, _ = w.stmt(x.Init, st)
		w.expr(x.Cond, st, "read")
		s1, t1 := w.block(x.Body.List, st)
		s2, t2 := st, false
		if x.Else != nil {
			s2, t2 = w.stmt(x.Else, st)
		}
		switch {
		case t1 && t2:
			return st, true
		case t1:
			return s2, false
		case t2:
			return s1, false
		default:
			return w.join(s1, s2), false
		}
	case *ast.ForStmt:
		st, _ = w.stmt(x.Init, st)
		return w.loop(st, func(entry lsState) (lsState, bool) {
			w.expr(x.Cond, entry, "read")
			e, t := w.block(x.Body.List, entry)
			if !t {
				e, _ = w.stmt(x.Post, e)
			}
			return e, t
		}), false
	case *ast.RangeStmt:
		w.expr(x.X, st, "read")
		if x.Tok == token.ASSIGN {
			w.expr(x.Key, st, "write")
			w.expr(x.Value, st, "write")
		}
		return w.loop(st, func(entry lsState) (lsState, bool) { return w.block(x.Body.List, entry) }), false
	case *ast.SwitchStmt:
		st, _ = w.stmt(x.Init, st)
		w.expr(x.Tag, st, "read")
		return w.clauses(x.Body.List, st), false
	case *ast.TypeSwitchStmt:
		st, _ = w.stmt(x.Init, st)
		st, _ = w.stmt(x.Assign, st)
		return w.clauses(x.Body.List, st), false
	case *ast.SelectStmt:
		return w.clauses(x.Body.List, st), false
	default:
		w.unknown = true
	}
	return st, false
}

// loop iterates the body to a fixed point of the entry state (the lattice has height ≤ number of keys).
func (w *lsWalker) loop(st lsState, body func(lsState) (lsState, bool)) lsState {
	entry := st.clone()
	for iter := 0; ; iter++ {
		mark, ord, nsect := len(w.out), w.ord, w.nsect
		c := w.pushCtx(true)
		end, term := body(entry)
		w.popCtx()
		next := entry
		if !term {
			next = w.join(next, end)
		}
		for _, cs := range c.continues {
			next = w.join(next, cs)
		}
		if lsEqual(next, entry) || iter > 8 {
			after := entry
			for _, bs := range c.breaks {
				after = w.join(after, bs)
			}
			if iter > 8 {
				w.unknown = true
			}
			return after
		}
		// redo with the weaker entry state; forget what the discarded pass recorded
		w.out, w.ord, w.nsect = w.out[:mark], ord, nsect
		entry = next
	}
}

func (w *lsWalker) clauses(list []ast.Stmt, st lsState) lsState {
	c := w.pushCtx(false)
	var ends []lsState
	hasDefault := false
	for _, cl := range list {
		var body []ast.Stmt
		entry := st
		switch y := cl.(type) {
		case *ast.CaseClause:
			if y.List == nil {
				hasDefault = true
			}
			w.exprs(y.List, st, "read")
			body = y.Body
		case *ast.CommClause:
			if y.Comm == nil {
				hasDefault = true
			} else {
				entry, _ = w.stmt(y.Comm, st)
			}
			body = y.Body
		}
		e, t := w.block(body, entry)
		if !t {
			ends = append(ends, e)
		}
	}
	w.popCtx()
	ends = append(ends, c.breaks...)
	if !hasDefault {
		ends = append(ends, st)
	}
	if len(ends) == 0 {
		return st // every way out terminates; whatever follows is unreachable
	}
	out := ends[0]
	for _, e := range ends[1:] {
		out = w.join(out, e)
	}
	return out
}

func genRegistryLocks(root *pkgSrc) {
	info := &types.Info{Types: map[ast.Expr]types.TypeAndValue{}, Uses: map[*ast.Ident]types.Object{},
		Defs: map[*ast.Ident]types.Object{}, Selections: map[*ast.SelectorExpr]*types.Selection{}}
	var files []*ast.File
	for _, n := range root.sortedFiles() {
		files = append(files, root.files[n])
	}
	conf := types.Config{Importer: lsImporter{}, Error: func(error) {}}
	conf.Check("mcp", root.fset, files, info)

	var all []lsAccess
	var cbs []lsCbCall
	var exits []lsExit
	for _, fname := range root.sortedFiles() {
		for _, d := range root.files[fname].Decls {
			fd, ok := d.(*ast.FuncDecl)
			if !ok || fd.Body == nil {
				continue
			}
			w := &lsWalker{p: root, info: info, fn: funcName(fd)}
			w.block(fd.Body.List, lsState{})
			if w.unknown {
				for i := range w.out {
					if !w.out[i].init {
						w.out[i].held, w.out[i].sect = "none", 0
					}
				}
			}
			for _, a := range w.out {
				if a.acc != "cbcall" && a.acc != "exit" {
					all = append(all, a)
				}
			}
			if w.sawLock {
				// second, may-hold pass over the functions that take a registry lock: calls through function values
				w2 := &lsWalker{p: root, info: info, fn: funcName(fd), may: true}
				if end, terminated := w2.block(fd.Body.List, lsState{}); !terminated {
					w2.recordExit(end, "end", nil)
				}
				nExit := 0
				for _, a := range w2.out {
					switch a.acc {
					case "cbcall":
						cbs = append(cbs, lsCbCall{fn: a.fn, callee: a.field, typ: a.typ, held: a.held, mutex: a.mutex, sure: !w2.unknown, ord: a.ord})
					case "exit":
						nExit++
						exits = append(exits, lsExit{fn: a.fn, idx: nExit, kind: a.typ, line: a.field, held: a.held, mutex: a.mutex, sure: !w2.unknown})
					}
				}
			}
		}
		// package-level variable initialisers
		for _, d := range root.files[fname].Decls {
			if gd, ok := d.(*ast.GenDecl); ok && gd.Tok == token.VAR {
				for _, sp := range gd.Specs {
					if vs, ok := sp.(*ast.ValueSpec); ok {
						w := &lsWalker{p: root, info: info, fn: "var " + vs.Names[0].Name}
						w.exprs(vs.Values, lsState{}, "escape")
						all = append(all, w.out...)
					}
				}
			}
		}
	}
	var calls []lsAccess
	{
		var acc []lsAccess
		for _, a := range all {
			if a.acc == "call" {
				calls = append(calls, a)
			} else {
				acc = append(acc, a)
			}
		}
		all = acc
	}
	fnFacts := lsFunctionFacts(all, calls)
	sort.SliceStable(all, func(i, j int) bool {
		a, b := all[i], all[j]
		if a.typ != b.typ {
			return a.typ < b.typ
		}
		if a.fn != b.fn {
			return a.fn < b.fn
		}
		return a.ord < b.ord
	})

	// container-typed fields of the manager structs (discovered from the declarations)
	var fields [][2]string
	for _, tn := range lockDiscover {
		for _, fname := range root.sortedFiles() {
			for _, d := range root.files[fname].Decls {
				gd, ok := d.(*ast.GenDecl)
				if !ok || gd.Tok != token.TYPE {
					continue
				}
				for _, sp := range gd.Specs {
					ts := sp.(*ast.TypeSpec)
					stt, ok := ts.Type.(*ast.StructType)
					if !ok || ts.Name.Name != tn {
						continue
					}
					for _, f := range stt.Fields.List {
						isContainer := false
						switch f.Type.(type) {
						case *ast.MapType, *ast.ArrayType:
							isContainer = true
						}
						if !isContainer {
							continue
						}
						for _, n := range f.Names {
							fields = append(fields, [2]string{tn, n.Name})
						}
					}
				}
			}
		}
	}
	for _, tn := range []string{"SSEServer", "Server", "StdioServer"} {
		for _, a := range all {
			if a.typ == tn && a.field == "notificationHandlers" {
				fields = append(fields, [2]string{tn, "notificationHandlers"})
				break
			}
		}
	}
	sort.Slice(fields, func(i, j int) bool {
		if fields[i][0] != fields[j][0] {
			return fields[i][0] < fields[j][0]
		}
		return fields[i][1] < fields[j][1]
	})

	var b strings.Builder
	b.WriteString(header)
	b.WriteString("import Mcp.Model.Registry\nnamespace Mcp.Gen\nopen Mcp.Registry\n\n")
	b.WriteString("/-- Every syntactic access to a registry field: ⟨owner type, field, function, access, lock held, critical section, init-phase⟩. -/\n")
	b.WriteString("def registryAccesses : List Access := [\n")
	for i, a := range all {
		sep := ","
		if i == len(all)-1 {
			sep = ""
		}
		fmt.Fprintf(&b, "  ⟨%s, %s, %s, .%s, .%s, %d, %s⟩%s  -- %s.%s in %s: %s, held %s%s\n",
			leanText(a.typ), leanText(a.field), leanText(a.fn), a.acc, a.held, a.sect, leanBool(a.init), sep,
			a.typ, a.field, a.fn, a.acc, a.held, map[bool]string{true: " (init)", false: ""}[a.init])
	}
	b.WriteString("]\n\n/-- Map- and slice-typed fields of the three managers, and the notification-handler tables seen. -/\n")
	b.WriteString("def registryFields : List (Mcp.Str.Text × Mcp.Str.Text) := [\n")
	for i, f := range fields {
		sep := ","
		if i == len(fields)-1 {
			sep = ""
		}
		fmt.Fprintf(&b, "  (%s, %s)%s  -- %s.%s\n", leanText(f[0]), leanText(f[1]), sep, f[0], f[1])
	}
	b.WriteString("]\n\n/-- Per function and guarding mutex: how many separate critical sections (its own and, transitively, those of the\n    functions of the tracked types it calls; an unlocked access counts as one) touch the fields under that mutex, and\n    whether any of them writes: ⟨owner type, mutex, function, sections, writes⟩. -/\n")
	b.WriteString("def registryFunctions : List FnFact := [\n")
	for i, f := range fnFacts {
		sep := ","
		if i == len(fnFacts)-1 {
			sep = ""
		}
		fmt.Fprintf(&b, "  ⟨%s, %s, %s, %d, %s⟩%s  -- %s.%s in %s: %d section(s)%s\n", leanText(f.typ), leanText(f.mutex), leanText(f.fn), f.sections, leanBool(f.writes), sep,
			f.typ, f.mutex, f.fn, f.sections, map[bool]string{true: ", writes", false: ""}[f.writes])
	}
	sort.SliceStable(cbs, func(i, j int) bool {
		if cbs[i].fn != cbs[j].fn {
			return cbs[i].fn < cbs[j].fn
		}
		return cbs[i].ord < cbs[j].ord
	})
	b.WriteString("]\n\n/-- Every call THROUGH A FUNCTION VALUE (variable, parameter, struct field, map element: the user's handlers, filters and\n    callbacks are such values) inside a function that takes a registry lock, with how a registry lock is POSSIBLY held at\n    that point (may-analysis: held on some path; deferred unlock = held to the end):\n    ⟨function, callee expression, callee type, lock possibly held, control flow understood⟩. -/\n")
	b.WriteString("def registryCallbackCalls : List CbCall := [\n")
	for i, c := range cbs {
		sep := ","
		if i == len(cbs)-1 {
			sep = ""
		}
		fmt.Fprintf(&b, "  ⟨%s, %s, %s, .%s, %s⟩%s  -- %s calls %s (%s), held %s %s\n", leanText(c.fn), leanText(c.callee), leanText(c.typ), c.held, leanBool(c.sure), sep,
			c.fn, strings.ReplaceAll(c.callee, "\n", " "), c.typ, c.held, c.mutex)
	}
	sort.SliceStable(exits, func(i, j int) bool {
		if exits[i].fn != exits[j].fn {
			return exits[i].fn < exits[j].fn
		}
		return exits[i].idx < exits[j].idx
	})
	b.WriteString("]\n\n/-- Every way out (return statement in source order, then the end of the body) of every function that takes a registry lock,\n    with the lock that is POSSIBLY STILL HELD there (taken on some path to it, not released on that path, and no unlock\n    deferred on every path to it): ⟨function, number of the exit, lock possibly left held, control flow understood⟩. -/\n")
	b.WriteString("def registryLockExits : List LockExit := [\n")
	for i, e := range exits {
		sep := ","
		if i == len(exits)-1 {
			sep = ""
		}
		fmt.Fprintf(&b, "  ⟨%s, %d, .%s, %s⟩%s  -- %s: %s (line %s), leaves %s %s\n", leanText(e.fn), e.idx, e.held, leanBool(e.sure), sep, e.fn, e.kind, e.line, e.held, e.mutex)
	}
	// the two halves of a registration: the append to the order slice and the store into the map
	b.WriteString("]\n\n/-- The register functions of the registries that keep an order slice: ⟨function, writes of the order slice, stores into\n    the map that follow the first of them, return statements between that first order write and the last map store (source\n    order, function literals not counted), shape understood⟩. A return between the two halves leaves a name in the order\n    slice that has no entry. -/\n")
	b.WriteString("def registryStorePairs : List StorePair := [\n")
	pairFns := []string{"promptManager.registerPrompt", "resourceManager.registerResource", "resourceManager.registerResources", "toolManager.registerTool"}
	for i, fn := range pairFns {
		sep := ","
		if i == len(pairFns)-1 {
			sep = ""
		}
		ow, ms, rb, sure := lsStorePair(root, fn)
		fmt.Fprintf(&b, "  ⟨%s, %d, %d, %d, %s⟩%s  -- %s: %d order write(s), %d map store(s) after, %d return(s) between\n", leanText(fn), ow, ms, rb, leanBool(sure), sep, fn, ow, ms, rb)
	}
	// entries are immutable once published: no assignment to a field of a registry entry (nor to the entry as a whole
	// through a pointer) anywhere; entries are built by composite literals only
	b.WriteString("]\n\n/-- Every assignment (plain, compound, increment or decrement) whose target is a field of a registry entry — `registeredTool`, `registeredPrompt`,\n    `registeredResource`, `registerResourceTemplate` — or a whole entry through a pointer: ⟨entry type, field (`*` = the whole\n    entry), function⟩. The request paths copy the entry pointer out under the read lock and use it after releasing it, so an\n    entry must never change once it is in a map. Whether the four entry types were found at all: `registryEntryTypesSeen`. -/\n")
	ew, seen := lsEntryWrites(root, info)
	b.WriteString("def registryEntryWrites : List EntryWrite := [\n")
	for i, e := range ew {
		sep := ","
		if i == len(ew)-1 {
			sep = ""
		}
		fmt.Fprintf(&b, "  ⟨%s, %s, %s⟩%s  -- %s.%s assigned in %s\n", leanText(e[0]), leanText(e[1]), leanText(e[2]), sep, e[0], e[1], e[2])
	}
	fmt.Fprintf(&b, "]\n\ndef registryEntryTypesSeen : Nat := %d\n\nend Mcp.Gen\n", seen)
	writeIfChanged("RegistryLocks.lean", b.String())
}

var lsEntryTypes = []string{"registeredTool", "registeredPrompt", "registeredResource", "registerResourceTemplate"}

// lsEntryWrites: assignments to fields of the registry entry types (or to `*p` with p a pointer to one), with the
// enclosing function; and how many of the entry types are declared as structs in the package.
func lsEntryWrites(root *pkgSrc, info *types.Info) (out [][3]string, typesSeen int) {
	isEntry := map[string]bool{}
	for _, t := range lsEntryTypes {
		isEntry[t] = true
	}
	entryOf := func(e ast.Expr) string {
		if tv, ok := info.Types[e]; ok {
			if n := namedOf(tv.Type); isEntry[n] {
				return n
			}
		}
		return ""
	}
	for _, fname := range root.sortedFiles() {
		for _, d := range root.files[fname].Decls {
			switch x := d.(type) {
			case *ast.GenDecl:
				for _, sp := range x.Specs {
					if ts, ok := sp.(*ast.TypeSpec); ok && isEntry[ts.Name.Name] {
						if _, ok := ts.Type.(*ast.StructType); ok {
							typesSeen++
						}
					}
				}
			case *ast.FuncDecl:
				if x.Body == nil {
					continue
				}
				fn := funcName(x)
				target := func(l ast.Expr) {
					for {
						if p, ok := l.(*ast.ParenExpr); ok {
							l = p.X
							continue
						}
						break
					}
					switch t := l.(type) {
					case *ast.SelectorExpr:
						if n := entryOf(t.X); n != "" {
							out = append(out, [3]string{n, t.Sel.Name, fn})
						}
					case *ast.StarExpr:
						if n := entryOf(t.X); n != "" {
							out = append(out, [3]string{n, "*", fn})
						}
					}
				}
				ast.Inspect(x.Body, func(n ast.Node) bool {
					switch a := n.(type) {
					case *ast.AssignStmt:
						if a.Tok != token.DEFINE {
							for _, l := range a.Lhs {
								target(l)
							}
						}
					case *ast.IncDecStmt:
						target(a.X)
					case *ast.UnaryExpr:
						// &entry.Field handed out: somebody else may write through it
						if a.Op == token.AND {
							if sel, ok := a.X.(*ast.SelectorExpr); ok {
								if n := entryOf(sel.X); n != "" {
									out = append(out, [3]string{n, "&" + sel.Sel.Name, fn})
								}
							}
						}
					}
					return true
				})
			}
		}
	}
	sort.Slice(out, func(i, j int) bool {
		for k := 0; k < 3; k++ {
			if out[i][k] != out[j][k] {
				return out[i][k] < out[j][k]
			}
		}
		return false
	})
	return out, typesSeen
}

// lsStorePair: in a register function, the assignments to the receiver's *Order field, the element stores into the
// receiver's map field (m.x[k] = …) positioned after the first order write, and the return statements between the first
// order write and the last such store.  Anything odd (no such function, an order write with no store after it, a loop or
// goto around them) = not understood.
func lsStorePair(root *pkgSrc, fn string) (orderWrites, mapStores, returnsBetween int, sure bool) {
	fd, _ := root.funcDecl(fn)
	if fd == nil || fd.Body == nil || fd.Recv == nil || len(fd.Recv.List) == 0 || len(fd.Recv.List[0].Names) == 0 {
		return 0, 0, 0, false
	}
	rv := fd.Recv.List[0].Names[0].Name
	recvField := func(e ast.Expr) string {
		if sel, ok := e.(*ast.SelectorExpr); ok {
			if id, ok := sel.X.(*ast.Ident); ok && id.Name == rv {
				return sel.Sel.Name
			}
		}
		return ""
	}
	var firstOrder, lastStore token.Pos
	var returns []token.Pos
	sure = true
	var visit func(n ast.Node) bool
	visit = func(n ast.Node) bool {
		switch x := n.(type) {
		case *ast.FuncLit:
			return false
		case *ast.ForStmt, *ast.RangeStmt, *ast.LabeledStmt:
			sure = false
		case *ast.BranchStmt:
			if x.Tok == token.GOTO {
				sure = false
			}
		case *ast.ReturnStmt:
			returns = append(returns, x.Pos())
		case *ast.AssignStmt:
			for _, l := range x.Lhs {
				if f := recvField(l); strings.HasSuffix(f, "Order") {
					orderWrites++
					if firstOrder == token.NoPos {
						firstOrder = x.Pos()
					}
				}
				if ix, ok := l.(*ast.IndexExpr); ok {
					if f := recvField(ix.X); f != "" && !strings.HasSuffix(f, "Order") && firstOrder != token.NoPos {
						mapStores++
						lastStore = x.Pos()
					}
				}
			}
		}
		return true
	}
	ast.Inspect(fd.Body, visit)
	if orderWrites == 0 || mapStores == 0 {
		return orderWrites, mapStores, 0, false
	}
	for _, r := range returns {
		if r > firstOrder && r < lastStore {
			returnsBetween++
		}
	}
	return orderWrites, mapStores, returnsBetween, sure
}

type lsExit struct {
	fn, kind, line, held, mutex string
	idx                         int
	sure                        bool
}

type lsCbCall struct {
	fn, callee, typ, held, mutex string
	sure                         bool
	ord                          int
}

type lsFnFact struct {
	typ, mutex, fn string
	sections       int
	writes         bool
}

// lsFunctionFacts sums, per function and (type, mutex), the critical sections of the function itself and of the
// functions of tracked types it calls (transitively; a cycle counts as "many").
func lsFunctionFacts(accs, calls []lsAccess) []lsFnFact {
	type key struct{ typ, mutex string }
	type sum struct {
		n      int
		writes bool
	}
	own := map[string]map[key]map[int]int{} // fn -> key -> section id -> count (section 0: every access separately)
	ownW := map[string]map[key]bool{}
	for _, a := range accs {
		if a.init {
			continue
		}
		mu, ok := lockTracked[a.typ][a.field]
		if !ok {
			mu = "?"
		}
		k := key{a.typ, mu}
		if own[a.fn] == nil {
			own[a.fn] = map[key]map[int]int{}
			ownW[a.fn] = map[key]bool{}
		}
		if own[a.fn][k] == nil {
			own[a.fn][k] = map[int]int{}
		}
		own[a.fn][k][a.sect]++
		if a.acc != "read" {
			ownW[a.fn][k] = true
		}
	}
	callees := map[string][]string{}
	for _, c := range calls {
		callees[c.fn] = append(callees[c.fn], c.field)
	}
	memo := map[string]map[key]sum{}
	visiting := map[string]bool{}
	var total func(fn string) map[key]sum
	total = func(fn string) map[key]sum {
		if r, ok := memo[fn]; ok {
			return r
		}
		r := map[key]sum{}
		if visiting[fn] {
			return r
		}
		visiting[fn] = true
		for k, secs := range own[fn] {
			n := 0
			for id, cnt := range secs {
				if id == 0 {
					n += cnt
				} else {
					n++
				}
			}
			r[k] = sum{n, ownW[fn][k]}
		}
		for _, c := range callees[fn] {
			for k, v := range total(c) {
				o := r[k]
				r[k] = sum{o.n + v.n, o.writes || v.writes}
			}
		}
		visiting[fn] = false
		memo[fn] = r
		return r
	}
	fns := map[string]bool{}
	for fn := range own {
		fns[fn] = true
	}
	for fn := range callees {
		fns[fn] = true
	}
	var out []lsFnFact
	for fn := range fns {
		for k, v := range total(fn) {
			if v.n > 0 {
				out = append(out, lsFnFact{k.typ, k.mutex, fn, v.n, v.writes})
			}
		}
	}
	sort.Slice(out, func(i, j int) bool {
		a, b := out[i], out[j]
		if a.typ != b.typ {
			return a.typ < b.typ
		}
		if a.fn != b.fn {
			return a.fn < b.fn
		}
		return a.mutex < b.mutex
	})
	return out
}

// lsImporter resolves nothing: the facts only need the package's own struct types; imported identifiers stay
// untyped (errors are ignored), which keeps the pass fast and independent of module download state.
type lsImporter struct{}

func (lsImporter) Import(path string) (*types.Package, error) {
	name := path
	if i := strings.LastIndex(path, "/"); i >= 0 {
		name = path[i+1:]
	}
	if strings.HasPrefix(name, "v") && len(name) <= 3 { // .../uritemplate/v3
		rest := path[:strings.LastIndex(path, "/")]
		name = rest[strings.LastIndex(rest, "/")+1:]
	}
	pkg := types.NewPackage(path, name)
	pkg.MarkComplete()
	return pkg, nil
}
