package main

import (
	"fmt"
	"go/ast"
	"go/token"
	"path/filepath"
	"sort"
	"strconv"
	"strings"
)

// Writers family (C09): for every library function that writes frames to a stream shared between goroutines:
// how many write calls make up one frame and whether one mutex is held around all of them.

type writerSpec struct {
	dir      string   // sub directory ("" = package root)
	fn       string   // Type.Method or Func
	patterns []string // textual prefixes of calls that write to the stream
	multi    []string // subset of patterns whose callee itself issues several writes (an SSE event)
}

var writerSpecs = []writerSpec{
	{"", "stdioTransport.writeResponse", []string{"writer.Write("}, nil},
	{"", "httpServerHandler.sendNotificationToGetSSE", []string{"conn.sseResponder.sendNotification("}, []string{"conn.sseResponder.sendNotification("}},
	{"", "httpServerHandler.SendRequest", []string{"conn.sseResponder.sendRequest("}, []string{"conn.sseResponder.sendRequest("}},
	{"", "sseStream.SendEvent", []string{"fmt.Fprint(s.writer", "fmt.Fprintf(s.writer"}, nil},
	{"", "sseStream.SendComment", []string{"fmt.Fprint(s.writer", "fmt.Fprintf(s.writer"}, nil},
	{"", "handleNotifications", []string{"fmt.Fprint(w", "fmt.Fprintf(w"}, nil},
	{"", "handleEventQueue", []string{"fmt.Fprint(w", "fmt.Fprintf(w"}, nil},
	{"", "handleKeepAlive", []string{"fmt.Fprint(w", "fmt.Fprintf(w"}, nil},
	{"", "stdioClientTransport.sendRequest", []string{"t.encoder.Encode("}, nil},
	{"", "stdioClientTransport.sendNotification", []string{"t.encoder.Encode("}, nil},
	{"", "stdioClientTransport.sendResponse", []string{"t.encoder.Encode("}, nil},
	{"", "stdioClientTransport.sendErrorResponse", []string{"t.encoder.Encode("}, nil},
}

type writerFact struct {
	fn       string
	writes   int
	multi    bool
	locked   bool // every write call happens while one and the same mutex is held
	lockName string
}

func analyseWriter(p *pkgSrc, spec writerSpec) writerFact {
	f := writerFact{fn: spec.fn}
	fd, _ := p.funcDecl(spec.fn)
	if fd == nil || fd.Body == nil {
		f.writes = 99 // unknown => non-compliant
		return f
	}
	var lockAtWrite []string
	// block-aware walk: lock state is tracked per statement list; a branch that ends in return/continue/break/panic
	// does not leak its Unlock into the code after the branch
	var walkStmts func(list []ast.Stmt, held map[string]bool) map[string]bool
	copyHeld := func(h map[string]bool) map[string]bool {
		c := map[string]bool{}
		for k, v := range h {
			c[k] = v
		}
		return c
	}
	terminates := func(list []ast.Stmt) bool {
		if len(list) == 0 {
			return false
		}
		switch x := list[len(list)-1].(type) {
		case *ast.ReturnStmt:
			return true
		case *ast.BranchStmt:
			return true
		case *ast.ExprStmt:
			if c, ok := x.X.(*ast.CallExpr); ok {
				if id, ok := c.Fun.(*ast.Ident); ok && id.Name == "panic" {
					return true
				}
			}
		}
		return false
	}
	var visitExpr func(n ast.Node, held map[string]bool, deferred bool)
	visitExpr = func(n ast.Node, held map[string]bool, deferred bool) {
		ast.Inspect(n, func(m ast.Node) bool {
			switch x := m.(type) {
			case *ast.FuncLit:
				return false // a nested closure runs at another time
			case *ast.CallExpr:
				txt := p.text(x)
				if sel, ok := x.Fun.(*ast.SelectorExpr); ok {
					recv := p.text(sel.X)
					switch sel.Sel.Name {
					case "Lock", "RLock":
						held[recv] = true
					case "Unlock", "RUnlock":
						if !deferred {
							delete(held, recv)
						}
					}
				}
				for _, pat := range spec.patterns {
					if strings.HasPrefix(txt, pat) {
						f.writes++
						for _, mm := range spec.multi {
							if mm == pat {
								f.multi = true
							}
						}
						var hs []string
						for h := range held {
							hs = append(hs, h)
						}
						sort.Strings(hs)
						lockAtWrite = append(lockAtWrite, strings.Join(hs, "+"))
						break
					}
				}
			}
			return true
		})
	}
	walkStmts = func(list []ast.Stmt, held map[string]bool) map[string]bool {
		for _, st := range list {
			switch x := st.(type) {
			case *ast.DeferStmt:
				visitExpr(x.Call, held, true)
			case *ast.BlockStmt:
				held = walkStmts(x.List, held)
			case *ast.IfStmt:
				if x.Init != nil {
					held = walkStmts([]ast.Stmt{x.Init}, held)
				}
				visitExpr(x.Cond, held, false)
				hb := walkStmts(x.Body.List, copyHeld(held))
				var he map[string]bool
				if x.Else != nil {
					he = walkStmts([]ast.Stmt{x.Else}, copyHeld(held))
				}
				switch {
				case terminates(x.Body.List) && x.Else == nil:
					// fallthrough state = state before the branch
				case x.Else == nil:
					// intersection of "branch taken" and "not taken"
					for k := range held {
						if !hb[k] {
							delete(held, k)
						}
					}
				default:
					for k := range held {
						if !hb[k] || !he[k] {
							delete(held, k)
						}
					}
				}
			case *ast.ForStmt:
				walkStmts(x.Body.List, copyHeld(held))
			case *ast.RangeStmt:
				walkStmts(x.Body.List, copyHeld(held))
			case *ast.SelectStmt:
				for _, cc := range x.Body.List {
					if c, ok := cc.(*ast.CommClause); ok {
						walkStmts(c.Body, copyHeld(held))
					}
				}
			case *ast.SwitchStmt:
				for _, cc := range x.Body.List {
					if c, ok := cc.(*ast.CaseClause); ok {
						walkStmts(c.Body, copyHeld(held))
					}
				}
			case *ast.TypeSwitchStmt:
				for _, cc := range x.Body.List {
					if c, ok := cc.(*ast.CaseClause); ok {
						walkStmts(c.Body, copyHeld(held))
					}
				}
			default:
				visitExpr(st, held, false)
			}
		}
		return held
	}
	walkStmts(fd.Body.List, map[string]bool{})
	if f.writes == 0 {
		f.writes = 99 // the writer changed shape: not recognised => non-compliant
		return f
	}
	f.locked = true
	for _, l := range lockAtWrite {
		if l == "" || l != lockAtWrite[0] {
			f.locked = false
		}
	}
	if f.locked {
		f.lockName = lockAtWrite[0]
	}
	return f
}

func genWriters(root *pkgSrc) {
	var facts []writerFact
	for _, spec := range writerSpecs {
		p := root
		if spec.dir != "" {
			p = loadDir(filepath.Join(*repo, spec.dir))
		}
		facts = append(facts, analyseWriter(p, spec))
	}
	// WriteEvent itself: is the event still written with several calls?
	sp := loadDir(filepath.Join(*repo, "internal", "sseutil"))
	we := analyseWriter(sp, writerSpec{"", "Writer.WriteEvent", []string{"fmt.Fprintf(w", "fmt.Fprint(w"}, nil})
	var b strings.Builder
	b.WriteString(header)
	b.WriteString("namespace Mcp.Gen\n")
	b.WriteString("structure Writer where\n  fn : String\n  writes : Nat      -- write calls per frame in this function (99 = not recognised)\n  multi : Bool      -- a callee writes the frame with several calls (SSE event via WriteEvent)\n  locked : Bool     -- one mutex is held around every write call of the frame\n  lock : String\n  deriving Repr, DecidableEq\n")
	b.WriteString("def Writer.framed (w : Writer) : Bool := w.locked || (w.writes == 1 && !w.multi)\n")
	b.WriteString("def writers : List Writer := [\n")
	for i, f := range facts {
		sep := ","
		if i == len(facts)-1 {
			sep = ""
		}
		fmt.Fprintf(&b, "  ⟨%s, %d, %s, %s, %s⟩%s\n", leanStr(f.fn), f.writes, leanBool(f.multi), leanBool(f.locked), leanStr(f.lockName), sep)
	}
	b.WriteString("]\n")
	var names []string
	for _, s := range writerSpecs {
		names = append(names, leanStr(s.fn))
	}
	fmt.Fprintf(&b, "def expectedWriters : List String := [%s]\n", strings.Join(names, ", "))
	fmt.Fprintf(&b, "/-- `sseutil.Writer.WriteEvent`: number of write calls in its body (an SSE event is several chunks). -/\ndef writeEventCalls : Nat := %d\n", we.writes)
	// does the stdio server write the frame with two calls?
	two := false
	for _, f := range facts {
		if f.fn == "stdioTransport.writeResponse" && f.writes >= 2 {
			two = true
		}
	}
	fmt.Fprintf(&b, "def stdioTwoWrites : Bool := %s\n", leanBool(two))
	// stdioTransport.writeResponse: the write calls that EVERY execution reaches — statements of the function body itself
	// (an `if _, err := writer.Write(…); err != nil {…}` counts: its Init is unconditional) — and whether one of them
	// writes the frame terminator. A terminator written inside a loop or under a condition (`if len(data) > 0`) is lost
	// for some message lengths, and two frames merge.
	uncond, nl := 0, false
	if fd, _ := root.funcDecl("stdioTransport.writeResponse"); fd != nil && fd.Body != nil {
		check := func(e ast.Expr) {
			call, ok := e.(*ast.CallExpr)
			if !ok {
				return
			}
			txt := rpcSquash(root.text(call))
			if strings.HasPrefix(txt, "writer.Write(") {
				uncond++
				if strings.Contains(txt, `"\n"`) || strings.Contains(txt, `'\n'`) {
					nl = true
				}
			}
		}
		for _, st := range fd.Body.List {
			switch x := st.(type) {
			case *ast.ExprStmt:
				check(x.X)
			case *ast.AssignStmt:
				for _, r := range x.Rhs {
					check(r)
				}
			case *ast.IfStmt:
				if as, ok := x.Init.(*ast.AssignStmt); ok {
					for _, r := range as.Rhs {
						check(r)
					}
				}
			}
		}
	}
	fmt.Fprintf(&b, "/-- `stdioTransport.writeResponse`: write calls every execution reaches (statements of the body itself) -/\ndef stdioUnconditionalWrites : Nat := %d\n", uncond)
	fmt.Fprintf(&b, "/-- …and one of them writes the LF that ends the frame -/\ndef stdioTerminatorUnconditional : Bool := %s\n", leanBool(nl))
	// every function of the package that writes an event on a GET stream's connection (conn.sseResponder.send…):
	// all of them must be in the writer table above
	var sites []string
	for _, file := range root.sortedFiles() {
		for _, d := range root.files[file].Decls {
			fd, ok := d.(*ast.FuncDecl)
			if !ok || fd.Body == nil {
				continue
			}
			found := false
			ast.Inspect(fd.Body, func(n ast.Node) bool {
				if c, ok := n.(*ast.CallExpr); ok {
					t := root.text(c.Fun)
					if strings.HasSuffix(t, ".sseResponder.sendNotification") || strings.HasSuffix(t, ".sseResponder.sendRequest") || strings.HasSuffix(t, ".sseResponder.sendSSEMessage") {
						found = true
					}
				}
				return true
			})
			if found {
				sites = append(sites, leanStr(funcName(fd)))
			}
		}
	}
	sort.Strings(sites)
	fmt.Fprintf(&b, "/-- functions that write an event through a GET connection's responder -/\ndef getStreamWriteSites : List String := [%s]\n", strings.Join(sites, ", "))
	// the legacy server's keep-alive: the string literals handed to fmt.Fprint(w, …) / fmt.Fprintf(w, …) in
	// handleKeepAlive, as byte lists (the model's `LegacyItem.keepalive` frame must be exactly this)
	var ka []string
	if fd, _ := root.funcDecl("handleKeepAlive"); fd != nil && fd.Body != nil {
		ast.Inspect(fd.Body, func(n ast.Node) bool {
			c, ok := n.(*ast.CallExpr)
			if !ok {
				return true
			}
			t := root.text(c.Fun)
			if (t == "fmt.Fprint" || t == "fmt.Fprintf" || t == "io.WriteString") && len(c.Args) >= 2 && root.text(c.Args[0]) == "w" {
				for _, a := range c.Args[1:] {
					if lit, ok := a.(*ast.BasicLit); ok && lit.Kind == token.STRING {
						if v, err := strconv.Unquote(lit.Value); err == nil {
							var bs []string
							for _, ch := range []byte(v) {
								bs = append(bs, strconv.Itoa(int(ch)))
							}
							ka = append(ka, "["+strings.Join(bs, ", ")+"]")
						} else {
							ka = append(ka, "[0]")
						}
					} else {
						ka = append(ka, "[0]") // not a literal: the frame is no longer a constant
					}
				}
			}
			return true
		})
	}
	fmt.Fprintf(&b, "/-- `handleKeepAlive`: the bytes of what it writes on the legacy SSE stream (one entry per argument) -/\ndef keepAliveFrames : List (List Nat) := [%s]\n", strings.Join(ka, ", "))
	b.WriteString("end Mcp.Gen\n")
	writeIfChanged("Writers.lean", b.String())
}

func init() { generators = append(generators, genWriters) }
