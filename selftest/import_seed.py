#!/usr/bin/env python3
"""import_seed.py <src-dir> <name e.g. C04-1> : copies patch.diff / demo_test.go / meta.json into /verif/seeded/<name>/
and records what the lead ran to confirm it (selftest/confirm_seed.sh output) — run confirm_seed.sh first."""
import sys, os, json, shutil, subprocess
src, name = sys.argv[1], sys.argv[2]
dst = os.path.join("/verif/seeded", name)
os.makedirs(dst, exist_ok=True)
for f in ("patch.diff", "demo_test.go"):
    shutil.copyfile(os.path.join(src, f), os.path.join(dst, f))
meta = json.load(open(os.path.join(src, "meta.json")))
conf = subprocess.run(["/verif/selftest/confirm_seed.sh", dst if False else src], stdout=subprocess.PIPE, stderr=subprocess.STDOUT, text=True).stdout
meta["confirmed_by_lead"] = {"cmd": "selftest/confirm_seed.sh <dir>", "output": conf.strip().split("\n")}
meta["author"] = "independent sub-agent given only the property text and a scratch worktree"
json.dump(meta, open(os.path.join(dst, "meta.json"), "w"), indent=1)
print(name, conf.strip().replace("\n", " | "))
