#!/bin/sh
# Confirm a seeded change: selftest/confirm_seed.sh <seed-dir> [demo-subdir]
#  <seed-dir> holds patch.diff, demo_test.go, meta.json. Checks in a scratch copy of /repo (removed afterwards):
#  demo passes without the patch; with the patch: compiles, the existing suite passes, the demo fails.
set -u
D=$(readlink -f "$1"); SUB=${2:-$(python3 -c "import json,sys; print(json.load(open('$D/meta.json')).get('demo_dir','.') or '.')" 2>/dev/null || echo .)}
case "$SUB" in *root*|"") SUB=.;; esac
W=$(mktemp -d /tmp/confirm.XXXXXX); trap 'rm -rf "$W"' EXIT
rsync -a --exclude .git /repo/ "$W/r/"
export GOFLAGS=-mod=mod GOPROXY=off GOSUMDB=off GOTOOLCHAIN=local
# data-race demonstrations need the race detector
RACE=""; grep -q '"property": *"C20"' "$D/meta.json" 2>/dev/null && RACE="-race"
cd "$W/r" && git init -q . >/dev/null 2>&1
[ -d "$SUB" ] || SUB=.
cp "$D/demo_test.go" "$W/r/$SUB/zz_seed_demo_test.go"
PKG=./$SUB
# run only the demonstration's own tests
RUN="^($(grep -oE "^func (Test[A-Za-z0-9_]+)" "$D/demo_test.go" | sed "s/^func //" | paste -sd"|"))\$"
if go test $RACE -vet=off -count=1 -run "$RUN" "$PKG" >"$W/base.log" 2>&1; then echo "demo without patch: PASS"; else echo "demo without patch: FAIL (unexpected)"; tail -5 "$W/base.log"; fi
rm "$W/r/$SUB/zz_seed_demo_test.go"
git apply --whitespace=nowarn "$D/patch.diff" 2>/dev/null || patch -p1 -F3 -s --no-backup-if-mismatch < "$D/patch.diff" || { echo "patch does not apply"; exit 3; }
go build ./... || { echo "patched tree does not compile"; exit 4; }
if go test -vet=off -count=1 ./... >"$W/suite.log" 2>&1; then echo "existing suite with patch: PASS"; else echo "existing suite with patch: FAIL"; grep -E "^(FAIL|---)" "$W/suite.log" | head; fi
cp "$D/demo_test.go" "$W/r/$SUB/zz_seed_demo_test.go"
if go test $RACE -vet=off -count=1 -run "$RUN" "$PKG" >"$W/demo.log" 2>&1; then echo "demo with patch: PASS (unexpected)"; else echo "demo with patch: FAIL (as intended)"; fi
