#!/bin/sh
# Unchanged-tree sweep: every claimed check in the given tier for several seeds. Prints one line per run.
#   selftest/sweep.sh thorough "1 2 3"
cd "$(dirname "$0")/.."
[ -x extract/bin/extract ] || ./setup.sh >/dev/null 2>&1
tier=${1:-thorough}
for seed in ${2:-1 2 3}; do
  for id in $(grep -v "^#" checklib/ready.txt); do
    VERIF_SEED=$seed ./check $id --tier $tier 2>&1 | grep -E "^(VIOLATION|$id )" | sed "s/^/seed=$seed /" | cut -c1-240
  done
done
