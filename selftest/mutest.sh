#!/bin/sh
# Run checks against a patched copy of /repo without touching /repo or /verif:
#   selftest/mutest.sh <patch.diff> <Cxx> [<Cyy> ...]      (env MUTEST_TIER=quick|thorough)
# Copies /repo's working tree and /verif (incl. Lean build output) to a scratch dir, applies the patch,
# runs ./check there with VERIF_REPO pointing at the patched copy, prints the outcome, removes the scratch dir.
set -u
PATCH=$(readlink -f "$1"); shift
W=$(mktemp -d /tmp/mutest.XXXXXX)
trap 'rm -rf "$W"' EXIT
mkdir -p "$W/repo" "$W/verif"
rsync -a --exclude .git "${MUTEST_REPO_SRC:-/repo}/" "$W/repo/"
rsync -a --exclude .git --exclude .work --exclude replays --exclude evidence /verif/ "$W/verif/"
# the seeds were cut against earlier commits of /repo: fall back to patch(1) with fuzz when the context has moved
( cd "$W/repo" && git init -q . >/dev/null 2>&1 && { git apply --whitespace=nowarn "$PATCH" 2>/dev/null || patch -p1 -F3 -s --no-backup-if-mismatch < "$PATCH"; } ) || { echo "MUTEST: patch does not apply"; exit 3; }
export GOFLAGS=-mod=mod GOPROXY=off GOSUMDB=off GOTOOLCHAIN=local
# every scratch copy has its own path, so the build cache grows by ~0.2 GB per run: keep it below 25 GB
( flock -n 9 || exit 0; sz=$(du -sm "${GOCACHE:-$HOME/.cache/go-build}" 2>/dev/null | cut -f1); [ "${sz:-0}" -gt 25000 ] && go clean -cache >/dev/null 2>&1 ) 9>/tmp/.mutest-gocache.lock
( cd "$W/repo" && go build ./... ) || { echo "MUTEST: patched tree does not compile"; exit 4; }
rc=0
for id in "$@"; do
  out=$(cd "$W/verif" && VERIF_REPO="$W/repo" ./check "$id" --tier "${MUTEST_TIER:-quick}" 2>&1)
  r=$?
  echo "$out" | grep -E "^(VIOLATION|KNOWN-FINDING|C[0-9]+ )" | sed "s|$W|<scratch>|g"
  if echo "$out" | grep -q "^VIOLATION"; then
    for f in "$W"/verif/replays/$id-*.json; do [ -f "$f" ] && python3 -c "
import json,sys
r=json.load(open('$f')); print('  replay:', r.get('kind'), r.get('fingerprint',''), str(r.get('what',''))[:160], 'ties:', r.get('theorem_or_tie'))"; done
    echo "MUTEST $id: DETECTED (exit $r)"
  else
    echo "MUTEST $id: MISSED (exit $r)"; rc=1
  fi
done
exit $rc
