#!/bin/sh
# Runs every claimed check (quick by default) on /repo and prints the summary lines.  selftest/runall.sh [tier]
cd /verif
for id in $(grep -v "^#" checklib/ready.txt); do
  ./check $id --tier ${1:-quick} 2>&1 | grep -E "^(VIOLATION|$id )" | cut -c1-220
done
