#!/bin/sh
# Runs every claimed check (quick by default) on /repo and prints the summary lines.  selftest/runall.sh [tier]
cd /verif
for f in checklib/props.d/*.json; do
  id=$(basename $f .json)
  ./check $id --tier ${1:-quick} 2>&1 | grep -E "^(VIOLATION|$id )" | cut -c1-220
done
