#!/bin/sh
# wave.sh "C02 C04 ..." "4 5 6"
cd /verif
for c in $1; do (for k in $2; do echo "== $c-$k"; selftest/mutest.sh seeded/$c-$k/patch.diff $c 2>&1 | grep -v "^KNOWN" | tail -8 | cut -c1-330; done > /tmp/lt/b6b_$c.log 2>&1) & done; wait; echo finished
