#!/bin/sh
# Runs every seeded change under /verif/seeded/<Cxx-k>/ through mutest.sh against its property's check and tabulates.
#   selftest/run_seeds.sh [name-prefix]      results -> selftest/seed_results.txt   (env SEEDS_PARALLEL, default 6)
cd /verif
out=selftest/seed_results.txt
tmp=$(mktemp -d /tmp/runseeds.XXXXXX)
ls -d seeded/${1:-}*/ | xargs -P ${SEEDS_PARALLEL:-6} -I{} sh -c '
  d={}; n=$(basename $d); id=${n%%-*}
  r=$(selftest/mutest.sh $d/patch.diff $id 2>&1 | grep -v "^KNOWN" | tail -10)
  verdict=$(echo "$r" | grep "^MUTEST" | tail -1)
  how=$(echo "$r" | grep "replay:" | head -2 | sed "s/^ *replay: //" | cut -c1-160 | tr "\n" ";")
  echo "$n | $verdict | $how" > '$tmp'/$n'
# merge: lines of the seeds just run replace their old lines, every other line of the file is kept
python3 - "$out" "$tmp" <<'PY'
import sys, os, re
out, tmp = sys.argv[1], sys.argv[2]
lines = {}
if os.path.exists(out):
    for l in open(out):
        if " | " in l:
            lines[l.split(" | ")[0].strip()] = l.rstrip("\n")
for n in os.listdir(tmp):
    l = open(os.path.join(tmp, n)).read().strip()
    if l:
        lines[n] = l
def key(n):
    m = re.match(r"C(\d+)-(\d+)", n)
    return (int(m.group(1)), int(m.group(2))) if m else (999, 0)
open(out, "w").write("\n".join(lines[k] for k in sorted(lines, key=key)) + "\n")
PY
rm -rf $tmp
grep -c DETECTED $out; grep -v DETECTED $out
