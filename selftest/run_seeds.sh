#!/bin/sh
# Runs every seeded change under /verif/seeded/<Cxx-k>/ through mutest.sh against its property's check and tabulates.
#   selftest/run_seeds.sh [name-prefix]      results -> selftest/seed_results.txt
cd /verif
out=selftest/seed_results.txt
: > $out.tmp
for d in seeded/${1:-}*/; do
  n=$(basename $d); id=${n%%-*}
  r=$(selftest/mutest.sh $d/patch.diff $id 2>&1 | tail -8)
  verdict=$(echo "$r" | grep "^MUTEST" | tail -1)
  how=$(echo "$r" | grep "replay:" | head -2 | sed 's/^ *replay: //' | cut -c1-160 | tr '\n' ';')
  echo "$n | $verdict | $how" | tee -a $out.tmp
done
mv $out.tmp $out
