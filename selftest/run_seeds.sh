#!/bin/sh
# Runs every seeded change under /verif/seeded/<Cxx-k>/ through mutest.sh against its property's check and tabulates.
#   selftest/run_seeds.sh [name-prefix]      results -> selftest/seed_results.txt   (env SEEDS_PARALLEL, default 6)
cd /verif
out=selftest/seed_results.txt
tmp=$(mktemp -d /tmp/runseeds.XXXXXX)
ls -d seeded/${1:-}*/ | xargs -P ${SEEDS_PARALLEL:-6} -I{} sh -c '
  d={}; n=$(basename $d); id=${n%%-*}
  r=$(selftest/mutest.sh $d/patch.diff $id 2>&1 | grep -v "^KNOWN" | tail -10)
  verdict=$(echo "$r" | grep "^MUTEST" | tail -1)
  how=$(echo "$r" | grep "replay:" | head -2 | sed "s/^ *replay: //" | cut -c1-160 | tr "\n" ";")
  echo "$n | $verdict | $how" > '$tmp'/$n'
cat $tmp/* | sort -V > $out
rm -rf $tmp
grep -c DETECTED $out; grep -v DETECTED $out
