#!/bin/sh
# usage: selftest/c01-mutations/run-with-baseline.sh <patch.diff or /dev/null> C01 [C05]
# like /verif/selftest/mutest.sh, but the six baseline findings (D01/D13/D14) are registered as open known findings in the
# SCRATCH copy of /verif, so that only what the mutation adds shows up as VIOLATION.
set -u
PATCH=$(readlink -f "$1"); shift
W=$(mktemp -d /tmp/pdmutest.XXXXXX)
trap 'rm -rf "$W"' EXIT
mkdir -p "$W/repo" "$W/verif"
rsync -a --exclude .git /repo/ "$W/repo/"
rsync -a --exclude .git --exclude .work --exclude replays --exclude evidence /verif/ "$W/verif/"
python3 - "$W/verif/known_findings.json" <<'PY'
import json,sys
p=sys.argv[1]; d=json.load(open(p))
for prop,fp in [("C01","pending:answer-lost-from-1e6:legacy"),("C01","pending:answer-lost-from-1e6:stream-sse"),("C05","routing:answer-lost-from-1e6:streamable"),
                ("C05","routing:foreign-answer-accepted:legacy-sse"),("C05","routing:foreign-answer-accepted:streamable"),("C05","routing:legacy-sse:notification-refused-after-handshake")]:
    d["findings"].append({"property":prop,"status":"open","fingerprint":fp,"what":"baseline "+fp})
json.dump(d,open(p,"w"),indent=1)
PY
if [ "$PATCH" != "/dev/null" ]; then
( cd "$W/repo" && git init -q . >/dev/null 2>&1 && git apply --whitespace=nowarn "$PATCH" ) || { echo "MUTEST: patch does not apply"; exit 3; }
fi
export GOFLAGS=-mod=mod GOPROXY=off GOSUMDB=off GOTOOLCHAIN=local
( cd "$W/repo" && go build ./... ) || { echo "MUTEST: patched tree does not compile"; exit 4; }
rc=0
for id in "$@"; do
  out=$(cd "$W/verif" && VERIF_REPO="$W/repo" ./check "$id" --tier "${MUTEST_TIER:-quick}" 2>&1)
  r=$?
  echo "$out" | grep -E "^(VIOLATION|C[0-9]+ )" | sed "s|$W|<scratch>|g"
  echo "$out" | grep -c "^KNOWN-FINDING" | sed 's/^/  known findings seen: /'
  if echo "$out" | grep -q "^VIOLATION"; then
    for f in "$W"/verif/replays/$id-*.json; do [ -f "$f" ] && python3 -c "
import json,sys
r=json.load(open('$f')); print('  replay:', r.get('kind'), r.get('fingerprint',''), str(r.get('what',''))[:200], 'ties:', str(r.get('theorem_or_tie'))[:300])
if r.get('problems'): print('   problems:', json.dumps(r['problems'])[:700])"; done
    echo "MUTEST $id: DETECTED (exit $r)"
  else
    echo "MUTEST $id: MISSED (exit $r)"; rc=1
  fi
done
exit $rc
