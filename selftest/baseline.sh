#!/bin/sh
# Runs /repo's pinned test suite (guard off) and compares the passing tests with /root/.vp/BASELINE.json's stable_pass.
export GOFLAGS=-mod=mod GOPROXY=off GOSUMDB=off GOTOOLCHAIN=local
cd /repo && go test -json -vet=off -count=1 -timeout 25m ./... > /tmp/baseline.$$.json 2>/dev/null
python3 - /tmp/baseline.$$.json <<'PY'
import json,sys
want=set(json.load(open('/root/.vp/BASELINE.json'))['stable_pass'])
got=set(); fail=set()
for l in open(sys.argv[1]):
    try: e=json.loads(l)
    except Exception: continue
    if e.get('Test') and e.get('Action') in('pass','fail'):
        (got if e['Action']=='pass' else fail).add(e['Package']+'::'+e['Test'])
print('baseline tests',len(want),'passing now',len(want&got),'missing',sorted(want-got)[:10],'failing',sorted(fail)[:10])
sys.exit(0 if want<=got and not fail else 1)
PY
rc=$?; rm -f /tmp/baseline.$$.json; exit $rc
