import Mcp.Drv.Util
import Mcp.Model.Schema
import Mcp.Model.SchemaTags
import Mcp.Model.SchemaRegistry
namespace Mcp.Drv.Schema
open Lean Mcp.Drv Mcp.Str
open Mcp.Schema hiding Json

/-! JSON line protocol of component `schema` (harness/cmd/schema). -/

partial def typeOfJson (j : Json) : Except String GoType := do
  let k ← getStr j "k"
  match k with
  | "str" => pure .str
  | "int" => pure (.int (← getNat j "w"))
  | "float" => pure (.float (← getNat j "w"))
  | "bool" => pure .bool
  | "bytes" => pure .bytes
  | "time" => pure .time
  | "iface" => pure .iface
  | "ptr" => pure (.ptr (← typeOfJson (← j.getObjVal? "e")))
  | "slice" => pure (.slice (← typeOfJson (← j.getObjVal? "e")))
  | "array" => pure (.array (← getNat j "n") (← typeOfJson (← j.getObjVal? "e")))
  | "map" => pure (.map (← typeOfJson (← j.getObjVal? "e")))
  | "named" => pure (.named (← getText j "name"))
  | "struct" =>
    let fs ← match getOpt j "f" with
      | none => pure []
      | some a => do (← a.getArr?).toList.mapM fieldOfJson
    pure (.struct fs)
  | _ => throw s!"unknown type kind {k}"
where
  fieldOfJson (f : Json) : Except String (FieldMeta × GoType) := do
    let m : FieldMeta := ⟨← getText f "go", ← getText f "tag", ← getText f "js", ← getBool f "emb"⟩
    pure (m, ← typeOfJson (← f.getObjVal? "t"))

def fieldsOfJson (a : Json) : Except String Fields := do
  (← a.getArr?).toList.mapM typeOfJson.fieldOfJson

def envOfJson (j : Json) : Except String Env :=
  match getOpt j "env" with
  | none => pure []
  | some a => do
    (← a.getArr?).toList.mapM (fun e => do
      let fs ← match getOpt e "f" with
        | none => pure []
        | some fa => fieldsOfJson fa
      pure (← getText e "n", fs))

partial def mjsonOfJson : Json → Mcp.Schema.Json
  | .null => .null
  | .bool b => .bool b
  | .num n => .num n.mantissa n.exponent
  | .str s => .str (ofString s)
  | .arr a => .arr (a.toList.map mjsonOfJson)
  | .obj kvs => .obj (kvs.toList.map (fun (k, v) => (ofString k, mjsonOfJson v)))

partial def jsonOfMjson : Mcp.Schema.Json → Json
  | .null => .null
  | .bool b => .bool b
  | .num m e => .num ⟨m, e⟩
  | .str s => .str (Mcp.Str.toString s)
  | .arr xs => .arr (xs.map jsonOfMjson).toArray
  | .obj kvs => Json.mkObj (kvs.map (fun (k, v) => (Mcp.Str.toString k, jsonOfMjson v)))

partial def valOfJson (j : Json) : Except String GoVal := do
  if let some x := getOpt j "s" then return .str (← textOfJson x)
  if let some x := getOpt j "i" then return .int (← x.getInt?)
  if let some x := getOpt j "fm" then return .float (← x.getInt?) (← getNat j "fe")
  if let some x := getOpt j "b" then return .bool (← x.getBool?)
  if let some x := getOpt j "bytes" then return .bytes (← textOfJson x)
  if let some x := getOpt j "time" then return .time (← textOfJson x)
  if let .ok x := j.getObjVal? "iface" then return .iface (mjsonOfJson x)
  if let some _ := getOpt j "nil" then return .nil
  if let some x := getOpt j "ptr" then return .ptr (← valOfJson x)
  if let some x := getOpt j "list" then return .list (← (← x.getArr?).toList.mapM valOfJson)
  if let some x := getOpt j "struct" then return .struct (← (← x.getArr?).toList.mapM valOfJson)
  if let some x := getOpt j "map" then
    return .map (← (← x.getArr?).toList.mapM (fun kv => do
      let a ← kv.getArr?
      match a.toList with
      | [k, v] => pure (← textOfJson k, ← valOfJson v)
      | _ => throw "map entry"))
  throw s!"unknown value {j.compress}"

def tyName : Ty → String
  | .string => "string" | .integer => "integer" | .number => "number"
  | .boolean => "boolean" | .object => "object" | .null => "null"

/-- the JSON kin-openapi prints for the schema (empty `properties` / `required` are omitted there). -/
partial def jsonOfSch : Sch → Json
  | .any => Json.mkObj []
  | .prim t => Json.mkObj [("type", tyName t)]
  | .arr it => Json.mkObj [("type", "array"), ("items", jsonOfSch it)]
  | .mapOf v => Json.mkObj [("type", "object"), ("additionalProperties", jsonOfSch v)]
  | .obj props req closed =>
    Json.mkObj ([("type", Json.str "object")]
      ++ (if props.isEmpty then [] else [("properties", Json.mkObj (props.map (fun (k, s) => (Mcp.Str.toString k, jsonOfSch s))))])
      ++ (if req.isEmpty then [] else [("required", Json.arr (req.map (fun r => Json.str (Mcp.Str.toString r))).toArray)])
      ++ (if closed then [("additionalProperties", Lean.Json.bool false)] else []))
  | .ref typed tgt => Json.mkObj ([("$ref", Json.str (Mcp.Str.toString tgt))] ++ (if typed then [("type", Json.str "object")] else []))
  | .anyOf alts => Json.mkObj [("anyOf", Json.arr (alts.map jsonOfSch).toArray)]

def jsonOfDoc (d : Doc) : Json :=
  let root := jsonOfSch d.root
  if d.defs.isEmpty then root
  else root.setObjVal! "$defs" (Json.mkObj (d.defs.map (fun (k, s) => (Mcp.Str.toString k, jsonOfSch s))))

def docFor (style : String) (env : Env) (T : GoType) : Except String Doc :=
  match style with
  | "inline" =>
    -- with named struct types: the stateful transcription; without: the pure one the theorems are about
    -- (cross-checked here against the stateful one)
    let d := genInlineEnvDoc env T
    if hasNamed T then pure d
    else
      let p := genInlineDoc T
      if (jsonOfSch p.root).compress == (jsonOfSch d.root).compress then pure p
      else throw "pure and stateful inline generators disagree"
  | "nested" => pure (genNestedDoc env T)
  | "defs" => pure (genDefsDoc env T)
  | _ => throw s!"unknown style {style}"

def jsonOfDefVal : DefVal → Json
  | .str s => Json.str (Mcp.Str.toString s)
  | .int i => Json.num ⟨i, 0⟩
  | .num m e => Json.num ⟨m, e⟩
  | .bool b => Lean.Json.bool b

/-- the keywords as kin-openapi prints them (zero values omitted; `default` / `example` printed once set) -/
def jsonOfTagKw (kw : TagKw) : Json :=
  let txt (k : String) (v : Text) : List (String × Json) := if v.isEmpty then [] else [(k, Json.str (Mcp.Str.toString v))]
  let num (k : String) (v : Option (Int × Nat)) : List (String × Json) := match v with | some (m, e) => [(k, Json.num ⟨m, e⟩)] | none => []
  let nat0 (k : String) (v : Nat) : List (String × Json) := if v == 0 then [] else [(k, Json.num ⟨v, 0⟩)]
  let natO (k : String) (v : Option Nat) : List (String × Json) := match v with | some n => [(k, Json.num ⟨n, 0⟩)] | none => []
  Json.mkObj (txt "title" kw.title ++ txt "description" kw.description ++ txt "format" kw.format ++ txt "pattern" kw.pattern
    ++ num "minimum" kw.minimum ++ num "maximum" kw.maximum ++ nat0 "minLength" kw.minLength ++ natO "maxLength" kw.maxLength
    ++ nat0 "minItems" kw.minItems ++ natO "maxItems" kw.maxItems
    ++ (if kw.enums.isEmpty then [] else [("enum", Json.arr (kw.enums.map (fun v => Json.str (Mcp.Str.toString v))).toArray)])
    ++ (match kw.dflt with | some d => [("default", jsonOfDefVal d)] | none => [])
    ++ (match kw.exmpl with | some v => [("example", Json.str (Mcp.Str.toString v))] | none => [])
    ++ (if kw.uniqueItems then [("uniqueItems", Lean.Json.bool true)] else []))

/-- `tags`: one field `F <kind> `json:"f" jsonschema:"<js>"`` — the keywords the tag parser leaves on its schema and
    whether the struct generator of the style lists it as required. -/
def handleTags (j : Json) : Except String Json := do
  let js ← getText j "js"
  let kind ← match (← getStr j "kind") with
    | "str" => pure TagKind.str
    | "int" => pure TagKind.int
    | "float" => pure TagKind.float
    | "bool" => pure TagKind.bool
    | "arr" => pure TagKind.other
    | k => throw s!"tags: unknown kind {k}"
  let kw := tagKeywords codeTagFacts kind js   -- the model at the facts regenerated from today's source
  if kw.unmodelled then throw "tags: a number literal outside the modelled grammar"
  if kw.nonfinite then return Json.mkObj [("serialisable", Lean.Json.bool false)]
  let m : FieldMeta := ⟨t!"F", t!"f", js, false⟩
  let req ← match (← getStr j "style") with
    | "inline" => pure (isRequired m false)
    | "defs" => pure (isRequired m false)
    | "nested" => pure (!nestedOmit m)
    | s => throw s!"tags: unknown style {s}"
  pure (Json.mkObj [("present", Lean.Json.bool true), ("kw", jsonOfTagKw kw), ("required", Lean.Json.bool req)])

/-- `registry`: a history of register / unregister with whole JSON descriptors; the listing in order. -/
def handleRegistry (j : Json) : Except String Json := do
  let ops ← (← getArr j "history").toList.mapM (fun o => do
    let name ← getText o "name"
    match (← getStr o "op") with
    | "register" => pure (RegOp.register name (← o.getObjVal? "d"))
    | "unregister" => pure (RegOp.unregister name)
    | k => throw s!"registry: unknown op {k}")
  let reg := (regRun ops).toArray.qsort (fun a b => Mcp.Str.toString a.1 < Mcp.Str.toString b.1)   -- a set: sorted by name for the comparison
  pure (Json.mkObj [("listed", Json.arr (reg.map (·.2)))])

def handle (op : String) (j : Json) : Except String Json := do
  if op == "tags" then return (← handleTags j)
  if op == "registry" then return (← handleRegistry j)
  let env ← envOfJson j
  let T ← typeOfJson (← j.getObjVal? "t")
  match op with
  | "gen" =>
    let d ← docFor (← getStr j "style") env T
    pure (Json.mkObj [("schema", jsonOfDoc d)])
  | "names" =>
    let fs ← match T with
      | .struct fs => pure fs
      | .named n => match lookupEnv env n with
        | some fs => pure fs
        | none => throw "unknown named type"
      | _ => throw "names: not a struct"
    let ns := (jsonFieldNames fs).map Mcp.Str.toString
    pure (Json.mkObj [("names", Json.arr (ns.toArray.qsort (· < ·) |>.map Json.str))])
  | "encode" =>
    let v ← valOfJson (← j.getObjVal? "v")
    pure (Json.mkObj [("json", jsonOfMjson (encodeFull env T v))])
  | "check" =>
    let d ← docFor (← getStr j "style") env T
    let inst := mjsonOfJson (← j.getObjVal? "inst")
    pure (Json.mkObj [("valid", Json.bool (validatesDoc d inst))])
  | "bind" =>
    let inst := mjsonOfJson (← j.getObjVal? "inst")
    match bindArguments T inst with
    | some v => pure (Json.mkObj [("bound", jsonOfMjson (encodeFull env T v))])
    | none => pure (Json.mkObj [("bound", Json.null)])
  | _ => throw s!"schema: unknown op {op}"

end Mcp.Drv.Schema
