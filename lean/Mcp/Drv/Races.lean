/-
  Driver of component `races` (C20): answers, from the regenerated tables `Mcp.Gen.rcSharedFields` / `Mcp.Gen.rcGlobals`
  and the very predicates the theorems of `Props/C20` are about,
    races.field    {"type","field"}                     → is the field in the table, is it disciplined
    races.predict  {"type","field","f1","f2","pointee"} → does the table predict (pointee: explain) a race report
                                                           on this field between these two functions
    races.global   {"pkg","name"}                       → is the package-level variable in the table, what does it
                                                           hold, is it disciplined
    races.gpredict {"pkg","name","f1","f2"}             → does the table predict a race report on (the object behind)
                                                           this package-level variable between these two functions
    races.arg      {"api","param"}                      → is the API parameter in the table, what happens to the
                                                           argument, is that compliant
    races.apredict {"api","param"}                      → does the table predict a race report on the caller's memory
                                                           behind this argument (the library keeps the argument)
    races.local    {"fn","var"}                         → is the variable in the table of locals written by goroutines
                                                           of their function, is it disciplined
    races.lpredict {"fn","var"}                         → does that table predict a race report on the variable
-/
import Mcp.Drv.Util
import Mcp.Model.Lockset
import Mcp.Model.Globals
import Mcp.Gen.FieldLocks
import Mcp.Gen.Globals
import Mcp.Model.ApiArgs
import Mcp.Gen.ApiArgs
import Mcp.Model.GoClosures
import Mcp.Gen.GoClosures
namespace Mcp.Drv.Races
open Lean Mcp.Drv Mcp.Lockset Mcp.Globals

def verdictName : Mcp.ApiArgs.Verdict → String
  | .unknown => "unknown" | .sentAsIs => "sentAsIs" | .storedAsIs => "storedAsIs"
  | .returnedAsIs => "returnedAsIs" | .copied => "copied" | .readOnly => "readOnly"

def handleArg (op : String) (j : Json) : Except String Json := do
  let api ← getText j "api"
  let param ← getText j "param"
  let e? := Mcp.ApiArgs.find Mcp.Gen.rcApiArgs api param
  match op with
  | "arg" =>
    match e? with
    | none => pure (Json.mkObj [("known", Json.bool false), ("compliant", Json.bool false), ("verdict", Json.str "unknown")])
    | some e => pure (Json.mkObj [("known", Json.bool true), ("compliant", Json.bool (Mcp.ApiArgs.compliant e)),
                                  ("verdict", Json.str (verdictName (Mcp.ApiArgs.verdict e)))])
  | _ =>
    let p := match e? with
      | none => false
      | some e => !Mcp.ApiArgs.compliant e
    pure (Json.mkObj [("predicted", Json.bool p)])

def vkindName : VKind → String
  | .immutable => "immutable" | .syncType => "sync" | .safeObject => "safe"
  | .container => "container" | .opaque => "opaque" | .unknown => "unknown"

def handleField (op : String) (j : Json) : Except String Json := do
  let ty ← getText j "type"
  let fld ← getText j "field"
  match op with
  | "field" =>
    match Mcp.Gen.rcSharedFields.find? (fun f => f.type == ty && f.field == fld) with
    | none => pure (Json.mkObj [("known", Json.bool false), ("disciplined", Json.bool false)])
    | some f => pure (Json.mkObj [("known", Json.bool true), ("disciplined", Json.bool (disciplined f))])
  | _ =>
    let f1 ← getText j "f1"
    let f2 ← getText j "f2"
    let pointee ← getBool j "pointee"
    let p := if pointee then explained Mcp.Gen.rcSharedFields ty fld f1 f2 || explained Mcp.Gen.rcSharedFields ty fld f2 f1
             else predicted Mcp.Gen.rcSharedFields ty fld f1 f2 || predicted Mcp.Gen.rcSharedFields ty fld f2 f1
    pure (Json.mkObj [("predicted", Json.bool p)])

def handleGlobal (op : String) (j : Json) : Except String Json := do
  let pkg ← getText j "pkg"
  let name ← getText j "name"
  let g? := Mcp.Gen.rcGlobals.find? (fun g => g.pkg == pkg && g.name == name)
  match op with
  | "global" =>
    match g? with
    | none => pure (Json.mkObj [("known", Json.bool false), ("disciplined", Json.bool false), ("vkind", Json.str "unknown")])
    | some g => pure (Json.mkObj [("known", Json.bool true), ("disciplined", Json.bool (gDisciplined g)), ("vkind", Json.str (vkindName g.vkind))])
  | _ =>
    let f1 ← getText j "f1"
    let f2 ← getText j "f2"
    let p := match g? with
      | none => false
      | some g => predicted [asField g] pkg name f1 f2 || predicted [asField g] pkg name f2 f1
    pure (Json.mkObj [("predicted", Json.bool p)])

def handleLocal (op : String) (j : Json) : Except String Json := do
  let fn ← getText j "fn"
  let var ← getText j "var"
  let l? := Mcp.Gen.rcSharedLocals.find? (fun l => l.fn == fn && l.var == var)
  match op with
  | "local" =>
    match l? with
    | none => pure (Json.mkObj [("known", Json.bool false), ("disciplined", Json.bool false)])
    | some l => pure (Json.mkObj [("known", Json.bool true), ("disciplined", Json.bool (Mcp.GoClosures.lDisciplined l))])
  | _ =>
    let p := match l? with
      | none => false
      | some l => !Mcp.GoClosures.lDisciplined l
    pure (Json.mkObj [("predicted", Json.bool p)])

def handle (op : String) (j : Json) : Except String Json :=
  match op with
  | "field" | "predict" => handleField op j
  | "global" | "gpredict" => handleGlobal op j
  | "arg" | "apredict" => handleArg op j
  | "local" | "lpredict" => handleLocal op j
  | o => throw s!"unknown op {o}"

end Mcp.Drv.Races
