/-
  Driver of component `races` (C20): answers, from the regenerated table `Mcp.Gen.rcSharedFields` and the very
  predicates the theorems of `Props/C20` are about,
    races.field    {"type","field"}                     → is the field in the table, is it disciplined
    races.predict  {"type","field","f1","f2","pointee"} → does the table predict (pointee: explain) a race report
                                                           on this field between these two functions
-/
import Mcp.Drv.Util
import Mcp.Model.Lockset
import Mcp.Gen.FieldLocks
namespace Mcp.Drv.Races
open Lean Mcp.Drv Mcp.Lockset

def handle (op : String) (j : Json) : Except String Json := do
  let ty ← getText j "type"
  let fld ← getText j "field"
  match op with
  | "field" =>
    match Mcp.Gen.rcSharedFields.find? (fun f => f.type == ty && f.field == fld) with
    | none => pure (Json.mkObj [("known", Json.bool false), ("disciplined", Json.bool false)])
    | some f => pure (Json.mkObj [("known", Json.bool true), ("disciplined", Json.bool (disciplined f))])
  | "predict" =>
    let f1 ← getText j "f1"
    let f2 ← getText j "f2"
    let pointee ← getBool j "pointee"
    let p := if pointee then explained Mcp.Gen.rcSharedFields ty fld f1 f2 || explained Mcp.Gen.rcSharedFields ty fld f2 f1
             else predicted Mcp.Gen.rcSharedFields ty fld f1 f2 || predicted Mcp.Gen.rcSharedFields ty fld f2 f1
    pure (Json.mkObj [("predicted", Json.bool p)])
  | o => throw s!"unknown op {o}"

end Mcp.Drv.Races
