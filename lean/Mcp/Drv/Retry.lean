import Mcp.Drv.Util
import Mcp.Model.Retry
import Mcp.Gen.Consts
namespace Mcp.Drv.Retry
open Lean Mcp.Drv Mcp.Retry Mcp.Str

def factorOfJson (j : Json) : Except String Factor :=
  match j with
  | .str "nan" => pure .nan
  | .str "+inf" => pure .pinf
  | .str "-inf" => pure .ninf
  | _ => do pure (.q (← getInt j "n") (← getNat j "d"))

def jsonOfFactor : Factor → Json
  | .nan => "nan" | .pinf => "+inf" | .ninf => "-inf"
  | .q n d =>
    -- canonical: lowest terms
    let g := Nat.gcd n.natAbs d
    let g := if g == 0 then 1 else g
    Json.mkObj [("n", Json.num (JsonNumber.fromInt (n / g))), ("d", Json.num (JsonNumber.fromNat (d / g)))]

def cfgOfJson (j : Json) : Except String Cfg := do
  pure ⟨← getInt j "mr", ← getInt j "ib", ← factorOfJson (← j.getObjVal? "bf"), ← getInt j "mb"⟩

def jsonOfCfg (c : Cfg) : Json :=
  Json.mkObj [("mr", Json.num (JsonNumber.fromInt c.maxRetries)), ("ib", Json.num (JsonNumber.fromInt c.initial)),
    ("bf", jsonOfFactor c.factor), ("mb", Json.num (JsonNumber.fromInt c.maxBackoff))]

def resultStr : Result → String
  | .success => "success" | .ctxErr => "ctxErr" | .opErr k => s!"opErr:{k}"

def handle (op : String) (j : Json) : Except String Json := do
  match op with
  | "validate" =>
    let c ← cfgOfJson (← j.getObjVal? "cfg")
    pure (Json.mkObj [("cfg", jsonOfCfg (validate Mcp.Gen.retryLimits c))])
  | "classify" =>
    let m ← getText j "msg"
    pure (Json.mkObj [("retryable", Json.bool (isRetryable Mcp.Gen.retryLimits.codes m))])
  | "execute" =>
    let cfg ← match getOpt j "cfg" with
      | none => pure none
      | some cj => do pure (some (← cfgOfJson cj))
    let script ← (← getArr j "script").toList.mapM (fun (x : Json) => match x with
      | .null => pure (none : Option Text)
      | v => do pure (some (← textOfJson v)))
    let cancelAt ← optInt j "cancelAt"
    let r := execute (isRetryable Mcp.Gen.retryLimits.codes) Mcp.Gen.retryOverflowZero cfg (scriptOf script) cancelAt
    pure (Json.mkObj [("attempts", Json.num (JsonNumber.fromNat r.attempts)),
      ("waits", Json.arr (r.waits.toArray.map (fun w => Json.num (JsonNumber.fromInt w)))),
      ("result", Json.str (resultStr r.result))])
  | "e2e" =>
    -- attempts and result class only (the waits are 1 ms and not observed end-to-end)
    let cfg ← match getOpt j "cfg" with
      | none => pure none
      | some cj => do pure (some (← cfgOfJson cj))
    let script ← (← getArr j "script").toList.mapM (fun (x : Json) => match x with
      | .null => pure (none : Option Text)
      | v => do pure (some (← textOfJson v)))
    let r := execute (isRetryable Mcp.Gen.retryLimits.codes) Mcp.Gen.retryOverflowZero cfg (scriptOf script) none
    pure (Json.mkObj [("attempts", Json.num (JsonNumber.fromNat r.attempts)), ("result", Json.str (resultStr r.result))])
  | _ => throw s!"retry: unknown op {op}"

end Mcp.Drv.Retry
