import Mcp.Drv.Util
import Mcp.Model.InCall
import Mcp.Gen.InCallFacts
namespace Mcp.Drv.InCall
open Lean Mcp.Drv Mcp.Str Mcp.InCall

abbrev MJson := Mcp.Json.Json

/-- the facts regenerated from the source: the model the harness is compared with is the model of the code as it is -/
def facts : Facts := ⟨Mcp.Gen.icPostStreamWriters, Mcp.Gen.icDispatchSync, Mcp.Gen.icDrainWithHandlers⟩

/-! generic JSON: Lean.Json ⇄ model Json (numbers normalised: integers, else `m·10^-e` with `10 ∤ m`) -/

def normNum (m : Int) : Nat → MJson
  | 0 => .int m
  | e + 1 => if m % 10 == 0 then normNum (m / 10) e else .dec m (e + 1)

partial def ofLean : Json → MJson
  | .null => .null
  | .bool b => .bool b
  | .num n => normNum n.mantissa n.exponent
  | .str s => .str (ofString s)
  | .arr a => .arr (a.toList.map ofLean)
  | .obj kvs => .obj (kvs.toList.map (fun (kv : String × Json) => (ofString kv.1, ofLean kv.2)))

partial def toLean : MJson → Json
  | .null => .null
  | .bool b => .bool b
  | .int i => .num (JsonNumber.fromInt i)
  | .dec m e => .num ⟨m, e⟩
  | .str s => jsonOfText s
  | .arr xs => .arr (xs.map toLean).toArray
  | .obj kvs => Json.mkObj (kvs.map (fun kv => (Mcp.Str.toString kv.1, toLean kv.2)))

def objOf (j : Json) : Except String Mcp.Json.Obj :=
  match ofLean j with
  | .obj kvs => pure kvs
  | .null => pure []
  | _ => throw "object expected"

def getObj (j : Json) (k : String) : Except String Mcp.Json.Obj :=
  match j.getObjVal? k with
  | .ok v => objOf v
  | .error _ => pure []

def paramsJson (p : NParams) : Json :=
  Json.mkObj [("meta", toLean (.obj p.metaMap)), ("extra", toLean (.obj p.extra))]

def notifOut (n : Notif) : Json :=
  Json.mkObj [("method", jsonOfText n.method), ("meta", toLean (.obj n.params.metaMap)), ("extra", toLean (.obj n.params.extra))]

def evJson : Ev → Json
  | .handled n => Json.mkObj [("h", notifOut n)]
  | .ret raw => Json.mkObj [("ret", toLean raw)]
  | .failNoResult => Json.mkObj [("fail", "noResult")]
  | .failDecode => Json.mkObj [("fail", "decode")]

def traceJson (t : List Ev) : Json := Json.mkObj [("trace", Json.arr (t.map evJson).toArray)]

def emitOf (j : Json) : Except String Emit := do
  match ← getStr j "k" with
  | "progress" => pure (.progress (ofLean (← j.getObjVal? "p")) (← getText j "msg"))
  | "log" => pure (.log (← getText j "level") (← getText j "msg"))
  | "custom" => pure (.custom (← getText j "method") (← getObj j "params"))
  | "new" => pure (.viaNew (← getText j "method") (← getObj j "params"))
  | k => throw s!"emit kind {k}"

/-- an emit marked `"unencodable": true` is an attempt the sender refuses (the model has no unencodable values) -/
def attemptOf (j : Json) : Except String Attempt :=
  match j.getObjVal? "unencodable" with
  | .ok (.bool true) => pure .refused
  | _ => do pure (.enc (← emitOf j))

def answerOf (j : Json) : Except String Answer :=
  match j.getObjVal? "ok" with
  | .ok r => pure (.ok (ofLean r))
  | .error _ => do
    let e ← j.getObjVal? "err"
    pure (.err (← getInt e "code") (← getText e "message"))

def handlersOf (j : Json) : Except String (List Text) := do
  (← getArr j "handlers").toList.mapM textOfJson

def regOpOf (j : Json) : Except String RegOp := do
  match ← getStr j "op" with
  | "reg" => pure (.register (← getText j "m") (← getNat j "h"))
  | "unreg" => pure (.unregister (← getText j "m"))
  | k => throw s!"registration op {k}"

def taggedJson : Ev × Option Nat → Json
  | (.handled n, some h) => Json.mkObj [("h", notifOut n), ("by", h)]
  | (e, _) => evJson e

def handle (op : String) (j : Json) : Except String Json := do
  match op with
  | "params" =>
    let p ← match ← getStr j "kind" with
      | "raw" => pure (⟨← getObj j "meta", ← getObj j "extra"⟩ : NParams)
      | "custom" => pure (splitCustom (← getObj j "fs"))
      | "new" => pure (splitNew (← getObj j "fs"))
      | k => throw s!"params kind {k}"
    pure (Json.mkObj [("split", paramsJson p), ("wire", toLean (marshal p)), ("back", paramsJson (onWire p))])
  | "unmarshal" =>
    match unmarshal (ofLean (← j.getObjVal? "v")) with
    | some p => pure (Json.mkObj [("ok", paramsJson p)])
    | none => pure (Json.mkObj [("error", true)])
  | "call" =>
    let as ← (← getArr j "emits").toList.mapM attemptOf
    pure (traceJson (callA facts (← getBool j "sse") (← handlersOf j) (← getNat j "reqId") as (← answerOf (← j.getObjVal? "answer"))))
  | "hcall" =>
    let hist ← (← getArr j "history").toList.mapM regOpOf
    let es := sent (← (← getArr j "emits").toList.mapM attemptOf)
    let tr := callH facts (← getBool j "sse") (tableAfter hist) (← getNat j "reqId") es (← answerOf (← j.getObjVal? "answer"))
    pure (Json.mkObj [("trace", Json.arr (tr.map taggedJson).toArray)])
  | "frames" =>
    let as ← (← getArr j "emits").toList.mapM attemptOf
    let a ← answerOf (← j.getObjVal? "answer")
    let reqId ← getNat j "reqId"
    let fs := if (← getBool j "sse") then framesA reqId as a else [answerJson reqId a]
    pure (Json.mkObj [("frames", Json.arr (fs.map toLean).toArray)])
  | "read" =>
    let frames := (← getArr j "frames").toList.map ofLean
    pure (traceJson (readLoop facts (← handlersOf j) (← getNat j "reqId") frames RS.init))
  | "ids" =>
    let ms ← (← getArr j "ms").toList.mapM (fun v => v.getNat?)
    match ms with
    | [] => throw "ids: at least the answer event"
    | _ =>
      let clock : Nat → Nat := fun k => ms.getD k 0
      pure (Json.mkObj [("ids", Json.arr ((streamIds facts.writers clock (ms.length - 1)).map (fun e => jsonOfText (idText e))).toArray)])
  | _ => throw s!"incall: unknown op {op}"

end Mcp.Drv.InCall
