import Mcp.Drv.Util
import Mcp.Drv.Content
import Mcp.Model.Rpc
import Mcp.Model.RpcSpec
namespace Mcp.Drv.Rpc
open Lean Mcp.Drv Mcp.Str Mcp.Content Mcp.Rpc
open Mcp.Drv.Content (MJson ofLean toLean resultOfSpec promptOfSpec resOfSpec toolOfSpec)

/-! ## input values: order and duplicates kept, numbers exact, big values described instead of spelled out -/

def wrapN (open_ : String) : Nat → MJson → MJson
  | 0, leaf => leaf
  | n + 1, leaf => if open_ == "a" then .arr [wrapN open_ n leaf] else .obj [(t!"k", wrapN open_ n leaf)]

partial def decV (j : Json) : Except String MJson :=
  match j with
  | .null => pure .null
  | .bool b => pure (.bool b)
  | .str s => pure (.str (ofString s))
  | .obj _ =>
    match j.getObjVal? "n", j.getObjVal? "a", j.getObjVal? "o", j.getObjVal? "rep", j.getObjVal? "big" with
    | .ok n, _, _, _, _ => do
      let a ← n.getArr?
      let ms ← (a.getD 0 .null).getStr?
      let e ← (a.getD 1 .null).getNat?
      match ms.toInt? with
      | some m => pure (if e = 0 then .int m else .dec m e)
      | none => throw s!"number {ms}"
    | _, .ok a, _, _, _ => do pure (.arr (← (← a.getArr?).toList.mapM decV))
    | _, _, .ok o, _, _ => do
      let kvs ← (← o.getArr?).toList.mapM (fun kv => do
        let p ← kv.getArr?
        pure (ofString (← (p.getD 0 .null).getStr?), ← decV (p.getD 1 .null)))
      pure (.obj kvs)
    | _, _, _, .ok r, _ => do pure (wrapN (← getStr r "open") (← getNat r "n") (← decV (r.getObjValD "leaf")))
    -- (a long one-letter string; the model never looks inside it, lengths above 1 MiB are shortened to 1 MiB)
    | _, _, _, _, .ok b => do pure (.str (List.replicate (min (← getNat b "n") 1048576) (← getNat b "c")))
    | _, _, _, _, _ => throw "value encoding"
  | _ => throw "value encoding"

def bodyOf (j : Json) : Except String Body :=
  match j.getObjVal? "json" with
  | .ok v => do pure (.json (← decV v))
  | .error _ => pure .parseFail

/-! ## registry -/

def textLt : Text → Text → Bool
  | [], [] => false
  | [], _ :: _ => true
  | _ :: _, [] => false
  | a :: s, b :: t => if a < b then true else if b < a then false else textLt s t

def insertSorted (x : Text × Text) : List (Text × Text) → List (Text × Text)
  | [] => [x]
  | y :: rest => if textLt x.1 y.1 then x :: y :: rest else y :: insertSorted x rest

/-- the "p-args" prompt of the harness: `k=v;` for the string arguments in key order -/
def renderArgs (args : List (Text × Text)) : Text :=
  (args.foldr insertSorted []).foldr (fun kv acc => kv.1 ++ t!"=" ++ kv.2 ++ t!";" ++ acc) []

def toolRun (j : Json) : Except String (Option Mcp.Json.Obj → ToolOutcome) := do
  match ← getStr j "k" with
  | "result" => let r ← resultOfSpec (← j.getObjVal? "r"); pure (fun _ => .result r)
  | "err" => let m ← getText j "msg"; pure (fun _ => .goErr m)
  | "unenc" => let w ← getText j "why"; pure (fun _ => .unencodable w)
  | "echo" => pure (fun args => .result ⟨[], some [], some (match args with | none => .null | some o => .obj o), false⟩)
  | k => throw s!"tool outcome {k}"

def promptRun (j : Json) : Except String (List (Text × Text) → PromptOutcome) := do
  match ← getStr j "k" with
  | "result" => let r ← promptOfSpec (← j.getObjVal? "r"); pure (fun _ => .result r)
  | "err" => let m ← getText j "msg"; pure (fun _ => .goErr m)
  | "unenc" => let w ← getText j "why"; pure (fun _ => .unencodable w)
  | "args" => pure (fun args => .result ⟨[], [], some [⟨t!"user", some (.text (renderArgs args) none)⟩]⟩)
  | k => throw s!"prompt outcome {k}"

def resRun (j : Json) : Except String (Option Mcp.Json.Obj → ResOutcome) := do
  match ← getStr j "k" with
  | "contents" =>
    let cs ← Mcp.Drv.Content.listOpt j "cs" resOfSpec
    pure (fun _ => .contents cs)
  | "err" => let m ← getText j "msg"; pure (fun _ => .goErr m)
  | k => throw s!"resource outcome {k}"

def regOf (j : Json) : Except String Registry := do
  let tools ← (← getArr j "tools").toList.mapM (fun t => do
    pure (⟨← toolOfSpec t, ← toolRun (← t.getObjVal? "run")⟩ : ToolEntry))
  let prompts ← (← getArr j "prompts").toList.mapM (fun p => do
    let args ← (← getArr p "args").toList.mapM (fun a => do
      pure (⟨← getText a "name", ← getText a "desc", ← getBool a "required"⟩ : PromptArg))
    pure (⟨← getText p "name", ← getText p "desc", args, ← promptRun (← p.getObjVal? "run")⟩ : PromptEntry))
  let resources ← (← getArr j "resources").toList.mapM (fun r => do
    pure (⟨← getText r "name", ← getText r "uri", ← getText r "desc", ← getText r "mime", ← getNat r "size",
      ← resRun (← r.getObjVal? "run")⟩ : ResEntry))
  -- list filters: the names / uris the filter lets through for this request (absent: no filter installed)
  let shown (key : String) : Except String (Option (List Text)) :=
    match j.getObjVal? key with
    | .ok (.arr a) => do pure (some (← a.toList.mapM textOfJson))
    | _ => pure none
  let tf ← shown "listTools"
  let pf ← shown "listPrompts"
  let rf ← shown "listResources"
  pure { name := ← getText j "name", version := ← getText j "version", tools := tools, prompts := prompts, resources := resources,
         toolFilter := match tf with | none => id | some ns => fun ds => ds.filter (fun d => ns.contains d.name),
         promptFilter := match pf with | none => id | some ns => fun ps => ps.filter (fun p => ns.contains p.name),
         resourceFilter := match rf with | none => id | some us => fun rs => rs.filter (fun r => us.contains r.uri) }

/-! ## reactions -/

def natJ (n : Nat) : Json := Json.num (JsonNumber.fromNat n)

def reactionJson : Reaction → Json
  | .panic => Json.mkObj [("status", .null), ("body", .null), ("frames", .arr #[]), ("panic", .bool true)]
  | .resp r => Json.mkObj [("status", match r.status with | some s => natJ s | none => .null),
      ("body", match r.body with | some b => toLean b | none => .null),
      ("frames", .arr (r.frames.map toLean).toArray), ("panic", .bool false)]

def verbOf : String → Except String Verb
  | "post" => pure .post | "get" => pure .get | "delete" => pure .delete | "other" => pure .other
  | v => throw s!"verb {v}"

def refOf (j : Json) : Except String Mcp.Session.Ref :=
  match j with
  | .str "none" => pure .none
  | .str "bogus" => pure .bogus
  | _ => do pure (.sid (← getNat j "sid"))

def modeOf : String → Except String Mcp.Session.Mode
  | "stateful" => pure .stateful | "stateless" => pure .stateless | "sessionsOff" => pure .sessionsOff
  | m => throw s!"mode {m}"

def handle (op : String) (j : Json) : Except String Json := do
  match op with
  | "streamable" =>
    let cj ← j.getObjVal? "cfg"
    let cfg : SCfg := ⟨⟨← modeOf (← getStr cj "mode"), ← getBool cj "get", true⟩, ← getBool cj "postSSE", ← getBool cj "pathSet"⟩
    let sj ← j.getObjVal? "st"
    let live ← (← getArr sj "live").toList.mapM (·.getNat?)
    let ls ← (← getArr sj "ls").toList.mapM (fun e => do
      let p ← e.getArr?
      pure ((← (p.getD 0 .null).getNat?), (← (p.getD 1 .null).getBool?)))
    let st : Mcp.Session.St := { issued := ← getNat sj "issued", live := live, lstate := ls, streams := [] }
    let ij ← j.getObjVal? "in"
    -- the Accept header as sent: the model parses it (`serveWire`)
    let inp : HttpWire := ⟨← verbOf (← getStr ij "verb"), ← getBool ij "pathOk", ← refOf (← ij.getObjVal? "ref"), ← getText ij "accept",
      ← bodyOf (← ij.getObjVal? "body")⟩
    pure (reactionJson (serveWire cfg (← regOf (← j.getObjVal? "reg")) st inp).2)
  | "accept" =>
    -- the framing of the answer to a request (a POST whose body has a non-null id)
    match chooseSSE (← getBool j "postSSE") (← getText j "hdr") with
    | .ok b => pure (Json.mkObj [("sse", .bool b), ("panic", .bool false)])
    | .panic => pure (Json.mkObj [("sse", .null), ("panic", .bool true)])
  | "sse" =>
    let ij ← j.getObjVal? "in"
    let path ← match ← getStr ij "path" with
      | "sse" => pure SsePath.sse | "message" => pure SsePath.message | "other" => pure SsePath.other
      | p => throw s!"path {p}"
    let ref ← match ← getStr ij "ref" with
      | "missing" => pure SseRef.missing | "unknown" => pure SseRef.unknown | "live" => pure SseRef.live
      | r => throw s!"ref {r}"
    pure (reactionJson (serveSSE (← regOf (← j.getObjVal? "reg")) ⟨← verbOf (← getStr ij "verb"), path, ref, ← bodyOf (← ij.getObjVal? "body")⟩))
  | "stdio" =>
    pure (reactionJson (serveStdio (← regOf (← j.getObjVal? "reg")) (← bodyOf (← j.getObjVal? "body"))))
  | "wf" =>
    let req ← match j.getObjVal? "req" with
      | .ok (.null) => pure none
      | .ok r => (match r.getObjVal? "json" with
          | .ok v => do pure (some (← decV v))
          | .error _ => pure none)
      | .error _ => pure none
    pure (Json.mkObj [("wf", .bool (Mcp.RpcSpec.wfMsg req (ofLean (j.getObjValD "msg"))))])
  | _ => throw s!"rpc: unknown op {op}"

end Mcp.Drv.Rpc
