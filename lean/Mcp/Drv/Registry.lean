import Mcp.Drv.Util
import Mcp.Model.Registry
namespace Mcp.Drv.Registry
open Lean Mcp.Drv Mcp.Registry

def kindOfStr : String → Except String Kind
  | "tool" => pure .tool | "prompt" => pure .prompt | "resource" => pure .resource
  | "template" => pure .template | "notif" => pure .notif
  | s => throw s!"kind {s}"

def opOfJson (j : Json) : Except String Op := do
  match ← getStr j "t" with
  | "reg" => pure (.reg (← kindOfStr (← getStr j "k")) (← getText j "n") (← getNat j "v"))
  | "unreg" => pure (.unreg (← kindOfStr (← getStr j "k")) (← (← getArr j "ns").toList.mapM textOfJson))
  | "list" => pure (.list (← kindOfStr (← getStr j "k")))
  | "call" => pure (.call (← kindOfStr (← getStr j "k")) (← getText j "n"))
  | "get" => pure (.get (← getText j "n"))
  | "gets" => pure .gets
  | t => throw s!"op {t}"

/-- Lexicographic order on code-point lists (= byte order of the UTF-8 strings the harness sorts). -/
def keyLe : List Nat → List Nat → Bool
  | [], _ => true
  | _ :: _, [] => false
  | a :: s, b :: t => a < b || (a == b && keyLe s t)

def sortEntries (l : List (List Nat × Nat)) : List (List Nat × Nat) := l.mergeSort (fun a b => keyLe a.1 b.1)
def sortKeys (l : List (List Nat)) : List (List Nat) := l.mergeSort keyLe

def entriesJson (l : List (List Nat × Nat)) : Json :=
  Json.arr (l.toArray.map fun (n, v) => Json.arr #[jsonOfText n, Json.num (JsonNumber.fromNat v)])

def keysJson (l : List (List Nat)) : Json := Json.arr (l.toArray.map jsonOfText)

def hasOrderSlice : Kind → Bool
  | .tool | .prompt | .resource => true
  | _ => false

/-- What the hook `VerifRegistryState` shows of one registry after a mutating step: the order slice as it is
    (null where the Go type has none) and the sorted key set of the map. -/
def stateJson (k : Kind) (r : Reg) : List (String × Json) :=
  [("order", if hasOrderSlice k then keysJson r.order else Json.null), ("keys", keysJson (sortKeys (keys r.map)))]

def outJson (s' : St) (o : Op) (out : Out) : Json :=
  match o, out with
  | .reg k _ _, _ => Json.mkObj (stateJson k (s'.proj k))
  | .unreg k _, .count c =>
    Json.mkObj (stateJson k (s'.proj k) ++
      (if k = .notif then [] else [("ok", Json.bool (decide (c > 0))), ("removed", Json.num (JsonNumber.fromNat c))]))
  | .list k, .entries l => Json.mkObj [("list", entriesJson (if k = .resource then l else sortEntries l))]
  | .gets, .entries l => Json.mkObj [("list", entriesJson (sortEntries l))]
  | _, .found v => Json.mkObj [("r", Json.str "found"), ("v", Json.num (JsonNumber.fromNat v))]
  | _, .notFound => Json.mkObj [("r", Json.str "notfound")]
  | _, .invalid => Json.mkObj [("r", Json.str "invalid")]
  | _, _ => Json.mkObj [("model_error", Json.str "unexpected outcome shape")]

def handle (op : String) (j : Json) : Except String Json := do
  match op with
  | "run" =>
    let ops ← (← getArr j "ops").toList.mapM opOfJson
    let rec go (s : St) : List Op → List Json
      | [] => []
      | o :: os =>
        let (s', out) := step s o
        outJson s' o out :: go s' os
    pure (Json.mkObj [("outs", Json.arr (go {} ops).toArray)])
  | _ => throw s!"registry: unknown op {op}"

end Mcp.Drv.Registry
