import Mcp.Drv.Util
import Mcp.Model.Readers
import Mcp.Gen.ReaderFacts
namespace Mcp.Drv.Readers
open Lean Mcp.Drv Mcp.Str Mcp.Readers

abbrev MJson := Mcp.Json.Json

def normNum (m : Int) : Nat → MJson
  | 0 => .int m
  | e + 1 => if m % 10 == 0 then normNum (m / 10) e else .dec m (e + 1)

partial def ofLean : Json → MJson
  | .null => .null
  | .bool b => .bool b
  | .num n => normNum n.mantissa n.exponent
  | .str s => .str (ofString s)
  | .arr a => .arr (a.toList.map ofLean)
  | .obj kvs => .obj (kvs.toList.map (fun (kv : String × Json) => (ofString kv.1, ofLean kv.2)))

partial def toLean : MJson → Json
  | .null => .null
  | .bool b => .bool b
  | .int i => .num (JsonNumber.fromInt i)
  | .dec m e => .num ⟨m, e⟩
  | .str s => jsonOfText s
  | .arr xs => .arr (xs.map toLean).toArray
  | .obj kvs => Json.mkObj (kvs.map (fun kv => (Mcp.Str.toString kv.1, toLean kv.2)))

def F : Facts := Mcp.Gen.rdFacts

def payloadOfJson (j : Json) : Except String Payload := do
  let ne ← getBool j "ne"
  let url ← getBool j "url"
  let v := match j.getObjVal? "json" with
    | .ok v => some (ofLean v)
    | .error _ => none
  pure ⟨ne, v, url⟩

def lineOfJson (j : Json) : Except String Line := do
  let size ← getNat j "size"
  let indent := (getBool j "indent").toOption.getD false
  let kind ← match ← getStr j "k" with
    | "blank" => pure Kind.blank
    | "spaces" => pure Kind.spaces
    | "comment" => pure Kind.comment
    | "id" => pure (if (getBool j "unsafe").toOption.getD false then Kind.idUnsafe else Kind.id)
    | "event" => pure (Kind.event ((getText j "v").toOption.getD []))   -- the harness omits an empty event name
    | "data" => pure (Kind.data (← payloadOfJson j))
    | "other" => pure Kind.other
    | k => throw s!"line kind {k}"
  pure ⟨kind, indent, size⟩

/-- an absent array is the empty one (the harness omits empty fields) -/
def arrOf (j : Json) (k : String) : Array Json := (getArr j k).toOption.getD #[]

def linesOf (j : Json) (k : String) : Except String (List Line) := (arrOf j k).toList.mapM lineOfJson

def frameOfJson (j : Json) : Except String Frame := do
  match ← getStr j "k" with
  | "ws" => pure .ws
  | "barrier" => pure .ws        -- harness-side synchronisation point: no bytes
  | "garbage" => pure .garbage
  | "truncated" => pure .truncated
  | "value" =>
    -- bytes around the value on its line (absent = none): the model's lexer decides whether the line is a frame
    let lead := ofString ((getStr j "lead").toOption.getD "")
    let trail := ofString ((getStr j "trail").toOption.getD "")
    pure (lexLine ⟨lead, ofLean (← j.getObjVal? "json"), trail⟩)
  | "spread" => pure (.spread (ofLean (← j.getObjVal? "json")))
  | "packed" => pure (.packed ((arrOf j "vals").toList.map ofLean))
  | k => throw s!"frame kind {k}"

def textsOf (j : Json) (k : String) : Except String (List Text) := (arrOf j k).toList.mapM textOfJson
def natsOf (j : Json) (k : String) : Except String (List Nat) := (arrOf j k).toList.mapM (·.getNat?)

def whyStr : Why → String
  | .status => "status" | .parse => "parse" | .missingResult => "missingResult"
  | .closedNoResponse => "closedNoResponse" | .deadline => "deadline"

/-- a call's outcome as the harness observes it through `ListTools`: the marker is the result's `nextCursor`; a result
    that is neither an object nor `null` is refused by the result decoder (C02's business, only classified here). -/
def callJson : Option CallOut → Json
  | none => Json.str "pending"
  | some (.ok (.obj m)) => Json.mkObj [("ok", jsonOfText (Mcp.Json.extractString m t!"nextCursor"))]
  | some (.ok .null) => Json.mkObj [("ok", Json.str "")]
  | some (.ok _) => Json.mkObj [("failed", Json.str "decode")]
  | some .rpcError => Json.str "rpc"
  | some (.failed w) => Json.mkObj [("failed", Json.str (whyStr w))]

def noteJson (n : Note) : Json :=
  match n.2 with
  | .obj m => match Mcp.Json.lookup m t!"k" with
    | some (.int i) => Json.num (JsonNumber.fromInt i)
    | _ => Json.num (JsonNumber.fromInt (-1))
  | _ => Json.num (JsonNumber.fromInt (-1))

def notesJson (ns : List Note) : Json := Json.arr (ns.map noteJson).toArray
def answersJson (as : List Answer) : Json :=
  Json.arr (as.map (fun a => Json.arr #[Json.str (toLean a.1).compress, Json.bool a.2])).toArray

def haltJson : Option Halt → Json
  | none => Json.null
  | some .panic => Json.str "panic"
  | some .spin => Json.str "spin"
  | some .dead => Json.str "dead"

/-- how an Initialize attempt ends whose answer the transport handed over as `o` (`initOk`: the result decodes as an
    InitializeResult — oracle bit) -/
def initClass (initOk : Bool) : Option CallOut → String
  | none => "pending"
  | some (.ok _) => if initOk then "ok" else "error"
  | some _ => "error"

def initOkOf (j : Json) : Bool := (getBool j "initOk").toOption.getD false

/-- handshake histories: `inits` (the classes of the attempts answered with bad content) and `init` are added to the outcome -/
def withInits (j : Json) (inits : List String) (out : List (String × Json)) : Json :=
  if (arrOf j "badInits").isEmpty then Json.mkObj out
  else Json.mkObj (out ++ [("inits", Json.arr (inits.map Json.str).toArray), ("init", Json.mkObj [("ok", Json.str "init")])])

/-- Streamable: every initialize answer is a JSON body -/
def httpInits (j : Json) : Except String (List String) :=
  (arrOf j "badInits").toList.mapM (fun b => do
    let body ← payloadOfJson b
    pure (initClass (initOkOf b) (some (jsonBody 200 body))))

/-- re-entrant handlers (`handlerKind = "reentrant"`): every delivered notification's handler makes one call on the same
    client, which is answered whenever the reader is alive (`C07_later_call_*`): `n` answered, none failed -/
def withRe (j : Json) (n : Nat) (alive : Bool) (out : Json) : Json :=
  if (getStr j "handlerKind").toOption == some "reentrant" then
    out.setObjVal! "re" (Json.mkObj [("ok", Json.num (JsonNumber.fromNat (if alive then n else 0))),
      ("failed", Json.num (JsonNumber.fromNat (if alive then 0 else n)))])
  else out

def nextJson (ok : Bool) : Json :=
  if ok then Json.mkObj [("ok", Json.str "next")] else Json.mkObj [("failed", Json.str "header")]

def okResult (tag : String) : MJson := .obj [(t!"tools", .arr []), (t!"nextCursor", .str (ofString tag))]

def handle (op : String) (j : Json) : Except String Json := do
  match op with
  | "json" =>
    let body ← payloadOfJson (← j.getObjVal? "body")
    pure (withInits j (← httpInits j) [("call", callJson (some (jsonBody (← getNat j "status") body)))])
  | "post" =>
    let H ← textsOf j "handlers"
    let ls ← linesOf j "lines"
    let e ← match ← getStr j "end" with
      | "eof" => pure End.eof | "stall" => pure End.stall | s => throw s!"end {s}"
    let req ← getNat j "req"
    let (st, ids) := postIdRun req H ({}, {}) ls
    pure (withRe j st.notes.length true (withInits j (← httpInits j) [("call", callJson (some (postFinish st e))), ("notes", notesJson st.notes),
      ("next", nextJson (laterCallOk Mcp.Gen.rdIdChecked ids))]))
  | "get" =>
    let H ← textsOf j "handlers"
    let ls ← linesOf j "lines"
    let p := getIdRun F H ({}, {}) ls
    let sid ← match j.getObjVal? "sentinelId" with
      | .ok l => do pure [← lineOfJson l]
      | .error _ => pure []
    let (st', ids) := getIdRun F H p (sid ++ getEvent (wfNote t!"verif/n" [(t!"k", .int 999999)]) 64)
    pure (withRe j st'.notes.length true (withInits j (← httpInits j) [("notes", notesJson st'.notes), ("answers", answersJson st'.answers), ("halt", haltJson st'.halt),
      ("next", nextJson (laterCallOk Mcp.Gen.rdIdChecked ids))]))
  | "legacy" =>
    let pre ← linesOf j "pre"
    let ids ← natsOf j "ids"
    let script ← linesOf j "script"
    let next ← getNat j "next"
    let st1 := legRun F { tbl := Table.init [1] } pre
    if st1.halt.isSome then
      pure (Json.mkObj [("init", haltJson st1.halt)])
    else if !st1.latch then
      pure (Json.mkObj [("init", Json.str "noEndpoint")])
    else
      -- handshake histories: attempt i (request id i+1) is answered by the i-th bad answer, the next one properly
      let bad := (arrOf j "badInits").toList
      let (st1, inits, _) ← bad.foldlM (fun (acc : LegSt × List String × Nat) b => do
        let body ← payloadOfJson b
        let (st, cls, i) := acc
        let st' := legRun F { st with tbl := Table.init [i + 1] } (legEventP body 64)
        pure (st', cls ++ [initClass (initOkOf b) (st'.tbl.got (i + 1))], i + 1)) (st1, [], 0)
      let k := bad.length
      let st1 := { st1 with tbl := Table.init [k + 1] }
      let st2 := legRun F st1 (legEvent (wfResult (k + 1) (okResult "init")) 64)
      let st3 := legRun F { st2 with tbl := Table.init ids } script
      let st4 := legRun F { st3 with tbl := Table.init [next] } (legEvent (wfResult next (okResult "next")) 64)
      let out := [("init", callJson (st2.tbl.got (k + 1))), ("calls", Json.arr (ids.map (fun k => callJson (st3.tbl.got k))).toArray),
        ("answers", answersJson st4.answers), ("halt", haltJson st4.halt), ("next", callJson (st4.tbl.got next))]
      pure (if bad.isEmpty then Json.mkObj out else Json.mkObj (out ++ [("inits", Json.arr (inits.map Json.str).toArray)]))
  | "stdio" =>
    let H ← textsOf j "handlers"
    let ids ← natsOf j "ids"
    let fs ← (arrOf j "frames").toList.mapM frameOfJson
    let next ← getNat j "next"
    let bad := (arrOf j "badInits").toList
    let (st0, inits, _) ← bad.foldlM (fun (acc : StdioSt × List String × Nat) b => do
      let body ← payloadOfJson b
      let (st, cls, i) := acc
      let fr := match body.json with | some v => Frame.value v | none => Frame.garbage
      let st' := stdioRun F H { st with tbl := Table.init [i + 1] } [fr]
      pure (st', cls ++ [initClass (initOkOf b) (st'.tbl.got (i + 1))], i + 1)) (({ tbl := Table.init [] } : StdioSt), [], 0)
    let st := stdioRun F H { st0 with tbl := Table.init ids } fs
    let st' := stdioRun F H { st with tbl := Table.init [next] } [.value (wfResult next (okResult "next"))]
    pure (withRe j st'.notes.length st'.halt.isNone (withInits j inits [("calls", Json.arr (ids.map (fun k => callJson (st.tbl.got k))).toArray),
      ("notes", notesJson st'.notes), ("answers", answersJson st'.answers), ("halt", haltJson st'.halt),
      ("spin", Json.bool st'.spinning), ("next", callJson (st'.tbl.got next)),
      ("spinAfterClose", Json.bool (stdioClose st').spinning)]))
  | "decode" =>
    -- well-formed answers to typed calls: the transport hands the result to the decoder (which returns a value or an error)
    let docs := (arrOf j "docs").toList
    let via ← getStr j "via"
    let next ← getNat j "next"
    let cls (o : Option CallOut) : Json := match o with
      | some (.ok _) => Json.str "returned"
      | some .rpcError => Json.str "returned"
      | o => callJson o
    if via == "json" then
      let outs ← docs.mapM (fun d => do pure (cls (some (jsonBody 200 (← payloadOfJson d)))))
      pure (Json.mkObj [("decoded", Json.arr outs.toArray), ("next", nextJson true)])
    else
      let (st, outs, _) ← docs.foldlM (fun (acc : StdioSt × List Json × Nat) d => do
        let body ← payloadOfJson d
        let (st, os, i) := acc
        let fr := match body.json with | some v => Frame.value v | none => Frame.garbage
        let st' := stdioRun F [] { st with tbl := Table.init [i + 2] } [fr]
        pure (st', os ++ [cls (st'.tbl.got (i + 2))], i + 1)) (({ tbl := Table.init [] } : StdioSt), [], 0)
      let st' := stdioRun F [] { st with tbl := Table.init [next] } [.value (wfResult next (okResult "next"))]
      pure (Json.mkObj [("decoded", Json.arr outs.toArray), ("next", callJson (st'.tbl.got next))])
  | _ => throw s!"readers: unknown op {op}"

end Mcp.Drv.Readers
