import Mcp.Drv.Util
import Mcp.Model.ReqPaths
import Mcp.Gen.ReqPaths
namespace Mcp.Drv.ReqPaths
open Lean Mcp.Drv Mcp.ReqPaths Mcp.Str

def clientOfStr : String → Except String Client
  | "streamable" => pure .streamable | "sse" => pure .sse
  | s => throw s!"client {s}"

def kindOfStr : String → Except String Kind
  | "request" => pure .request | "notification" => pure .notification | "answer" => pure .answer
  | "stream" => pure .stream | "delete" => pure .delete | "connect" => pure .connect
  | s => throw s!"kind {s}"

def kindStr : Kind → String
  | .request => "request" | .notification => "notification" | .answer => "answer"
  | .stream => "stream" | .delete => "delete" | .connect => "connect"

def opOfStr : String → Except String Op
  | "initialize" => pure .initialize
  | "initFail503" | "initFailType" => pure .initFailSent   -- first request answered 503 / with a useless content type
  | "initFailRefused" => pure .initFailRefused
  | "tools" => pure .tools | "toolsRetry" => pure .toolsRetry
  | "notify" => pure .notify | "roots" => pure .roots | "rootsUnknown" => pure .rootsUnknown
  | "terminate" => pure .terminate
  | "rootsSlowEnd" | "rootsSlowReset" => pure .rootsEnd   -- the server closes the stream / resets the connection
  | "reopen" => pure .reopen
  | "toolsErr404" | "toolsErr400" | "toolsErr401" | "toolsErr403" | "toolsErr500" | "toolsErr503" => pure .toolsFail
  | "notifyErr404" | "notifyErr400" | "notifyErr401" | "notifyErr403" | "notifyErr500" | "notifyErr503" => pure .notifyFail
  | "rootsSlowReplace" => pure .rootsReplace
  | s => throw s!"op {s}"

def verbStr : Verb → String
  | .get => "GET" | .post => "POST" | .delete => "DELETE" | .unknown => "unknown"

def viaStr : ViaObs → String
  | .custom => "custom" | .factory => "factory" | .bare => "bare" | .unknown => "unknown"

def ctxStr : CtxObs → String
  | .caller => "caller" | .handshake => "handshake" | .none => "none" | .other => "other" | .unseen => "unseen"

def cfgOfJson (j : Json) : Except String Cfg := do
  pure ⟨← getBool j "headers", ← getBool j "before", ← getBool j "handler", ← getBool j "path", ← getBool j "client"⟩

def jsonOfObs (k : Kind) (o : Obs) (seen : Option Nat) : Json :=
  Json.mkObj [("seen", match seen with | some v => Json.num (JsonNumber.fromNat v) | none => Json.null),
    ("fn", jsonOfText o.fn), ("kind", Json.str (kindStr k)), ("verb", Json.str (verbStr o.verb)),
    ("path", Json.bool o.pathOk), ("headers", Json.bool o.headersOk), ("session", Json.bool o.sessionOk),
    ("via", Json.str (viaStr o.via)), ("client", Json.bool o.client),
    ("before", Json.num (JsonNumber.fromNat o.before)), ("ctx", Json.str (ctxStr o.ctx))]

def handle (op : String) (j : Json) : Except String Json := do
  let ps := Mcp.Gen.ReqPaths.paths
  match op with
  | "trace" =>
    let c ← clientOfStr (← getStr j "client")
    let cfg ← cfgOfJson (← j.getObjVal? "cfg")
    let hist ← (← getArr j "hist").toList.mapM (fun (x : Json) => do opOfStr (← x.getStr?))
    -- the i-th operation (1-based) is called with context value i
    let histV := (List.range hist.length).zipWith (fun i op => (op, i + 1)) hist
    let outs ← (trace cfg ps c {} histV).mapM (fun o => match o with
      | some (k, obs, seen) => pure (jsonOfObs k obs seen)
      | none => throw "a request kind of this client has no request-building function in the regenerated table")
    pure (Json.mkObj [("reqs", Json.arr outs.toArray)])
  | "blocked" =>
    let c ← clientOfStr (← getStr j "client")
    let k ← kindOfStr (← getStr j "kind")
    match pathFor ps c k with
    | none => throw "no request-building function for this kind in the regenerated table"
    | some p =>
      let a := attempt k p
      pure (Json.mkObj [("fn", jsonOfText p.fn), ("before", Json.num (JsonNumber.fromNat a.before)),
        ("sent", Json.bool a.sent),
        ("failed", match a.failed with | some b => Json.bool b | none => Json.null)])
  | "options" =>
    -- a client built from a list of options, in order: {"k":"headers","h":[[key,[values]],…]} | {"k":"before","id":n} |
    -- {"k":"handler","id":n} | {"k":"path","good":bool}
    let c ← clientOfStr (← getStr j "client")
    let opts ← (← getArr j "opts").toList.mapM (fun (o : Json) => do pure (← getStr o "k", o))
    let hdrs ← (opts.filter (·.1 == "headers")).mapM (fun (_, o) => do
      (← getArr o "h").toList.mapM (fun (e : Json) => do
        let a ← e.getArr?
        let key ← (a[0]!).getStr?
        let vals ← (← (a[1]!).getArr?).toList.mapM (fun (v : Json) => do pure (ofString (← v.getStr?)))
        pure (ofString key, vals)))
    let ids (kind : String) : Except String (List Nat) :=
      (opts.filter (·.1 == kind)).mapM (fun (_, o) => getNat o "id")
    let paths ← (opts.filter (·.1 == "path")).mapM (fun (_, o) => getBool o "good")
    let eff := effHeaders Mcp.Gen.ReqPaths.optFacts c hdrs
    let natOrNull : Option Nat → Json := fun
      | some n => Json.num (JsonNumber.fromNat n)
      | none => Json.null
    pure (Json.mkObj [
      ("headers", Json.mkObj ((hdrKeys hdrs).filterMap (fun k => (eff.lookup k).map (fun vs =>
        (Mcp.Str.toString k, Json.arr (vs.map jsonOfText).toArray))))),
      ("before", natOrNull (lastWins (← ids "before"))),
      ("handler", natOrNull (lastWins (← ids "handler"))),
      ("path", match lastWins paths with | some g => Json.bool g | none => Json.bool true)])
  | _ => throw s!"reqpaths: unknown op {op}"

end Mcp.Drv.ReqPaths
