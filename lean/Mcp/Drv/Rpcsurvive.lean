import Mcp.Drv.Rpc
/-! Component "rpcsurvive" (C06): the same model operations as component "rpc". -/
namespace Mcp.Drv.Rpcsurvive
def handle (op : String) (j : Lean.Json) : Except String Lean.Json := Mcp.Drv.Rpc.handle op j
end Mcp.Drv.Rpcsurvive
