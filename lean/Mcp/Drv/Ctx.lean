import Mcp.Drv.Util
import Mcp.Model.Ctx
namespace Mcp.Drv.Ctx
open Lean Mcp.Drv Mcp.Ctx

/-
  Op line (one per request; schedule-free: the model predicts what the stages of THIS request observe)
    {"c":"ctx.req","mode":"stateful"|"stateless"|"sessionsOff"|"sse",
     "fns":[{"id":n,"hdr":n,"key":n,"sees":n},…]          registered context functions, registration order
     "mws":[n,…]                                          observing middlewares, registration order
     "roleKey":n, "keys":[n,…]                            key the filters read; keys the stages report
     "reg":{"tools":[{"name":s,"hide":[s,…]},…],"prompts":[…],"resources":[…]}
     "hdrs":[[n,s],…], "sid":s, "acceptSSE":b, "method":"tools/list"|"prompts/list"|"resources/list"|"tools/call"|
                                                         "prompts/get"|"resources/read"|"ping"|"notify"}
  Outcome
    {"obs":[{"stage":"mw:<id>"|"filter"|"handler"|"notif","vals":{"<key>":s,…},"sid":s|null,"csid":s|null,
             "srv":"streamable"|"sse"|null,"snd":null|{"k":"noop"}|{"k":"sse","sid":s}},…],
     "list":[s,…]|null}
-/

def fnOfJson (j : Json) : Except String CtxFn := do
  pure ⟨← getNat j "id", ← getNat j "hdr", ← getNat j "key", ← getNat j "sees"⟩

def entryOfJson (j : Json) : Except String Entry := do
  let hide ← (← getArr j "hide").toList.mapM textOfJson
  pure ⟨← getText j "name", hide⟩

def entriesOfJson (j : Json) (k : String) : Except String (List Entry) := do
  (← getArr j k).toList.mapM entryOfJson

def modeOfStr : String → Except String Mode
  | "stateful" => pure .stateful
  | "stateless" => pure .stateless
  | "sessionsOff" => pure .sessionsOff
  | "sse" => pure .sse
  | s => throw s!"mode {s}"

def methodOfStr : String → Except String Method
  | "tools/list" => pure .listTools
  | "prompts/list" => pure .listPrompts
  | "resources/list" => pure .listResources
  | "tools/call" => pure .callTool
  | "prompts/get" => pure .getPrompt
  | "resources/read" => pure .readResource
  | "ping" => pure .ping
  | "notify" => pure .notify
  | s => throw s!"method {s}"

def hdrOfJson (j : Json) : Except String (Nat × Mcp.Str.Text) := do
  match ← j.getArr? with
  | #[k, v] => pure (← k.getNat?, ← textOfJson v)
  | _ => throw "header pair"

def optText : Option Mcp.Str.Text → Json
  | none => Json.null
  | some t => jsonOfText t

def srvJ : Option Srv → Json
  | none => Json.null
  | some .streamable => "streamable"
  | some .sse => "sse"

def sndJ : Option Sender → Json
  | none => Json.null
  | some .noop => Json.mkObj [("k", "noop")]
  | some (.sse sid) => Json.mkObj [("k", "sse"), ("sid", jsonOfText sid)]

def stageJ : Stage → Json
  | .mw id => Json.str s!"mw:{id}"
  | .filter => "filter"
  | .handler => "handler"
  | .notif => "notif"

def obsJ (keys : List Nat) (o : Obs) : Json :=
  Json.mkObj [("stage", stageJ o.stage),
    ("vals", Json.mkObj (keys.map (fun k => (toString k, jsonOfText (o.ctx.get k))))),
    ("sid", optText o.ctx.session), ("csid", optText o.ctx.client), ("srv", srvJ o.ctx.server), ("snd", sndJ o.ctx.sender)]

def handle (op : String) (j : Json) : Except String Json := do
  match op with
  | "req" =>
    let mode ← modeOfStr (← getStr j "mode")
    let fns ← (← getArr j "fns").toList.mapM fnOfJson
    let mws ← (← getArr j "mws").toList.mapM (fun x => x.getNat?)
    let keys ← (← getArr j "keys").toList.mapM (fun x => x.getNat?)
    let roleKey ← getNat j "roleKey"
    let rj ← j.getObjVal? "reg"
    let reg : Registry := { tools := ← entriesOfJson rj "tools", prompts := ← entriesOfJson rj "prompts",
                            resources := ← entriesOfJson rj "resources" }
    let hdrs ← (← getArr j "hdrs").toList.mapM hdrOfJson
    let req : Req := { hdrs := hdrs, sid := ← getText j "sid", acceptSSE := ← getBool j "acceptSSE",
                       method := ← methodOfStr (← getStr j "method") }
    let cfg : Cfg := { mode := mode, fns := fns, mws := mws, roleKey := roleKey }
    let r := runAlone codeFacts cfg reg req
    let list := match r.resp with
      | none => Json.null
      | some l => Json.arr (l.map jsonOfText).toArray
    pure (Json.mkObj [("obs", Json.arr (r.obs.map (obsJ keys)).toArray), ("list", list)])
  | _ => throw s!"ctx: unknown op {op}"

end Mcp.Drv.Ctx
