import Mcp.Drv.Util
import Mcp.Model.Lifecycle
import Mcp.Gen.LifecycleFacts
namespace Mcp.Drv.Lifecycle
open Lean Mcp.Drv Mcp.Lifecycle

def regOfJson (t : String) (j : Json) : Except String SOp := do
  match t with
  | "init" => pure (.init (← getText j "v"))
  | "tool" => pure (.reg (.tool (← getText j "n")))
  | "untool" => pure (.reg (.untool (← getText j "n")))
  | "prompt" => pure (.reg (.prompt (← getText j "n")))
  | "resource" => pure (.reg (.resource (← getText j "n")))
  | "template" => pure (.reg (.template (← getText j "n")))
  | t => throw s!"server op {t}"

def kindOfStr : String → Except String Kind
  | "streamable" => pure .streamable | "sse" => pure .sse | "stdio" => pure .stdio
  | s => throw s!"kind {s}"

def envOfStr : String → Except String InitEnv
  | "ok" => pure .ok | "netErr" => pure .netErr | "http500" => pure .http500 | "rpcErr" => pure .rpcErr
  | "badResult" => pure .badResult | "dropNotif" => pure .dropNotif | "noAnswer" => pure .noAnswer
  | s => throw s!"env {s}"

def opKOfStr : String → Except String OpK
  | "ListTools" => pure .listTools | "CallTool" => pure .callTool | "ListPrompts" => pure .listPrompts
  | "GetPrompt" => pure .getPrompt | "ListResources" => pure .listResources | "ReadResource" => pure .readResource
  | s => throw s!"operation {s}"

def opOfJson (j : Json) : Except String Op := do
  match ← getStr j "t" with
  | "init" => pure (.init (← envOfStr (← getStr j "e")))
  | "req" => pure (.req (← opKOfStr (← getStr j "k")) (← getBool j "fail"))
  | "roots" => pure .rootsChanged
  | "sendInitialized" => pure .sendInitialized
  | "terminate" => pure (.terminate (match j.getObjVal? "fault" with | .ok (Json.bool b) => b | _ => false))
  | "restart" => pure .restart
  | "close" => pure (.close (match j.getObjVal? "fault" with | .ok (Json.bool b) => b | _ => false))
  | t => throw s!"client op {t}"

def strOfRes : Res → String
  | .ok => "ok" | .notInitialized => "notInitialized" | .alreadyInitialized => "alreadyInitialized"
  | .rpcError => "rpcError" | .failed => "failed" | .na => "na"

def strOfState : CState → String
  | .disconnected => "disconnected" | .connected => "connected" | .initialized => "initialized"

def strOfMsg : Msg → String
  | .get => "GET" | .delete => "DELETE" | .initReq => "initialize" | .initNotif => "notifications/initialized"
  | .rootsChanged => "notifications/roots/list_changed"
  | .req .listTools => "tools/list" | .req .callTool => "tools/call" | .req .listPrompts => "prompts/list"
  | .req .getPrompt => "prompts/get" | .req .listResources => "resources/list" | .req .readResource => "resources/read"

def handle (op : String) (j : Json) : Except String Json := do
  match op with
  | "server" =>
    let cj ← j.getObjVal? "cfg"
    let c : SrvCfg := ⟨← getText cj "name", ← getText cj "version", Mcp.Gen.supportedVersions, Mcp.Gen.defaultProtocolVersion⟩
    let ops ← (← getArr j "ops").toList.mapM (fun o => do regOfJson (← getStr o "t") o)
    let outs := (serverRun c {} ops).map (fun a =>
      Json.mkObj [("protocol", jsonOfText a.protocol), ("name", jsonOfText a.name), ("version", jsonOfText a.version),
        ("caps", Json.mkObj [("tools", Json.bool a.caps.tools), ("prompts", Json.bool a.caps.prompts),
          ("resources", Json.bool a.caps.resources)])])
    pure (Json.mkObj [("outs", Json.arr outs.toArray)])
  | "client" =>
    let k ← kindOfStr (← getStr j "kind")
    let ops ← (← getArr j "ops").toList.mapM opOfJson
    let G := guardsOf Mcp.Gen.clientOps Mcp.Gen.clientLifecycleFacts k
    let outs := (trace G k {} ops).map (fun x =>
      Json.mkObj [("res", Json.str (strOfRes x.1)), ("state", Json.str (strOfState x.2.1)),
        ("wire", Json.arr (x.2.2.map (fun m => Json.str (strOfMsg m))).toArray)])
    pure (Json.mkObj [("outs", Json.arr outs.toArray), ("sends", Json.num (JsonNumber.fromNat (final G k {} ops).sends))])
  | _ => throw s!"lifecycle: unknown op {op}"

end Mcp.Drv.Lifecycle
