import Mcp.Drv.Util
import Mcp.Model.Json
import Mcp.Model.Content
import Mcp.Model.Escape
namespace Mcp.Drv.Content
open Lean Mcp.Drv Mcp.Str Mcp.Content

abbrev MJson := Mcp.Json.Json

/-! ## generic JSON:  Lean.Json ⇄ model Json -/

def normNum (m : Int) : Nat → MJson
  | 0 => .int m
  | e + 1 => if m % 10 == 0 then normNum (m / 10) e else .dec m (e + 1)

partial def ofLean : Json → MJson
  | .null => .null
  | .bool b => .bool b
  | .num n => normNum n.mantissa n.exponent
  | .str s => .str (ofString s)
  | .arr a => .arr (a.toList.map ofLean)
  | .obj kvs => .obj (kvs.toList.map (fun (kv : String × Json) => (ofString kv.1, ofLean kv.2)))

partial def toLean : MJson → Json
  | .null => .null
  | .bool b => .bool b
  | .int i => .num (JsonNumber.fromInt i)
  | .dec m e => .num ⟨m, e⟩
  | .str s => jsonOfText s
  | .arr xs => .arr (xs.map toLean).toArray
  | .obj kvs => Json.mkObj (kvs.map (fun kv => (Mcp.Str.toString kv.1, toLean kv.2)))

/-! ## value specs (shared with harness/cmd/content: same shapes on both sides) -/

def optVal (j : Json) (k : String) : Option Json := getOpt j k

def annOfSpec (j : Json) : Except String Annotations := do
  let aud ← (← getArr j "aud").toList.mapM textOfJson
  let p ← j.getObjVal? "pri"
  pure ⟨aud, ⟨← getInt p "m", ← getNat p "e"⟩⟩

def annOpt (j : Json) : Except String (Option Annotations) :=
  match optVal j "ann" with
  | none => pure none
  | some a => do pure (some (← annOfSpec a))

def resOfSpec (j : Json) : Except String ResourceContents := do
  match ← getStr j "k" with
  | "text" => pure (.text (← getText j "uri") (← getText j "mime") (← getText j "text"))
  | "blob" => pure (.blob (← getText j "uri") (← getText j "mime") (← getText j "blob"))
  | k => throw s!"resource kind {k}"

def contentOfSpec (j : Json) : Except String Content := do
  match ← getStr j "k" with
  | "text" => pure (.text (← getText j "text") (← annOpt j))
  | "image" => pure (.image (← getText j "data") (← getText j "mime") (← annOpt j))
  | "audio" => pure (.audio (← getText j "data") (← getText j "mime") (← annOpt j))
  | "embedded" => pure (.embedded (← resOfSpec (← j.getObjVal? "res")) (← annOpt j))
  | k => throw s!"content kind {k}"

def objOfSpec (j : Json) : Except String Mcp.Json.Obj :=
  match ofLean j with
  | .obj kvs => pure kvs
  | .null => pure []
  | _ => throw "object expected"

def listOpt {α} (j : Json) (k : String) (f : Json → Except String α) : Except String (Option (List α)) :=
  match optVal j k with
  | none => pure none
  | some a => do pure (some (← (← a.getArr?).toList.mapM f))

def resultOfSpec (j : Json) : Except String CallToolResult := do
  let structured := match j.getObjVal? "structured" with
    | .ok (.null) => none
    | .ok s => (s.getObjVal? "some").toOption.map ofLean
    | .error _ => none
  pure ⟨← objOfSpec (j.getObjValD "meta"), ← listOpt j "content" contentOfSpec, structured, ← getBool j "isError"⟩

def msgOfSpec (j : Json) : Except String PromptMessage := do
  let c ← match optVal j "content" with
    | none => pure none
    | some c => do pure (some (← contentOfSpec c))
  pure ⟨← getText j "role", c⟩

def promptOfSpec (j : Json) : Except String GetPromptResult := do
  pure ⟨← objOfSpec (j.getObjValD "meta"), ← getText j "desc", ← listOpt j "messages" msgOfSpec⟩

def optBool (j : Json) (k : String) : Except String (Option Bool) :=
  match optVal j k with
  | none => pure none
  | some b => do pure (some (← b.getBool?))

def toolOfSpec (j : Json) : Except String ToolDesc := do
  let ann ← match optVal j "ann" with
    | none => pure none
    | some a => do pure (some (⟨← getText a "title", ← optBool a "ro", ← optBool a "de", ← optBool a "id", ← optBool a "ow"⟩ : ToolAnnotations))
  pure ⟨← getText j "name", ← getText j "desc", (optVal j "in").map ofLean, (optVal j "out").map ofLean, ann⟩

/-! ## views: decoded values back in spec shape (an empty list and nil are both `null`) -/

def txt (t : Text) : Json := jsonOfText t
def jInt (i : Int) : Json := Json.num (JsonNumber.fromInt i)

def specOfAnn : Option Annotations → Json
  | none => .null
  | some a => Json.mkObj [("aud", .arr (a.audience.map txt).toArray), ("pri", Json.mkObj [("m", jInt a.priority.m), ("e", jInt a.priority.e)])]

def specOfRes : ResourceContents → Json
  | .text u m t => Json.mkObj [("k", "text"), ("uri", txt u), ("mime", txt m), ("text", txt t)]
  | .blob u m b => Json.mkObj [("k", "blob"), ("uri", txt u), ("mime", txt m), ("blob", txt b)]

def specOfContent : Content → Json
  | .text s a => Json.mkObj [("k", "text"), ("text", txt s), ("ann", specOfAnn a)]
  | .image d m a => Json.mkObj [("k", "image"), ("data", txt d), ("mime", txt m), ("ann", specOfAnn a)]
  | .audio d m a => Json.mkObj [("k", "audio"), ("data", txt d), ("mime", txt m), ("ann", specOfAnn a)]
  | .embedded r a => Json.mkObj [("k", "embedded"), ("res", specOfRes r), ("ann", specOfAnn a)]

def specOfList {α} (f : α → Json) : Option (List α) → Json
  | none => .null
  | some [] => .null
  | some xs => .arr (xs.map f).toArray

def specOfResult (r : CallToolResult) : Json :=
  Json.mkObj [("meta", toLean (.obj r.metaMap)), ("content", specOfList specOfContent r.content),
    ("structured", match r.structured with | none => .null | some v => Json.mkObj [("some", toLean v)]),
    ("isError", .bool r.isError)]

def specOfMsg (m : PromptMessage) : Json :=
  Json.mkObj [("role", txt m.role), ("content", match m.content with | none => .null | some c => specOfContent c)]

def specOfPrompt (r : GetPromptResult) : Json :=
  Json.mkObj [("meta", toLean (.obj r.metaMap)), ("desc", txt r.description), ("messages", specOfList specOfMsg r.messages)]

def specOfOptBool : Option Bool → Json
  | none => .null
  | some b => .bool b

def specOfTool (t : ToolDesc) : Json :=
  Json.mkObj [("name", txt t.name), ("desc", txt t.description),
    ("in", match t.inputSchema with | none => .null | some s => toLean s),
    ("out", match t.outputSchema with | none => .null | some s => toLean s),
    ("ann", match t.annotations with
      | none => .null
      | some a => Json.mkObj [("title", txt a.title), ("ro", specOfOptBool a.readOnly), ("de", specOfOptBool a.destructive),
          ("id", specOfOptBool a.idempotent), ("ow", specOfOptBool a.openWorld)])]

def outcome {α} (f : α → Json) : Except Err α → Json
  | .ok v => Json.mkObj [("ok", f v)]
  | .error e => Json.mkObj [("err", txt e.msg)]

/-- structural equality on model JSON (driver only; used to look a schema up in the op's `bad` list) -/
partial def jeq : MJson → MJson → Bool
  | .null, .null => true
  | .bool a, .bool b => a == b
  | .int a, .int b => a == b
  | .dec a e, .dec b f => a == b && e == f
  | .str a, .str b => a == b
  | .arr a, .arr b => a.length == b.length && (a.zip b).all (fun p => jeq p.1 p.2)
  | .obj a, .obj b => a.length == b.length && (a.zip b).all (fun p => p.1.1 == p.2.1 && jeq p.1.2 p.2.2)
  | _, _ => false

/-- level 1 outcome: the encoded value as canonical JSON and as the exact compact text `json.Marshal` prints -/
def encOut (v : MJson) : Json := Json.mkObj [("json", toLean v), ("text", txt (Mcp.Escape.render v))]

def handle (op : String) (j : Json) : Except String Json := do
  match op with
  -- level 1: struct tags
  | "enc.result" => pure (encOut (encodeResult (← resultOfSpec (← j.getObjVal? "v"))))
  | "enc.prompt" => pure (encOut (encodeGetPrompt (← promptOfSpec (← j.getObjVal? "v"))))
  | "enc.resource" => pure (encOut (encodeReadResource (← listOpt j "v" resOfSpec)))
  -- (schemas are printed by kin-openapi in its own key order: canonical JSON only)
  | "enc.tools" => pure (Json.mkObj [("json", toLean (encodeListTools (← (← getArr j "v").toList.mapM toolOfSpec)))])
  -- level 2: decoders on arbitrary JSON
  | "dec.result" => pure (outcome specOfResult (parseResult (ofLean (j.getObjValD "raw"))))
  | "dec.prompt" => pure (outcome specOfPrompt (parseGetPrompt (ofLean (j.getObjValD "raw"))))
  | "dec.resource" => pure (outcome (specOfList specOfRes) (parseReadResource (ofLean (j.getObjValD "raw"))))
  | "dec.tools" =>
    let bad := ((getArr j "bad").toOption.getD #[]).toList.map ofLean
    let r := parseListTools (fun s => bad.any (jeq s)) (ofLean (j.getObjValD "raw"))
    pure (outcome (fun (p : List ToolDesc × Text) => Json.mkObj [("tools", .arr (p.1.map specOfTool).toArray), ("next", txt p.2)]) r)
  -- level 3: end to end = decode ∘ encode
  | "e2e.tool" => pure (outcome specOfResult (parseResult (encodeResult (← resultOfSpec (← j.getObjVal? "v")))))
  | "e2e.prompt" => pure (outcome specOfPrompt (parseGetPrompt (encodeGetPrompt (← promptOfSpec (← j.getObjVal? "v")))))
  | "e2e.resource" =>
    pure (outcome (specOfList specOfRes) (parseReadResource (encodeReadResource (← listOpt j "v" resOfSpec))))
  | "e2e.tools" =>
    let r := parseListTools (fun _ => false) (encodeListTools (← (← getArr j "v").toList.mapM toolOfSpec))
    pure (outcome (fun (p : List ToolDesc × Text) => Json.mkObj [("tools", .arr (p.1.map specOfTool).toArray), ("next", txt p.2)]) r)
  -- routing of the response that carries the value (the envelope decides, never the payload): the classifier of the mode
  | "e2e.route" =>
    let v ← j.getObjVal? "v"
    let res ← match ← getStr j "path" with
      | "tool" => pure (encodeResult (← resultOfSpec v))
      | "prompt" => pure (encodeGetPrompt (← promptOfSpec v))
      | k => throw s!"path {k}"
    let env := responseEnvelope (.int 1) res
    let kind := if (← getStr j "mode") == "legacy-sse" then classifyLegacySSE env else classifyMessageType env
    pure (Json.mkObj [("kind", match kind with
      | .request => "request" | .response => "response" | .error => "error" | .notification => "notification" | .invalid => "invalid")])
  -- a registration history: the listing after every `list` step, the answering version after every `call` step
  -- (descriptor + handler = the version tag; unordered kinds are compared sorted by key)
  | "history" =>
    let keepFirst := (j.getObjValD "keepFirst").getBool?.toOption.getD false
    let ordered := (j.getObjValD "ordered").getBool?.toOption.getD false
    let steps ← getArr j "steps"
    let mut r : Registry.Reg Text := []
    let mut lists : Array Json := #[]
    let mut calls : Array Json := #[]
    for st in steps do
      match ← getStr st "op" with
      | "reg" => r := Registry.step keepFirst r (.reg (← getText st "name") (← getText st "tag"))
      | "unreg" => r := Registry.step keepFirst r (.unreg (← (← getArr st "names").toList.mapM textOfJson))
      | "list" =>
        let shown := if ordered then r else (r.toArray.qsort (fun a b => a.1 < b.1)).toList
        lists := lists.push (.arr (shown.map (fun p => Json.arr #[txt p.1, txt p.2])).toArray)
      | "call" => calls := calls.push (match Registry.find r (← getText st "name") with | some t => txt t | none => .null)
      | k => throw s!"history step {k}"
    pure (Json.mkObj [("lists", .arr lists), ("calls", .arr calls)])
  | "e2e.error" =>
    let p ← match ← getStr j "path" with
      | "tool" => pure (Path.tool (← getText j "tool"))
      | "prompt" => pure Path.prompt
      | "resource" => pure Path.resource
      | k => throw s!"path {k}"
    pure (Json.mkObj [("err", txt (clientErrorText p (← getText j "msg")))])
  -- string and SSE layer
  | "escape" => pure (Json.mkObj [("esc", txt (Mcp.Escape.escape (← getText j "s")))])
  | "render" => pure (Json.mkObj [("text", txt (Mcp.Escape.render (ofLean (j.getObjValD "v"))))])
  | "sse.write" => pure (Json.mkObj [("out", txt (Mcp.Escape.writeEvent (← getText j "id") (← getText j "data")))])
  | "sse.format" => pure (Json.mkObj [("out", txt (Mcp.Escape.formatSSEEvent (← getText j "event") (← getText j "data")))])
  | "sse.parse" =>
    let evs := Mcp.Escape.parseSSE (← getText j "stream")
    pure (Json.mkObj [("events", .arr (evs.map (fun e => Json.mkObj [("id", txt e.1), ("data", txt e.2)])).toArray)])
  | _ => throw s!"content: unknown op {op}"

end Mcp.Drv.Content
