import Mcp.Drv.Util
import Mcp.Model.Middleware
namespace Mcp.Drv.Middleware
open Lean Mcp.Drv Mcp.Middleware

/-
  Op lines
    {"c":"middleware.run","tr":"streamable"|"sse","opts":[[stage,…],…],"core":core,"hobs":bool,"mods":[…]}
    {"c":"middleware.notify","tr":…,"opts":[[stage,…],…]}
  optional in run: "inflight":n — the request arrives while n other requests of its session are being processed (the model
    admits it through `codeGate`, the admission gate read off the regenerated dispatch shapes)
  optional in run: "order":["mw:0","WithSSEServerLogger","mw:1","mw:empty",…] — the full option order of the constructor call:
    "mw:<i>" = the middleware option opts[i], "mw:empty" = a middleware option without arguments, anything else = another
    option of that name. With it the model registers through `serveX … codeWriters` (the regenerated writers of the handler field).
  stage = {"id":n,"b":"pass"|"modReq"|"modRes"} | {"id":n,"b":"shortOk","r":n} | {"id":n,"b":"shortRpc","code":i,"msg":s}
        | {"id":n,"b":"fail","e":s}
  core  = {"k":"ok","echo":bool} | {"k":"rpc","code":i,"msg":s} | {"k":"err","e":s}     (the method handler, measured
          on a server without middlewares)
  Outcome: {"trace":[event…],"resp":resp|null}
-/

def natArr (l : List Nat) : Json := Json.arr (l.toArray.map (fun n => Json.num (JsonNumber.fromNat n)))
def intJ (i : Int) : Json := Json.num (JsonNumber.fromInt i)

def natList (j : Json) (k : String) : Except String (List Nat) := do
  (← getArr j k).toList.mapM (fun x => x.getNat?)

def stageOfJson (j : Json) : Except String Stage := do
  let id ← getNat j "id"
  match ← getStr j "b" with
  | "pass" => pure ⟨id, .pass⟩
  | "modReq" => pure ⟨id, .modReq⟩
  | "modRes" => pure ⟨id, .modRes⟩
  | "shortOk" => pure ⟨id, .short (.okv (← getNat j "r"))⟩
  | "shortRpc" => pure ⟨id, .short (.rpc (← getInt j "code") (← getText j "msg"))⟩
  | "fail" => pure ⟨id, .fail (← getText j "e")⟩
  | b => throw s!"behaviour {b}"

def optsOfJson (j : Json) : Except String (List (List Stage)) := do
  (← getArr j "opts").toList.mapM (fun g => do (← g.getArr?).toList.mapM stageOfJson)

def coreOfJson (j : Json) : Except String (Req → Out) := do
  match ← getStr j "k" with
  | "ok" =>
    let echo ← getBool j "echo"
    pure (fun r => .ok (.handler (if echo then r.mods else [])) [])
  | "rpc" =>
    let c ← getInt j "code"
    let m ← getText j "msg"
    pure (fun _ => .rpcErr c m [])
  | "err" =>
    let e ← getText j "e"
    pure (fun _ => .err e)
  | k => throw s!"core {k}"

def optOfStr (groups : List (List Stage)) (s : String) : Except String Opt :=
  if s == "mw:empty" then pure (.mw [])
  else if s.startsWith "mw:" then
    match (s.drop 3).toNat? with
    | some i =>
      match groups[i]? with
      | some g => pure (.mw g)
      | none => throw s!"order: no middleware option {i}"
    | none => throw s!"order entry {s}"
  else pure (.other (Mcp.Str.ofString s))

def trOfStr : String → Except String Transport
  | "streamable" => pure .streamable
  | "sse" => pure .sse
  | s => throw s!"transport {s}"

def valJ : Val → Json
  | .handler echo => Json.mkObj [("handler", natArr echo)]
  | .short r => Json.mkObj [("short", Json.num (JsonNumber.fromNat r))]

def outJ : Out → Json
  | .ok v rm => Json.mkObj [("k", "ok"), ("v", valJ v), ("rm", natArr rm)]
  | .rpcErr c m rm => Json.mkObj [("k", "rpc"), ("code", intJ c), ("msg", jsonOfText m), ("rm", natArr rm)]
  | .err e => Json.mkObj [("k", "err"), ("e", jsonOfText e)]

def evJ : Ev → Json
  | .before i mods => Json.mkObj [("t", "b"), ("id", Json.num (JsonNumber.fromNat i)), ("mods", natArr mods)]
  | .after i o => Json.mkObj [("t", "a"), ("id", Json.num (JsonNumber.fromNat i)), ("o", outJ o)]
  | .handler mods => Json.mkObj [("t", "h"), ("mods", natArr mods)]

def respJ : Option Resp → Json
  | none => Json.null
  | some (.result v rm) => Json.mkObj [("k", "result"), ("v", valJ v), ("rm", natArr rm)]
  | some (.error c m rm) => Json.mkObj [("k", "error"), ("code", intJ c), ("msg", jsonOfText m), ("rm", natArr rm)]

def handle (op : String) (j : Json) : Except String Json := do
  match op with
  | "run" =>
    let tr ← trOfStr (← getStr j "tr")
    let opts ← optsOfJson j
    let h ← coreOfJson (← j.getObjVal? "core")
    let hobs ← getBool j "hobs"
    let mods ← natList j "mods"
    let (t, r) ← match j.getObjVal? "order" with
      | .ok (Json.arr os) => do
        let xs ← os.toList.mapM (fun o => do optOfStr opts (← o.getStr?))
        -- every middleware option must occur exactly once, in order (otherwise the line is not a constructor call)
        if Opt.groups xs |>.filter (· ≠ []) |> (· ≠ opts.filter (· ≠ [])) then throw "order: does not list the middleware options in order"
        pure (serveX codeFacts codeWriters tr xs h (.request { mods := mods }))
      | _ => pure (serve codeFacts tr opts h (.request { mods := mods }))
    -- "inflight":n — the request arrives while n others of its session are being processed: admitted through today's gate
    let (t, r) := match (j.getObjValAs? Nat "inflight").toOption with
      | some n => if admitted (codeGate tr) n then (t, r) else ([], none)
      | none => (t, r)
    pure (Json.mkObj [("trace", Json.arr ((visible hobs t).map evJ).toArray), ("resp", respJ r)])
  | "notify" =>
    let tr ← trOfStr (← getStr j "tr")
    let opts ← optsOfJson j
    let (t, r) := serve codeFacts tr opts (fun _ => .ok (.handler []) []) .notification
    pure (Json.mkObj [("trace", Json.arr (t.map evJ).toArray), ("resp", respJ r)])
  | _ => throw s!"middleware: unknown op {op}"

end Mcp.Drv.Middleware
