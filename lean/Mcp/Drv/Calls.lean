import Mcp.Drv.Util
import Mcp.Model.Calls
import Mcp.Gen.CallFacts
namespace Mcp.Drv.Calls
open Lean Mcp.Drv Mcp.Calls

def transportOf : String → Except String Transport
  | "streamJson" => pure .streamJson
  | "streamSse" => pure .streamSse
  | "sse" => pure .sse
  | "stdio" => pure .stdio
  | s => throw s!"transport {s}"

def framingOf : String → Except String Framing
  | "length" => pure .length
  | "chunked" => pure .chunked
  | "eof" => pure .eof
  | "pipe" => pure .pipe
  | s => throw s!"framing {s}"

def posOf : String → Except String Pos
  | "none" => pure .none
  | "hdrPartial" => pure .hdrPartial
  | "hdrDone" => pure .hdrDone
  | "dataPartial" => pure .dataPartial
  | "dataLine" => pure .dataLine
  | "frameEnd" => pure .frameEnd
  | s => throw s!"pos {s}"

def faultOf : String → Except String Fault
  | "none" => pure .none
  -- the peer writes the complete final answer frame and keeps the POST's event stream open (silently or with keep-alive
  -- comments); where the reader drains the stream (a handler is registered) the peer ends it properly a moment later.
  -- For the model that is the script of `none` (`answerFully`): without a handler `.answer` is ready as soon as the answer
  -- was delivered, with one only after `bodyEnd`.  The keep-alive comments and the harness' `helper` flag (stdio: a
  -- descendant of the child still holds its stderr) are below the model's level of detail: no event of the model
  -- depends on them, the outcomes must be those of the plain script.
  | "linger" => pure .none
  | "close" => pure .close
  | "reset" => pure .reset
  | "stall" => pure .stall
  | "kill" => pure .kill
  | "exit" => pure .exit
  | "closeout" => pure .closeout
  | "http500" => pure .http500
  | "errBodyStall" => pure .http500   -- a non-200 answer whose body stalls: refused as well; the caller's context ends the read of the body
  | "http404" => pure .http500   -- any non-200 answer: a body is handed out, the exchange is refused
  | s => throw s!"fault {s}"

structure Scen where
  t : Transport
  fr : Framing
  handlers : Bool
  n : Nat
  answered : Nat
  fault : Fault
  pos : Pos
  ctx : String     -- none | cancel | deadline | timeout
  post : Bool      -- legacy SSE: the fault hits the POST exchanges
  accept : Bool    -- HTTP: every connection ends at accept, no request is read
  afterInit : Bool -- stdio: the child leaves right after the handshake, the calls are issued afterwards
  closeLive : Bool

/-- Apply the events that are enabled, in order (a disabled one is skipped: the scripts contain conditional steps). -/
def apply (f : Facts) (cfg : Cfg) (s : St) (evs : List Ev) : St :=
  evs.foldl (fun s e => (step f cfg s e).getD s) s

def allCases : List Case := [.answer, .closedChan, .ctx, .tctx, .timeout, .connErr]

def readyCases (f : Facts) (cfg : Cfg) (s : St) (c : Nat) : List Case :=
  if waiting (s.calls c) then allCases.filter (fun k => ready f cfg s (s.calls c) k) else []

def resStr : Res → String
  | .ok => "ok"
  | .err => "err"
  | .nilResult => "nil"
  | .crash => "crash"

/-- The events that hand call `i` its complete answer with a proper end. -/
def answerFully (sc : Scen) (i : Nat) : List Ev :=
  match sc.t with
  | .streamJson => [.headers i true, .deliver i]
  | .streamSse => if sc.handlers then [.headers i true, .deliver i, .bodyEnd i] else [.headers i true, .deliver i]
  | _ => [.frame i, .deliver i]

def b2n (b : Bool) : Nat := if b then 1 else 0

/-- Let a call return if a case is ready; the outcome string. `racy`: the answer may have been lost / overtaken. -/
def finish (f : Facts) (cfg : Cfg) (s : St) (c : Nat) (racy : Bool) : St × Option String :=
  match readyCases f cfg s c with
  | [] => (s, none)
  | k :: _ =>
    let s' := apply f cfg s [.complete c k]
    let r := match (s'.calls c).returned with
      | some r => resStr r
      | none => "hung"
    (s', some (if racy && r == "ok" then "ok|err" else r))

def runScript (f : Facts) (sc : Scen) : Json := Id.run do
  let cfg : Cfg := { t := sc.t, handlers := sc.handlers, getSSE := false }
  let mut s := init cfg
  let n := sc.n
  let idx := List.range n
  if sc.afterInit then
    s := apply f cfg s [.procExit, .readerExit, .watcherExit]
  s := apply f cfg s (idx.map .issue)
  let mut outs : Array String := Array.replicate n "hung"
  -- the calls answered before the fault
  for i in idx do
    if i < sc.answered then
      s := apply f cfg s (answerFully sc i)
      let (s', o) := finish f cfg s i false
      s := s'
      outs := outs.set! i (o.getD "hung")
  let rest := idx.filter (· ≥ sc.answered)
  let tl := tailOf sc.fr sc.fault
  let shared := sc.t.shared
  -- the fault
  if sc.fault = .none then
    for j in rest do
      s := apply f cfg s (answerFully sc j)
  else if sc.fault = .http500 then
    s := apply f cfg s (rest.map (fun j => Ev.headers j false))
  else if sc.afterInit then
    pure ()
  else if sc.post || sc.accept then
    if sc.fault = .close || sc.fault = .reset then
      s := apply f cfg s (rest.map .connErr)
  else
    match rest with
    | [] => pure ()
    | i :: others =>
      let dl := delivers sc.t sc.fr sc.pos tl
      if shared then
        if dl then s := apply f cfg s [.frame i, .deliver i]
      else
        if sc.pos.headersDone then s := apply f cfg s [.headers i true]
        if dl then s := apply f cfg s [.deliver i]
      -- a call that can already return does so before it would notice how the connection goes on
      let canReturn := (readyCases f cfg s i).contains .answer
      if canReturn then
        -- a reset may destroy what the client has not read yet; a cancel issued right after the write may win the race;
        -- the child's death cancels the transport context while the reader is still handing over what the child wrote: the
        -- call's select then has two ready cases
        let racy := sc.fault = .reset || sc.fault = .kill || sc.fault = .exit || (sc.fault = .stall && sc.ctx == "cancel")
        let (s', o) := finish f cfg s i racy
        s := s'
        outs := outs.set! i (o.getD "hung")
      -- how the connections go on
      if shared then
        match sc.fault with
        | .close | .reset => s := apply f cfg s [.streamEnd, .readerExit]
        | .kill | .exit => s := apply f cfg s [.procExit, .readerExit, .watcherExit]
        | .closeout => s := apply f cfg s [.streamEnd, .readerExit]
        | _ => pure ()
      else
        let broken := fun (j : Nat) => match tl with
          | .fin => if sc.t = .streamSse && dl && j = i then [Ev.bodyEnd j] else [Ev.connErr j]
          | .abort => [Ev.connErr j]
          | .stall => []
        s := apply f cfg s (broken i)
        for j in others do
          s := apply f cfg s (match tl with | .stall => [] | _ => [Ev.connErr j])
  -- the caller's context
  if sc.ctx == "cancel" then
    s := apply f cfg s (idx.map .ctxDone)
  -- whoever can return does
  for j in rest do
    if waiting (s.calls j) then
      let (s', o) := finish f cfg s j false
      s := s'
      match o with
      | some r => outs := outs.set! j r
      | none => pure ()
  -- deadline / transport timer: fire only if somebody is still waiting for them
  let stillWaiting := rest.any (fun j => waiting (s.calls j))
  if stillWaiting && (sc.ctx == "deadline" || sc.ctx == "timeout") then
    s := apply f cfg s (if sc.ctx == "deadline" then idx.map .ctxDone else idx.map .timeout)
    for j in rest do
      if waiting (s.calls j) then
        let (s', o) := finish f cfg s j false
        s := s'
        match o with
        | some r => outs := outs.set! j r
        | none => pure ()
  let pending := (idx.filter (fun c => (s.calls c).inTable)).length
  -- the harness lets the child go first unless the scenario is about Close() on a live child
  if sc.t = .stdio && !sc.closeLive then
    s := apply f cfg s [.procExit, .readerExit, .watcherExit]
  s := apply f cfg s [.closeBegin, .closeEnd, .readerExit, .watcherExit, .closeWaitExit, .starterRun]
  let ledger := Json.mkObj [
    ("bodies", Json.num (JsonNumber.fromNat (idx.filter (fun c => (s.calls c).body)).length)),
    ("stuck", Json.num (JsonNumber.fromNat (b2n s.watcher + b2n s.closeWaiter))),
    ("readers", Json.num (JsonNumber.fromNat (b2n s.reader))),
    ("child", Json.num (JsonNumber.fromNat (b2n s.child))),
    ("streams", Json.num (JsonNumber.fromNat (b2n s.stream))),
    ("answers", Json.num (JsonNumber.fromNat (b2n s.answerPost)))]
  -- the harness reports the calls that got an answer first, then the others (stdio: the child's arrival order is not visible)
  let outsL := outs.toList
  let shown := if sc.t = .stdio then outsL.filter (· == "ok") ++ outsL.filter (· != "ok") else outsL
  return Json.mkObj [("calls", Json.arr (shown.toArray.map Json.str)), ("pending", Json.num (JsonNumber.fromNat pending)), ("ledger", ledger)]

def ledgerJson (s : St) (idx : List Nat) : Json :=
  Json.mkObj [
    ("bodies", Json.num (JsonNumber.fromNat (idx.filter (fun c => (s.calls c).body)).length)),
    ("stuck", Json.num (JsonNumber.fromNat (b2n s.watcher + b2n s.closeWaiter))),
    ("readers", Json.num (JsonNumber.fromNat (b2n s.reader))),
    ("child", Json.num (JsonNumber.fromNat (b2n s.child))),
    ("streams", Json.num (JsonNumber.fromNat (b2n s.stream))),
    ("answers", Json.num (JsonNumber.fromNat (b2n s.answerPost)))]

/-- A handshake script: the initialize request is call 0; `step` says where the handshake fails; then Close() — after
    the failed (or successful) Initialize has returned, or while it is in flight (the peer answers after the Close).
    The client's state at the time of the Close is Connected / Initialized only after a handshake that succeeded and
    has returned (`Cfg.connected`); the transport is up in every case (`init`). -/
def runHandshake (f : Facts) (t : Transport) (step : String) (during getSSE : Bool) : Json := Id.run do
  -- `getHold` on the Streamable client: the handshake succeeds, the listening stream's GET is accepted and never answered
  let success := step == "none" || ((step == "getHold" || step == "getErrStall") && t.http)
  let cfg : Cfg := { t := t, getSSE := getSSE && (success || during), connected := success && !during }
  let sc : Scen := { t := t, fr := .length, handlers := false, n := 1, answered := 0, fault := .none, pos := .frameEnd, ctx := "none",
                     post := false, accept := false, afterInit := false, closeLive := true }
  let closeEvs : List Ev := [.closeBegin, .closeEnd, .readerExit, .watcherExit, .closeWaitExit]
  let mut s := apply f cfg (init cfg) [.issue 0]
  let mut initOut := "hung"
  if during && step == "endpointStall" && t = .sse && !f.selClosed then
    -- the handshake is inside `start`, waiting for the endpoint event in a select without a case that ends on Close() (fact
    -- `selClosed` of the legacy SSE client: `start`'s wait has the stream-context case and the call's wait a receive):
    -- Close() ends the stream and the reader, the wait goes on until the caller's context ends — the harness gives up first
    s := apply f cfg s closeEvs
    initOut := "hung"
  else if during then
    s := apply f cfg s closeEvs
    s := apply f cfg s (answerFully sc 0)   -- the peer answers after the Close
    let (s', o) := finish f cfg s 0 false
    s := s'
    initOut := o.getD "hung"
    if initOut == "ok" then s := apply f cfg s [.starterRun]
  else
    let clientLevel := step == "errorReply" || step == "garbage" || step == "initializedRefused" || step == "initializedReset"
    if success || clientLevel then
      s := apply f cfg s (answerFully sc 0)
    else if step == "postReset" then
      s := apply f cfg s [.connErr 0]
    else if step == "http500" then
      s := apply f cfg s (if t.http then [.headers 0 false] else [.connErr 0])
    else if step == "exit" then
      s := apply f cfg s [.procExit, .readerExit, .watcherExit]
    else if (step == "getHold" || step == "getErrStall" || step == "getErr404Stall") && t = .sse && !f.selCtx then
      -- the stream request of the handshake is not bounded by the caller's context (fact `selCtx` of the legacy SSE client
      -- includes `start`'s request): the caller's deadline is no exit of this wait; Initialize is still waiting when the
      -- harness gives up on it (the Close() that follows releases it)
      pure ()
    else
      s := apply f cfg s [.ctxDone 0]
    let (s', o) := finish f cfg s 0 false
    s := s'
    -- an error reply, a result that does not parse, a refused notifications/initialized: the transport's call returned its
    -- answer, Initialize fails one level up
    initOut := if clientLevel && o == some "ok" then "err" else o.getD "hung"
    if success then s := apply f cfg s [.starterRun]   -- the harness waits for the listening stream before it closes
    s := apply f cfg s closeEvs
  let pending := if (s.calls 0).inTable then 1 else 0
  return Json.mkObj [("init", Json.str initOut), ("pending", Json.num (JsonNumber.fromNat pending)), ("ledger", ledgerJson s [0])]

def serverOf : String → Except String Server
  | "streamable" => pure .streamable
  | "sse" => pure .sse
  | "stdio" => pure .stdio
  | s => throw s!"server {s}"

/-- Server-issued requests: `ends` lists how each request ends — answered | ctx (its caller's context ended while it was
    waiting / before it could be queued) | write (the request could not be written to the peer's stream, or its queue was
    full) | refused (no stream / session: the request is refused before it is registered). -/
def runServerReq (f : Facts) (ends : List String) : Json := Id.run do
  let cfg := srvCfg
  let mut s := init cfg
  let mut outs : Array String := #[]
  let mut i := 0
  for e in ends do
    if e == "refused" then
      outs := outs.push "err"
    else
      s := apply f cfg s [.issue i]
      if e == "answered" then s := apply f cfg s [.frame i, .deliver i]
      else if e == "write" then s := apply f cfg s [.connErr i]
      else s := apply f cfg s [.ctxDone i]
      let (s', o) := finish f cfg s i false
      s := s'
      outs := outs.push (o.getD "hung")
    i := i + 1
  let pending := ((List.range ends.length).filter (fun c => (s.calls c).inTable)).length
  return Json.mkObj [("calls", Json.arr (outs.map Json.str)), ("pending", Json.num (JsonNumber.fromNat pending))]

/-- A retrying client: the first attempt of call 0 has failed with a retryable error and the call is backing off — a wait
    over {back-off timer, caller's context} (`selCtx` includes the regenerated fact about `retry.Execute`'s wait).
    `when`: during (the caller's context ends during the back-off) | before / after (… while the first / the second attempt
    is in flight) | answered (the second attempt is answered). -/
def runBackoff (f : Facts) (t : Transport) (when_ : String) : Json := Id.run do
  let cfg : Cfg := { t := t }
  let sc : Scen := { t := t, fr := .length, handlers := false, n := 1, answered := 0, fault := .none, pos := .frameEnd, ctx := "none",
                     post := false, accept := false, afterInit := false, closeLive := false }
  let mut s := apply f cfg (init cfg) [.issue 0]
  if when_ == "answered" then s := apply f cfg s (answerFully sc 0)
  else s := apply f cfg s [.ctxDone 0]
  let (_, o) := finish f cfg s 0 false
  return Json.mkObj [("call", Json.str (o.getD "hung"))]

/-- A request of the server arrives on the client's stream; the client starts the POST with its answer, the peer stalls on
    it; then Close(). -/
def runSrvAnswer (f : Facts) (t : Transport) : Json := Id.run do
  let cfg : Cfg := { t := t, getSSE := t.http }
  let s := apply f cfg (init cfg) [.starterRun, .srvRequest, .closeBegin, .closeEnd, .readerExit, .watcherExit, .closeWaitExit]
  return Json.mkObj [("ledger", ledgerJson s [])]

/-- One call (0) stalled mid-stream — headers then silence (or part of a frame) — while other operations run on the same
    client: a call answered at once, RegisterNotificationHandler, another call answered at once, Unregister…, SetRootsProvider
    (a lock of its own), Close(); then what has become of the stalled call. -/
def runConcurrent (f : Facts) (t : Transport) : Json := Id.run do
  let cfg : Cfg := { t := t }
  let sc : Scen := { t := t, fr := .chunked, handlers := false, n := 3, answered := 0, fault := .none, pos := .frameEnd, ctx := "none",
                     post := false, accept := false, afterInit := false, closeLive := true }
  let blocked := fun (s : St) => !f.lockFree && s.heldReads > 0
  let word := fun (b : Bool) => if b then "blocked" else "ok"
  let mut s := apply f cfg (init cfg) [.issue 0]
  if t.http then s := apply f cfg s [.headers 0 true]
  s := apply f cfg s ([.issue 1] ++ answerFully sc 1)
  let (s1, b) := finish f cfg s 1 false
  s := s1
  let reg := word (blocked s)
  s := apply f cfg s [.handlerOp]
  s := apply f cfg s ([.issue 2] ++ answerFully sc 2)
  let (s2, c) := finish f cfg s 2 false
  s := s2
  let unreg := word (blocked s)
  s := apply f cfg s [.handlerOp]
  let cl := word (blocked s)
  s := apply f cfg s [.closeBegin, .closeEnd, .readerExit, .watcherExit, .closeWaitExit]
  let (_, a) := finish f cfg s 0 false
  return Json.mkObj [("callB", Json.str (b.getD "hung")), ("register", Json.str reg), ("callC", Json.str (c.getD "hung")),
    ("unregister", Json.str unreg), ("roots", Json.str "ok"), ("close", Json.str cl), ("stalled", Json.str (a.getD "waiting"))]

def handle (op : String) (j : Json) : Except String Json := do
  let tb := Mcp.Gen.CallFacts.clTables
  match op with
  | "script" =>
    let t ← transportOf (← getStr j "t")
    let sc : Scen := { t := t, fr := ← framingOf (← getStr j "framing"), handlers := ← getBool j "handlers", n := ← getNat j "n",
                       answered := ← getNat j "answered", fault := ← faultOf (← getStr j "fault"), pos := ← posOf (← getStr j "pos"),
                       ctx := ← getStr j "ctx", post := (← getStr j "where") == "post", accept := (← getStr j "where") == "accept",
                       afterInit := (← getStr j "where") == "afterInit", closeLive := ← getBool j "closeLive" }
    pure (runScript (factsOf tb t) sc)
  | "handshake" =>
    let t ← transportOf (← getStr j "t")
    pure (runHandshake (factsOf tb t) t (← getStr j "step") ((← getStr j "close") == "during") (← getBool j "getSSE"))
  | "concurrent" =>
    let t ← transportOf (← getStr j "t")
    pure (runConcurrent (factsOf tb t) t)
  | "backoff" =>
    let t ← transportOf (← getStr j "t")
    pure (runBackoff (factsOf tb t) t (← getStr j "when"))
  | "srvAnswer" =>
    let t ← transportOf (← getStr j "t")
    pure (runSrvAnswer (factsOf tb t) t)
  | "serverReq" =>
    let sv ← serverOf (← getStr j "server")
    let ends ← (← getArr j "ends").toList.mapM (fun x => match x with | Json.str s => pure s | _ => throw "ends: string expected")
    pure (runServerReq (srvFacts Mcp.Gen.CallFacts.srvInserts sv) ends)
  | "closeLive" =>
    let k ← getNat j "clients"
    let f := factsOf tb .stdio
    let cfg : Cfg := { t := .stdio }
    let s := apply f cfg (init cfg) [.issue 0, .frame 0, .deliver 0, .complete 0 .answer, .closeBegin, .closeEnd, .readerExit, .watcherExit, .closeWaitExit]
    let okN := if (s.calls 0).returned = some .ok then k else 0
    pure (Json.mkObj [("ok", Json.num (JsonNumber.fromNat okN)),
      ("ledger", Json.mkObj [("bodies", Json.num 0), ("stuck", Json.num (JsonNumber.fromNat (k * (b2n s.watcher + b2n s.closeWaiter)))),
        ("readers", Json.num (JsonNumber.fromNat (k * b2n s.reader))), ("child", Json.num (JsonNumber.fromNat (k * b2n s.child))), ("streams", Json.num 0), ("answers", Json.num 0)])])
  | "getAfterClose" =>
    let f := factsOf tb .streamJson
    let cfg : Cfg := { t := .streamJson, getSSE := true }
    let s := apply f cfg (init cfg) [.closeBegin, .closeEnd, .starterRun]
    pure (Json.mkObj [("streams", Json.num (JsonNumber.fromNat (b2n s.stream)))])
  | "doubleClose" =>
    -- Close() closes the channel of a call that is still on its way out (the witness schedule of `C08_double_close_witness`)
    let f := factsOf tb .stdio
    let cfg : Cfg := { t := .stdio }
    let s := apply f cfg (init cfg) [.issue 0, .procExit, .closeBegin, .closeEnd, .complete 0 .tctx]
    pure (Json.mkObj [("outcome", Json.str (match (s.calls 0).returned with | some r => resStr r | none => "hung"))])
  | _ => throw s!"calls: unknown op {op}"

end Mcp.Drv.Calls
