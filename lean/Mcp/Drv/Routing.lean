import Mcp.Drv.Util
import Mcp.Drv.Pending
import Mcp.Model.Routing
import Mcp.Model.RoutingToday
namespace Mcp.Drv.Routing
open Lean Mcp.Drv Mcp.Str Mcp.Routing

def srvOfStr : String → Except String Server
  | "streamable" => pure (.streamable false) | "stateless" => pure (.streamable true)
  | "legacy" => pure .legacySse | "stdio" => pure .stdio
  | s => throw s!"server {s}"

/-- driver-level ops: a model op, or "settle m" = the waiting ListRoots of m returns: `complete` if its channel holds an
    answer, else its context is cancelled (`cancel`). -/
inductive DOp where
  | op (o : Op)
  | settle (m : Nat)

def opOfJson (j : Json) : Except String Op := do
  match ← getStr j "t" with
  | "newSession" => pure .newSession
  | "delSession" => pure (.delSession (← getNat j "s"))
  | "openStream" => pure (.openStream (← getNat j "s"))
  | "breakStream" => pure (.breakStream (← getNat j "s"))
  | "closeStream" => pure (.closeStream (← getNat j "s"))
  | "send" => pure (.send (← getNat j "s") (← getNat j "m"))
  | "broadcast" => pure (.broadcast (← getNat j "m"))
  | "filtered" => do
    let sel ← (← getArr j "sel").toList.mapM (fun x => x.getNat?)
    pure (.filtered sel (← getNat j "m"))
  | "request" => pure (.request (← getNat j "s") (← getNat j "m"))
  | "postAnswer" => pure (.postAnswer (← getNat j "p") (← Mcp.Drv.Pending.wireIdOfJson (← j.getObjVal? "id")) (← getNat j "payload"))
  | "complete" => pure (.complete (← getNat j "m"))
  | "timeout" => pure (.timeout (← getNat j "m"))
  | "cancel" => pure (.cancel (← getNat j "m"))
  | t => throw s!"op {t}"

def dopOfJson (j : Json) : Except String DOp := do
  match ← getStr j "t" with
  | "settle" => pure (.settle (← getNat j "m"))
  | _ => pure (.op (← opOfJson j))

def errStr : Err → String
  | .stateless => "stateless" | .noStream => "noStream" | .writeFailed => "writeFailed" | .notFound => "notFound" | .notInitialized => "notInitialized"
  | .allFailed => "allFailed" | .unsupported => "unsupported" | .disabled => "disabled"

def retStr : Ret → String
  | .ok => "ok"
  | .err e => s!"err:{errStr e}"
  | .sid s => s!"sid:{s}"
  | .count n none => s!"count:{n}"
  | .count n (some e) => s!"count:{n}:{errStr e}"
  | .counts n f none => s!"counts:{n}:{f}"
  | .counts n f (some e) => s!"counts:{n}:{f}:{errStr e}"
  | .issued id => s!"issued:{id}"
  | .posted st => s!"posted:{st}"
  | .answered p pl => s!"answered:{p}:{pl}"
  | .failed => "failed"

def natArr (l : List Nat) : Json := Json.arr (l.toArray.map (fun n => Json.num (JsonNumber.fromNat n)))

def dedup (l : List Nat) : List Nat := l.foldl (fun acc x => if acc.contains x then acc else acc ++ [x]) []

def factsJson (f : Facts) : Json :=
  Json.mkObj [("answerChecksSession", f.answerChecksSession), ("sseInitialized", f.sseInitialized), ("deferredDelete", f.deferredDelete)]

def handle (op : String) (j : Json) : Except String Json := do
  -- the region of the model family the current source is in (regenerated facts)
  let f := Mcp.Routing.factsToday
  match op with
  | "run" =>
    let srv ← srvOfStr (← getStr j "srv")
    let start ← getNat j "start"
    let ops ← (← getArr j "ops").toList.mapM dopOfJson
    let rec go (s : St) : List DOp → St × List Ret
      | [] => (s, [])
      | .op o :: os =>
        let (s1, r) := step srv f s o
        let (s2, rs) := go s1 os
        (s2, r :: rs)
      | .settle m :: os =>
        let (s1, r) := match step srv f s (.complete m) with
          | (_, .err .disabled) => step srv f s (.cancel m)
          | x => x
        let (s2, rs) := go s1 os
        (s2, r :: rs)
    let (s, rets) := go (init srv start) ops
    let sids := dedup (s.delivered.map (·.1))
    let ob := sids.map (fun (a : Nat) => (s!"{a}", Json.mkObj [("notif", natArr (outboxTags s a .notif)), ("req", natArr (outboxTags s a .req))]))
    pure (Json.mkObj [("rets", Json.arr (rets.map (fun r => Json.str (retStr r))).toArray),
                      ("outbox", Json.mkObj ob),
                      ("pending", Json.num (JsonNumber.fromNat s.pending.length))])
  | "facts" => pure (factsJson f)
  | _ => throw s!"routing: unknown op {op}"

end Mcp.Drv.Routing
