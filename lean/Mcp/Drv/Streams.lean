import Mcp.Drv.Util
import Mcp.Model.Streams
import Mcp.Gen.HandleGet
namespace Mcp.Drv.Streams
open Lean Mcp.Drv Mcp.Streams

def evOfJson (j : Json) : Except String Ev := do
  match ← getStr j "e" with
  | "open" => pure (.open_ (← getNat j "n"))
  | "flush" => pure (.flush (← getNat j "n"))
  | "store" => pure (.store (← getNat j "n"))
  | "close" => pure (.clientClose (← getNat j "n"))
  | "wake" => pure (.wake (← getNat j "n"))
  | "exit" => pure (.exit_ (← getNat j "n"))
  | "delete" => pure .delete
  | "send" => pure (.send (← getNat j "m"))
  | "sendBegin" => pure (.sendBegin (← getNat j "m"))
  | "sendEnd" => pure (.sendEnd (← getNat j "m"))
  | "break" => pure (.breakStream (← getNat j "n"))
  | e => throw s!"event {e}"

def jsonOfEv : Ev → Json
  | .open_ n => Json.mkObj [("e", "open"), ("n", Json.num (JsonNumber.fromNat n))]
  | .flush n => Json.mkObj [("e", "flush"), ("n", Json.num (JsonNumber.fromNat n))]
  | .store n => Json.mkObj [("e", "store"), ("n", Json.num (JsonNumber.fromNat n))]
  | .clientClose n => Json.mkObj [("e", "close"), ("n", Json.num (JsonNumber.fromNat n))]
  | .wake n => Json.mkObj [("e", "wake"), ("n", Json.num (JsonNumber.fromNat n))]
  | .exit_ n => Json.mkObj [("e", "exit"), ("n", Json.num (JsonNumber.fromNat n))]
  | .delete => Json.mkObj [("e", "delete")]
  | .send m => Json.mkObj [("e", "send"), ("m", Json.num (JsonNumber.fromNat m))]
  | .sendBegin m => Json.mkObj [("e", "sendBegin"), ("m", Json.num (JsonNumber.fromNat m))]
  | .sendEnd m => Json.mkObj [("e", "sendEnd"), ("m", Json.num (JsonNumber.fromNat m))]
  | .breakStream n => Json.mkObj [("e", "break"), ("n", Json.num (JsonNumber.fromNat n))]

/-- Outcome of one event: what a peer can observe. -/
def outcome (closed : List Nat) (s s' : St) : Ev → Json
  | .send _ =>
    if s'.delivered.length > s.delivered.length then
      match s'.delivered.getLast? with
      | some (c, _) =>
        -- a frame written to a stream the client has already dropped cannot be observed by any peer
        if closed.contains c then Json.mkObj [("delivered", "to-closed")]
        else Json.mkObj [("delivered", Json.num (JsonNumber.fromNat c))]
      | none => Json.mkObj [("failed", true)]
    else Json.mkObj [("failed", true)]
  | .sendBegin _ =>
    -- the lookup: either it fails at once or the send is now in flight
    if s'.failed.length > s.failed.length then Json.mkObj [("failed", true)] else Json.mkObj [("inflight", true)]
  | .sendEnd _ =>
    if s'.crashed.length > s.crashed.length then Json.mkObj [("crashed", true)]
    else if s'.failed.length > s.failed.length then Json.mkObj [("failed", true)]
    else match s'.delivered.getLast? with
      | some (c, _) =>
        if closed.contains c then Json.mkObj [("delivered", "to-closed")]
        else Json.mkObj [("delivered", Json.num (JsonNumber.fromNat c))]
      | none => Json.mkObj [("failed", true)]
  | _ => Json.mkObj [("ok", true)]

/-- All enabled schedules of length ≤ depth that end in a send, over `handlers` handler threads (canonical: handler k+1
    is opened only after handler k). -/
partial def enumerate (f : Facts) (handlers depth : Nat) (maxSends : Nat) (split : Bool := false) : List (List Ev) :=
  let rec go (s : St) (pref : List Ev) (d : Nat) (opened sends : Nat) : List (List Ev) :=
    if d = 0 then [] else
    let hsIdx := List.range handlers
    let cands : List Ev :=
      (if opened < handlers then [Ev.open_ opened] else []) ++
      hsIdx.flatMap (fun n => [Ev.flush n, Ev.store n, Ev.wake n, Ev.exit_ n, Ev.clientClose n]) ++
      [Ev.delete] ++
      (if split then
        (if sends < maxSends && s.inflight.isEmpty then [Ev.sendBegin (100 + sends)] else []) ++
        s.inflight.map (fun p => Ev.sendEnd p.1)
       else (if sends < maxSends then [Ev.send (100 + sends)] else []))
    cands.flatMap (fun e =>
      match step f s e with
      | none => []
      | some s' =>
        let pref' := pref ++ [e]
        let here := match e with
          | .send _ => [pref']
          | .sendEnd _ => [pref']
          | .sendBegin _ => if s'.inflight.isEmpty then [pref'] else []
          | _ => []
        -- a close/delete on a handler that is not there yet adds nothing
        let skip := match e with
          | .clientClose n => (s.hs n).cancelled || !(s.hs n).opened || !(s.hs n).flushed   -- the peer can only drop a stream it has
          | .delete => s.table.isNone
          | _ => false
        if skip then [] else
        here ++ go s' pref' (d - 1) (match e with | .open_ _ => opened + 1 | _ => opened) (match e with | .send _ => sends + 1 | .sendBegin _ => sends + 1 | _ => sends))
  go {} [] depth 0 0

def handle (op : String) (j : Json) : Except String Json := do
  let f := Mcp.Gen.handleGetFacts
  match op with
  | "run" =>
    let evs ← (← getArr j "evs").toList.mapM evOfJson
    let rec go (closed : List Nat) (s : St) : List Ev → List Json
      | [] => []
      | e :: es => match step f s e with
        | none => [Json.mkObj [("disabled", true)]]
        | some s' =>
          let closed' := match e with | .clientClose n => n :: closed | _ => closed
          outcome closed s s' e :: go closed' s' es
    pure (Json.mkObj [("outs", Json.arr (go [] {} evs).toArray)])
  | "enumerate" =>
    let hN ← getNat j "handlers"
    let d ← getNat j "depth"
    let ms ← getNat j "sends"
    let split := (getBool j "split").toOption.getD false
    let all := enumerate f hN d ms split
    pure (Json.mkObj [("schedules", Json.arr (all.toArray.map (fun evs => Json.arr (evs.toArray.map jsonOfEv)))),
                      ("facts", Json.mkObj [("flushBeforeStore", f.flushBeforeStore), ("identityCheckOnExit", f.identityCheckOnExit), ("closedMarkOnExit", f.closedMarkOnExit)])])
  | _ => throw s!"streams: unknown op {op}"

end Mcp.Drv.Streams
