import Mcp.Drv.Util
import Mcp.Model.Frames
namespace Mcp.Drv.Frames
open Lean Mcp.Drv Mcp.Frames Mcp.Str

def handle (op : String) (j : Json) : Except String Json := do
  match op with
  | "sseEvent" =>
    let id ← getText j "id"
    let data ← getText j "data"
    pure (Json.mkObj [("chunks", Json.arr ((sseEventChunks id data).toArray.map jsonOfText))])
  | "formatSSE" =>
    let ty ← getText j "type"
    let data ← getText j "data"
    pure (Json.mkObj [("event", jsonOfText (formatSSEEvent ty data))])
  | "lines" =>
    let s ← getText j "stream"
    let (ls, rest) := lines s
    pure (Json.mkObj [("lines", Json.arr (ls.toArray.map jsonOfText)), ("rest", jsonOfText rest)])
  | _ => throw s!"frames: unknown op {op}"

end Mcp.Drv.Frames
