import Mcp.Drv.Util
import Mcp.Drv.Content
import Mcp.Model.RpcClient
/-! Component "rpcclients" (C14, client half): what a client API returns for one server answer. -/
namespace Mcp.Drv.Rpcclients
open Lean Mcp.Drv Mcp.Str Mcp.RpcClient
open Mcp.Drv.Content (ofLean toLean)

/-- the method's decoder, as far as the kind of outcome goes: `none` = a value, `some msg` = the decoder's error -/
def decoderError (method : String) (raw : Mcp.Json.Json) : Option Text :=
  match method with
  | "tools/call" => (match Mcp.Content.parseResult raw with | .ok _ => none | .error e => some e.msg)
  | "prompts/get" => (match Mcp.Content.parseGetPrompt raw with | .ok _ => none | .error e => some e.msg)
  | "resources/read" => (match Mcp.Content.parseReadResource raw with | .ok _ => none | .error e => some e.msg)
  | "tools/list" => (match Mcp.Content.parseListTools (fun _ => false) raw with | .ok _ => none | .error e => some e.msg)
  | _ => none

def failText : Fail → String
  | .missingResult => "missing-result" | .noFinalResponse => "no-final-response" | .timeout => "timeout" | .notAMessage => "not-a-message"

def handle (op : String) (j : Json) : Except String Json := do
  match op with
  | "recv" =>
    let ans := ofLean (j.getObjValD "answer")
    let method ← getStr j "method"
    let got ← match ← getStr j "client" with
      | "streamable-json" => pure (recvHTTP ans)
      | "legacy-sse" => pure (recvHTTP ans)
      | "streamable-sse" => pure (recvPostSSE ans)
      | "stdio" => pure (recvStdio ans)
      | c => throw s!"client {c}"
    match finish (decoderError method) got with
    | .ok none => pure (Json.mkObj [("kind", "ok")])
    | .ok (some _) => pure (Json.mkObj [("kind", "decode-error")])
    | .rpcError c m => pure (Json.mkObj [("kind", "rpc-error"), ("code", (c.map toLean).getD .null), ("message", (m.map toLean).getD .null)])
    | .badError => pure (Json.mkObj [("kind", "decode-error")])
    | .failed f => pure (Json.mkObj [("kind", "failed"), ("why", failText f)])
  | _ => throw s!"rpcclients: unknown op {op}"

end Mcp.Drv.Rpcclients
