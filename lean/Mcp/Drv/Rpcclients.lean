import Mcp.Drv.Util
import Mcp.Drv.Content
import Mcp.Model.RpcClient
/-! Component "rpcclients" (C14, client half): what a client API returns for one server answer. -/
namespace Mcp.Drv.Rpcclients
open Lean Mcp.Drv Mcp.Str Mcp.RpcClient
open Mcp.Drv.Content (ofLean toLean)

/-- the method's decoder, as far as the kind of outcome goes: `none` = a value, `some msg` = the decoder's error -/
def decoderError (method : String) (raw : Mcp.Json.Json) : Option Text :=
  match method with
  | "tools/call" => (match Mcp.Content.parseResult raw with | .ok _ => none | .error e => some e.msg)
  | "prompts/get" => (match Mcp.Content.parseGetPrompt raw with | .ok _ => none | .error e => some e.msg)
  | "resources/read" => (match Mcp.Content.parseReadResource raw with | .ok _ => none | .error e => some e.msg)
  | "tools/list" => (match Mcp.Content.parseListTools (fun _ => false) raw with | .ok _ => none | .error e => some e.msg)
  -- `json.Unmarshal` into `ListResourcesResult`: `Resource.Size` is an int64 — the number the transport hands on must be an
  -- integer in its range; ±2^63 themselves are out: Go prints the float64 with its shortest digits, -9223372036854776000
  -- (the struct decoders are not modelled beyond that: they are compared live)
  | "resources/list" =>
    (match raw with
     | .obj r =>
       (match Mcp.Json.lookup r t!"resources" with
        | some (.arr rs) =>
          if rs.all (fun (x : Mcp.Json.Json) => match x with
            | .obj o => (match Mcp.Json.lookup o t!"size" with
                | none => true | some .null => true
                | some (.int n) => decide (-9223372036854775808 < n ∧ n < 9223372036854775808)
                | some _ => false)
            | _ => true) then none else some t!"size"
        | _ => none)
     | _ => none)
  | _ => none

def failText : Fail → String
  | .missingResult => "missing-result" | .noFinalResponse => "no-final-response" | .timeout => "timeout" | .notAMessage => "not-a-message"
  | .undecodable => "undecodable"

def handle (op : String) (j : Json) : Except String Json := do
  match op with
  | "recv" =>
    let ans := ofLean (j.getObjValD "answer")
    let method ← getStr j "method"
    let got ← match ← getStr j "client" with
      | "streamable-json" => pure (recvHTTP ans)
      | "legacy-sse" => pure (recvLegacySSE ans)
      | "streamable-sse" => pure (recvPostSSE ans)
      | "stdio" => pure (recvStdio ans)
      | c => throw s!"client {c}"
    -- the untyped positions of a tools/call result come back as the transport handed them to the decoder
    let handed : List (String × Json) := match method, got with
      | "tools/call", .raw (.obj r) =>
        [("structured", ((Mcp.Json.lookup r t!"structuredContent").map toLean).getD .null),
         ("meta", (match Mcp.Json.lookup r t!"_meta" with | some (.obj m) => toLean (.obj m) | _ => .null))]
      | "resources/list", .raw rr =>
        [("sizes", Json.arr ((match (match rr with | .obj r => Mcp.Json.lookup r t!"resources" | _ => none) with
          | some (.arr rs) => rs.map (fun (x : Mcp.Json.Json) => match x with
              | .obj o => (match Mcp.Json.lookup o t!"size" with | some (.int n) => toLean (.int n) | _ => toLean (.int 0))
              | _ => toLean (.int 0))
          | _ => []).toArray))]
      | _, _ => []
    match finish (decoderError method) got with
    | .ok none => pure (Json.mkObj (("kind", Json.str "ok") :: handed))
    | .ok (some _) => pure (Json.mkObj [("kind", "decode-error")])
    | .rpcError c m => pure (Json.mkObj [("kind", "rpc-error"), ("code", (c.map toLean).getD .null), ("message", (m.map toLean).getD .null)])
    | .badError => pure (Json.mkObj [("kind", "decode-error")])
    | .failed f => pure (Json.mkObj [("kind", "failed"), ("why", failText f)])
  | _ => throw s!"rpcclients: unknown op {op}"

end Mcp.Drv.Rpcclients
