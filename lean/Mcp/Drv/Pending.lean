import Mcp.Drv.Util
import Mcp.Model.Pending
import Mcp.Gen.PendingFacts
namespace Mcp.Drv.Pending
open Lean Mcp.Drv Mcp.Str Mcp.Ids Mcp.Pending

def kindOfStr : String → Except String KeyKind
  | "idKey" => pure .idKey | "sprintfV" => pure .sprintfV | "int64" => pure .int64 | "uint64" => pure .uint64
  | s => throw s!"key kind {s}"

/-- integers travel as decimal strings (they exceed 2^53, which JSON readers do not keep exact) or as JSON numbers. -/
def intOfJson (j : Json) : Except String Int :=
  match j with
  | .str s => match s.toInt? with | some i => pure i | none => throw s!"int {s}"
  | _ => j.getInt?

def natOfJson (j : Json) : Except String Nat := do
  let i ← intOfJson j
  if i < 0 then throw "negative" else pure i.toNat

def reqIdOfJson (j : Json) : Except String ReqId := do
  match j.getObjVal? "int" with
  | .ok v => pure (.int (← intOfJson v))
  | .error _ => pure (.str (← getText j "str"))

def wireIdOfJson (j : Json) : Except String WireId := do
  match j.getObjVal? "int" with
  | .ok v => pure (.num (← intOfJson v))
  | .error _ => pure (.str (Mcp.Escape.escape (← getText j "str")))

def keyJson : Option Key → Json
  | none => Json.null
  | some (.txt t) => jsonOfText t
  | some (.num i) => Json.str (toString i)

def absInt (i : Int) : Nat := i.natAbs

def frameOfJson (j : Json) : Except String Frame := do
  pure ⟨← wireIdOfJson (← j.getObjVal? "id"), ← getNat j "body"⟩

def evOfJson (j : Json) : Except String Ev := do
  match ← getStr j "e" with
  | "issue" => pure .issue
  | "answer" => pure (.serverAnswer (← getNat j "c"))
  | "inject" => pure (.inject (← frameOfJson j))
  | "deliver" => pure (.deliver (← getNat j "i"))
  | "complete" => pure (.complete (← getNat j "c"))
  | "timeout" => pure (.timeout (← getNat j "c"))
  | "cancel" => pure (.cancel (← getNat j "c"))
  | "close" => pure .close
  | e => throw s!"event {e}"

/-- driver-level events: a model event, or "finish c" = caller c returns: `complete` if its channel holds a frame, else its
    context is cancelled (`cancel`). -/
inductive DEv where
  | ev (e : Ev)
  | finish (c : Nat)
  | register (c : Nat)   -- the caller registers its channel, where that is a step of its own (no-op where the insert comes first)

def devOfJson (j : Json) : Except String DEv := do
  match ← getStr j "e" with
  | "finish" => pure (.finish (← getNat j "c"))
  | "register" => pure (.register (← getNat j "c"))
  | _ => pure (.ev (← evOfJson j))

/-- does the issuing function of the client table keyed this way insert before it sends? (`int64`: the stdio client table,
    otherwise the legacy SSE client table) -/
def insertFirst (k : KeyKind) : Bool :=
  let name := match k with | .int64 => t!"stdio_client.pendingRequests" | _ => t!"sse_client.responses"
  match Mcp.Gen.pdTables.find? (·.name = name) with
  | some t => t.insertBeforeSend
  | none => false

def outcomeStr : Outcome → String
  | .answer b => s!"answer:{b}"
  | .error => "error"

def postEvOfJson (j : Json) : Except String PostEv :=
  match j with
  | .str _ => pure .notification
  | _ => do pure (.frame (← frameOfJson j))

def handle (op : String) (j : Json) : Except String Json := do
  match op with
  | "key" =>
    let k ← kindOfStr (← getStr j "kind")
    match ← getStr j "side" with
    | "req" => pure (Json.mkObj [("key", keyJson (keyOfReq k (← reqIdOfJson (← j.getObjVal? "id"))))])
    | "wire" =>
      let w ← wireIdOfJson (← j.getObjVal? "id")
      -- the `%v` rendering of a float64 is modelled for integers up to 2^53 only
      match k, w with
      | .sprintfV, .num i => if absInt i > 2 ^ 53 then pure (Json.mkObj [("key", "unmodelled")]) else pure (Json.mkObj [("key", keyJson (keyOfWire k w))])
      -- requestIDKey: integer-valued float64s in the int64 / uint64 range print as integers, the rest as %g
      | .idKey, .num i =>
        let v := f64OfInt i
        if v < -(2 ^ 63 : Int) ∨ v ≥ (2 ^ 64 : Int) then pure (Json.mkObj [("key", "unmodelled")]) else pure (Json.mkObj [("key", keyJson (keyOfWire k w))])
      | _, _ => pure (Json.mkObj [("key", keyJson (keyOfWire k w))])
    | "echo" =>
      -- id of the answer an honest server writes (decode, re-encode), as the JSON text of the id
      let w ← wireIdOfJson (← j.getObjVal? "id")
      match echoId w with
      | .num i => pure (Json.mkObj [("id", Json.str (toString i)), ("type", "number")])
      | .str e => pure (Json.mkObj [("id", jsonOfText (Mcp.Escape.unescape e)), ("type", "string")])
    | s => throw s!"side {s}"
  | "f64" =>
    let n ← natOfJson (← j.getObjVal? "n")
    pure (Json.mkObj [("v", Json.str (toString (f64OfNat n)))])
  | "run" =>
    let k ← kindOfStr (← getStr j "kind")
    let start ← getNat j "start"
    let evs ← (← getArr j "evs").toList.mapM devOfJson
    -- the region of the family the issuing function of this table is in (regenerated fact)
    let ins := insertFirst k
    let rec go (s : St) (idx : Nat) : List DEv → St × Option Nat
      | [] => (s, none)
      | .ev e :: es => match step k ins s e with
        | none => (s, some idx)
        | some s' => go s' (idx + 1) es
      | .register c :: es =>
        if ins then go s (idx + 1) es else
        match step k ins s (.register c) with
        | none => (s, some idx)
        | some s' => go s' (idx + 1) es
      | .finish c :: es =>
        match step k ins s (.complete c) with
        | some s' => go s' (idx + 1) es
        | none => match step k ins s (.cancel c) with
          | some s' => go s' (idx + 1) es
          | none => (s, some idx)
    let (s, dis) := go (init start) 0 evs
    let done := s.done.map (fun (c, o) => (toString c, Json.str (outcomeStr o)))
    pure (Json.mkObj [("done", Json.mkObj done),
                      ("pending", Json.arr (s.pending.map (fun e => Json.num (JsonNumber.fromNat e.call))).toArray),
                      ("disabled", match dis with | some i => Json.num (JsonNumber.fromNat i) | none => Json.null)])
  | "postSse" =>
    let c ← getNat j "call"
    let k ← kindOfStr (← getStr j "kind")
    let evs ← (← getArr j "evs").toList.mapM postEvOfJson
    let handlers ← getBool j "handlers"
    let o := if handlers then scanPostSseLast k c .error evs else scanPostSse k c evs
    pure (Json.mkObj [("out", Json.str (outcomeStr o))])
  | "postJson" =>
    let f ← frameOfJson j
    pure (Json.mkObj [("out", Json.str (outcomeStr (readPostJson f)))])
  | _ => throw s!"pending: unknown op {op}"

end Mcp.Drv.Pending
