/-
  Driver-side helpers: JSON line protocol I/O (core `Lean.Data.Json`, used for I/O only).
-/
import Lean.Data.Json
import Mcp.Model.Str
namespace Mcp.Drv
open Lean Mcp.Str

def textOfJson (j : Json) : Except String Text := do
  let s ← j.getStr?
  pure (ofString s)

def jsonOfText (t : Text) : Json := Json.str (Mcp.Str.toString t)

def getInt (j : Json) (k : String) : Except String Int := do (← j.getObjVal? k).getInt?
def getNat (j : Json) (k : String) : Except String Nat := do (← j.getObjVal? k).getNat?
def getBool (j : Json) (k : String) : Except String Bool := do (← j.getObjVal? k).getBool?
def getStr (j : Json) (k : String) : Except String String := do (← j.getObjVal? k).getStr?
def getText (j : Json) (k : String) : Except String Text := do textOfJson (← j.getObjVal? k)
def getArr (j : Json) (k : String) : Except String (Array Json) := do (← j.getObjVal? k).getArr?
def getOpt (j : Json) (k : String) : Option Json :=
  match j.getObjVal? k with
  | .ok .null => none
  | .ok v => some v
  | .error _ => none

def optInt (j : Json) (k : String) : Except String (Option Int) :=
  match getOpt j k with
  | none => pure none
  | some v => do pure (some (← v.getInt?))

end Mcp.Drv
