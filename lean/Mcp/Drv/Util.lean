/-
  Driver-side helpers: JSON line protocol I/O (core `Lean.Data.Json`, used for I/O only).
-/
import Lean.Data.Json
import Mcp.Model.Str
namespace Mcp.Drv
open Lean Mcp.Str

def textOfJson (j : Json) : Except String Text := do
  let s ← j.getStr?
  pure (ofString s)

def jsonOfText (t : Text) : Json := Json.str (Mcp.Str.toString t)

def getInt (j : Json) (k : String) : Except String Int := do (← j.getObjVal? k).getInt?
def getNat (j : Json) (k : String) : Except String Nat := do (← j.getObjVal? k).getNat?
def getBool (j : Json) (k : String) : Except String Bool := do (← j.getObjVal? k).getBool?
def getStr (j : Json) (k : String) : Except String String := do (← j.getObjVal? k).getStr?
def getText (j : Json) (k : String) : Except String Text := do textOfJson (← j.getObjVal? k)
def getArr (j : Json) (k : String) : Except String (Array Json) := do (← j.getObjVal? k).getArr?
def getOpt (j : Json) (k : String) : Option Json :=
  match j.getObjVal? k with
  | .ok .null => none
  | .ok v => some v
  | .error _ => none

def optInt (j : Json) (k : String) : Except String (Option Int) :=
  match getOpt j k with
  | none => pure none
  | some v => do pure (some (← v.getInt?))

end Mcp.Drv

namespace Mcp.Drv
open Lean

/-- Line loop of a component driver: one JSON op per input line (`{"c":"<component>.<op>",…}`), one JSON outcome per
    output line. Errors of the model side are reported in-band as `{"model_error":…}` and never abort the run. -/
partial def runLoop (handle : String → Json → Except String Json) : IO Unit := do
  let hin ← IO.getStdin
  let hout ← IO.getStdout
  let rec loop : IO Unit := do
    let line ← hin.getLine
    if line.isEmpty then return ()
    let line := line.trimAscii.toString
    if line.isEmpty then loop else
    let out := match Json.parse line with
      | .error e => Json.mkObj [("model_error", Json.str s!"parse: {e}")]
      | .ok j =>
        match getStr j "c" with
        | .error e => Json.mkObj [("model_error", Json.str e)]
        | .ok c =>
          let op := match c.splitOn "." with
            | _ :: rest => ".".intercalate rest
            | [] => ""
          match handle op j with
          | .ok r => r
          | .error e => Json.mkObj [("model_error", Json.str e)]
    hout.putStrLn out.compress
    loop
  loop
  hout.flush

end Mcp.Drv
