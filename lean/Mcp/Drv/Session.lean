import Mcp.Drv.Util
import Mcp.Model.Session
import Mcp.Gen.SessionFacts
namespace Mcp.Drv.Session
open Lean Mcp.Drv Mcp.Session

def modeOfStr : String → Except String Mode
  | "stateful" => pure .stateful | "stateless" => pure .stateless | "sessionsOff" => pure .sessionsOff
  | s => throw s!"mode {s}"

def refOfJson : Json → Except String Ref
  | .str "none" => pure .none
  | .str "bogus" => pure .bogus
  | j => do pure (.sid (← getNat j "sid"))

def kindOfStr : String → Except String Kind
  | "initOk" => pure .initOk | "initBad" => pure .initBad | "request" => pure .request
  | "requestChatty" => pure .request   -- a request whose handler emits notifications first: same envelope class
  | "notifInitialized" => pure .notifInitialized | "notifOther" => pure .notifOther
  -- a message with method "initialize" but no id (or id null) is a notification like any other: it opens no session
  | "notifNamedInitialize" => pure .notifOther | "notifNamedInitializeNullId" => pure .notifOther
  | "response" => pure .response | "responseEmpty" => pure .responseEmpty | "invalid" => pure .invalid
  | s => throw s!"kind {s}"

def opOfJson (j : Json) : Except String Op := do
  match ← getStr j "t" with
  | "post" => pure (.post (← kindOfStr (← getStr j "k")) (← refOfJson (← j.getObjVal? "r")))
  | "get" => pure (.get (← refOfJson (← j.getObjVal? "r")))
  | "close" => pure (.closeStream (← getNat j "sid"))
  | "delete" => pure (.delete (← refOfJson (← j.getObjVal? "r")))
  | t => throw s!"op {t}"

def natArr (l : List Nat) : Json := Json.arr (l.toArray.map (fun n => Json.num (JsonNumber.fromNat n)))

def sortNat (l : List Nat) : List Nat := (l.toArray.qsort (· < ·)).toList

def handle (op : String) (j : Json) : Except String Json := do
  match op with
  | "run" =>
    let cj ← j.getObjVal? "cfg"
    let c : Cfg := ⟨← modeOfStr (← getStr cj "mode"), ← getBool cj "get", Mcp.Gen.handleGetGuardsNoSessions⟩
    let ops ← (← getArr j "ops").toList.mapM opOfJson
    let rec go (st : St) : List Op → List Json
      | [] => []
      | o :: os =>
        let (st', out) := step c st o
        let line := Json.mkObj [("status", Json.num (JsonNumber.fromNat out.status)),
          ("sid", match out.sid with | some s => Json.num (JsonNumber.fromNat s) | none => Json.null),
          ("closed", natArr (sortNat out.closed)),
          ("live", match reported c st' with | some l => natArr (sortNat l) | none => Json.null)]
        line :: go st' os
    pure (Json.mkObj [("outs", Json.arr (go {} ops).toArray)])
  | _ => throw s!"session: unknown op {op}"

end Mcp.Drv.Session
