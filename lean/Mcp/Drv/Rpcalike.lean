import Mcp.Drv.Rpc
/-! Component "rpcalike" (C14): the same model operations as component "rpc". -/
namespace Mcp.Drv.Rpcalike
def handle (op : String) (j : Lean.Json) : Except String Lean.Json := Mcp.Drv.Rpc.handle op j
end Mcp.Drv.Rpcalike
