/-
  Client-side request/answer correlation (C01).

  The three clients correlate an answer with its call in different ways:
  * Streamable HTTP (`streamable_client.go send`): the answer arrives on the HTTP response of the POST that carried the
    request.  JSON body: no id check at all.  SSE body (`handleSSEResponse`/`processEventData`): the event whose
    id key (`requestIDKey`; `fmt.Sprintf("%v", …)` before the D01 repair) equals the request's is the result, every other event
    is treated as a notification.
  * legacy SSE (`sse_client.go sendRequestInternal`/`handleResponse`): `responses map[string]chan` keyed by
    `requestIDKey(id)` (`fmt.Sprintf("%v", id)` before the D01 repair); 1-slot channel, non-blocking send (`select … default`), deferred delete.
  * stdio (`transport_stdio.go sendRequest`/`handleResponse`): `pendingRequests map[int64]chan`, the decoded `float64` id
    is converted with `int64(id)`; 1-slot channel, non-blocking send, deferred delete.

  `keyOfReq` / `keyOfWire` are the transports' real key functions; which one a table uses is a regenerated fact
  (`Mcp.Gen.PendingFacts`).  The shared-stream protocol is a deterministic step function over events, so that the same
  definitions serve the theorems (all event lists = all schedules) and the driver (replay of recorded runs).
-/
import Mcp.Model.Ids
import Mcp.Model.Escape
namespace Mcp.Pending
open Mcp.Str Mcp.Ids

/-- the id a sender holds (Go value in `JSONRPCRequest.ID`): an `int64` or a `string`. -/
inductive ReqId where
  | int (i : Int)
  | str (s : Text)
  deriving DecidableEq, Repr

/-- the id as JSON text on the wire: an integer literal or a string literal (escaped contents). -/
inductive WireId where
  | num (i : Int)
  | str (esc : Text)
  deriving DecidableEq, Repr

/-- what `json.Unmarshal` leaves in an `interface{}`: a `float64` (holding an integer) or a `string`. -/
inductive DecId where
  | f64 (v : Int)
  | str (s : Text)
  deriving DecidableEq, Repr

/-- `json.Marshal` of the id. -/
def encodeId : ReqId → WireId
  | .int i => .num i
  | .str s => .str (Mcp.Escape.escape s)

/-- `json.Unmarshal` into `interface{}`. -/
def decodeId : WireId → DecId
  | .num i => .f64 (f64OfInt i)
  | .str e => .str (Mcp.Escape.unescape e)

/-- `json.Marshal` of a decoded id (what a server echoes): integers `|v| < 10^21` print without exponent. -/
def reencodeId : DecId → WireId
  | .f64 v => .num v
  | .str s => .str (Mcp.Escape.escape s)

/-- the id of the answer an honest server writes for a request: decode, then encode. -/
def echoId (w : WireId) : WireId := reencodeId (decodeId w)

inductive Key where
  | txt (t : Text)
  | num (i : Int)
  deriving DecidableEq, Repr

/-- how a pending table is keyed (regenerated from the source). -/
inductive KeyKind where
  | idKey         -- requestIDKey(id) on both sides: "n:<decimal digits>" for every integer-valued number, "s:<string>" for a string
  | sprintfV      -- fmt.Sprintf("%v", id) on both sides (the tree before the D01 repair)
  | int64         -- req.ID.(int64) at insert, int64(float64) at lookup
  | uint64        -- uint64(req.ID.(int64)) at insert, uint64(float64) at lookup (the two server tables)
  | other         -- anything the extractor does not recognise
  deriving DecidableEq, Repr

/-- key used when the request is registered. `none`: the bare assertion `req.ID.(int64)` panics. -/
def keyOfReq : KeyKind → ReqId → Option Key
  | .idKey, .int i => some (.txt (t!"n:" ++ intText i))
  | .idKey, .str s => some (.txt (t!"s:" ++ s))
  | .sprintfV, .int i => some (.txt (fmtVInt i))
  | .sprintfV, .str s => some (.txt s)
  | .int64, .int i => some (.num i)
  | .int64, .str _ => none
  | .uint64, .int i => some (.num (u64OfI64 i))
  | .uint64, .str _ => none
  | .other, _ => none

/-- key computed from the id found in an incoming frame. `none`: "invalid response ID type", frame dropped. -/
def keyOfDec : KeyKind → DecId → Option Key
  | .idKey, .f64 v => some (.txt (t!"n:" ++ intText v))     -- integer-valued float64 in the int64 / uint64 range
  | .idKey, .str s => some (.txt (t!"s:" ++ s))
  | .sprintfV, .f64 v => some (.txt (fmtVFloatInt v))
  | .sprintfV, .str s => some (.txt s)
  | .int64, .f64 v => some (.num (i64OfF64 v))
  | .int64, .str _ => none
  | .uint64, .f64 v => some (.num (u64OfF64 v))
  | .uint64, .str _ => none
  | .other, _ => none

def keyOfWire (k : KeyKind) (w : WireId) : Option Key := keyOfDec k (decodeId w)

/-- the id an honest server puts on the answer to the request the client's counter numbered `c`. -/
def wireOf (c : Nat) : WireId := echoId (encodeId (.int (Int.ofNat c)))

/-! ## shared-stream protocol (legacy SSE, stdio) -/

structure Frame where
  id : WireId
  body : Nat          -- the call whose arguments the body was computed from
  deriving DecidableEq, Repr

structure Entry where
  key : Key
  call : Nat
  slot : Option Nat   -- the 1-slot channel: body of the frame put into it
  deriving DecidableEq, Repr

inductive Outcome where
  | answer (body : Nat)
  | error
  deriving DecidableEq, Repr

structure St where
  next : Nat                       -- request counter (`Client.requestID`)
  pending : List Entry := []
  sent : List Nat := []            -- requests that reached the server
  answered : List Nat := []        -- requests whose handler has run (exactly once each)
  wire : List Frame := []          -- frames in flight towards the client
  done : List (Nat × Outcome) := []
  open_ : Bool := true
  unregistered : List Nat := []    -- requests already on the wire whose caller has not registered its channel yet
  deriving Repr

inductive Ev where
  | issue                           -- a caller registers its channel and sends request `next+1` (send only, where the insert follows the send)
  | register (c : Nat)              -- the caller of c registers its channel (only where the insert follows the send)
  | serverAnswer (c : Nat)          -- the server answers request c (any order, any delay)
  | inject (f : Frame)              -- a scripted (dishonest) peer writes an arbitrary frame
  | deliver (i : Nat)               -- the reader takes frame i off the wire and dispatches it
  | complete (c : Nat)              -- caller c wakes up on its channel and returns (deferred delete)
  | timeout (c : Nat)               -- caller c's timer / context fires first
  | cancel (c : Nat)
  | close                           -- the connection goes away / Close()
  deriving DecidableEq, Repr

def Ev.honest : Ev → Bool
  | .inject _ => false
  | _ => true

/-- non-blocking send into the channel of the first entry registered under `key`. -/
def fill (key : Key) (b : Nat) : List Entry → List Entry
  | [] => []
  | e :: es =>
    if e.key = key then (if e.slot.isNone then { e with slot := some b } else e) :: es
    else e :: fill key b es

def findCall (c : Nat) : List Entry → Option Entry
  | [] => none
  | e :: es => if e.call = c then some e else findCall c es

def removeCall (c : Nat) (p : List Entry) : List Entry := p.filter (fun e => e.call ≠ c)

def closeOutcome (e : Entry) : Nat × Outcome :=
  (e.call, match e.slot with | some b => .answer b | none => .error)

/-- `ins`: in the issuing function the table insert precedes the statement that puts the request on the wire (regenerated
    fact). Where it does not, issuing is two steps: the request goes out (`issue`), the channel is registered later
    (`register`) — an answer dispatched in between finds no entry. -/
def step (k : KeyKind) (ins : Bool) (s : St) : Ev → Option St
  | .issue =>
    if !s.open_ then none else
    let n := s.next + 1
    match keyOfReq k (.int (Int.ofNat n)) with
    | none => none
    | some key =>
      match ins with
      | true => some { s with next := n, pending := s.pending ++ [⟨key, n, none⟩], sent := s.sent ++ [n] }
      | false => some { s with next := n, sent := s.sent ++ [n], unregistered := s.unregistered ++ [n] }
  | .register c =>
    match ins with
    | true => none
    | false =>
      if s.unregistered.contains c then
        match keyOfReq k (.int (Int.ofNat c)) with
        | none => none
        | some key => some { s with pending := s.pending ++ [⟨key, c, none⟩], unregistered := s.unregistered.filter (· ≠ c) }
      else none
  | .serverAnswer c =>
    if s.sent.contains c && !s.answered.contains c then
      some { s with wire := s.wire ++ [⟨wireOf c, c⟩], answered := s.answered ++ [c] }
    else none
  | .inject f => some { s with wire := s.wire ++ [f] }
  | .deliver i =>
    match s.wire[i]? with
    | none => none
    | some f =>
      let w := s.wire.eraseIdx i
      if !s.open_ then some { s with wire := w } else
      match keyOfWire k f.id with
      | none => some { s with wire := w }                       -- invalid id type: dropped
      | some key => some { s with wire := w, pending := fill key f.body s.pending }   -- unknown id / full channel: dropped inside `fill`
  | .complete c =>
    match findCall c s.pending with
    | some e =>
      match e.slot with
      | some b => some { s with pending := removeCall c s.pending, done := s.done ++ [(c, .answer b)] }
      | none => none
    | none => none
  | .timeout c =>
    match findCall c s.pending with
    | some _ => some { s with pending := removeCall c s.pending, done := s.done ++ [(c, .error)] }
    | none => none
  | .cancel c =>
    match findCall c s.pending with
    | some _ => some { s with pending := removeCall c s.pending, done := s.done ++ [(c, .error)] }
    | none => none
  | .close =>
    if !s.open_ then none else
    some { s with open_ := false, pending := [], done := s.done ++ s.pending.map closeOutcome }

def run (k : KeyKind) (ins : Bool) : St → List Ev → Option St
  | s, [] => some s
  | s, e :: es => match step k ins s e with
    | none => none
    | some s' => run k ins s' es

/-- a client whose counter stands at `start` (`start = 0`: a fresh client). -/
def init (start : Nat) : St := { next := start }

/-! ## Streamable HTTP: the answer comes on the POST's own response -/

/-- one SSE event on the POST response: a frame with an id, or a notification. -/
inductive PostEv where
  | frame (f : Frame)
  | notification
  deriving DecidableEq, Repr

/-- `handleSSEResponse` with no notification handler registered: the first event whose id key equals the request's
    is the result; the stream ending without one is the error "connection closed but no final response received".
    `k` is how `processEventData` renders the two ids (regenerated fact). -/
def scanPostSse (k : KeyKind) (c : Nat) : List PostEv → Outcome
  | [] => .error
  | .notification :: rest => scanPostSse k c rest
  | .frame f :: rest =>
    if keyOfWire k f.id = keyOfReq k (.int (Int.ofNat c)) then .answer f.body else scanPostSse k c rest

/-- `handleSSEResponse` with a notification handler registered: it keeps reading to the end of the stream, the last
    matching event wins. -/
def scanPostSseLast (k : KeyKind) (c : Nat) (acc : Outcome) : List PostEv → Outcome
  | [] => acc
  | .notification :: rest => scanPostSseLast k c acc rest
  | .frame f :: rest =>
    if keyOfWire k f.id = keyOfReq k (.int (Int.ofNat c)) then scanPostSseLast k c (.answer f.body) rest
    else scanPostSseLast k c acc rest

/-- `send` with a JSON body: the body's `result` is returned, the id is not looked at. -/
def readPostJson (f : Frame) : Outcome := .answer f.body

end Mcp.Pending
