/-
  Writers sharing one byte stream (C09).  A frame is written as a list of chunks — one `Write` call each; a
  single `Write` on the underlying writer is atomic, a frame made of several calls is not.  Threads may start
  a frame at any time; with the lock discipline (`locked = true`) a frame may start only when no other frame
  is in progress.  The chunkings of the real writers are in `Wire`.
-/
import Mcp.Model.Str
namespace Mcp.Frames
open Mcp.Str

inductive Ev where
  | start (t : Nat) (f : List Text)     -- thread t begins to write a frame consisting of these chunks
  | write (t : Nat)                      -- thread t writes its next chunk
  | finish (t : Nat)                     -- thread t has written all chunks (and releases the lock)
  deriving Repr

structure St where
  out : Text := []                                   -- the byte stream so far
  cur : Nat → Option (List Text × Text) := fun _ => none   -- per thread: remaining chunks, part already written
  holder : Option Nat := none                        -- the thread holding the stream lock (locked discipline)
  done : List Text := []                             -- frames completed, in completion order
  started : List Text := []                          -- frames started, in start order

def upd (f : Nat → α) (i : Nat) (v : α) : Nat → α := fun j => if j = i then v else f j

@[simp] theorem upd_same (f : Nat → α) (i : Nat) (v : α) : upd f i v i = v := by simp [upd]
theorem upd_other (f : Nat → α) (i j : Nat) (v : α) (h : j ≠ i) : upd f i v j = f j := by simp [upd, h]

/-- One step; `none` when the event is not enabled. -/
def step (locked : Bool) (s : St) : Ev → Option St
  | .start t f =>
    if (s.cur t).isSome then none
    else if locked && s.holder.isSome then none
    else some { s with cur := upd s.cur t (some (f, [])),
                       holder := if locked then some t else s.holder,
                       started := s.started ++ [f.flatten] }
  | .write t =>
    match s.cur t with
    | some (c :: rest, acc) => some { s with out := s.out ++ c, cur := upd s.cur t (some (rest, acc ++ c)) }
    | _ => none
  | .finish t =>
    match s.cur t with
    | some ([], acc) => some { s with cur := upd s.cur t none,
                                      holder := if locked then none else s.holder,
                                      done := s.done ++ [acc] }
    | _ => none

def run (locked : Bool) : St → List Ev → Option St
  | s, [] => some s
  | s, e :: es => match step locked s e with
    | none => none
    | some s' => run locked s' es

def idle (s : St) : Prop := ∀ t, s.cur t = none

/-! ### reference reader for newline-terminated frames (stdio) -/

/-- Split a byte stream at LF: complete lines (without the LF) and the unterminated rest. -/
def splitLF : Text → Text → List Text × Text
  | acc, [] => ([], acc)
  | acc, c :: cs => if c = 10 then
      let (ls, r) := splitLF [] cs
      (acc :: ls, r)
    else splitLF (acc ++ [c]) cs

def lines (s : Text) : List Text × Text := splitLF [] s

/-- linear-time version of `splitLF` for the compiled driver (the accumulator is kept reversed); proved equal below and
    substituted by the compiler only (`csimp`) — theorems are about `splitLF`. -/
def splitLFFast : Text → Text → List Text × Text
  | racc, [] => ([], racc.reverse)
  | racc, c :: cs => if c = 10 then
      let (ls, r) := splitLFFast [] cs
      (racc.reverse :: ls, r)
    else splitLFFast (c :: racc) cs

theorem splitLFFast_eq (racc s : Text) : splitLFFast racc s = splitLF racc.reverse s := by
  induction s generalizing racc with
  | nil => simp [splitLFFast, splitLF]
  | cons c cs ih =>
    by_cases h : c = 10
    · simp [splitLFFast, splitLF, h, ih]
    · simp [splitLFFast, splitLF, h, ih]

def linesFast (s : Text) : List Text × Text := splitLFFast [] s

@[csimp] theorem lines_eq_fast : @lines = @linesFast := by
  funext s; simp [lines, linesFast, splitLFFast_eq]

/-- stdio framing of a message already rendered as one JSON text: the text, then LF
    (`stdio_server.go writeResponse`: `Write(data)`, `Write("\n")`; one chunk after the repair). -/
def stdioChunks (twoWrites : Bool) (msg : Text) : List Text :=
  if twoWrites then [msg, [10]] else [msg ++ [10]]

/-! ### SSE event writers, chunk by chunk -/

/-- Go `strings.Split(s, "\n")`. -/
def splitOnLF : Text → Text → List Text
  | acc, [] => [acc]
  | acc, c :: cs => if c = 10 then acc :: splitOnLF [] cs else splitOnLF (acc ++ [c]) cs

/-- linear-time version of `splitOnLF` for the compiled driver; proved equal, substituted by the compiler only. -/
def splitOnLFFast : Text → Text → List Text
  | racc, [] => [racc.reverse]
  | racc, c :: cs => if c = 10 then racc.reverse :: splitOnLFFast [] cs else splitOnLFFast (c :: racc) cs

theorem splitOnLFFast_eq (racc s : Text) : splitOnLFFast racc s = splitOnLF racc.reverse s := by
  induction s generalizing racc with
  | nil => simp [splitOnLFFast, splitOnLF]
  | cons c cs ih =>
    by_cases h : c = 10
    · simp [splitOnLFFast, splitOnLF, h, ih]
    · simp [splitOnLFFast, splitOnLF, h, ih]

/-- `splitOnLF` as the event writer calls it (empty accumulator) -/
def splitLinesLF (s : Text) : List Text := splitOnLF [] s

def splitLinesLFFast (s : Text) : List Text := splitOnLFFast [] s

@[csimp] theorem splitLinesLF_eq_fast : @splitLinesLF = @splitLinesLFFast := by
  funext s; simp [splitLinesLF, splitLinesLFFast, splitOnLFFast_eq]

/-- Go `strings.TrimSuffix(s, "\n")`. -/
def trimSuffixLF (s : Text) : Text :=
  match s.reverse with
  | 10 :: r => r.reverse
  | _ => s

/-- `sseutil.Writer.WriteEvent`: one `Fprintf` for the id line, one per data line, one for the blank line. -/
def sseEventChunks (id data : Text) : List Text :=
  [t!"id: " ++ id ++ [10]] ++
  (if data.isEmpty then [] else (splitLinesLF (trimSuffixLF data)).map (fun l => t!"data: " ++ l ++ [10])) ++
  [[10]]

/-- Go `strings.ReplaceAll(s, "\n", "\ndata: ")`. -/
def replaceLF : Text → Text
  | [] => []
  | c :: cs => if c = 10 then 10 :: (t!"data: " ++ replaceLF cs) else c :: replaceLF cs

/-- legacy `formatSSEEvent(eventType, data)` (one string, written with a single `Fprint`). -/
def formatSSEEvent (eventType data : Text) : Text :=
  (if eventType.isEmpty then [] else t!"event: " ++ eventType ++ [10]) ++
  (if data.isEmpty then [] else t!"data: " ++ replaceLF data ++ [10]) ++ [10]

end Mcp.Frames
