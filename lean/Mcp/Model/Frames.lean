/-
  Writers sharing one byte stream (C09).  A frame is written as a list of chunks — one `Write` call each; a
  single `Write` on the underlying writer is atomic, a frame made of several calls is not.  Threads may start
  a frame at any time; with the lock discipline (`locked = true`) a frame may start only when no other frame
  is in progress.  The chunkings of the real writers are in `Wire`.
-/
import Mcp.Model.Str
namespace Mcp.Frames
open Mcp.Str

inductive Ev where
  | start (t : Nat) (f : List Text)     -- thread t begins to write a frame consisting of these chunks
  | write (t : Nat)                      -- thread t writes its next chunk
  | finish (t : Nat)                     -- thread t has written all chunks (and releases the lock)
  deriving Repr

structure St where
  out : Text := []                                   -- the byte stream so far
  cur : Nat → Option (List Text × Text) := fun _ => none   -- per thread: remaining chunks, part already written
  holder : Option Nat := none                        -- the thread holding the stream lock (locked discipline)
  done : List Text := []                             -- frames completed, in completion order
  started : List Text := []                          -- frames started, in start order

def upd (f : Nat → α) (i : Nat) (v : α) : Nat → α := fun j => if j = i then v else f j

@[simp] theorem upd_same (f : Nat → α) (i : Nat) (v : α) : upd f i v i = v := by simp [upd]
theorem upd_other (f : Nat → α) (i j : Nat) (v : α) (h : j ≠ i) : upd f i v j = f j := by simp [upd, h]

/-- One step; `none` when the event is not enabled. -/
def step (locked : Bool) (s : St) : Ev → Option St
  | .start t f =>
    if (s.cur t).isSome then none
    else if locked && s.holder.isSome then none
    else some { s with cur := upd s.cur t (some (f, [])),
                       holder := if locked then some t else s.holder,
                       started := s.started ++ [f.flatten] }
  | .write t =>
    match s.cur t with
    | some (c :: rest, acc) => some { s with out := s.out ++ c, cur := upd s.cur t (some (rest, acc ++ c)) }
    | _ => none
  | .finish t =>
    match s.cur t with
    | some ([], acc) => some { s with cur := upd s.cur t none,
                                      holder := if locked then none else s.holder,
                                      done := s.done ++ [acc] }
    | _ => none

def run (locked : Bool) : St → List Ev → Option St
  | s, [] => some s
  | s, e :: es => match step locked s e with
    | none => none
    | some s' => run locked s' es

def idle (s : St) : Prop := ∀ t, s.cur t = none

/-! ### reference reader for newline-terminated frames (stdio) -/

/-- Split a byte stream at LF: complete lines (without the LF) and the unterminated rest. -/
def splitLF : Text → Text → List Text × Text
  | acc, [] => ([], acc)
  | acc, c :: cs => if c = 10 then
      let (ls, r) := splitLF [] cs
      (acc :: ls, r)
    else splitLF (acc ++ [c]) cs

def lines (s : Text) : List Text × Text := splitLF [] s

/-- stdio framing of a message already rendered as one JSON text: the text, then LF
    (`stdio_server.go writeResponse`: `Write(data)`, `Write("\n")`; one chunk after the repair). -/
def stdioChunks (twoWrites : Bool) (msg : Text) : List Text :=
  if twoWrites then [msg, [10]] else [msg ++ [10]]

/-! ### SSE event writers, chunk by chunk -/

/-- Go `strings.Split(s, "\n")`. -/
def splitOnLF : Text → Text → List Text
  | acc, [] => [acc]
  | acc, c :: cs => if c = 10 then acc :: splitOnLF [] cs else splitOnLF (acc ++ [c]) cs

/-- Go `strings.TrimSuffix(s, "\n")`. -/
def trimSuffixLF (s : Text) : Text :=
  match s.reverse with
  | 10 :: r => r.reverse
  | _ => s

/-- `sseutil.Writer.WriteEvent`: one `Fprintf` for the id line, one per data line, one for the blank line. -/
def sseEventChunks (id data : Text) : List Text :=
  [t!"id: " ++ id ++ [10]] ++
  (if data.isEmpty then [] else (splitOnLF [] (trimSuffixLF data)).map (fun l => t!"data: " ++ l ++ [10])) ++
  [[10]]

/-- Go `strings.ReplaceAll(s, "\n", "\ndata: ")`. -/
def replaceLF : Text → Text
  | [] => []
  | c :: cs => if c = 10 then 10 :: (t!"data: " ++ replaceLF cs) else c :: replaceLF cs

/-- legacy `formatSSEEvent(eventType, data)` (one string, written with a single `Fprint`). -/
def formatSSEEvent (eventType data : Text) : Text :=
  (if eventType.isEmpty then [] else t!"event: " ++ eventType ++ [10]) ++
  (if data.isEmpty then [] else t!"data: " ++ replaceLF data ++ [10]) ++ [10]

end Mcp.Frames
