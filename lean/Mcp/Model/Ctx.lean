/-
  Request-scoped context (property C13).

  Go code modelled (package `mcp`):
  * `streamable_server.go handlePost`: `enrichedCtx := ctx; for _, fn := range h.httpContextFuncs { enrichedCtx =
    fn(enrichedCtx, r) }` — a fold of the registered context functions over THIS request's `*http.Request`, the
    result handed to `handlePostRequest` / `handlePostNotification`;
  * `handlePostRequest`: `withNotificationSender` (an `sseNotificationSender` bound to this response writer and
    session id when the answer is an SSE stream, the no-op sender otherwise), then `setSessionToContext` when
    there is a session; `handlePostNotification`: `setSessionToContext` + `withClientSession`;
  * `sse_server.go handleMessage`: `ctx := r.Context(); ctx = s.contextFunc(ctx, r)` with `r` the POST being served
    (the function also runs once on the stream's GET in `handleSSE`, but that context only feeds the stream's
    writer goroutines), then `createSessionContext` (session, server, client session). Legacy SSE keeps ONE
    function: a second `WithSSEContextFunc` overwrites the first;
  * `handler.go handleRequest`: the middlewares and the dispatch function get the context they are passed;
  * `manager_tools.go handleListTools`, `manager_prompt.go handleListPrompts`, `manager_resource.go
    handleListResources`: the filter is called with that context and the registry snapshot;
    `handleCallTool` adds the server (Streamable only: `serverProvider`) and the client session before the tool
    handler runs; prompt / resource handlers get the dispatch context unchanged.

  * `streamable_server.go handlePost` (stateful mode): `session, ok = h.sessionManager.getSession(<the request's own
    Mcp-Session-Id header>)` → `session.go sessionManagerAdapter.getSession` = `a.manager.GetSession(id)` →
    `internal/session SessionManager.GetSession`: ONE read of the id-keyed map under the manager's lock.  The session
    found is what `handlePostRequest` / `handlePostNotification` put into the context.  Legacy SSE:
    `getSessionFromRequest` = one `sync.Map` Load under the POST's own `sessionId` parameter.

  Each request is a thread with LOCAL state (its remaining instructions, its context, what its stages observed, its
  list answer).  The only shared state is the registry — plus, in the regions of the fact family that today's
  code is NOT in, a server-level slot the enriched context is parked in (`Facts.sharedSlot`), a cache of the
  filtered list (`Facts.listCache`) and a lock-free one-entry "last lookup" cache in front of the session manager
  whose id and session are two separately published words (`Facts.lookupCache`).  Atomic steps of different threads interleave arbitrarily (`run`).

  Labelled PARTIAL: the model knows the library's own data flow only.  A context aliased through user code (a
  context function that stores what it is given in a global, a handler that leaks its context to another
  goroutine) or through `reflect` / `unsafe` is outside.
-/
import Mcp.Model.Str
import Mcp.Gen.CtxFlow
namespace Mcp.Ctx
open Mcp.Str

/-- Request headers the context functions read: header number ↦ value (`http.Header.Get`: missing = empty). -/
abbrev Headers := List (Nat × Text)

def hget (h : Headers) (k : Nat) : Text := (h.lookup k).getD []

inductive Sender
  | sse (sid : Text)   -- `sseNotificationSender` writing to this request's response, bound to session `sid`
  | noop               -- `noopNotificationSender`
  deriving Repr, DecidableEq

inductive Srv
  | streamable   -- the `*Server`
  | sse          -- the `*SSEServer`
  deriving Repr, DecidableEq

/-- What user code can read from a `context.Context` on the request path. -/
structure Ctx where
  /-- values put there by the context functions: key ↦ value, newest binding first (`context.WithValue` shadows) -/
  vals : List (Nat × Text) := []
  /-- `GetSessionFromContext` (session id) -/
  session : Option Text := none
  /-- `ClientSessionFromContext` -/
  client : Option Text := none
  /-- `GetServerFromContext` -/
  server : Option Srv := none
  /-- `GetNotificationSender` -/
  sender : Option Sender := none
  deriving Repr, DecidableEq

/-- `ctx.Value(key).(string)`: empty when absent. -/
def Ctx.get (c : Ctx) (k : Nat) : Text := (c.vals.lookup k).getD []

/-- `"<id>:<header value>(<what it saw>)"`. -/
def derive (id : Nat) (hv saw : Text) : Text := natDigits id ++ [58] ++ hv ++ [40] ++ saw ++ [41]

/-- An instrumented context function: reads header `hdr`, looks at key `sees` of the context it is given, and
    binds key `key` to a value derived from both. -/
structure CtxFn where
  id : Nat
  hdr : Nat
  key : Nat
  sees : Nat
  deriving Repr, DecidableEq

def CtxFn.apply (f : CtxFn) (h : Headers) (c : Ctx) : Ctx :=
  { c with vals := (f.key, derive f.id (hget h f.hdr) (c.get f.sees)) :: c.vals }

/-- The fold of `handlePost`. -/
def foldFns (fns : List CtxFn) (h : Headers) (c : Ctx) : Ctx := fns.foldl (fun c f => f.apply h c) c

inductive Mode
  | stateful | stateless | sessionsOff   -- Streamable HTTP
  | sse                                  -- legacy SSE
  deriving Repr, DecidableEq

inductive Method
  | listTools | listPrompts | listResources | callTool | getPrompt | readResource | ping | notify
  deriving Repr, DecidableEq

structure Req where
  hdrs : Headers
  /-- the session the transport resolved for THIS request (stateful: the `Mcp-Session-Id` header's; stateless:
      the temporary one; legacy SSE: the `sessionId` query parameter's); unused with sessions off -/
  sid : Text
  /-- the answer is written as an SSE stream (Streamable requests only) -/
  acceptSSE : Bool := false
  method : Method
  deriving Repr, DecidableEq

/-- A registry entry and the role marks the (instrumented) list filter hides it from. -/
structure Entry where
  name : Text
  hide : List Text
  deriving Repr, DecidableEq

structure Registry where
  tools : List Entry := []
  prompts : List Entry := []
  resources : List Entry := []
  deriving Repr, DecidableEq

structure Cfg where
  mode : Mode
  /-- the registered context functions, in registration order -/
  fns : List CtxFn
  /-- the observing middlewares, in registration order (the onion itself is C15's subject: these all pass) -/
  mws : List Nat
  /-- the context key the list filters read the caller's role from -/
  roleKey : Nat
  deriving Repr, DecidableEq

/-- Structural facts of the Go source the model is indexed by. -/
structure Facts where
  /-- `handlePost` folds the functions first-registered-first -/
  foldAscending : Bool
  /-- some request path parks a context / session / sender in server-level storage (or takes its context from
      somewhere else than its own parameter) -/
  sharedSlot : Bool
  /-- a list handler keeps list memory across requests: it writes server-level state (a cached filter result), hands
      the filter a snapshot that is not made for this call, or builds its result in pooled memory -/
  listCache : Bool
  /-- the session lookup is NOT a single keyed read of the registry under its lock / under the request's own id:
      something remembers a lookup outside the registry (modelled: a one-entry cache `lastId`, `lastSess`, read and
      published word by word without a lock, in front of the stateful Streamable lookup) -/
  lookupCache : Bool
  deriving Repr, DecidableEq

inductive Stage
  | mw (id : Nat) | filter | handler | notif
  deriving Repr, DecidableEq

/-- One observation: which stage looked, and everything it could read from its context. -/
structure Obs where
  stage : Stage
  ctx : Ctx
  deriving Repr, DecidableEq

inductive Instr
  | fn (f : CtxFn)   -- one context function applied to this request
  | park             -- sharedSlot region: the enriched context is written to the server-level slot …
  | unpark           -- … and read back from there
  | lookId           -- lookupCache region: compare the request's session id with the remembered id …
  | lookSess         -- … hit: take the remembered session; miss: look up in the registry and remember the session …
  | publish          -- … miss: remember the id (a separate word, published after the session)
  | inject           -- sender / session / server / client session, as the transport does it
  | mw (id : Nat)    -- a middleware looks at its context
  | dispatch         -- the method: the list filter or the handler looks at its context; list answer
  deriving Repr, DecidableEq

/-- Thread-local data of one request. -/
structure Loc where
  ctx : Ctx := {}
  obs : List Obs := []
  resp : Option (List Text) := none
  /-- lookupCache region: the id comparison hit -/
  hit : Bool := false
  /-- the session the lookup resolved when it is NOT the registry's entry for the request's own id -/
  sess : Option Text := none
  deriving Repr, DecidableEq

structure Shared where
  reg : Registry
  slot : Option Ctx := none
  cache : List (Method × List Text) := []
  /-- lookupCache region: the remembered id and — a separate word — the remembered session -/
  lastId : Option Text := none
  lastSess : Option Text := none
  deriving Repr, DecidableEq

/-- The request as the transport sees it after the lookup: processed with the session the lookup resolved. -/
def effReq (req : Req) (loc : Loc) : Req :=
  match loc.sess with
  | some s => { req with sid := s }
  | none => req

def senderOf (req : Req) (sid : Text) : Sender := if req.acceptSSE then .sse sid else .noop

/-- `handlePostRequest` / `handlePostNotification` / `createSessionContext`. -/
def inject (m : Mode) (req : Req) (c : Ctx) : Ctx :=
  match m with
  | .sse => { c with session := some req.sid, server := some .sse, client := some req.sid }
  | .sessionsOff => if req.method = .notify then c else { c with sender := some (senderOf req []) }
  | _ =>
    if req.method = .notify then { c with session := some req.sid, client := some req.sid }
    else { c with sender := some (senderOf req req.sid), session := some req.sid }

/-- `handleCallTool`: server provider (Streamable) and client session. -/
def toolCtx (m : Mode) (req : Req) (c : Ctx) : Ctx :=
  match m with
  | .sse => { c with client := some req.sid }
  | .sessionsOff => { c with server := some .streamable, client := none }
  | _ => { c with server := some .streamable, client := some req.sid }

def listOf (reg : Registry) : Method → Option (List Entry)
  | .listTools => some reg.tools
  | .listPrompts => some reg.prompts
  | .listResources => some reg.resources
  | _ => none

/-- The instrumented filter admits an entry unless the value it reads from the context under the role key contains
    one of the entry's hide marks (`strings.Contains`). -/
def visible (roleKey : Nat) (c : Ctx) (e : Entry) : Bool := !(e.hide.any (fun r => contains (c.get roleKey) r))

def filterNames (cfg : Cfg) (c : Ctx) (es : List Entry) : List Text := (es.filter (visible cfg.roleKey c)).map (·.name)

def handlerObs (m : Mode) (req : Req) (c : Ctx) : List Obs :=
  match req.method with
  | .callTool => [⟨.handler, toolCtx m req c⟩]
  | .getPrompt => [⟨.handler, c⟩]
  | .readResource => [⟨.handler, c⟩]
  | .notify => [⟨.notif, c⟩]
  | _ => []

def dispatch (F : Facts) (cfg : Cfg) (req : Req) (s : Shared × Loc) : Shared × Loc :=
  match listOf s.1.reg req.method with
  | some es =>
    if F.listCache then
      match s.1.cache.lookup req.method with
      | some names => (s.1, { s.2 with resp := some names })
      | none =>
        ({ s.1 with cache := (req.method, filterNames cfg s.2.ctx es) :: s.1.cache },
         { s.2 with obs := s.2.obs ++ [⟨.filter, s.2.ctx⟩], resp := some (filterNames cfg s.2.ctx es) })
    else (s.1, { s.2 with obs := s.2.obs ++ [⟨.filter, s.2.ctx⟩], resp := some (filterNames cfg s.2.ctx es) })
  | none => (s.1, { s.2 with obs := s.2.obs ++ handlerObs cfg.mode (effReq req s.2) s.2.ctx })

/-- One atomic step of a request thread. -/
def execInstr (F : Facts) (cfg : Cfg) (req : Req) (i : Instr) (s : Shared × Loc) : Shared × Loc :=
  match i with
  | .fn f => (s.1, { s.2 with ctx := f.apply req.hdrs s.2.ctx })
  | .park => if F.sharedSlot then ({ s.1 with slot := some s.2.ctx }, s.2) else s
  | .unpark => if F.sharedSlot then (s.1, { s.2 with ctx := s.1.slot.getD s.2.ctx }) else s
  | .lookId =>
    if F.lookupCache then
      match cfg.mode with
      | .stateful => (s.1, { s.2 with hit := s.1.lastId == some req.sid })
      | _ => s
    else s
  | .lookSess =>
    if F.lookupCache then
      match cfg.mode with
      | .stateful =>
        if s.2.hit then (s.1, { s.2 with sess := s.1.lastSess })
        else ({ s.1 with lastSess := some req.sid }, s.2)
      | _ => s
    else s
  | .publish =>
    if F.lookupCache then
      match cfg.mode with
      | .stateful => if s.2.hit then s else ({ s.1 with lastId := some req.sid }, s.2)
      | _ => s
    else s
  | .inject => (s.1, { s.2 with ctx := inject cfg.mode (effReq req s.2) s.2.ctx })
  | .mw id => (s.1, { s.2 with obs := s.2.obs ++ [⟨.mw id, s.2.ctx⟩] })
  | .dispatch => dispatch F cfg req s

/-- The context functions that take effect: Streamable folds all of them (in the order the fact says), legacy SSE
    has a single slot — the last `WithSSEContextFunc` wins. -/
def effFns (F : Facts) (cfg : Cfg) : List CtxFn :=
  match cfg.mode with
  | .sse => cfg.fns.getLast?.toList
  | _ => if F.foldAscending then cfg.fns else cfg.fns.reverse

/-- The program of one request. Notifications bypass the middlewares. -/
def prog (F : Facts) (cfg : Cfg) (req : Req) : List Instr :=
  (effFns F cfg).map .fn ++ [.lookId, .lookSess, .publish, .park, .unpark, .inject] ++
    (if req.method = .notify then [] else cfg.mws.map .mw) ++ [.dispatch]

/-- Big-step execution of an instruction list. -/
def exec (F : Facts) (cfg : Cfg) (req : Req) (is : List Instr) (s : Shared × Loc) : Shared × Loc :=
  is.foldl (fun s i => execInstr F cfg req i s) s

structure Thr where
  todo : List Instr
  loc : Loc := {}
  deriving Repr, DecidableEq

/-- Small step: the thread executes its next instruction (a finished thread stays as it is). -/
def step (F : Facts) (cfg : Cfg) (req : Req) (s : Shared × Thr) : Shared × Thr :=
  match s.2.todo with
  | [] => s
  | i :: rest => ((execInstr F cfg req i (s.1, s.2.loc)).1, ⟨rest, (execInstr F cfg req i (s.1, s.2.loc)).2⟩)

def iter {α : Type} (f : α → α) : Nat → α → α
  | 0, x => x
  | n + 1, x => iter f n (f x)

def sh0 (reg : Registry) : Shared := { reg := reg }
def thr0 (F : Facts) (cfg : Cfg) (req : Req) : Thr := { todo := prog F cfg req }

/-- The request processed alone, after `n` of its steps. -/
def alone (F : Facts) (cfg : Cfg) (reg : Registry) (req : Req) (n : Nat) : Shared × Thr :=
  iter (step F cfg req) n (sh0 reg, thr0 F cfg req)

/-- The request processed alone, to the end: what its stages observe and its list answer. -/
def runAlone (F : Facts) (cfg : Cfg) (reg : Registry) (req : Req) : Loc :=
  (exec F cfg req (prog F cfg req) (sh0 reg, {})).2

/-- The system: shared state and one thread per request (`reqs i` is request number `i`). -/
structure State where
  sh : Shared
  ts : Nat → Thr

def stepAt (F : Facts) (cfg : Cfg) (reqs : Nat → Req) (i : Nat) (st : State) : State :=
  { sh := (step F cfg (reqs i) (st.sh, st.ts i)).1
    ts := fun j => if j = i then (step F cfg (reqs i) (st.sh, st.ts i)).2 else st.ts j }

/-- A schedule is the list of thread numbers in the order they take their steps. -/
def run (F : Facts) (cfg : Cfg) (reqs : Nat → Req) : List Nat → State → State
  | [], st => st
  | i :: s, st => run F cfg reqs s (stepAt F cfg reqs i st)

def initState (F : Facts) (cfg : Cfg) (reg : Registry) (reqs : Nat → Req) : State :=
  { sh := sh0 reg, ts := fun i => thr0 F cfg (reqs i) }

/-- Does every store of `Gen.cfStores` hit an allowed (function, target) pair? The allow-list = per-connection /
    per-session objects, decided by reading the code:
    * `getSSEConnection.ctx` (handleGet): the context of ONE GET stream, cancelled when the stream is replaced; only
      `Done()` is used;
    * `SSEServer.sessions` (handleSSE): the session registry, keyed by session id; a POST finds its session through
      its own `sessionId` query parameter;
    * `stdioTransport.session`: the single session of a stdio server (one client per process);
    (values of the library's internal packages are typed for real: a `*session.Session` kept anywhere in package mcp
    — e.g. in an `atomic.Value` remembering the last lookup — is a store of kind session and is NOT on this list)
    * client side: `sseClientTransport.sseConn.ctx`, `streamableHTTPClientTransport.getSSEConn.ctx` (the stream of
      that client), `stdioClientTransport.ctx` (the child process's lifetime). -/
def allowedStores : List (Text × Text) := [
  (t!"httpServerHandler.handleGet", t!"getSSEConnection.ctx"),
  (t!"SSEServer.handleSSE", t!"SSEServer.sessions"),
  (t!"newStdioTransport", t!"stdioTransport.session"),
  (t!"sseClientTransport.start", t!"sseClientTransport.sseConn.ctx"),
  (t!"streamableHTTPClientTransport.establishGetSSE", t!"streamableHTTPClientTransport.getSSEConn.ctx"),
  (t!"newStdioClientTransport", t!"stdioClientTransport.ctx")]

def storeAllowed (a : Text × Text × Text × Text) : Bool := allowedStores.contains (a.1, a.2.1)

/-- The carrier fields that have been looked at (a new field that can hold a context / session / sender must be
    classified before the obligation holds again). -/
def knownCarriers : List Text := [
  t!"getSSEConnection.ctx", t!"sseClientTransport.sseConn.ctx", t!"stdioClientTransport.ctx",
  t!"stdioTransport.session", t!"streamableHTTPClientTransport.getSSEConn.ctx"]

def carrierKnown (f : Text × Text) : Bool := knownCarriers.contains f.1

/-- An `append` on a struct field / package-level slice is harmless for request isolation only when its result
    replaces that same field (`F = append(F, …)`: registration). Anything else — `x := append(h.middlewares, perRequest)`
    — writes the per-request element into `F`'s backing array whenever `F` has spare capacity: a server-level slot
    shared by every concurrent request (the chain of one request then contains the layer, and the session it closes
    over, of another). -/
def appendOk (a : Text × Text × Text) : Bool := a.2.2 == t!"assign-back"

/-- What `Gen.cfSessionLookups` must read: every step from "the id the request carries" to "the session object in
    its context" is a single keyed read of the session registry (under the manager's lock / one `sync.Map` Load),
    keyed by the request's OWN id, and nothing remembers a lookup outside the registry. -/
def expectedLookups : List (Text × Text) := [
  (t!"SSEServer.getSessionFromRequest", t!"keyed-load"),
  (t!"httpServerHandler.handlePost", t!"own-header"),
  (t!"session.SessionManager.GetSession", t!"guarded-map-read"),
  (t!"sessionManagerAdapter.getSession", t!"delegates")]

/-- A context argument is fine when it is the function's own parameter, derived from it, or the request's own. -/
def argOk (a : Text × Text × Text × Text) : Bool :=
  a.2.2.2 == t!"param" || a.2.2.2 == t!"derived" || a.2.2.2 == t!"request"

def filterCallOk (a : Text × Text × Text × Text) : Bool := a.2.2.2 == t!"param"

/-- A list handler's input snapshot / result slice is memory made inside that call (nothing cached, nothing pooled). -/
def listFactFresh (a : Text × Text × Text) : Bool := a.2.2 == t!"fresh"

/-- The facts of today's source. -/
def codeFacts : Facts :=
  { foldAscending := Mcp.Gen.cfPostFoldAscending
    sharedSlot := !(Mcp.Gen.cfStores.all storeAllowed && Mcp.Gen.cfCtxArgs.all argOk && Mcp.Gen.cfFieldAppends.all appendOk)
    listCache := !(Mcp.Gen.cfListFieldWrites.isEmpty && Mcp.Gen.cfListPoolUses.isEmpty &&
      Mcp.Gen.cfListSnapshots.all listFactFresh && Mcp.Gen.cfListResults.all listFactFresh)
    lookupCache := !(Mcp.Gen.cfSessionLookups == expectedLookups) }

/-! ### Vocabulary of the property theorems (`Mcp.Props.C13`) -/

/-- The region today's code is in: nothing request-scoped is parked in server-level state. -/
def Good (F : Facts) : Prop := F.sharedSlot = false ∧ F.listCache = false ∧ F.lookupCache = false

/-- The context every stage of the request starts from: the fold of the effective context functions over the
    request's OWN headers, then the transport's injection for the request's OWN session. -/
def reqCtx (F : Facts) (cfg : Cfg) (req : Req) : Ctx :=
  inject cfg.mode req (foldFns (effFns F cfg) req.hdrs {})

def mwObs (F : Facts) (cfg : Cfg) (req : Req) : List Obs :=
  if req.method = .notify then [] else cfg.mws.map (fun id => ⟨.mw id, reqCtx F cfg req⟩)

def sessionsOf (c : Ctx) : List Text :=
  c.session.toList ++ c.client.toList ++
    (match c.sender with | some (.sse sid) => [sid] | _ => [])

/-- 1: token header → key 10; 2: role header → key 11; 3: token header → key 12, looking at key 10. -/
def wFns : List CtxFn := [⟨1, 0, 10, 10⟩, ⟨2, 1, 11, 99⟩, ⟨3, 0, 12, 10⟩]
def wCfg : Cfg := { mode := .stateful, fns := wFns, mws := [1], roleKey := 11 }
def wReg : Registry := { tools := [⟨t!"admin-tool", [t!"#user#"]⟩, ⟨t!"open-tool", []⟩] }
/-- request 0: token a, role admin; request 1: token b, role user -/
def wReqs : Nat → Req
  | 0 => { hdrs := [(0, t!"a"), (1, t!"#admin#")], sid := t!"s0", method := .listTools }
  | _ => { hdrs := [(0, t!"b"), (1, t!"#user#")], sid := t!"s1", method := .listTools }

end Mcp.Ctx
