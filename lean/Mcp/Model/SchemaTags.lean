/-
  C18 — the `jsonschema` struct-tag parser of internal/schema/converter.go: `parseDirectives` (the two tag formats:
  semicolon-separated, and the legacy comma-separated one with its description-continuation rule) and
  `parseJSONSchemaTags` (the keywords a directive puts on the field's schema), transcribed with their oddities:

  * one `;` anywhere in the tag switches the whole tag to the semicolon format;
  * the legacy splitter cuts every value at a comma — `pattern=^(a,b)$` becomes the pattern `^(a` and the unknown
    directive `b)$` — except inside a description, which swallows every following part that is not one of eleven
    listed directives (`pattern=`, `format=`, `example=` are not listed; `required` / `uniqueItems` never match because
    the test also asks for a `=`);
  * numbers that do not parse are dropped silently; `enum` accumulates, every other keyword is overwritten.

  The parser is a FAMILY over `TagFacts` (regenerated from the source, `Mcp.Gen.SchemaTagFacts`): whether the value of
  `minimum`, `maximum` and of a number-typed `default` goes through a finiteness check (`parseFiniteFloat`, since
  068180d) or straight through `strconv.ParseFloat`, which accepts NaN / Inf / Infinity — bounds encoding/json cannot
  print. `codeTagFacts` are the facts of today's source; the driver runs the model there.

  The parser has no failure path: whatever the tag says, the field keeps its place in `properties` (the generators of
  `Mcp.Model.Schema` do not look at the tag except for `required`).
-/
import Mcp.Model.Schema
import Mcp.Gen.SchemaTagFacts
namespace Mcp.Schema
open Mcp.Str

/-! ## strings.TrimSpace / strconv -/

/-- unicode.IsSpace -/
def isSpace (c : Nat) : Bool :=
  c == 9 || c == 10 || c == 11 || c == 12 || c == 13 || c == 32 || c == 0x85 || c == 0xA0 || c == 0x1680 ||
  (0x2000 ≤ c && c ≤ 0x200A) || c == 0x2028 || c == 0x2029 || c == 0x202F || c == 0x205F || c == 0x3000

def trimLeft : Text → Text
  | [] => []
  | c :: s => if isSpace c then trimLeft s else c :: s

/-- strings.TrimSpace -/
def trimSpace (s : Text) : Text := (trimLeft (trimLeft s).reverse).reverse

def isDigit (c : Nat) : Bool := 48 ≤ c && c ≤ 57

def digitsVal (ds : Text) : Nat := ds.foldl (fun acc c => acc * 10 + (c - 48)) 0

/-- strconv.ParseUint(s, 10, 64): ASCII digits only (no sign, no underscore), at most 2^64 - 1. -/
def parseUint64 (s : Text) : Option Nat :=
  if s != [] && s.all isDigit && digitsVal s < 18446744073709551616 then some (digitsVal s) else none

/-- strconv.ParseInt(s, 10, 64). -/
def parseInt64 (s : Text) : Option Int :=
  match s with
  | 45 :: ds => if ds != [] && ds.all isDigit && digitsVal ds ≤ 9223372036854775808 then some (-(digitsVal ds : Int)) else none
  | 43 :: ds => if ds != [] && ds.all isDigit && digitsVal ds < 9223372036854775808 then some (digitsVal ds : Int) else none
  | ds => if ds != [] && ds.all isDigit && digitsVal ds < 9223372036854775808 then some (digitsVal ds : Int) else none

/-- strconv.ParseBool -/
def parseBool (s : Text) : Option Bool :=
  if s == t!"1" || s == t!"t" || s == t!"T" || s == t!"TRUE" || s == t!"true" || s == t!"True" then some true
  else if s == t!"0" || s == t!"f" || s == t!"F" || s == t!"FALSE" || s == t!"false" || s == t!"False" then some false
  else none

/-- strconv.ParseFloat(s, 64) on the literals the model covers: `[+-]? digits [. digits]` with at least one and at most
    fifteen digits (the value is then the decimal itself: mantissa, number of fraction digits); a text with a character
    no Go float literal can contain, or without any digit and no spelling of infinity / NaN, is an error; everything
    else with a digit (exponents, hex, underscores, long mantissas) is outside the model. `[+-]? inf`, `[+-]? infinity`
    and `nan` (any case; no sign before `nan`) PARSE — to values encoding/json cannot print. -/
inductive FloatLit where
  | err
  | num (m : Int) (e : Nat)
  | nonfinite
  | unmodelled
deriving DecidableEq, Repr

def splitDot : Text → Text × Option Text
  | [] => ([], none)
  | c :: s => if c == 46 then ([], some s) else let r := splitDot s; (c :: r.1, r.2)

/-- the characters of Go's decimal / hexadecimal float literals and of `inf`, `infinity`, `nan` -/
def floatAlphabet (c : Nat) : Bool :=
  isDigit c || (97 ≤ c && c ≤ 102) || (65 ≤ c && c ≤ 70) || t!"xXpP_+-.iInNtTyY".contains c

def parseFloatLit (s : Text) : FloatLit :=
  let (neg, body) := match s with
    | 45 :: r => (true, r)
    | 43 :: r => (false, r)
    | r => (false, r)
  let (ip, fp?) := splitDot body
  let fp := fp?.getD []
  if ip.all isDigit && fp.all isDigit && (ip ++ fp) != [] then
    if (ip ++ fp).length ≤ 15 then
      let m : Int := digitsVal (ip ++ fp)
      .num (if neg then -m else m) fp.length
    else .unmodelled
  else if !s.all floatAlphabet then .err
  else if s.any isDigit then .unmodelled
  else
    let l := toLower body
    if l == t!"inf" || l == t!"infinity" || toLower s == t!"nan" then .nonfinite else .err

/-! ## parseDirectives -/

structure DirState where
  out : List Text      -- finished directives, newest first
  cur : Text           -- the strings.Builder
  inDesc : Bool
deriving Repr

/-- the directives that end a legacy description (the `strings.Contains(part, "=") && (…)` test, as written) -/
def endsDescription (part : Text) : Bool :=
  contains part t!"=" &&
    (hasPrefix part t!"title=" || hasPrefix part t!"minLength=" || hasPrefix part t!"maxLength=" ||
     hasPrefix part t!"minimum=" || hasPrefix part t!"maximum=" || hasPrefix part t!"minItems=" ||
     hasPrefix part t!"maxItems=" || hasPrefix part t!"default=" || hasPrefix part t!"enum=" ||
     part == t!"required" || part == t!"uniqueItems")

def flush (st : DirState) : List Text := if st.cur != [] then st.cur :: st.out else st.out

/-- one round of the legacy loop (`part` already trimmed) -/
def legacyStep (st : DirState) (part : Text) : DirState :=
  if hasPrefix part t!"description=" then ⟨flush st, part, true⟩
  else if st.inDesc then
    if endsDescription part then ⟨st.cur :: st.out, part, false⟩
    else ⟨st.out, st.cur ++ t!", " ++ part, true⟩
  else ⟨flush st, part, false⟩

def parseDirectives (tag : Text) : List Text :=
  if tag.contains 59 then ((splitOn 59 tag).map trimSpace).filter (· != [])
  else (flush (((splitOn 44 tag).map trimSpace).foldl legacyStep ⟨[], [], false⟩)).reverse

/-! ## parseJSONSchemaTags -/

/-- the JSON type of the field's schema, which decides how `default=` is converted -/
inductive TagKind where
  | str | int | float | bool | other
deriving DecidableEq, Repr

inductive DefVal where
  | str (s : Text)
  | int (i : Int)
  | num (m : Int) (e : Nat)
  | bool (b : Bool)
deriving DecidableEq, Repr

structure TagKw where
  title : Text := []
  description : Text := []
  format : Text := []
  pattern : Text := []
  minimum : Option (Int × Nat) := none
  maximum : Option (Int × Nat) := none
  minLength : Nat := 0
  maxLength : Option Nat := none
  minItems : Nat := 0
  maxItems : Option Nat := none
  enums : List Text := []
  dflt : Option DefVal := none
  exmpl : Option Text := none
  uniqueItems : Bool := false
  nonfinite : Bool := false      -- a bound / default is NaN or ±Inf: json.Marshal of the schema fails
  unmodelled : Bool := false     -- a number literal outside `parseFloatLit`'s grammar was met
deriving DecidableEq, Repr

/-- strings.SplitN(d, "=", 2) of a text that contains `=` -/
def cutEq : Text → Text × Text
  | [] => ([], [])
  | c :: s => if c == 61 then ([], s) else let r := cutEq s; (c :: r.1, r.2)

/-- key and value of a `key=value` directive, both trimmed -/
def directiveKey (d0 : Text) : Text := trimSpace (cutEq (trimSpace d0)).1
def directiveValue (d0 : Text) : Text := trimSpace (cutEq (trimSpace d0)).2

/-- what the `switch key` of parseJSONSchemaTags makes of one directive -/
inductive Directive where
  | ignored                                  -- `required` (handled by the struct loop), unknown keys, no `=`
  | title (v : Text) | description (v : Text) | format (v : Text) | pattern (v : Text)
  | minimum (v : Text) | maximum (v : Text)
  | minLength (v : Text) | maxLength (v : Text) | minItems (v : Text) | maxItems (v : Text)
  | enum (v : Text) | dflt (v : Text) | exmpl (v : Text)
  | uniqueItems
deriving DecidableEq, Repr

/-- the `case` labels of the `switch key` -/
def keywordTable : List (Text × (Text → Directive)) :=
  [(t!"title", .title), (t!"description", .description), (t!"format", .format), (t!"pattern", .pattern),
   (t!"minimum", .minimum), (t!"maximum", .maximum), (t!"minLength", .minLength), (t!"maxLength", .maxLength),
   (t!"minItems", .minItems), (t!"maxItems", .maxItems), (t!"enum", .enum), (t!"default", .dflt), (t!"example", .exmpl)]

def classify (d0 : Text) : Directive :=
  if trimSpace d0 == t!"required" then .ignored
  else if (trimSpace d0).contains 61 then
    match keywordTable.find? (fun p => p.1 == directiveKey d0) with
    | some p => p.2 (directiveValue d0)
    | none => .ignored
  else if trimSpace d0 == t!"uniqueItems" then .uniqueItems
  else .ignored

/-- the value a directive hands to strconv.ParseFloat (for `default=`: on number-typed fields) -/
def Directive.floatArg : Directive → Option Text
  | .minimum v => some v
  | .maximum v => some v
  | .dflt v => some v
  | _ => none

/-- Which number parsers of parseJSONSchemaTags reject NaN / ±Inf (`parseFiniteFloat`) instead of accepting whatever
    `strconv.ParseFloat` accepts. -/
structure TagFacts where
  minFinite : Bool
  maxFinite : Bool
  defaultFinite : Bool
deriving DecidableEq, Repr

/-- every tag number goes through the finiteness check (the code since 068180d) -/
def TagFacts.checked : TagFacts := ⟨true, true, true⟩
/-- none does (the code before: plain `strconv.ParseFloat`) -/
def TagFacts.unchecked : TagFacts := ⟨false, false, false⟩

/-- the region in which no tag can put a non-finite number on a schema -/
def TagFacts.Good (F : TagFacts) : Prop := F.minFinite = true ∧ F.maxFinite = true ∧ F.defaultFinite = true
instance (F : TagFacts) : Decidable F.Good := by unfold TagFacts.Good; exact inferInstance

/-- a keyword's parser is finite-checked iff it is `parseFiniteFloat` and that function has the checked shape;
    `strconv.ParseFloat`, `unknown` or anything else is not -/
def tagParserFinite (kw : Text) : Bool :=
  Mcp.Gen.tagFiniteCheck && (Mcp.Gen.tagNumberParsers.lookup kw == some t!"parseFiniteFloat")

/-- The facts of today's source. -/
def codeTagFacts : TagFacts :=
  ⟨tagParserFinite t!"minimum", tagParserFinite t!"maximum", tagParserFinite t!"default:number"⟩

def defaultOf (F : TagFacts) (k : TagKind) (kw : TagKw) (v : Text) : TagKw :=
  match k with
  | .int => { kw with dflt := some (match parseInt64 v with | some i => .int i | none => .str v) }
  | .float =>
    match parseFloatLit v with
    | .num m e => { kw with dflt := some (.num m e) }
    | .err => { kw with dflt := some (.str v) }
    | .nonfinite => if F.defaultFinite then { kw with dflt := some (.str v) } else { kw with nonfinite := true }
    | .unmodelled => { kw with unmodelled := true }
  | .bool => { kw with dflt := some (match parseBool v with | some b => .bool b | none => .str v) }
  | _ => { kw with dflt := some (.str v) }

def applyClassified (F : TagFacts) (k : TagKind) (kw : TagKw) : Directive → TagKw
  | .ignored => kw
  | .title v => { kw with title := v }
  | .description v => { kw with description := v }
  | .format v => { kw with format := v }
  | .pattern v => { kw with pattern := v }
  | .minimum v =>
    match parseFloatLit v with
    | .num m e => { kw with minimum := some (m, e) }
    | .err => kw
    | .nonfinite => if F.minFinite then kw else { kw with nonfinite := true }
    | .unmodelled => { kw with unmodelled := true }
  | .maximum v =>
    match parseFloatLit v with
    | .num m e => { kw with maximum := some (m, e) }
    | .err => kw
    | .nonfinite => if F.maxFinite then kw else { kw with nonfinite := true }
    | .unmodelled => { kw with unmodelled := true }
  | .minLength v => (match parseUint64 v with | some n => { kw with minLength := n } | none => kw)
  | .maxLength v => (match parseUint64 v with | some n => { kw with maxLength := some n } | none => kw)
  | .minItems v => (match parseUint64 v with | some n => { kw with minItems := n } | none => kw)
  | .maxItems v => (match parseUint64 v with | some n => { kw with maxItems := some n } | none => kw)
  | .enum v => { kw with enums := kw.enums ++ [v] }
  | .dflt v => defaultOf F k kw v
  | .exmpl v => { kw with exmpl := some v }
  | .uniqueItems => { kw with uniqueItems := true }

/-- one round of the directive loop of parseJSONSchemaTags -/
def applyDirective (F : TagFacts) (k : TagKind) (kw : TagKw) (d0 : Text) : TagKw := applyClassified F k kw (classify d0)

/-- parseJSONSchemaTags on a fresh field schema of JSON type `k`: the keywords it sets. It cannot fail. -/
def tagKeywords (F : TagFacts) (k : TagKind) (js : Text) : TagKw :=
  if js == [] then {} else (parseDirectives js).foldl (applyDirective F k) {}

/-- the same struct fields carrying other `jsonschema` tags (`f` sees the whole field description) -/
def retag (f : FieldMeta → Text) : Fields → Fields
  | [] => []
  | (m, t) :: fs => ({ m with jsTag := f m }, t) :: retag f fs

end Mcp.Schema
