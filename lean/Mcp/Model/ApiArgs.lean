/-
  C20 — the caller's memory behind API arguments (the regenerated table `Mcp.Gen.rcApiArgs`, `extract/races_apiargs.go`).

  A caller owns what it passes: once a call of the public API has returned, the caller may write to the map, the
  slice or the object behind the pointer it passed (a progress loop reuses one params map).  If the library kept the
  argument's own object — stored it in memory that outlives the call, handed it to another goroutine, or returned
  something that aliases it to code that does — the library's later read races with that write.  The table lists, per
  exported function / method of package mcp (and per method user code reaches through the package's interfaces) and
  per parameter of map / slice / pointer type, where the parameter's OWN object can end up (shallow: what its
  elements refer to is not followed):
    stored / sent / returned / unknown (passed to code without a summary that is not known to be harmless),
    copied (informational: its contents are read into fresh memory).
  An entry is compliant when none of stored / sent / returned / unknown holds: the library only reads the argument
  before it returns, or works on a copy.  Entries that keep the argument BY DOCUMENTED CONTRACT (registration keeps the
  *Tool, options keep what they are given, net/http's own contract) are reviewed one by one in `Props/C20`
  (`reviewedRetention`, matched by API, parameter AND verdict).
-/
import Mcp.Model.Str
namespace Mcp.ApiArgs
open Mcp.Str

structure ApiArg where
  api : Text
  param : Text
  type : Text
  stored : Bool
  sent : Bool
  returned : Bool
  unknown : Bool
  copied : Bool
  deriving Repr, DecidableEq

inductive Verdict | unknown | sentAsIs | storedAsIs | returnedAsIs | copied | readOnly
  deriving Repr, DecidableEq

/-- The worst thing that happens to the argument. -/
def verdict (e : ApiArg) : Verdict :=
  if e.unknown then .unknown
  else if e.sent then .sentAsIs
  else if e.stored then .storedAsIs
  else if e.returned then .returnedAsIs
  else if e.copied then .copied
  else .readOnly

/-- Nothing of the argument's own object is left with the library (or with whoever gets the result) after the call. -/
def compliant (e : ApiArg) : Bool := !e.unknown && !e.sent && !e.stored && !e.returned

structure Reviewed where
  api : Text
  param : Text
  verdict : Verdict
  deriving Repr, DecidableEq

/-- The entry is one of the reviewed ones, with exactly the reviewed verdict (a reviewed `storedAsIs` that turns into
    `sentAsIs` is a new entry). -/
def reviewedBy (rs : List Reviewed) (e : ApiArg) : Bool :=
  rs.any fun r => r.api == e.api && r.param == e.param && r.verdict == verdict e

def ArgsNotRetained (rs : List Reviewed) (tab : List ApiArg) : Prop :=
  ∀ e ∈ tab, compliant e = true ∨ reviewedBy rs e = true

/-- The non-compliant entries of a table, as review records, in table order. -/
def retained (tab : List ApiArg) : List Reviewed :=
  (tab.filter fun e => !compliant e).map fun e => ⟨e.api, e.param, verdict e⟩

def find (tab : List ApiArg) (api param : Text) : Option ApiArg := tab.find? fun e => e.api == api && e.param == param

/-- The API is in the table and compliant. -/
def keepsNothing (tab : List ApiArg) (api param : Text) : Bool :=
  match find tab api param with
  | some e => compliant e
  | none => false

/-! ### literal records (not regenerated) -/

/-- The shape of a seeded defect: the notification constructor uses the caller's params map itself as the
    notification's fields … -/
def ctorKeepsMap : ApiArg :=
  ⟨t!"NewJSONRPCNotificationFromMap", t!"params", t!"map[string]interface{}", false, false, true, false, false⟩

/-- … and the legacy SSE server queues that notification for the session's writer goroutine, which encodes it later. -/
def sendQueuesMap : ApiArg :=
  ⟨t!"SSEServer.SendNotification", t!"params", t!"map[string]interface{}", false, true, false, false, false⟩

/-- The same API when the constructor copies the map entry by entry. -/
def sendCopiesMap : ApiArg :=
  ⟨t!"SSEServer.SendNotification", t!"params", t!"map[string]interface{}", false, false, false, false, true⟩

/-- Registration keeps the *Tool (reviewed contract) … -/
def registerKeepsTool : ApiArg :=
  ⟨t!"Server.RegisterTool", t!"tool", t!"*Tool", true, false, false, false, false⟩

/-- … but handing it to another goroutine as well would be something else. -/
def registerSendsTool : ApiArg :=
  ⟨t!"Server.RegisterTool", t!"tool", t!"*Tool", true, true, false, false, false⟩

/-- An argument passed to code the extractor knows nothing about. -/
def argEscapes : ApiArg :=
  ⟨t!"Server.SendNotification", t!"params", t!"map[string]interface{}", false, false, false, true, false⟩

end Mcp.ApiArgs
