/-
  Identifiers: hex rendering of session ids (`hex.EncodeToString`), SSE event ids (`evt-<ms>-<counter>`),
  and Go's `%v` rendering of JSON-RPC ids (int64 vs float64), used as pending-table keys.
-/
import Mcp.Model.Str
namespace Mcp.Ids
open Mcp.Str

def hexDigit (d : Nat) : Nat := if d < 10 then 48 + d else 87 + d

/-- `hex.EncodeToString` on a list of bytes. -/
def hexEncode : List Nat → Text
  | [] => []
  | b :: bs => hexDigit (b / 16) :: hexDigit (b % 16) :: hexEncode bs

theorem hexDigit_inj {a b : Nat} (ha : a < 16) (hb : b < 16) (h : hexDigit a = hexDigit b) : a = b := by
  unfold hexDigit at h; split at h <;> split at h <;> omega

theorem hexEncode_length (a : List Nat) : (hexEncode a).length = 2 * a.length := by
  induction a with
  | nil => rfl
  | cons b bs ih => simp [hexEncode, ih]; omega

theorem hexEncode_inj (a b : List Nat) (ha : ∀ x ∈ a, x < 256) (hb : ∀ x ∈ b, x < 256)
    (h : hexEncode a = hexEncode b) : a = b := by
  induction a generalizing b with
  | nil => cases b with
    | nil => rfl
    | cons y ys => simp [hexEncode] at h
  | cons x xs ih =>
    cases b with
    | nil => simp [hexEncode] at h
    | cons y ys =>
      simp only [hexEncode, List.cons.injEq] at h
      obtain ⟨h1, h2, h3⟩ := h
      have hx := ha x (by simp)
      have hy := hb y (by simp)
      have e1 := hexDigit_inj (by omega) (by omega) h1
      have e2 := hexDigit_inj (Nat.mod_lt _ (by omega)) (Nat.mod_lt _ (by omega)) h2
      have : x = y := by omega
      subst this
      congr 1
      exact ih ys (fun z hz => ha z (by simp [hz])) (fun z hz => hb z (by simp [hz])) h3

theorem hexEncode_chars (a : List Nat) (ha : ∀ x ∈ a, x < 256) :
    ∀ ch ∈ hexEncode a, (48 ≤ ch ∧ ch ≤ 57) ∨ (97 ≤ ch ∧ ch ≤ 102) := by
  induction a with
  | nil => intro ch h; simp [hexEncode] at h
  | cons x xs ih =>
    intro ch h
    simp only [hexEncode, List.mem_cons] at h
    have hx := ha x (by simp)
    rcases h with h | h | h
    · subst h; unfold hexDigit; split <;> omega
    · subst h; unfold hexDigit; split <;> omega
    · exact ih (fun z hz => ha z (by simp [hz])) ch h

end Mcp.Ids

/-!
  ## JSON-RPC ids as pending-table keys (C01, C05) — add-only extension

  Go renders an id held in an `interface{}` with `fmt.Sprintf("%v", id)`:
  * an `int64` prints as its decimal digits (`strconv.FormatInt`);
  * a `float64` prints as `%g` with the shortest digits that round-trip, and switches to exponent form iff the decimal
    exponent is `< -4` or `>= 6` — measured on the real runtime: `999999 ↦ "999999"`, `1000000 ↦ "1e+06"`,
    `1234567 ↦ "1.234567e+06"`, `2147483648 ↦ "2.147483648e+09"`, `9007199254740992 ↦ "9.007199254740992e+15"`.
  A JSON number decoded into an `interface{}` is always a `float64`.  For an integer `|n| ≤ 2^53` the float is exact and
  its shortest digits are the decimal digits of `n` without trailing zeros (any shorter decimal is a multiple of ten and
  so a different integer, and neighbouring floats are at least 1 apart up to `2^53`).
-/
namespace Mcp.Ids
open Mcp.Str

/-- decimal digits of `n` without trailing zeros (`"1200000" ↦ "12"`). -/
def stripZeros (ds : Text) : Text := (ds.reverse.dropWhile (· == 48)).reverse

/-- exponent part after `e+`: at least two digits. -/
def expText (e : Nat) : Text := if e < 10 then 48 :: natDigits e else natDigits e

/-- `%e`-shaped shortest rendering of a float64 holding the positive integer `n ≤ 2^53`: `d[.ddd]e+XX`. -/
def sciText (n : Nat) : Text :=
  let ds := natDigits n
  (match stripZeros ds with
   | [] => [48]
   | [d] => [d]
   | d :: rest => d :: 46 :: rest) ++ (101 :: 43 :: expText (ds.length - 1))

/-- `fmt.Sprintf("%v", float64(n))` for a natural `n ≤ 2^53`. -/
def fmtVFloatNat (n : Nat) : Text := if n < 1000000 then natDigits n else sciText n

/-- `fmt.Sprintf("%v", float64(i))` for an integer `|i| ≤ 2^53`. -/
def fmtVFloatInt : Int → Text
  | .ofNat n => fmtVFloatNat n
  | .negSucc n => 45 :: fmtVFloatNat (n + 1)

/-- `fmt.Sprintf("%v", int64(i))`. -/
def fmtVInt (i : Int) : Text := intText i

/-- least `e' ≥ e` with `n / 2^e' < 2^53` (fuel-bounded). -/
def dropBits : Nat → Nat → Nat → Nat
  | 0, _, e => e
  | f + 1, n, e => if n / 2 ^ e < 2 ^ 53 then e else dropBits f n (e + 1)

/-- The float64 nearest to the natural number `n` (round to nearest, ties to even, 53-bit significand), as a natural
    number.  Domain `n < 2^1024` (above that Go's decoder refuses the number). -/
def f64OfNat (n : Nat) : Nat :=
  let e := dropBits 1100 n 0
  if e = 0 then n else
    let q := n / 2 ^ e
    let r := n % 2 ^ e
    let half := 2 ^ (e - 1)
    (if r > half ∨ (r = half ∧ q % 2 = 1) then q + 1 else q) * 2 ^ e

def f64OfInt : Int → Int
  | .ofNat n => .ofNat (f64OfNat n)
  | .negSucc n => - (Int.ofNat (f64OfNat (n + 1)))

/-- Go `int64(f)` of a float64 holding the integer `v` (amd64: out of range gives `math.MinInt64`; measured). -/
def i64OfF64 (v : Int) : Int := if -(2 ^ 63 : Int) ≤ v ∧ v < 2 ^ 63 then v else -(2 ^ 63 : Int)

/-- Go `uint64(f)` of a float64 holding the integer `v` (amd64; measured: `-1 ↦ 2^64-1`, `1e30 ↦ 2^63`). -/
def u64OfF64 (v : Int) : Int :=
  if 0 ≤ v ∧ v < 2 ^ 64 then v
  else if -(2 ^ 63 : Int) ≤ v ∧ v < 0 then 2 ^ 64 + v
  else 2 ^ 63

/-- Go `uint64(i)` of an `int64`. -/
def u64OfI64 (i : Int) : Int := if 0 ≤ i then i else 2 ^ 64 + i

/-! ### lemmas -/

def valOf (t : Text) : Nat := t.foldl (fun a d => a * 10 + (d - 48)) 0

theorem digitsAux_append (f n : Nat) (acc : Text) : digitsAux f n acc = digitsAux f n [] ++ acc := by
  induction f generalizing n acc with
  | zero => simp [digitsAux]
  | succ f ih =>
    simp only [digitsAux]
    split
    · simp
    · rw [ih (n / 10) ((48 + n % 10) :: acc), ih (n / 10) [48 + n % 10]]; simp

theorem valOf_digitsAux (f n : Nat) (h : n < f) : valOf (digitsAux f n []) = n := by
  induction f generalizing n with
  | zero => omega
  | succ f ih =>
    simp only [digitsAux]
    split
    · simp [valOf]
    · rename_i h10
      rw [digitsAux_append]
      have := ih (n / 10) (by omega)
      simp only [valOf, List.foldl_append, List.foldl_cons, List.foldl_nil] at this ⊢
      rw [this]; omega

theorem valOf_natDigits (n : Nat) : valOf (natDigits n) = n := valOf_digitsAux (n + 1) n (by omega)

/-- decimal rendering is injective: two different counter values never share a `%v` key. -/
theorem natDigits_inj {a b : Nat} (h : natDigits a = natDigits b) : a = b := by
  have := congrArg valOf h
  simpa [valOf_natDigits] using this

theorem digitsAux_chars (f n : Nat) (acc : Text) (hacc : ∀ c ∈ acc, 48 ≤ c ∧ c ≤ 57) :
    ∀ c ∈ digitsAux f n acc, 48 ≤ c ∧ c ≤ 57 := by
  induction f generalizing n acc with
  | zero => simpa [digitsAux] using hacc
  | succ f ih =>
    simp only [digitsAux]
    split
    · intro c hc
      simp only [List.mem_cons] at hc
      rcases hc with hc | hc
      · omega
      · exact hacc c hc
    · apply ih
      intro c hc
      simp only [List.mem_cons] at hc
      rcases hc with hc | hc
      · have := Nat.mod_lt n (show 10 > 0 by omega); omega
      · exact hacc c hc

theorem natDigits_chars (n : Nat) : ∀ c ∈ natDigits n, 48 ≤ c ∧ c ≤ 57 :=
  digitsAux_chars (n + 1) n [] (by simp)

theorem sciText_has_e (n : Nat) : 101 ∈ sciText n := by
  simp [sciText]

theorem fmtVFloatNat_small {n : Nat} (h : n < 1000000) : fmtVFloatNat n = natDigits n := by
  simp [fmtVFloatNat, h]

/-- from one million on the float rendering is in exponent form and can never equal a decimal rendering. -/
theorem fmtVFloatNat_large_ne {n : Nat} (h : 1000000 ≤ n) (c : Nat) : fmtVFloatNat n ≠ natDigits c := by
  intro he
  have h1 : fmtVFloatNat n = sciText n := by simp [fmtVFloatNat]; omega
  have h2 : 101 ∈ natDigits c := by rw [← he, h1]; exact sciText_has_e n
  have := natDigits_chars c 101 h2
  omega

/-- key agreement implies the same number: a float-rendered id equals an int-rendered id only for the same integer. -/
theorem fmtV_sound {a c : Nat} (h : fmtVFloatNat a = natDigits c) : a = c := by
  by_cases ha : a < 1000000
  · rw [fmtVFloatNat_small ha] at h; exact natDigits_inj h
  · exact absurd h (fmtVFloatNat_large_ne (by omega) c)

theorem dropBits_zero {n : Nat} (h : n < 2 ^ 53) : dropBits 1100 n 0 = 0 := by
  show dropBits (1099 + 1) n 0 = 0
  simp [dropBits, h]

theorem f64OfNat_small {n : Nat} (h : n < 2 ^ 53) : f64OfNat n = n := by
  simp [f64OfNat, dropBits_zero h]

end Mcp.Ids
