/-
  Identifiers: hex rendering of session ids (`hex.EncodeToString`), SSE event ids (`evt-<ms>-<counter>`),
  and Go's `%v` rendering of JSON-RPC ids (int64 vs float64), used as pending-table keys.
-/
import Mcp.Model.Str
namespace Mcp.Ids
open Mcp.Str

def hexDigit (d : Nat) : Nat := if d < 10 then 48 + d else 87 + d

/-- `hex.EncodeToString` on a list of bytes. -/
def hexEncode : List Nat → Text
  | [] => []
  | b :: bs => hexDigit (b / 16) :: hexDigit (b % 16) :: hexEncode bs

theorem hexDigit_inj {a b : Nat} (ha : a < 16) (hb : b < 16) (h : hexDigit a = hexDigit b) : a = b := by
  unfold hexDigit at h; split at h <;> split at h <;> omega

theorem hexEncode_length (a : List Nat) : (hexEncode a).length = 2 * a.length := by
  induction a with
  | nil => rfl
  | cons b bs ih => simp [hexEncode, ih]; omega

theorem hexEncode_inj (a b : List Nat) (ha : ∀ x ∈ a, x < 256) (hb : ∀ x ∈ b, x < 256)
    (h : hexEncode a = hexEncode b) : a = b := by
  induction a generalizing b with
  | nil => cases b with
    | nil => rfl
    | cons y ys => simp [hexEncode] at h
  | cons x xs ih =>
    cases b with
    | nil => simp [hexEncode] at h
    | cons y ys =>
      simp only [hexEncode, List.cons.injEq] at h
      obtain ⟨h1, h2, h3⟩ := h
      have hx := ha x (by simp)
      have hy := hb y (by simp)
      have e1 := hexDigit_inj (by omega) (by omega) h1
      have e2 := hexDigit_inj (Nat.mod_lt _ (by omega)) (Nat.mod_lt _ (by omega)) h2
      have : x = y := by omega
      subst this
      congr 1
      exact ih ys (fun z hz => ha z (by simp [hz])) (fun z hz => hb z (by simp [hz])) h3

theorem hexEncode_chars (a : List Nat) (ha : ∀ x ∈ a, x < 256) :
    ∀ ch ∈ hexEncode a, (48 ≤ ch ∧ ch ≤ 57) ∨ (97 ≤ ch ∧ ch ≤ 102) := by
  induction a with
  | nil => intro ch h; simp [hexEncode] at h
  | cons x xs ih =>
    intro ch h
    simp only [hexEncode, List.mem_cons] at h
    have hx := ha x (by simp)
    rcases h with h | h | h
    · subst h; unfold hexDigit; split <;> omega
    · subst h; unfold hexDigit; split <;> omega
    · exact ih (fun z hz => ha z (by simp [hz])) ch h

end Mcp.Ids
