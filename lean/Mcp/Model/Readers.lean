/-
  The five client-side readers of server output (property C07), transcribed from the Go source as folds over a list of
  lines / frames, with explicit outcomes.

    1. `jsonBody`   streamable_client.go `send`, the non-SSE branch (status check, body parse, result / error extraction)
    2. `postStep`   streamable_client.go `handleSSEResponse` / `processEventData` (one call's own SSE stream)
    3. `getStep`    streamable_client.go `handleGetSSEEvents` / `processSSEEvent` (`bufio.Scanner`: token limit)
    4. `legStep`    sse_client.go `readSSE` / `handleEvent` / `handleEndpointEvent` (the `endpointChan` latch) /
                    `handleMessageEvent` / `handleResponse`
    5. `stdioStep`  transport_stdio.go `readLoop` (a LINE reader: `ReadBytes('\n')` + `json.Unmarshal` per line; before the
                    repair of D16 a `json.Decoder` loop with a sticky error, kept as the `.spin` / `.stop` regions) /
                    `handleResponse` / `handleErrorResponse` / `handleNotification` / `handleIncomingRequest`

  What is *not* modelled but taken as an oracle bit carried by the input token: whether a text is a JSON value (and which),
  whether `url.Parse` accepts it, how many bytes the raw line has.  The harness computes these bits with the same standard
  library functions and renders the tokens to bytes; the differential run ties tokens to bytes.

  The readers are a family indexed by three structural facts regenerated from the source (`Facts`): the GET stream's line
  limit, whether the endpoint latch is closed under a guard, what the stdio loop does after a decode error.
-/
import Mcp.Model.Json
import Mcp.Gen.PendingFacts
namespace Mcp.Readers
open Mcp.Str Mcp.Json

/-! ## facts -/

/-- the shape of the stdio `readLoop` -/
inductive OnErr where
  /-- a `json.Decoder` loop that `continue`s after an error: the decoder's error is sticky, no input is consumed any more
      (the code before the repair of D16) -/
  | spin
  /-- a `json.Decoder` loop that leaves at the first error -/
  | stop
  /-- a LINE reader (today): `ReadBytes('\n')`, blank lines skipped, `json.Unmarshal` of the whole line, a line that is not
      exactly one JSON value is logged and skipped, EOF ends the loop -/
  | resync
  deriving DecidableEq, Repr

structure Facts where
  /-- GET stream: a raw line of at least this many bytes ends the stream (`bufio.Scanner` token limit);
      `none`: the reader has no limit -/
  getLimit : Option Nat
  /-- legacy SSE: `close(t.endpointChan)` happens at most once (sync.Once / select-default / CAS guard) -/
  latchGuarded : Bool
  stdioOnError : OnErr
  deriving Repr

/-- the region in which the full theorems hold -/
def Facts.good (F : Facts) : Bool := F.getLimit.isNone && F.latchGuarded && F.stdioOnError == .resync

/-! ## outcomes -/

/-- a reader goroutine that stopped doing its job -/
inductive Halt where
  /-- unrecovered panic in a background goroutine: the process is gone -/
  | panic
  /-- the loop runs without consuming input (100 % CPU), later frames are never processed -/
  | spin
  /-- the loop has ended: later frames are never processed -/
  | dead
  deriving DecidableEq, Repr

inductive Why where
  | status | parse | missingResult | closedNoResponse | deadline
  deriving DecidableEq, Repr

/-- what the transport hands to the caller of one request -/
inductive CallOut where
  /-- the `result` member, handed to the result decoder -/
  | ok (r : Json)
  /-- a JSON-RPC error answer: the client turns it into an error -/
  | rpcError
  /-- the transport itself fails the call -/
  | failed (w : Why)

/-- observable class of a finished call -/
def CallOut.isOk : CallOut → Bool
  | .ok _ => true
  | _ => false

/-! ## input tokens -/

/-- the text after `data:` (trimmed) / one stdio frame / one HTTP body, as far as the readers look at it -/
structure Payload where
  nonEmpty : Bool
  /-- `some v` iff the text is exactly one JSON value (`json.Unmarshal` succeeds into `interface{}`) -/
  json : Option Json
  /-- `url.Parse` accepts the text -/
  urlOk : Bool

inductive Kind where
  /-- the empty line -/
  | blank
  /-- blanks / tabs only -/
  | spaces
  /-- starts with `:` -/
  | comment
  | id
  /-- an `id:` line whose (trimmed) value is NOT a valid HTTP header field value: a control character other than tab, NUL,
      DEL, a CR inside (oracle bit computed by the harness; `.id` is an id line whose value is one — the empty value included) -/
  | idUnsafe
  /-- `event:` and the trimmed event name -/
  | event (name : Text)
  | data (p : Payload)
  /-- any other text (no field name the readers know) -/
  | other

structure Line where
  kind : Kind
  /-- white space in front of the field name: `handleSSEResponse` trims the line first, the other two readers do not -/
  indent : Bool
  /-- bytes of the raw line without its `\n` -/
  size : Nat

/-- a delivered notification: method and `params` -/
abbrev Note := Text × Json
/-- an answer the client sent to a server-issued request: the request's id, and whether it was a result (`roots/list`)
    or the method-not-found error -/
abbrev Answer := Json × Bool

/-! ## JSON-RPC envelope helpers (jsonrpc.go) -/

/-- The id comparison of the POST-SSE matcher and of the legacy SSE table, for the two renderings the tree has had
    (`id` came out of `json.Unmarshal` into `interface{}`: a number is a `float64`; `req` is the `int64` counter):
    * `idKey = true` — `requestIDKey(id) == requestIDKey(reqID)`: `"n:<integer digits>"` for an integral number,
      `"s:<string>"` for a string, so a number matches iff it is the counter value and a string never does;
    * `idKey = false` — `fmt.Sprintf("%v", …)` on both sides (before the D01 repair): a float64 prints its digits below
      10^6 and in exponent form from there on — never equal to the digits of an `int64` — and a string prints as itself.
    (Numbers are exact in the model; float64 rounding above 2^53 and of near-integers is outside it.) -/
def idMatchesK (idKey : Bool) (req : Nat) : Json → Bool
  | .int i => decide (i = Int.ofNat req) && (idKey || decide (req < 1000000))
  | .str s => !idKey && decide (s = natDigits req)
  | _ => false

/-- regenerated fact: both sides of the Streamable POST-SSE matcher and of the legacy SSE client's table render ids with
    `requestIDKey` -/
def idKeyToday : Bool :=
  Mcp.Gen.pdPostSseMatcher == (t!"idKey", t!"idKey") &&
  Mcp.Gen.pdTables.all (fun tb => tb.name != t!"sse_client.responses" ||
    (tb.insertKind == t!"idKey" && tb.lookupKinds.all (· == t!"idKey")))

/-- the comparison the tree makes today -/
def idMatches (req : Nat) (id : Json) : Bool := idMatchesK idKeyToday req id

/-- the stdio transport's `switch id := response.ID.(type)`: `float64` is converted with `int64(id)` (truncation) -/
def idInt64 : Json → Option Int
  | .int i => some i
  | .dec m e => some (Int.tdiv m (10 ^ e))
  | _ => none

def keyIs (req : Nat) (id : Json) : Bool :=
  match idInt64 id with
  | some i => decide (i = Int.ofNat req)
  | none => false

/-- a struct field of Go type `string`: absent, `null` or a string decode; anything else is an `UnmarshalTypeError` -/
def strOrNull (m : Obj) (k : Text) : Bool :=
  match lookup m k with
  | none => true
  | some .null => true
  | some (.str _) => true
  | _ => false

/-- `NotificationParams.UnmarshalJSON`: `null` and objects decode -/
def objOrNull (m : Obj) (k : Text) : Bool :=
  match lookup m k with
  | none => true
  | some .null => true
  | some (.obj _) => true
  | _ => false

/-- `json.Unmarshal(raw, &JSONRPCNotification{})` succeeds -/
def notifDecodes (m : Obj) : Bool := strOrNull m t!"jsonrpc" && strOrNull m t!"method" && objOrNull m t!"params"

/-- `json.Unmarshal(raw, &JSONRPCRequest{})` succeeds (`ID`, `Params` are `interface{}`) -/
def reqDecodes (m : Obj) : Bool := strOrNull m t!"jsonrpc" && strOrNull m t!"method"

def methodOf (m : Obj) : Text := extractString m t!"method"
def paramsOf (m : Obj) : Json := (lookup m t!"params").getD .null
def idOf (m : Obj) : Json := (lookup m t!"id").getD .null

def isRoots (m : Obj) : Bool := decide (methodOf m = t!"roots/list")

inductive MsgType where
  | request | response | error | notification
  deriving DecidableEq, Repr

/-- `parseJSONRPCMessageType` (`none` = it returns an error) -/
def msgType : Json → Option (MsgType × Obj)
  | .obj m =>
    if lookupStr? m t!"jsonrpc" = some t!"2.0" then
      if hasKey m t!"id" then
        if hasKey m t!"error" then some (.error, m)
        else if hasKey m t!"result" then some (.response, m)
        else some (.request, m)
      else if hasKey m t!"method" then some (.notification, m)
      else none
    else none
  | _ => none

/-- what the HTTP-side callers make of a response object once it reached them (`send`, `sendRequestInternal`) -/
def outOfResponse (m : Obj) : CallOut :=
  if hasKey m t!"error" then .rpcError
  else match lookup m t!"result" with
    | some r => .ok r
    | none => .failed .missingResult

/-! ## 1. JSON body (`send`) -/

def jsonBody (status : Nat) (body : Payload) : CallOut :=
  if status ≠ 200 then .failed .status
  else match body.json with
    | some (.obj m) => outOfResponse m
    | some .null => .failed .missingResult      -- a nil map: no `error`, no `result`
    | _ => .failed .parse

/-! ## 2. POST-SSE (`handleSSEResponse`) -/

structure PostSt where
  /-- the call has returned with this -/
  done : Option CallOut := none
  /-- `rawResult` / `resultReceived` -/
  result : Option CallOut := none
  notes : List Note := []

/-- `handleNotificationMessage` -/
def postNotif (H : List Text) (st : PostSt) (m : Obj) : PostSt :=
  if notifDecodes m then
    if methodOf m ∈ H then { st with notes := st.notes ++ [(methodOf m, paramsOf m)] } else st
  else { st with done := some (.failed .parse) }

/-- a result or error answer for this request arrived: returned at once only when no notification handler is registered -/
def postReceived (H : List Text) (st : PostSt) (o : CallOut) : PostSt :=
  if H = [] then { st with done := some o, result := some o } else { st with result := some o }

/-- `processEventData`'s test "this is the answer to request `req`" (`id, hasID := jsonResp["id"]; hasID && %v-equal`) -/
def postAddressed (req : Nat) (m : Obj) : Bool :=
  match lookup m t!"id" with
  | some id => idMatches req id
  | none => false

/-- `processEventData` -/
def postData (req : Nat) (H : List Text) (st : PostSt) (p : Payload) : PostSt :=
  match p.json with
  | some (.obj m) =>
    if postAddressed req m then
      -- handleResponseMessage
      if hasKey m t!"error" then postReceived H st .rpcError
      else match lookup m t!"result" with
        | some r => postReceived H st (.ok r)
        | none => st
    else postNotif H st m
  | some .null => postNotif H st []           -- decodes into the zero notification
  | _ => { st with done := some (.failed .parse) }

def postStep (req : Nat) (H : List Text) (st : PostSt) (l : Line) : PostSt :=
  if st.done.isSome then st
  else match l.kind with
    | .data p => postData req H st p
    | _ => st

def postRun (req : Nat) (H : List Text) (st : PostSt) (ls : List Line) : PostSt := ls.foldl (postStep req H) st

inductive End where
  /-- the server ends the stream -/
  | eof
  /-- the server keeps the stream open and silent: the caller's deadline ends the call -/
  | stall
  deriving DecidableEq, Repr

def postFinish (st : PostSt) : End → CallOut
  | .eof => match st.done with
    | some o => o
    | none => match st.result with
      | some o => o
      | none => .failed .closedNoResponse
  | .stall => match st.done with
    | some o => o
    | none => .failed .deadline            -- `return rawResult, ctx.Err()`: an error even when a result was received

def postCall (req : Nat) (H : List Text) (ls : List Line) (e : End) : CallOut := postFinish (postRun req H {} ls) e

/-! ## 3. GET stream (`handleGetSSEEvents`) -/

structure GetSt where
  halt : Option Halt := none
  /-- `eventData` when non-empty -/
  data : Option Payload := none
  notes : List Note := []
  answers : List Answer := []

def tooLong : Option Nat → Nat → Bool
  | none, _ => false
  | some lim, n => decide (lim ≤ n)

/-- `processSSEEvent` -/
def getDispatch (H : List Text) (st : GetSt) (p : Payload) : GetSt :=
  match p.json with
  | none => st
  | some v =>
    match msgType v with
    | some (.notification, m) =>
      if notifDecodes m && decide (methodOf m ∈ H) then { st with notes := st.notes ++ [(methodOf m, paramsOf m)] } else st
    | some (.request, m) =>
      if reqDecodes m then { st with answers := st.answers ++ [(idOf m, isRoots m)] } else st
    | _ => st

def getStep (F : Facts) (H : List Text) (st : GetSt) (l : Line) : GetSt :=
  if st.halt.isSome then st
  else if tooLong F.getLimit l.size then { st with halt := some .dead }
  else match l.kind, l.indent with
    | .blank, _ =>
      match st.data with
      | some p => getDispatch H { st with data := none } p
      | none => st
    | .data p, false => { st with data := if p.nonEmpty then some p else none }
    | _, _ => st

def getRun (F : Facts) (H : List Text) (st : GetSt) (ls : List Line) : GetSt := ls.foldl (getStep F H) st

/-! ## the Streamable client's `lastEventID` (echoed as `Last-Event-ID` on every later POST / GET)

  `handleSSEResponse` stores the trimmed value of every `id:` line it reads in `t.lastEventID`; `handleGetSSEEvents` does the
  same and, when it dispatches an event, stores the event's id once more (`processSSEEvent`: `t.lastEventID = eventID`, the
  empty string when the event had no id line) and forgets `eventID`.  `send` / `connectGetSSE` put a non-empty
  `t.lastEventID` into the `Last-Event-ID` header; net/http refuses to send a request one of whose header values is not a
  valid field value.  Tracked here: whether the two strings are valid field values (the empty string is: no header is set). -/

structure IdSt where
  /-- `eventID` of the GET-stream reader is a valid header field value -/
  ev : Bool := true
  /-- `t.lastEventID` is -/
  last : Bool := true
  deriving DecidableEq, Repr

def idOfKind : Kind → Option Bool
  | .id => some true
  | .idUnsafe => some false
  | _ => none

/-- POST-SSE reader: the line is trimmed first (indentation does not matter); nothing is read once the call has returned -/
def postIdStep (req : Nat) (H : List Text) (p : PostSt × IdSt) (l : Line) : PostSt × IdSt :=
  (postStep req H p.1 l,
   if p.1.done.isSome then p.2
   else match idOfKind l.kind with
     | some b => { p.2 with last := b }
     | none => p.2)

def postIdRun (req : Nat) (H : List Text) (p : PostSt × IdSt) (ls : List Line) : PostSt × IdSt := ls.foldl (postIdStep req H) p

/-- GET-stream reader: an id line counts only when it is not indented; dispatching an event stores the event's id (the empty
    one when it had none) and forgets it -/
def getIdStep (F : Facts) (H : List Text) (p : GetSt × IdSt) (l : Line) : GetSt × IdSt :=
  (getStep F H p.1 l,
   if p.1.halt.isSome || tooLong F.getLimit l.size then p.2
   else match l.kind, l.indent with
     | .blank, _ => if p.1.data.isSome then ⟨true, p.2.ev⟩ else p.2
     | .id, false => ⟨true, true⟩
     | .idUnsafe, false => ⟨false, false⟩
     | _, _ => p.2)

def getIdRun (F : Facts) (H : List Text) (p : GetSt × IdSt) (ls : List Line) : GetSt × IdSt := ls.foldl (getIdStep F H) p

/-- a later request of the same client can be sent: the stored id is a valid field value, or (`chk`, regenerated fact
    `Mcp.Gen.rdIdChecked`) the code makes sure that only valid ones are stored / sent -/
def laterCallOk (chk : Bool) (i : IdSt) : Bool := chk || i.last

/-! ## pending tables of the two shared-stream transports -/

/-- calls registered and what was delivered to each (first delivery wins: the channel has room for one, the caller
    deregisters after taking it) -/
structure Table where
  pending : List Nat
  got : Nat → Option CallOut

def Table.init (ids : List Nat) : Table := ⟨ids, fun _ => none⟩

/-- deliver `o` to every registered call selected by `sel` that has not been served yet -/
def Table.deliver (t : Table) (sel : Nat → Bool) (o : CallOut) : Table :=
  { t with got := fun k => if decide (k ∈ t.pending) && sel k && (t.got k).isNone then some o else t.got k }

/-! ## 4. legacy SSE (`readSSE`) -/

structure LegSt where
  halt : Option Halt := none
  etype : Text := []
  data : Option Payload := none
  /-- `endpointChan` is closed (and `endpoint` set) -/
  latch : Bool := false
  tbl : Table
  answers : List Answer := []

/-- `handleEndpointEvent` -/
def legEndpoint (F : Facts) (st : LegSt) (p : Payload) : LegSt :=
  if p.urlOk then
    if st.latch then (if F.latchGuarded then st else { st with halt := some .panic })   -- close of closed channel
    else { st with latch := true }
  else st

/-- `handleMessageEvent` -/
def legMessage (st : LegSt) (p : Payload) : LegSt :=
  match p.json with
  | some (.obj m) =>
    if hasKey m t!"id" && hasKey m t!"method" then
      -- a request from the server: answered by a POST to the endpoint (when there is one)
      if reqDecodes m && st.latch then { st with answers := st.answers ++ [(idOf m, isRoots m)] } else st
    else if hasKey m t!"id" then
      { st with tbl := st.tbl.deliver (fun k => idMatches k (idOf m)) (outOfResponse m) }
    else st                                   -- notification (no handler can be registered on this transport) / invalid
  | _ => st

/-- `handleEvent` -/
def legDispatch (F : Facts) (st : LegSt) (ty : Text) (p : Payload) : LegSt :=
  if ty = t!"endpoint" then legEndpoint F st p
  else if ty = t!"message" then legMessage st p
  else st

def legStep (F : Facts) (st : LegSt) (l : Line) : LegSt :=
  if st.halt.isSome then st
  else match l.kind, l.indent with
    | .blank, _ =>
      if st.etype = [] then st
      else match st.data with
        | some p => legDispatch F { st with etype := [], data := none } st.etype p
        | none => st
    | .event name, false => { st with etype := name }
    | .data p, false => { st with data := if p.nonEmpty then some p else none }
    | _, _ => st

def legRun (F : Facts) (st : LegSt) (ls : List Line) : LegSt := ls.foldl (legStep F) st

/-! ## 5. stdio (`readLoop`) -/

inductive Frame where
  /-- a blank line (white space only) -/
  | ws
  /-- a line of bytes that are no JSON at all: `Unmarshal` fails (line reader) / `Decode` returns a syntax error (decoder) -/
  | garbage
  /-- the stream ends inside a value: the last, unterminated line is not JSON (line reader, then EOF) /
      `Decode` returns `io.ErrUnexpectedEOF` (decoder) -/
  | truncated
  /-- one complete JSON value alone on one line -/
  | value (v : Json)
  /-- one JSON value printed over several lines, none of which is a JSON value by itself: a decoder reads the value, a line
      reader skips every one of its lines -/
  | spread (v : Json)
  /-- several JSON values on one line: a decoder reads them one after the other, a line reader refuses the line -/
  | packed (vs : List Json)

/-- JSON white space (RFC 8259 §2): what `json.Unmarshal` skips in front of and behind a value — space, tab, LF, CR.
    (`bytes.TrimSpace`, the read loop's blank-line test, trims more: VT, FF, U+0085, U+00A0; a line `"\v{…}"` is therefore
    neither blank nor JSON.) -/
def jsonWs (c : Nat) : Bool := c == 32 || c == 9 || c == 10 || c == 13

/-- a stdout line that holds one JSON value with some bytes in front of it and some behind it -/
structure RawLine where
  lead : Text
  v : Json
  trail : Text

/-- what `json.Unmarshal(line, &rawMessage)` makes of such a line: the value when everything around it is JSON white space,
    an error (the line is logged and skipped — a decoder: a syntax error) otherwise -/
def lexLine (l : RawLine) : Frame :=
  if l.lead.all jsonWs && l.trail.all jsonWs then .value l.v else .garbage

structure StdioSt where
  halt : Option Halt := none
  /-- `t.closed` -/
  closed : Bool := false
  tbl : Table
  notes : List Note := []
  answers : List Answer := []

/-- `JSONRPCError` decodes: `error` is `null` or an object whose `code` is an integer and whose `message` is a string -/
def errDecodes (m : Obj) : Bool :=
  match lookup m t!"error" with
  | some .null => true
  | some (.obj e) =>
    (match lookup e t!"code" with | none => true | some .null => true | some (.int _) => true | _ => false)
      && strOrNull e t!"message"
  | _ => false

def stdioValue (H : List Text) (st : StdioSt) (v : Json) : StdioSt :=
  match msgType v with
  | none => st
  | some (.response, m) =>
    -- handleResponse: a nil `Result` (JSON null) is replaced by `{}`
    let r := match lookup m t!"result" with
      | some .null => Json.obj []
      | some r => r
      | none => Json.obj []
    { st with tbl := st.tbl.deliver (fun k => keyIs k (idOf m)) (.ok r) }
  | some (.error, m) =>
    if errDecodes m then { st with tbl := st.tbl.deliver (fun k => keyIs k (idOf m)) .rpcError } else st
  | some (.notification, m) =>
    if notifDecodes m && decide (methodOf m ∈ H) then { st with notes := st.notes ++ [(methodOf m, paramsOf m)] } else st
  | some (.request, m) =>
    if reqDecodes m then { st with answers := st.answers ++ [(idOf m, isRoots m)] } else st

/-- the line reader: only a line that is exactly one JSON value is handed on -/
def stdioLineStep (H : List Text) (st : StdioSt) : Frame → StdioSt
  | .value v => stdioValue H st v
  | _ => st

/-- the decoder loop (`e` = `.spin` or `.stop`): values wherever they stand; bytes that are not JSON end it for good -/
def stdioDecoderStep (e : OnErr) (H : List Text) (st : StdioSt) : Frame → StdioSt
  | .ws => st
  | .value v => stdioValue H st v
  | .spread v => stdioValue H st v
  | .packed vs => vs.foldl (stdioValue H) st
  | _ => { st with halt := some (if e = .spin then .spin else .dead) }

def stdioStep (F : Facts) (H : List Text) (st : StdioSt) (f : Frame) : StdioSt :=
  if st.halt.isSome then st
  else match F.stdioOnError with
    | .resync => stdioLineStep H st f
    | .spin => stdioDecoderStep .spin H st f
    | .stop => stdioDecoderStep .stop H st f

def stdioRun (F : Facts) (H : List Text) (st : StdioSt) (fs : List Frame) : StdioSt := fs.foldl (stdioStep F H) st

/-- `close()`: sets `closed` first; the loop condition `for !t.closed.Load()` ends a spinning loop -/
def stdioClose (st : StdioSt) : StdioSt := { st with closed := true }

/-- the read loop burns CPU -/
def StdioSt.spinning (st : StdioSt) : Bool := decide (st.halt = some .spin) && !st.closed

/-! ## well-formed frames (what a conforming server sends) -/

def wfResult (id : Nat) (r : Json) : Json :=
  .obj [(t!"jsonrpc", .str t!"2.0"), (t!"id", .int (Int.ofNat id)), (t!"result", r)]

def wfNote (method : Text) (params : Obj) : Json :=
  .obj [(t!"jsonrpc", .str t!"2.0"), (t!"method", .str method), (t!"params", .obj params)]

def payloadOf (v : Json) : Payload := ⟨true, some v, false⟩

def dataLine (v : Json) (size : Nat) : Line := ⟨.data (payloadOf v), false, size⟩
def blankLine : Line := ⟨.blank, false, 0⟩
def eventLine (name : Text) : Line := ⟨.event name, false, name.length + 7⟩

/-- one `message` event as a conforming legacy SSE server writes it -/
def legEvent (v : Json) (size : Nat) : List Line := [eventLine t!"message", dataLine v size, blankLine]

/-- one event on the GET stream -/
def getEvent (v : Json) (size : Nat) : List Line := [dataLine v size, blankLine]

/-! ## specification vocabulary (used by the statements in `Mcp.Props.C07`) -/

/-- a line the POST-SSE reader passes over: it neither ends the call nor records an answer (comments, blank lines, unknown
    fields, `id:` / `event:` lines, and `data:` lines holding a JSON object for somebody else that decodes as a notification) -/
def postInert (req : Nat) (l : Line) : Bool :=
  match l.kind with
  | .data p =>
    match p.json with
    | some (.obj m) => !postAddressed req m && notifDecodes m
    | some .null => true
    | _ => false
  | _ => true

/-- the line is not an `id:` line whose value cannot travel in a header -/
def idSafeLine (l : Line) : Bool :=
  match l.kind with
  | .idUnsafe => false
  | _ => true

/-- the payload is a JSON object whose id selects call `c` in the legacy transport's table (`%v` equality) -/
def legAddressed (c : Nat) (p : Payload) : Bool :=
  match p.json with
  | some (.obj m) => hasKey m t!"id" && idMatches c (idOf m)
  | _ => false

/-- the line carries a payload addressed to call `c` -/
def legLineAddressed (c : Nat) (l : Line) : Bool :=
  match l.kind with
  | .data p => legAddressed c p
  | _ => false

/-- the value is an object whose id selects call `c` in the stdio transport's table (`int64(float64)` conversion) -/
def valueAddressed (c : Nat) : Json → Bool
  | .obj m => keyIs c (idOf m)
  | _ => false

/-- the frame is a line holding exactly one value, addressed to call `c` (the only frames a line reader hands on; a value
    spread over several lines or sharing its line is not a frame for it, whatever id it carries) -/
def stdioAddressed (c : Nat) : Frame → Bool
  | .value v => valueAddressed c v
  | _ => false

/-- the line names the `endpoint` event type -/
def Line.namesEndpoint (l : Line) : Bool :=
  match l.kind with
  | .event name => decide (name = t!"endpoint")
  | _ => false

/-- what is waiting in the legacy reader's `eventData` is not addressed to call `c` -/
def legDataNotFor (c : Nat) : Option Payload → Bool
  | some p => !legAddressed c p
  | none => true

/-- one `message` event with an arbitrary payload -/
def legEventP (p : Payload) (size : Nat) : List Line := [eventLine t!"message", ⟨.data p, false, size⟩, blankLine]

/-- bytes the stdio decoder cannot get past -/
def Frame.junk : Frame → Bool
  | .garbage => true
  | .truncated => true
  | _ => false

/-- states of the legacy reader that agree on everything call `c` can observe -/
def LegSim (c : Nat) (s1 s2 : LegSt) : Prop :=
  s1.halt = s2.halt ∧ s1.etype = s2.etype ∧ s1.data = s2.data ∧ s1.latch = s2.latch ∧
    s1.tbl.pending = s2.tbl.pending ∧ s1.tbl.got c = s2.tbl.got c

/-- states of the stdio reader that agree on everything call `c` can observe -/
def StdioSim (c : Nat) (s1 s2 : StdioSt) : Prop :=
  s1.halt = s2.halt ∧ s1.closed = s2.closed ∧ s1.tbl.pending = s2.tbl.pending ∧ s1.tbl.got c = s2.tbl.got c

end Mcp.Readers
