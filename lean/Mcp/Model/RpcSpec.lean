/-
  The oracle of C03: `wfMsg request? message` — is `message` a well-formed JSON-RPC 2.0 / MCP (2025-03-26) message in
  reaction to `request?` — written from the two specifications, independently of the Go structs and of the encoders in
  `Mcp.Content` / `Mcp.Rpc` (it only looks members up in the emitted JSON).

  * every message: an object without duplicate members, `"jsonrpc": "2.0"`.
  * notification: a string `method`, no `id`, no `result`, no `error`; `params`, if present, an OBJECT (MCP: `params?: object`
    — `null` is not "no params"); no other member.
  * response: members ⊆ {jsonrpc, id, result, error}; an `id` member — the request's id when the request carries exactly
    one id member and it is a string or a number (a number as the NUMBER VALUE a double-based JSON implementation prints
    back: an integer as the double nearest to it — itself up to ±2^53 —, a decimal as the same decimal), `null` when the
    request has no id member at all (unparsable input included), anything otherwise; a Parse error (−32700) / Invalid Request (−32600) answer may always carry `null`
    (JSON-RPC 2.0 §5: "If there was an error in detecting the id in the Request object, it MUST be Null"); exactly one of `result` / `error`; `error` = {code: integer, message: string, data?}; `result` has the shape
    MCP prescribes for the request's method.
-/
import Mcp.Model.Json
namespace Mcp.RpcSpec
open Mcp.Str Mcp.Json

def isStr : Json → Bool | .str _ => true | _ => false
def isObj : Json → Bool | .obj _ => true | _ => false
def isBool : Json → Bool | .bool _ => true | _ => false
def isInt : Json → Bool | .int _ => true | _ => false
def isNull : Json → Bool | .null => true | _ => false
/-- the string `s` -/
def isStrEq (s : Text) : Json → Bool | .str x => x == s | _ => false

/-- an optional member, of the given kind when present -/
def optIs (o : Obj) (k : Text) (p : Json → Bool) : Bool :=
  match lookup o k with
  | none => true
  | some v => p v

/-- a required member of the given kind -/
def reqIs (o : Obj) (k : Text) (p : Json → Bool) : Bool :=
  match lookup o k with
  | none => false
  | some v => p v

def keysNodup : Obj → Bool
  | [] => true
  | (k, _) :: rest => !hasKey rest k && keysNodup rest

def onlyKeys (o : Obj) (allowed : List Text) : Bool := o.all (fun kv => allowed.contains kv.1)

/-- a required member that is an array whose items all satisfy `p` -/
def listOf (o : Obj) (k : Text) (p : Json → Bool) : Bool :=
  match lookup o k with
  | some (.arr xs) => xs.all p
  | _ => false

/-! ## MCP shapes -/

/-- `TextResourceContents | BlobResourceContents` -/
def wfResourceContents : Json → Bool
  | .obj o => reqIs o t!"uri" isStr && optIs o t!"mimeType" isStr &&
      ((reqIs o t!"text" isStr && !hasKey o t!"blob") || (reqIs o t!"blob" isStr && !hasKey o t!"text"))
  | _ => false

/-- `TextContent | ImageContent | AudioContent | EmbeddedResource` (type tags "text", "image", "audio", "resource") -/
def wfContent : Json → Bool
  | .obj o => optIs o t!"annotations" isObj &&
      (match lookup o t!"type" with
       | some (.str ty) =>
         if ty = t!"text" then reqIs o t!"text" isStr
         else if ty = t!"image" ∨ ty = t!"audio" then reqIs o t!"data" isStr && reqIs o t!"mimeType" isStr
         else if ty = t!"resource" then reqIs o t!"resource" wfResourceContents
         else false
       | _ => false)
  | _ => false

def wfInputSchema : Json → Bool
  | .obj s => reqIs s t!"type" (isStrEq t!"object")
  | _ => false

/-- `Tool` -/
def wfTool : Json → Bool
  | .obj o => reqIs o t!"name" isStr && optIs o t!"description" isStr && reqIs o t!"inputSchema" wfInputSchema &&
      optIs o t!"annotations" isObj
  | _ => false

def wfPromptArgument : Json → Bool
  | .obj o => reqIs o t!"name" isStr && optIs o t!"description" isStr && optIs o t!"required" isBool
  | _ => false

/-- `Prompt` -/
def wfPrompt : Json → Bool
  | .obj o => reqIs o t!"name" isStr && optIs o t!"description" isStr &&
      (match lookup o t!"arguments" with
       | none => true
       | some (.arr xs) => xs.all wfPromptArgument
       | some _ => false)
  | _ => false

/-- `Resource` -/
def wfResource : Json → Bool
  | .obj o => reqIs o t!"name" isStr && reqIs o t!"uri" isStr && optIs o t!"description" isStr && optIs o t!"mimeType" isStr
  | _ => false

def wfRole : Json → Bool
  | .str r => r = t!"user" ∨ r = t!"assistant"
  | _ => false

/-- `PromptMessage` -/
def wfPromptMessage : Json → Bool
  | .obj o => reqIs o t!"role" wfRole && reqIs o t!"content" wfContent
  | _ => false

def wfImplementation : Json → Bool
  | .obj o => reqIs o t!"name" isStr && reqIs o t!"version" isStr
  | _ => false

/-- the result MCP prescribes for `method` (methods outside the MCP core: any object) -/
def wfResult (method : Text) (r : Json) : Bool :=
  match r with
  | .obj o =>
    optIs o t!"_meta" isObj &&
    (if method = t!"initialize" then
       reqIs o t!"protocolVersion" isStr && reqIs o t!"capabilities" isObj && reqIs o t!"serverInfo" wfImplementation &&
       optIs o t!"instructions" isStr
     else if method = t!"tools/list" then listOf o t!"tools" wfTool && optIs o t!"nextCursor" isStr
     else if method = t!"prompts/list" then listOf o t!"prompts" wfPrompt && optIs o t!"nextCursor" isStr
     else if method = t!"resources/list" then listOf o t!"resources" wfResource && optIs o t!"nextCursor" isStr
     else if method = t!"resources/templates/list" then listOf o t!"resourceTemplates" isObj && optIs o t!"nextCursor" isStr
     else if method = t!"tools/call" then listOf o t!"content" wfContent && optIs o t!"isError" isBool
     else if method = t!"prompts/get" then optIs o t!"description" isStr && listOf o t!"messages" wfPromptMessage
     else if method = t!"resources/read" then listOf o t!"contents" wfResourceContents
     else true)
  | _ => false

/-! ## JSON-RPC 2.0 -/

def wfError : Json → Bool
  | .obj e => reqIs e t!"code" isInt && reqIs e t!"message" isStr && onlyKeys e [t!"code", t!"message", t!"data"]
  | _ => false

/-- Parse error / Invalid Request: the server could not (or need not) identify the request — JSON-RPC 2.0 §5.1 lets the id
    be Null then -/
def isUnidentifiedError : Json → Bool
  | .obj e => match lookup e t!"code" with
    | some (.int c) => c == -32700 || c == -32600
    | _ => false
  | _ => false

/-- the members of the request whose name is `name` up to ASCII case (what a lenient decoder may bind to it) -/
def membersLoose (o : Obj) (name : Text) : Obj := o.filter (fun kv => toLower kv.1 == name)

inductive IdDemand
  | exact (id : Json)
  | null
  | any

/-- a string, or an integer within ±2^53 (the integers every JSON implementation holds exactly) -/
def wfId : Json → Bool
  | .str _ => true
  | .int i => decide (i.natAbs ≤ 9007199254740992)
  | _ => false

/-- The double nearest to a natural number: IEEE 754 round-to-nearest, ties to even, 53 significant bits. Up to 2^53 it
    is the number itself; beyond, `2^k` (k = ⌊log₂ n⌋ − 52) is the weight of the last bit a double keeps. -/
def nearestDoubleNat (n : Nat) : Nat :=
  if n ≤ 9007199254740992 then n else
    let k := Nat.log2 n - 52
    let q := n / 2 ^ k
    let r := n % 2 ^ k
    if 2 ^ k < 2 * r ∨ (2 * r = 2 ^ k ∧ q % 2 = 1) then (q + 1) * 2 ^ k else q * 2 ^ k

def nearestDouble : Int → Int
  | .ofNat n => .ofNat (nearestDoubleNat n)
  | .negSucc n => -(Int.ofNat (nearestDoubleNat (n + 1)))

/-- The id an answer to a request with the single id member `v` must carry: a string as it is; a NUMBER as the number
    value a JSON implementation that holds numbers as doubles reads and prints back — an integer as the double nearest
    to it (the integer itself up to ±2^53; never another sign, never another magnitude), a decimal fraction as the same
    decimal; `null`, booleans, arrays and objects are no ids: anything goes. -/
def idTarget : Json → IdDemand
  | .str s => .exact (.str s)
  | .int i => .exact (.int (nearestDouble i))
  | .dec m e => .exact (.dec m e)
  | _ => .any

/-- which id a response to this input must carry -/
def idDemand : Option Json → IdDemand
  | some (.obj o) =>
    match membersLoose o t!"id" with
    | [] => .null
    | [(k, v)] => if k = t!"id" then idTarget v else .any
    | _ => .any
  | _ => .null

/-- `idEq demanded answered`: equal strings, equal numbers (`m / 10^e` for decimals); beyond ±2^53, where the demanded
    integer is a double, the answer may be ANY decimal rendering of that double (Go prints 2^63 with the shortest digits
    that identify it: 9223372036854776000) — an integer whose nearest double is the demanded one -/
def idEq : Json → Json → Bool
  | .str a, .str b => a == b
  | .int a, .int b => a == b || (decide (9007199254740992 < a.natAbs) && nearestDouble b == a)
  | .dec a e, .dec b f => a * 10 ^ f == b * 10 ^ e
  | .int a, .dec b f => a * 10 ^ f == b
  | .dec a e, .int b => a == b * 10 ^ e
  | _, _ => false

def idOk (d : IdDemand) (id : Json) : Bool :=
  match d with
  | .exact rid => idEq rid id
  | .null => isNull id
  | .any => true

/-- the request's method: its single `method` member when that is a string -/
def requestMethod : Option Json → Text
  | some (.obj o) =>
    match membersLoose o t!"method" with
    | [(k, .str m)] => if k = t!"method" then m else []
    | _ => []
  | _ => []

def wfMsg (req : Option Json) (m : Json) : Bool :=
  match m with
  | .obj o =>
    keysNodup o && reqIs o t!"jsonrpc" (isStrEq t!"2.0") &&
    (match lookup o t!"method" with
     | some meth => isStr meth && !hasKey o t!"id" && !hasKey o t!"result" && !hasKey o t!"error" &&
         optIs o t!"params" isObj && onlyKeys o [t!"jsonrpc", t!"method", t!"params"]
     | none =>
       onlyKeys o [t!"jsonrpc", t!"id", t!"result", t!"error"] &&
       (match lookup o t!"id", lookup o t!"result", lookup o t!"error" with
        | some id, some r, none => idOk (idDemand req) id && wfResult (requestMethod req) r
        | some id, none, some e => wfError e && (idOk (idDemand req) id || (isNull id && isUnidentifiedError e))
        | _, _, _ => false))
  | _ => false

/-! ## requests -/

def envelopeKeys : List Text := [t!"jsonrpc", t!"id", t!"method", t!"params"]

/-- A well-formed JSON-RPC 2.0 request envelope: an object whose members are `jsonrpc` = "2.0", a string or integer `id`, a
    string `method` and optionally `params` — each at most once, and nothing else. -/
def wfEnvelope : Json → Bool
  | .obj o => keysNodup o && onlyKeys o envelopeKeys && reqIs o t!"jsonrpc" (isStrEq t!"2.0") && reqIs o t!"id" wfId &&
      reqIs o t!"method" isStr
  | _ => false

end Mcp.RpcSpec
