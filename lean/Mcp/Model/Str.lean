/-
  Text helpers on `List Char` (code points).  Models never use `String`, so that `decide`/`rfl`
  on concrete witnesses stay kernel-reducible; the driver converts at the I/O boundary.
  Mirrors the handful of Go `strings` functions the library uses.
-/
namespace Mcp.Str

/-- Text = list of Unicode code points as `Nat` (kernel arithmetic on `Nat` is fast, `Char`/`String` literals
    are very slow under `decide +kernel`). -/
abbrev Text := List Nat

open Lean in
/-- `t!"abc"` elaborates to the literal `[97, 98, 99]` (done at elaboration time, nothing for the kernel to unfold). -/
macro:max "t!" s:str : term => do
  let cs := s.getString.toList.toArray.map (fun c => Syntax.mkNumLit (toString c.toNat))
  `(([$cs,*] : List Nat))

/-- Go `strings.HasPrefix`. -/
def hasPrefix : Text → Text → Bool
  | _, [] => true
  | [], _ :: _ => false
  | c :: s, d :: p => c == d && hasPrefix s p

/-- Go `strings.Contains` (naive scan; `contains s [] = true`). -/
def contains : Text → Text → Bool
  | [], p => p.isEmpty
  | c :: s, p => hasPrefix (c :: s) p || contains s p

/-- Go `strings.HasSuffix`. -/
def hasSuffix (s p : Text) : Bool := hasPrefix s.reverse p.reverse

/-- ASCII part of Go `strings.ToLower` (the only part the models rely on; non-ASCII code points are
    left alone — recorded in the trusted base). -/
def lowerChar (c : Nat) : Nat :=
  if 65 ≤ c ∧ c ≤ 90 then c + 32 else c

def toLower (s : Text) : Text := s.map lowerChar

/-- Decimal rendering of a natural number as `strconv.Itoa` gives it. -/
def digitsAux : Nat → Nat → Text → Text
  | 0, _, acc => acc
  | f + 1, n, acc => if n < 10 then (48 + n) :: acc else digitsAux f (n / 10) ((48 + n % 10) :: acc)
def natDigits (n : Nat) : Text := digitsAux (n + 1) n []

def intText (i : Int) : Text :=
  match i with
  | .ofNat n => natDigits n
  | .negSucc n => 45 :: natDigits (n + 1)

def ofString (s : String) : Text := s.toList.map Char.toNat
def toString (t : Text) : String := String.ofList (t.map Char.ofNat)

theorem hasPrefix_append (p s : Text) : hasPrefix (p ++ s) p = true := by
  induction p with
  | nil => cases s <;> simp [hasPrefix]
  | cons c p ih => simp [hasPrefix, ih]

theorem contains_of_prefix (s p : Text) (h : hasPrefix s p = true) : contains s p = true := by
  cases s with
  | nil => cases p with
    | nil => simp [contains]
    | cons d p => simp [hasPrefix] at h
  | cons c s => simp [contains, h]

theorem contains_cons (c : Nat) (s p : Text) (h : contains s p = true) : contains (c :: s) p = true := by
  simp [contains, h]

theorem contains_append_left (a s p : Text) (h : contains s p = true) : contains (a ++ s) p = true := by
  induction a with
  | nil => simpa
  | cons c a ih => exact contains_cons c _ p ih

end Mcp.Str
