/-
  The client half of C14: what each of the library's client transports hands to the (shared) result decoders for one
  server answer.

  * `recvHTTP`    — streamable_client.go `send` (JSON body) and sse_client.go `sendRequestInternal` (the `message` event of
                    the legacy SSE stream): the answer is decoded into a map; an `error` member ⇒ the whole envelope is handed
                    on; otherwise the `result` member (re-encoded), `ErrMissingResultField` when there is none.
  * `recvPostSSE` — streamable_client.go `handleSSEResponse` / `handleResponseMessage` (POST answered as an SSE stream): as
                    above, but an event with neither member is skipped, and the end of the stream without a result is
                    "connection closed but no final response received".
  * `recvStdio`   — transport_stdio.go `readLoop`: `parseJSONRPCMessageType` (version "2.0" required), then `handleErrorResponse`
                    (the envelope, if it decodes into `JSONRPCError`) or `handleResponse` (the result; a `null` result is
                    REPLACED by `{}`); a message with an id and neither member is taken for a request of the server and the
                    call ends by its timeout.
  * `finish`      — client.go / stdio_client.go (every request method has the same shape): `isErrorResponse` ⇒ the JSON-RPC error
                    (code, message), otherwise the method's decoder `D`.

  * numbers: EVERY transport first decodes the whole answer into Go values (`json.Unmarshal` into `map[string]interface{}`
                    on the two Streamable paths and in the legacy SSE client, into `JSONRPCResponse{Result interface{}}` on
                    stdio) and hands the decoder `json.Marshal` of the decoded result: the same normalisation on all four
                    paths — `Mcp.Rpc.goDecode`: every number becomes the float64 nearest to it (2^53 + 1 arrives as 2^53,
                    `1e3` and `12.0` as 1000 and 12), a later duplicate member wins, a number no float64 can hold makes the
                    whole answer undecodable. `recv*` take the answer as it is ON THE WIRE and start with that step.

  The answer is assumed to carry the id of the pending call (id matching is C01's subject).
-/
import Mcp.Model.Json
import Mcp.Model.Rpc
namespace Mcp.RpcClient
open Mcp.Str Mcp.Json

/-- why a call ends without a value although the peer answered -/
inductive Fail
  | missingResult     -- ErrMissingResultField
  | noFinalResponse   -- "connection closed but no final response received"
  | timeout           -- the answer was not recognised; the call ends by its timeout / context
  | notAMessage       -- the answer does not decode into an object
  | undecodable       -- the answer holds a number no float64 can hold: ErrResponseParsing
  deriving DecidableEq, Repr

/-- what `transport.sendRequest` returns -/
inductive Got
  | raw (j : Json)        -- the result, handed to the decoder
  | envelope (j : Json)   -- the whole error answer
  | failed (f : Fail)

/-- past the decode step -/
def recvHTTPDecoded : Json → Got
  | .obj o =>
    if hasKey o t!"error" then .envelope (.obj o)
    else match lookup o t!"result" with
      | some r => .raw r
      | none => .failed .missingResult
  | .null => .failed .missingResult          -- nil map: neither member
  | _ => .failed .notAMessage

def recvPostSSEDecoded : Json → Got
  | .obj o =>
    if hasKey o t!"error" then .envelope (.obj o)
    else match lookup o t!"result" with
      | some r => .raw r
      | none => .failed .noFinalResponse
  | _ => .failed .noFinalResponse

/-- `json.Unmarshal` of the `error` member into `struct{Code int; Message string; Data interface{}}` succeeds -/
def errorDecodes : Json → Bool
  | .null => true
  | .obj e =>
    (match lookup e t!"code" with | none => true | some .null => true | some (.int _) => true | some _ => false) &&
    (match lookup e t!"message" with | none => true | some .null => true | some (.str _) => true | some _ => false)
  | _ => false

def isNumber : Json → Bool
  | .int _ => true
  | .dec _ _ => true
  | _ => false

def recvStdioDecoded : Json → Got
  | .obj o =>
    if lookupStr? o t!"jsonrpc" = some t!"2.0" ∧ hasKey o t!"id" = true then
      if (match lookup o t!"id" with | some i => isNumber i | none => false) = false then .failed .timeout
      else if hasKey o t!"error" then
        (match lookup o t!"error" with
         | some e => if errorDecodes e then .envelope (.obj o) else .failed .timeout
         | none => .failed .timeout)
      else match lookup o t!"result" with
        | some .null => .raw (.obj [])      -- "Empty result"
        | some r => .raw r
        | none => .failed .timeout          -- classified as a request of the server
    else .failed .timeout
  | _ => .failed .timeout

/-- the decode step every transport starts with: the answer as Go values, re-read as JSON -/
def wireDecode (w : Json) : Option Json := Mcp.Rpc.goDecode w

/-- Streamable client, JSON body: an undecodable answer is ErrResponseParsing -/
def recvHTTP (w : Json) : Got :=
  match wireDecode w with
  | some d => recvHTTPDecoded d
  | none => .failed .undecodable

/-- legacy SSE client, the `message` event of its stream: as the JSON body, but an undecodable event is logged and dropped —
    the call ends by its timeout -/
def recvLegacySSE (w : Json) : Got :=
  match wireDecode w with
  | some d => recvHTTPDecoded d
  | none => .failed .timeout

/-- Streamable client, POST answered as an SSE stream: an undecodable event is skipped, the stream ends without a result -/
def recvPostSSE (w : Json) : Got :=
  match wireDecode w with
  | some d => recvPostSSEDecoded d
  | none => .failed .noFinalResponse

/-- stdio client: an undecodable line is logged and dropped, the call ends by its timeout -/
def recvStdio (w : Json) : Got :=
  match wireDecode w with
  | some d => recvStdioDecoded d
  | none => .failed .timeout

/-- the value a client API returns -/
inductive Value (α : Type)
  | ok (a : α)
  | rpcError (code : Option Json) (message : Option Json)
  /-- "failed to parse error response": the `error` member does not decode into `{code int, message string}` -/
  | badError
  | failed (f : Fail)

/-- jsonrpc.go `isErrorResponse` -/
def isErrorResponse : Json → Bool
  | .obj o => hasKey o t!"error"
  | _ => false

/-- `parseRawMessageToError` + the `fmt.Errorf("… error: %s (code: %d)")` of every request method -/
def rpcErrorOf {α : Type} : Json → Value α
  | .obj o =>
    match lookup o t!"error" with
    | some (.obj e) => if errorDecodes (.obj e) then .rpcError (lookup e t!"code") (lookup e t!"message") else .badError
    | some .null => .rpcError none none
    | some _ => .badError
    | none => .rpcError none none
  | _ => .rpcError none none

def finish {α : Type} (D : Json → α) : Got → Value α
  | .raw j => if isErrorResponse j then rpcErrorOf j else .ok (D j)
  | .envelope j => if isErrorResponse j then rpcErrorOf j else .ok (D j)
  | .failed f => .failed f

/-- a success answer: version "2.0", a numeric id, a `result` member (any JSON value, `null` included), no `error` member -/
def successAnswer (o : Obj) : Prop :=
  lookupStr? o t!"jsonrpc" = some t!"2.0" ∧ (∃ i, lookup o t!"id" = some i ∧ isNumber i = true) ∧
  hasKey o t!"error" = false ∧ hasKey o t!"result" = true

/-- an error answer: version "2.0", a numeric id, an `error` object with an integer code and a string message -/
def errorAnswer (o : Obj) : Prop :=
  lookupStr? o t!"jsonrpc" = some t!"2.0" ∧ (∃ i, lookup o t!"id" = some i ∧ isNumber i = true) ∧
  ∃ e c m, lookup o t!"error" = some (.obj e) ∧ lookup e t!"code" = some (.int c) ∧ lookup e t!"message" = some (.str m)

end Mcp.RpcClient
