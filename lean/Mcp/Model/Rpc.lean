/-
  Request serving (C03 / C06 / C14): from "parse failure | JSON value" (+ HTTP verb / path / session reference for the HTTP
  servers) to what the server emits.

  * `encoding/json` as the three servers use it: `interface{}` targets (`goDecode`: numbers become `float64`, duplicate
    keys keep the last value, out-of-range numbers are an error), struct targets (`fieldVals` / `strField` / `anyField`:
    a member matches a field by exact or case-folded name, every occurrence is decoded in input order, a type mismatch is
    an error, `null` leaves a string field alone and makes an interface field nil).
  * envelope classification: `decodeBase` (the `baseMessage` rule of streamable_server.go `handlePost` and sse_server.go
    `handleMessage`), `classifyStdio` (jsonrpc.go `parseJSONRPCMessageType`), `decodeRequest` (`JSONRPCRequest`).
  * a registry of tools / prompts / resources whose handlers are arbitrary functions of the arguments they are given, with
    outcomes {result, Go error, result that `json.Marshal` refuses}.
  * the managers' parameter checks, transcribed literally (manager_tools.go `handleCallTool`, manager_prompt.go
    `parseGetPromptParams` / `handleGetPrompt` / `parseCompletionCompleteParams`, manager_resource.go `handleReadResource`
    / `handleSubscribe` / `handleUnsubscribe`, manager_lifecycle.go `checkInitializeParams` / `handleInitialize`): every
    comma-ok assertion is an `Option` lookup, every BARE assertion is a function that can return `Outcome.panic`.
  * `dispatch` (handler.go `requestDispatchTable`) and `dispatchStdio` (the switch of stdio_server.go `HandleRequest`).
  * wrappers `serveStreamable`, `serveSSE`, `serveStdio` returning a `Reaction`.
-/
import Mcp.Model.Json
import Mcp.Model.Content
import Mcp.Model.Lifecycle
import Mcp.Model.Session
namespace Mcp.Rpc
open Mcp.Str Mcp.Json Mcp.Content

/-! ## numbers: `float64` -/

/-- 2^53 -/
def two53 : Nat := 9007199254740992

/-- smallest magnitude `strconv.ParseFloat(s, 64)` reports as out of range: 2^1024 − 2^970 -/
def f64Overflow : Nat :=
  179769313486231580793728971405303415079934132710037826936173778980444968292764750946649017977587207096330286416692887910946555547851940402630657488671505820681908902000708383676273854845817711531764475730270069855571366959622842914819860834936475292719074168444365510704342711559699508093042880177904174497792

/-- round-to-nearest-even of a natural number to a 53-bit significand -/
def f64RoundNat (n : Nat) : Nat :=
  if n ≤ two53 then n else
    let k := Nat.log2 n - 52
    let q := n >>> k
    let r := n % 2 ^ k
    let half := 2 ^ (k - 1)
    if r > half ∨ (r = half ∧ q % 2 = 1) then (q + 1) <<< k else q <<< k

def f64RoundInt : Int → Int
  | .ofNat n => .ofNat (f64RoundNat n)
  | .negSucc n => -(Int.ofNat (f64RoundNat (n + 1)))

/-! ## `json.Unmarshal` into `interface{}` -/

mutual
/-- the Go value (`float64` numbers, maps with unique keys) re-read as JSON; `none`: "number out of range" -/
def goDecode : Json → Option Json
  | .null => some .null
  | .bool b => some (.bool b)
  | .int i => if i.natAbs < f64Overflow then some (.int (f64RoundInt i)) else none
  | .dec m e => if m.natAbs < f64Overflow * 10 ^ e then some (.dec m e) else none
  | .str s => some (.str s)
  | .arr xs => (goDecodeList xs).map .arr
  | .obj kvs => (goDecodeFields kvs).map .obj
def goDecodeList : List Json → Option (List Json)
  | [] => some []
  | x :: rest =>
    match goDecode x, goDecodeList rest with
    | some y, some ys => some (y :: ys)
    | _, _ => none
/-- a later occurrence of a key wins -/
def goDecodeFields : List (Text × Json) → Option Obj
  | [] => some []
  | (k, v) :: rest =>
    match goDecode v, goDecodeFields rest with
    | some w, some m => some (if hasKey m k then m else (k, w) :: m)
    | _, _ => none
end

/-! ## `json.Unmarshal` into a struct -/

/-- `encoding/json` `foldName`: ASCII upper-casing; U+017F and U+212A are the two non-ASCII runes whose simple fold
    reaches an ASCII letter (every other rune folds to a non-ASCII rune, so it never equals a field-name character) -/
def foldChar (c : Nat) : Nat :=
  if 97 ≤ c ∧ c ≤ 122 then c - 32 else if c = 383 then 83 else if c = 8490 then 75 else c

def foldKey (k : Text) : Text := k.map foldChar

/-- the values of all members that `encoding/json` stores into the struct field named `field`, in input order -/
def fieldVals (o : Obj) (field : Text) : List Json :=
  (o.filter (fun kv => foldKey kv.1 == foldKey field)).map (·.2)

/-- a `string` field: a string is stored, `null` is skipped, anything else is an `UnmarshalTypeError` -/
def strFieldAux : List Json → Text → Option Text
  | [], acc => some acc
  | .str s :: rest, _ => strFieldAux rest s
  | .null :: rest, acc => strFieldAux rest acc
  | _ :: _, _ => none

def strField (o : Obj) (field : Text) : Option Text := strFieldAux (fieldVals o field) []

/-- an `interface{}` field: every occurrence is decoded (a failure is an error), the last one stays; `null` is nil -/
def anyFieldAux : List Json → Option Json → Option (Option Json)
  | [], acc => some acc
  | v :: rest, _ =>
    match goDecode v with
    | none => none
    | some .null => anyFieldAux rest none
    | some w => anyFieldAux rest (some w)

def anyField (o : Obj) (field : Text) : Option (Option Json) := anyFieldAux (fieldVals o field) none

/-- `baseMessage{JSONRPC string; Method string; ID interface{}}` -/
structure Base where
  method : Text
  id : Option Json

/-- `json.Unmarshal(rawMessage, &base)`: `none` = error (HTTP 400 on Streamable, −32700 body on legacy SSE) -/
def decodeBase (j : Json) : Option Base :=
  match asMapTarget j with
  | .typeError => none
  | .nilMap => some ⟨[], none⟩
  | .map o =>
    match strField o t!"jsonrpc", strField o t!"method", anyField o t!"id" with
    | some _, some m, some id => some ⟨m, id⟩
    | _, _, _ => none

/-- `JSONRPCRequest{JSONRPC string; ID interface{}; Params interface{}; Request{Method string}}` (`params = none`: nil) -/
structure Req where
  id : Option Json
  method : Text
  params : Option Json

def decodeRequest (j : Json) : Option Req :=
  match asMapTarget j with
  | .typeError => none
  | .nilMap => some ⟨none, [], none⟩
  | .map o =>
    match strField o t!"jsonrpc", strField o t!"method", anyField o t!"id", anyField o t!"params" with
    | some _, some m, some id, some p => some ⟨id, m, p⟩
    | _, _, _, _ => none

/-- `JSONRPCNotification`: `NotificationParams.UnmarshalJSON` wants `null` or an object (decoded into a map) -/
def notifParamOk : Json → Bool
  | .null => true
  | .obj kvs => (goDecodeFields kvs).isSome
  | _ => false

def decodeNotification (j : Json) : Option Text :=
  match asMapTarget j with
  | .typeError => none
  | .nilMap => some []
  | .map o =>
    match strField o t!"jsonrpc", strField o t!"method" with
    | some _, some m => if (fieldVals o t!"params").all notifParamOk then some m else none
    | _, _ => none

/-- the anonymous response struct of `handlePostResponse`: `(hasError, hasResult)`; `none` = decode error -/
def decodeResponse (j : Json) : Option (Bool × Bool) :=
  match asMapTarget j with
  | .typeError => none
  | .nilMap => some (false, false)
  | .map o =>
    match strField o t!"jsonrpc", anyField o t!"id", anyField o t!"result", anyField o t!"error" with
    | some _, some _, some r, some e => some (e.isSome, r.isSome)
    | _, _, _, _ => none

/-! ## stdio: `parseJSONRPCMessageType` -/

inductive MsgType | request | response | error | notification
  deriving DecidableEq, Repr

def version20 : Text := t!"2.0"

/-- `none`: an error (the line is dropped without an answer) -/
def classifyStdio (j : Json) : Option MsgType :=
  match j with
  | .obj kvs =>
    match goDecodeFields kvs with
    | none => none
    | some m =>
      if lookupStr? m t!"jsonrpc" = some version20 then
        if hasKey m t!"id" then
          if hasKey m t!"error" then some .error
          else if hasKey m t!"result" then some .response
          else some .request
        else if hasKey m t!"method" then some .notification
        else none
      else none
  | _ => none

/-! ## registry -/

inductive ToolOutcome
  | result (r : CallToolResult)
  | goErr (msg : Text)
  /-- a result `json.Marshal` refuses (a channel / NaN inside structured content or `_meta`), with the encoder's error text -/
  | unencodable (why : Text)

/-- a registered tool: descriptor + what its handler does with `CallToolParams.Arguments` (`none`: nil map) -/
structure ToolEntry where
  desc : ToolDesc
  run : Option Obj → ToolOutcome

inductive PromptOutcome
  | result (r : GetPromptResult)
  | goErr (msg : Text)
  | unencodable (why : Text)

structure PromptArg where
  name : Text
  desc : Text
  required : Bool

/-- a registered prompt (with a handler): the handler sees the string-valued arguments -/
structure PromptEntry where
  name : Text
  desc : Text
  args : List PromptArg
  run : List (Text × Text) → PromptOutcome

inductive ResOutcome
  /-- `none`: a `RegisterResources` handler returned a nil slice -/
  | contents (cs : Option (List ResourceContents))
  | goErr (msg : Text)

structure ResEntry where
  name : Text
  uri : Text
  desc : Text
  mime : Text
  size : Nat
  run : Option Obj → ResOutcome

structure Registry where
  name : Text
  version : Text
  tools : List ToolEntry
  prompts : List PromptEntry
  resources : List ResEntry
  /-- the list filters (`WithToolListFilter`, `WithPromptListFilter`, `WithResourceListFilter` and their legacy-SSE
      counterparts; none installed: the identity): ARBITRARY functions from the registered descriptors to the descriptors
      the caller is shown — whatever they return, nil and empty slices alike, the list handlers answer with an array -/
  toolFilter : List ToolDesc → List ToolDesc := id
  promptFilter : List PromptEntry → List PromptEntry := id
  resourceFilter : List ResEntry → List ResEntry := id

def findTool (ts : List ToolEntry) (n : Text) : Option ToolEntry := ts.find? (fun t => t.desc.name == n)
def findPrompt (ps : List PromptEntry) (n : Text) : Option PromptEntry := ps.find? (fun p => p.name == n)
def findResource (rs : List ResEntry) (u : Text) : Option ResEntry := rs.find? (fun r => r.uri == u)

/-! ## what a manager returns -/

/-- `(JSONRPCMessage, nil)`: a result value (as its JSON), a `*JSONRPCError`, or a value that cannot be encoded -/
inductive Ans
  | result (r : Json)
  | error (code : Int) (msg : Text)
  /-- a result value `json.Marshal` refuses; `why` is the encoder's error text -/
  | unencodable (why : Text)

/-- the JSON-RPC error code of an answer -/
def Ans.code? : Ans → Option Int
  | .error c _ => some c
  | _ => none

/-- the error text of an answer -/
def Ans.text? : Ans → Option Text
  | .error _ m => some m
  | _ => none

inductive Outcome (α : Type)
  | ok (a : α)
  | panic

def codeParse : Int := -32700
def codeInvalidRequest : Int := -32600
def codeMethodNotFound : Int := -32601
def codeInvalidParams : Int := -32602
def codeInternal : Int := -32603

def msgMissingParams : Text := t!"missing required parameters"
def msgInvalidParams : Text := t!"invalid parameters"

/-- Go `%T` of a decoded JSON value that is neither nil nor a map -/
def goTypeName : Json → Text
  | .str _ => t!"string"
  | .bool _ => t!"bool"
  | .int _ => t!"float64"
  | .dec _ _ => t!"float64"
  | .arr _ => t!"[]interface {}"
  | .obj _ => t!"map[string]interface {}"
  | .null => t!"<nil>"

/-- `paramsMap["arguments"]` of `handleCallTool`: absent or `null` — nil map; an object; anything else is refused -/
def toolArguments (m : Obj) : Except Ans (Option Obj) :=
  match lookup m t!"arguments" with
  | none => .ok none
  | some .null => .ok none
  | some (.obj a) => .ok (some a)
  | some v => .error (.error codeInvalidParams (t!"invalid parameters: arguments must be an object, got " ++ goTypeName v))

/-- calling the tool handler and wrapping what it returns -/
def runTool (tool : ToolEntry) (a : Option Obj) : Ans :=
  match tool.run a with
  -- a nil Content slice is replaced by an empty one
  | .result r => .result (encodeResult { r with content := some (r.content.getD []) })
  | .goErr msg => .error codeInternal (serverErrorMessage (.tool tool.desc.name) msg)
  | .unencodable why => .unencodable why

/-- manager_tools.go `handleCallTool` -/
def handleCallTool (reg : Registry) (req : Req) : Ans :=
  match req.params with
  | none => .error codeInvalidParams msgMissingParams
  | some p =>
    match asObj? p with
    | none => .error codeInvalidParams msgInvalidParams
    | some m =>
      match lookupStr? m t!"name" with
      | none => .error codeInvalidParams t!"missing tool name"
      | some name =>
        if name = [] then .error codeInvalidParams t!"missing tool name" else
        match findTool reg.tools name with
        | none => .error codeMethodNotFound (t!"tool not found: " ++ name)
        | some tool =>
          match toolArguments m with
          | .error e => e
          | .ok a => runTool tool a

/-- the loop of `handleGetPrompt` that keeps the string-valued arguments -/
def stringArgs : Obj → List (Text × Text)
  | [] => []
  | (k, .str s) :: rest => (k, s) :: stringArgs rest
  | _ :: rest => stringArgs rest

def runPrompt (p : PromptEntry) (args : List (Text × Text)) : Ans :=
  match p.run args with
  -- a nil Messages slice is replaced by an empty one
  | .result r => .result (encodeGetPrompt { r with messages := some (r.messages.getD []) })
  | .goErr msg => .error codeInternal msg
  | .unencodable why => .unencodable why

/-- manager_prompt.go `parseGetPromptParams` + `handleGetPrompt` (prompts registered with a handler) -/
def handleGetPrompt (reg : Registry) (req : Req) : Ans :=
  match req.params.bind asObj? with
  | none => .error codeInvalidParams msgInvalidParams
  | some m =>
    match lookupStr? m t!"name" with
    | none => .error codeInvalidParams msgMissingParams
    | some name =>
      match findPrompt reg.prompts name with
      | none => .error codeMethodNotFound (t!"prompt not found: " ++ name)
      | some p => runPrompt p (stringArgs ((extractMap m t!"arguments").getD []))

def runResource (r : ResEntry) (a : Option Obj) : Ans :=
  match r.run a with
  -- a nil contents slice is replaced by an empty one
  | .contents cs => .result (encodeReadResource (some (cs.getD [])))
  | .goErr msg => .error codeInternal msg

/-- manager_resource.go `handleReadResource` -/
def handleReadResource (reg : Registry) (req : Req) : Ans :=
  match req.params.bind asObj? with
  | none => .error codeInvalidParams msgInvalidParams
  | some m =>
    match lookupStr? m t!"uri" with
    | none => .error codeInvalidParams msgMissingParams
    | some uri =>
      match findResource reg.resources uri with
      | none => .error codeMethodNotFound (t!"resource not found: " ++ uri)
      | some r => runResource r (extractMap m t!"arguments")

/-- placeholder the harness substitutes for the wall-clock text of `handleSubscribe` / `handleUnsubscribe` -/
def timeMark : Text := t!"<time>"

/-- manager_resource.go `handleSubscribe` -/
def handleSubscribe (reg : Registry) (req : Req) : Ans :=
  match req.params.bind asObj? with
  | none => .error codeInvalidParams msgInvalidParams
  | some m =>
    match lookupStr? m t!"uri" with
    | none => .error codeInvalidParams msgMissingParams
    | some uri =>
      match findResource reg.resources uri with
      | none => .error codeMethodNotFound (t!"resource " ++ uri ++ t!" not found")
      | some _ => .result (.obj [(t!"uri", .str uri), (t!"subscribeTime", .str timeMark)])

/-- manager_resource.go `handleUnsubscribe` -/
def handleUnsubscribe (_reg : Registry) (req : Req) : Ans :=
  match req.params.bind asObj? with
  | none => .error codeInvalidParams msgInvalidParams
  | some m =>
    match lookupStr? m t!"uri" with
    | none => .error codeInvalidParams msgMissingParams
    | some uri => .result (.obj [(t!"uri", .str uri), (t!"unsubscribeTime", .str timeMark)])

/-- manager_prompt.go `parseCompletionCompleteParams` + `handlePromptCompletion` -/
def handleCompletion (_reg : Registry) (req : Req) : Ans :=
  match req.params.bind asObj? with
  | none => .error codeInvalidParams msgInvalidParams
  | some m =>
    match extractMap m t!"ref" with
    | none => .error codeInvalidParams msgMissingParams
    | some ref =>
      if lookupStr? ref t!"type" = some t!"ref/prompt" then
        match lookupStr? ref t!"name" with
        | none => .error codeInvalidParams msgMissingParams
        | some _ => .error codeMethodNotFound t!"not implemented"
      else .error codeInvalidParams msgInvalidParams

/-! ### descriptors and lists -/

def encodePromptArg (a : PromptArg) : Json :=
  .obj ([(t!"name", .str a.name)] ++ optField (!a.desc.isEmpty) t!"description" (.str a.desc)
    ++ optField a.required t!"required" (.bool true))

def encodePrompt (p : PromptEntry) : Json :=
  .obj ([(t!"name", .str p.name)] ++ optField (!p.desc.isEmpty) t!"description" (.str p.desc)
    ++ optField (!p.args.isEmpty) t!"arguments" (.arr (p.args.map encodePromptArg)))

def encodeResource (r : ResEntry) : Json :=
  .obj ([(t!"name", .str r.name), (t!"uri", .str r.uri)] ++ optField (!r.desc.isEmpty) t!"description" (.str r.desc)
    ++ optField (!r.mime.isEmpty) t!"mimeType" (.str r.mime) ++ optField (r.size != 0) t!"size" (.int r.size))

/-- `handleListTools` (order: Go map iteration — compared as a multiset by the harness) -/
def handleListTools (reg : Registry) : Ans := .result (encodeListTools (reg.toolFilter (reg.tools.map (·.desc))))
def handleListPrompts (reg : Registry) : Ans := .result (.obj [(t!"prompts", .arr ((reg.promptFilter reg.prompts).map encodePrompt))])
def handleListResources (reg : Registry) : Ans :=
  .result (.obj [(t!"resources", .arr ((reg.resourceFilter reg.resources).map encodeResource))])
/-- `handleListTemplates` with no template registered -/
def handleListTemplates (_reg : Registry) : Ans := .result (.obj [(t!"resourceTemplates", .arr [])])

/-! ### initialize -/

def supportedVersions : List Text := [t!"2024-11-05", t!"2025-03-26"]
def defaultVersion : Text := t!"2025-03-26"

def listChangedCap : Json := .obj [(t!"listChanged", .bool true)]

/-- `InitializeResult` under `json.Marshal` -/
def encodeInit (o : Mcp.Lifecycle.InitOut) : Json :=
  .obj [(t!"protocolVersion", .str o.protocol),
    (t!"serverInfo", .obj [(t!"name", .str o.name), (t!"version", .str o.version)]),
    (t!"capabilities", .obj (optField o.caps.prompts t!"prompts" listChangedCap
      ++ optField o.caps.resources t!"resources" listChangedCap ++ optField o.caps.tools t!"tools" listChangedCap)),
    (t!"instructions", .str t!"MCP server is ready")]

def lifecycleRegistry (reg : Registry) : Mcp.Lifecycle.Registry :=
  ⟨reg.prompts.map (·.name), reg.resources.map (·.uri)⟩

def initResult (reg : Registry) (v : Text) : Json :=
  encodeInit (Mcp.Lifecycle.answerInit ⟨reg.name, reg.version, supportedVersions, defaultVersion⟩ (lifecycleRegistry reg) v)

/-- manager_lifecycle.go `checkInitializeParams`: `some e` = the error answer -/
def checkInitializeParams (req : Req) : Option Ans :=
  match req.params with
  | none => some (.error codeInvalidParams msgMissingParams)
  | some p =>
    match asObj? p with
    | none => some (.error codeInvalidParams msgInvalidParams)
    | some m =>
      match lookupStr? m t!"protocolVersion" with
      | none => some (.error codeInvalidParams msgMissingParams)
      | some _ => none

/-- The two BARE assertions of `handleInitialize` (`req.Params.(map[string]interface{})`,
    `paramsMap["protocolVersion"].(string)`), as (enclosing function, expression text) — compared with the regenerated
    list of bare assertions in the request path (`Mcp.Gen.rpcBareAssertions`). -/
def modelledBareSites : List (Text × Text) :=
  [(t!"lifecycleManager.handleInitialize", t!"req.Params.(map[string]interface{})"),
   (t!"lifecycleManager.handleInitialize", t!"paramsMap[\"protocolVersion\"].(string)")]

/-- Bare assertions in the same files that are NOT on the peer-input path: `SendRequest` asserts the id of the request the
    APPLICATION hands to the server (server-initiated traffic, C05) — no peer input reaches them. -/
def applicationSideBareSites : List (Text × Text) :=
  [(t!"SSEServer.SendRequest", t!"request.ID.(int64)"), (t!"StdioServer.SendRequest", t!"request.ID.(int64)")]

/-- `paramsMap := req.Params.(map[string]interface{})` — bare -/
def bareParamsMap (req : Req) : Outcome Obj :=
  match req.params with
  | some (.obj m) => .ok m
  | _ => .panic

/-- `protocolVersion := paramsMap["protocolVersion"].(string)` — bare -/
def bareProtocolVersion (m : Obj) : Outcome Text :=
  match lookup m t!"protocolVersion" with
  | some (.str v) => .ok v
  | _ => .panic

/-- manager_lifecycle.go `handleInitialize` -/
def handleInitialize (reg : Registry) (req : Req) : Outcome Ans :=
  match checkInitializeParams req with
  | some e => .ok e
  | none =>
    match bareParamsMap req with
    | .panic => .panic
    | .ok m =>
      match bareProtocolVersion m with
      | .panic => .panic
      | .ok v => .ok (.result (initResult reg v))

/-! ## the two dispatchers -/

/-- keys of `requestDispatchTable` (handler.go), in source order -/
def tableMethods : List Text :=
  [t!"initialize", t!"ping", t!"tools/list", t!"tools/call", t!"resources/list", t!"resources/read",
   t!"resources/templates/list", t!"resources/subscribe", t!"resources/unsubscribe", t!"prompts/list", t!"prompts/get",
   t!"completion/complete"]

/-- cases of the switch in `stdioServerInternal.HandleRequest`, in source order -/
def stdioMethods : List Text :=
  [t!"initialize", t!"tools/list", t!"tools/call", t!"prompts/list", t!"prompts/get", t!"resources/list",
   t!"resources/read", t!"ping"]

/-- handler.go `dispatchRequest` -/
def dispatch (reg : Registry) (req : Req) : Outcome Ans :=
  if req.method = t!"initialize" then handleInitialize reg req
  else if req.method = t!"ping" then .ok (.result (.obj []))
  else if req.method = t!"tools/list" then .ok (handleListTools reg)
  else if req.method = t!"tools/call" then .ok (handleCallTool reg req)
  else if req.method = t!"resources/list" then .ok (handleListResources reg)
  else if req.method = t!"resources/read" then .ok (handleReadResource reg req)
  else if req.method = t!"resources/templates/list" then .ok (handleListTemplates reg)
  else if req.method = t!"resources/subscribe" then .ok (handleSubscribe reg req)
  else if req.method = t!"resources/unsubscribe" then .ok (handleUnsubscribe reg req)
  else if req.method = t!"prompts/list" then .ok (handleListPrompts reg)
  else if req.method = t!"prompts/get" then .ok (handleGetPrompt reg req)
  else if req.method = t!"completion/complete" then .ok (handleCompletion reg req)
  else .ok (.error codeMethodNotFound t!"method not found")

/-- stdio_server.go `stdioServerInternal.HandleRequest` after the typed decode -/
def dispatchStdio (reg : Registry) (req : Req) : Outcome Ans :=
  if req.method = t!"initialize" then handleInitialize reg req
  else if req.method = t!"tools/list" then .ok (handleListTools reg)
  else if req.method = t!"tools/call" then .ok (handleCallTool reg req)
  else if req.method = t!"prompts/list" then .ok (handleListPrompts reg)
  else if req.method = t!"prompts/get" then .ok (handleGetPrompt reg req)
  else if req.method = t!"resources/list" then .ok (handleListResources reg)
  else if req.method = t!"resources/read" then .ok (handleReadResource reg req)
  else if req.method = t!"ping" then .ok (.result (.obj []))
  else .ok (.error codeMethodNotFound t!"Method not found")

/-! ## messages -/

def jsonrpcField : Text × Json := (t!"jsonrpc", .str version20)

/-- `JSONRPCResponse{JSONRPC, ID (no omitempty), Result}` -/
def okMsg (id : Option Json) (r : Json) : Json :=
  .obj [jsonrpcField, (t!"id", id.getD .null), (t!"result", r)]

/-- `JSONRPCError{JSONRPC, ID, Error{Code, Message, Data omitempty}}` (a nil id is written as `null`) -/
def errMsg (id : Option Json) (code : Int) (msg : Text) : Json :=
  .obj [jsonrpcField, (t!"id", id.getD .null), (t!"error", .obj [(t!"code", .int code), (t!"message", .str msg)])]

/-- The message an answer becomes (jsonrpc.go `marshalJSONRPCMessage`): a result the encoder refuses becomes an internal
    error for the same id that carries the encoder's text. Always `some` (the `Option` is kept for the callers' shape). -/
def ansMsg (id : Option Json) : Ans → Option Json
  | .result r => some (okMsg id r)
  | .error c m => some (errMsg id c m)
  | .unencodable why => some (errMsg id codeInternal why)

/-! ## reactions -/

/-- What the peer observes for one input: the HTTP status (`none` on stdio), the JSON-RPC message inside the HTTP answer
    (JSON body, or the single SSE event of a POST answered as a stream), the JSON-RPC messages that appear on the
    legacy-SSE stream / on stdout. -/
structure Resp where
  status : Option Nat
  body : Option Json
  frames : List Json

inductive Reaction
  | resp (r : Resp)
  /-- a run-time panic on the request path (Streamable: recovered by net/http, the connection is aborted; legacy SSE and
      stdio: raised in a goroutine without `recover`, the process dies) -/
  | panic

/-- the answer of a dispatcher outcome -/
def Outcome.ans? : Outcome Ans → Option Ans
  | .ok a => some a
  | .panic => none

def Reaction.http (status : Nat) (body : Option Json := none) : Reaction := .resp ⟨some status, body, []⟩
def Reaction.nothing : Reaction := .resp ⟨none, none, []⟩

def Reaction.messages : Reaction → List Json
  | .resp r => r.body.toList ++ r.frames
  | .panic => []

def Reaction.status : Reaction → Option Nat
  | .resp r => r.status
  | .panic => none

/-! ## Streamable HTTP -/

inductive Verb | post | get | delete | other
  deriving DecidableEq, Repr

/-- the request body as the server's JSON decoder sees it -/
inductive Body
  | parseFail
  | json (j : Json)

structure SCfg where
  sess : Mcp.Session.Cfg
  /-- `enablePostSSE` -/
  postSSE : Bool
  /-- `serverPath ≠ ""` (the default is "/mcp") -/
  pathSet : Bool

structure HttpIn where
  verb : Verb
  /-- request path = configured server path -/
  pathOk : Bool
  ref : Mcp.Session.Ref
  /-- the Accept header lists text/event-stream -/
  acceptSSE : Bool
  body : Body

open Mcp.Session in
/-- the "Get session" block of `handlePost`: the session the request runs in, or the refusal status -/
def resolve (c : Mcp.Session.Cfg) (st : St) (isInit : Bool) (r : Ref) : Except Nat (St × Option Nat) :=
  match c.mode, r with
  | .stateless, _ => .ok (st, some st.issued)
  | .sessionsOff, _ => .ok (st, none)
  | .stateful, .none =>
    if isInit then .ok ({ st with issued := st.issued + 1, live := st.issued :: st.live }, some st.issued)
    else .error 400
  | .stateful, .bogus => .error 404
  | .stateful, .sid s => if s ∈ st.live then .ok (st, some s) else .error 404

/-- which `Session.Kind` a decoded request is (its state effect is `Session.postBody`'s) -/
def requestKind (method : Text) (a : Ans) : Mcp.Session.Kind :=
  if method = t!"initialize" then
    match a with
    | .result _ => .initOk
    | _ => .initBad
  else .request

def notifKind (method : Text) : Mcp.Session.Kind :=
  if method = t!"notifications/initialized" then .notifInitialized else .notifOther

open Mcp.Session in
/-- streamable_server.go `handlePost` past the body decode -/
def servePost (c : SCfg) (reg : Registry) (st : St) (ref : Ref) (j : Json) : St × Reaction :=
  match decodeBase j with
  | none => (st, .http 400)
  | some b =>
    match resolve c.sess st (b.id.isSome && b.method == t!"initialize") ref with
    | .error s => (st, .http s)
    | .ok (st1, sess) =>
      if b.id.isSome && !b.method.isEmpty then
        -- handlePostRequest
        match decodeRequest j with
        | none => (st1, .http 400)
        | some req =>
          match dispatch reg req with
          | .panic => (st1, .panic)
          | .ok a => ((postBody c.sess st1 (requestKind req.method a) sess).1, .http 200 (ansMsg req.id a))
      else if !b.method.isEmpty then
        -- handlePostNotification
        match decodeNotification j with
        | none => (st1, .http 400)
        | some m =>
          let r := postBody c.sess st1 (notifKind m) sess
          (r.1, .http r.2.status)
      else if b.id.isSome then
        -- handlePostResponse
        match decodeResponse j with
        | none => (st1, .http 400)
        | some (hasErr, hasRes) =>
          let r := postBody c.sess st1 (if hasErr || hasRes then .response else .responseEmpty) sess
          (r.1, .http r.2.status)
      else (st1, .http 400)

open Mcp.Session in
/-- streamable_server.go `ServeHTTP` -/
def serveStreamable (c : SCfg) (reg : Registry) (st : St) (i : HttpIn) : St × Reaction :=
  if !i.pathOk then (st, .http 404)
  else
    match i.verb with
    | .post =>
      match i.body with
      | .parseFail => (st, .http 400)
      | .json j => servePost c reg st i.ref j
    | .get =>
      let r := stepGet c.sess st i.ref
      (r.1, .http r.2.status)
    | .delete =>
      let r := stepDelete c.sess st i.ref
      (r.1, .http r.2.status)
    | .other => (st, .http 405)

/-! ### the Accept header (internal/httputil/accept.go, responder.go `createResponder`)

The header value is a list of code points (the harness sends valid UTF-8 only). Every slice index of the Go code is a
function that CAN panic (`goIndex`); the theorem is that `strings.Split` never returns an empty slice. -/

/-- `unicode.IsSpace` -/
def isGoSpace (c : Nat) : Bool :=
  c == 9 || c == 10 || c == 11 || c == 12 || c == 13 || c == 32 || c == 0x85 || c == 0xA0 || c == 0x1680 ||
  (0x2000 ≤ c && c ≤ 0x200A) || c == 0x2028 || c == 0x2029 || c == 0x202F || c == 0x205F || c == 0x3000

/-- `strings.TrimSpace` -/
def goTrimSpace (s : Text) : Text := ((s.dropWhile isGoSpace).reverse.dropWhile isGoSpace).reverse

/-- `strings.Split(s, sep)` for a one-character separator -/
def splitOn (sep : Nat) : Text → List Text
  | [] => [[]]
  | c :: rest =>
    if c == sep then [] :: splitOn sep rest
    else match splitOn sep rest with
      | [] => [[c]]
      | p :: ps => (c :: p) :: ps

/-- `xs[i]`: Go panics when the index is out of range -/
def goIndex {α : Type} (xs : List α) (i : Nat) : Outcome α :=
  match xs[i]? with
  | some x => .ok x
  | none => .panic

/-- the index expressions of internal/httputil/accept.go, as the extractor prints them (function, expression) -/
def modelledIndexSites : List (Text × Text) :=
  [(t!"ParseAcceptHeader", t!"strings.Split(strings.TrimSpace(accept),\";\")[0]")]

/-- the media type of one element of the header: `strings.Split(strings.TrimSpace(accept), ";")[0]` -/
def mediaTypeOf (item : Text) : Outcome Text := goIndex (splitOn 59 (goTrimSpace item)) 0

def parseAcceptItems : List Text → Outcome (List Text)
  | [] => .ok []
  | a :: rest =>
    match mediaTypeOf a, parseAcceptItems rest with
    | .ok mt, .ok ms => .ok (if mt.isEmpty then ms else mt :: ms)
    | _, _ => .panic

/-- `ParseAcceptHeader` -/
def parseAccept (h : Text) : Outcome (List Text) :=
  if h.isEmpty then .ok [] else parseAcceptItems (splitOn 44 h)

def typeEventStream : Text := t!"text/event-stream"

/-- `ContainsContentType` -/
def containsContentType (accepts : List Text) (ct : Text) : Bool := accepts.any (fun a => a == ct || a == t!"*/*")

/-- `createResponder` for a request (a body with a non-null id): the POST is answered as an SSE stream -/
def chooseSSE (postSSE : Bool) (accept : Text) : Outcome Bool :=
  if postSSE then
    match parseAccept accept with
    | .ok as => .ok (containsContentType as typeEventStream)
    | .panic => .panic
  else .ok false

/-- a Streamable HTTP request with its Accept header as sent -/
structure HttpWire where
  verb : Verb
  pathOk : Bool
  ref : Mcp.Session.Ref
  accept : Text
  body : Body

/-- `ServeHTTP` with the header parser in front (evaluated for every request here, for requests with an id only in the
    code: an over-approximation of where a panic of the parser could surface) -/
def serveWire (c : SCfg) (reg : Registry) (st : Mcp.Session.St) (w : HttpWire) : Mcp.Session.St × Reaction :=
  match parseAccept w.accept with
  | .panic => (st, .panic)
  | .ok as => serveStreamable c reg st ⟨w.verb, w.pathOk, w.ref, containsContentType as typeEventStream, w.body⟩

/-! ## legacy SSE -/

inductive SsePath | sse | message | other
  deriving DecidableEq, Repr

/-- the `sessionId` query parameter -/
inductive SseRef | missing | unknown | live
  deriving DecidableEq, Repr

structure SseIn where
  verb : Verb
  path : SsePath
  ref : SseRef
  body : Body

/-- sse_server.go `handleMessage` past the session lookup -/
def serveSSEMessage (reg : Registry) (b : Body) : Reaction :=
  match b with
  | .parseFail => .http 200 (some (errMsg none codeParse t!"Parse error"))
  | .json j =>
    match decodeBase j with
    | none => .http 200 (some (errMsg none codeParse t!"Invalid JSON-RPC message"))
    | some b =>
      if b.id.isSome && !b.method.isEmpty then
        -- handleRequestMessage: typed decode, then `go processRequestAsync`
        match decodeRequest j with
        | none => .http 202
        | some req =>
          match dispatch reg req with
          | .panic => .panic
          | .ok a => .resp ⟨some 202, none, (ansMsg req.id a).toList⟩
      else if !b.method.isEmpty then .http 202
      else if b.id.isSome then .http 202
      else .http 202 (some (errMsg none codeInvalidRequest t!"Invalid JSON-RPC message format"))

/-- sse_server.go `ServeHTTP` (the stream opened by GET on the SSE endpoint carries the `endpoint` event, no message) -/
def serveSSE (reg : Registry) (i : SseIn) : Reaction :=
  match i.path with
  | .other => .http 404
  | .sse => if i.verb = .get then .http 200 else .http 405
  | .message =>
    if i.verb ≠ .post then .http 405
    else match i.ref with
      | .missing => .http 400
      | .unknown => .http 404
      | .live => serveSSEMessage reg i.body

/-! ## stdio -/

/-- stdio_server.go `processMessage` for one (trimmed, non-empty) line -/
def serveStdio (reg : Registry) (b : Body) : Reaction :=
  match b with
  | .parseFail => .resp ⟨none, none, [errMsg none codeParse t!"Parse error"]⟩
  | .json j =>
    match classifyStdio j with
    | none => .resp ⟨none, none, [errMsg none codeInvalidRequest t!"Invalid Request"]⟩
    | some .request =>
      match decodeRequest j with
      | none => .resp ⟨none, none, [errMsg none codeParse t!"Parse error"]⟩
      | some req =>
        match dispatchStdio reg req with
        | .panic => .panic
        | .ok a => .resp ⟨none, none, (ansMsg req.id a).toList⟩
    | some _ => .nothing

/-! ## what the model assumes about the source (compared with the regenerated facts `Mcp.Gen.rpc…`) -/

/-- the error code of every error answer on the request path, per enclosing function in source order — the codes the model
    functions above use in the corresponding branches -/
def modelledErrorCodes : List (Text × Int) :=
  [(t!"mcpHandler.dispatchRequest", codeMethodNotFound),
   (t!"marshalJSONRPCMessage", codeInternal), (t!"marshalJSONRPCMessage", codeInternal),
   (t!"lifecycleManager.checkInitializeParams", codeInvalidParams), (t!"lifecycleManager.checkInitializeParams", codeInvalidParams),
   (t!"lifecycleManager.checkInitializeParams", codeInvalidParams),
   (t!"parseGetPromptParams", codeInvalidParams), (t!"parseGetPromptParams", codeInvalidParams),
   (t!"promptManager.handleGetPrompt", codeMethodNotFound), (t!"promptManager.handleGetPrompt", codeInternal),
   (t!"parseCompletionCompleteParams", codeInvalidParams), (t!"parseCompletionCompleteParams", codeInvalidParams),
   (t!"parseCompletionCompleteParams", codeInvalidParams), (t!"parseCompletionCompleteParams", codeInvalidParams),
   (t!"promptManager.handlePromptCompletion", codeMethodNotFound),
   (t!"resourceManager.handleReadResource", codeInvalidParams), (t!"resourceManager.handleReadResource", codeInvalidParams),
   (t!"resourceManager.handleReadResource", codeMethodNotFound), (t!"resourceManager.handleReadResource", codeInternal),
   (t!"resourceManager.handleSubscribe", codeInvalidParams), (t!"resourceManager.handleSubscribe", codeInvalidParams),
   (t!"resourceManager.handleSubscribe", codeMethodNotFound),
   (t!"resourceManager.handleUnsubscribe", codeInvalidParams), (t!"resourceManager.handleUnsubscribe", codeInvalidParams),
   (t!"toolManager.handleCallTool", codeInvalidParams), (t!"toolManager.handleCallTool", codeInvalidParams),
   (t!"toolManager.handleCallTool", codeInvalidParams), (t!"toolManager.handleCallTool", codeMethodNotFound),
   (t!"toolManager.handleCallTool", codeInvalidParams), (t!"toolManager.handleCallTool", codeInternal),
   (t!"SSEServer.handleMessage", codeParse), (t!"SSEServer.handleMessage", codeParse), (t!"SSEServer.handleMessage", codeInvalidRequest),
   (t!"SSEServer.handleRequestError", codeInternal),
   (t!"stdioTransport.processMessage", codeParse), (t!"stdioTransport.processMessage", codeInvalidRequest),
   (t!"stdioServerInternal.HandleRequest", codeParse), (t!"stdioServerInternal.HandleRequest", codeMethodNotFound),
   (t!"stdioServerInternal.HandleRequest", codeInternal),
   (t!"httpServerHandler.handlePostRequest", codeInternal), (t!"httpServerHandler.handlePostRequest", codeInternal)]

/-- the functions of the legacy SSE and stdio servers that start a goroutine per incoming message -/
def perMessageGoFns : List Text :=
  [t!"SSEServer.handleRequestMessage", t!"SSEServer.handleNotificationMessage", t!"SSEServer.handleNotification",
   t!"stdioTransport.processInputStream", t!"stdioServerInternal.HandleNotification"]

/-- Their `go` statements: (enclosing function, what is started, the goroutine recovers). None does: a panic raised while
    serving a message there — `handleRequestMessage → processRequestAsync`, the line handler of `processInputStream` —
    ends the process (`Reaction.panic`). -/
def perMessageGoStmts : List (Text × Text × Bool) :=
  [(t!"SSEServer.handleRequestMessage", t!"s.processRequestAsync", false),
   (t!"SSEServer.handleNotificationMessage", t!"func", false), (t!"SSEServer.handleNotification", t!"func", false),
   (t!"stdioTransport.processInputStream", t!"func", false), (t!"stdioServerInternal.HandleNotification", t!"func", false)]

/-! ## vocabulary of the property statements -/

/-- the methods every transport serves, in the order of the statement of C14 -/
def commonMethods : List Text :=
  [t!"initialize", t!"ping", t!"tools/list", t!"tools/call", t!"prompts/list", t!"prompts/get", t!"resources/list",
   t!"resources/read"]

/-- `POST` of a JSON value to the configured path -/
def postOf (ref : Mcp.Session.Ref) (acceptSSE : Bool) (j : Json) : HttpIn := ⟨.post, true, ref, acceptSSE, .json j⟩

/-- `POST` of a JSON value to the message endpoint of a live legacy-SSE session -/
def ssePostOf (j : Json) : SseIn := ⟨.post, .message, .live, .json j⟩


/-- the request arrives in a session the Streamable server accepts it in: a live session, or none for `initialize` -/
def sessionOk (c : SCfg) (st : Mcp.Session.St) (ref : Mcp.Session.Ref) (method : Text) : Prop :=
  c.sess.mode = .stateful → (∃ s, ref = .sid s ∧ s ∈ st.live) ∨ (ref = .none ∧ method = t!"initialize")

def roleOk (r : Text) : Bool := r == t!"user" || r == t!"assistant"

/-- every message of a prompt result has a valid role and a content (the handler contract read with the MCP schema) -/
def promptConforms (r : GetPromptResult) : Prop :=
  ∀ m ∈ r.messages.getD [], roleOk m.role = true ∧ ∃ c, m.content = some c

/-- What C03's well-formedness theorems assume about the registrations: tool descriptors carry an object schema (as
    `mcp.NewTool` builds them); prompt handlers return messages with a valid role and a content. -/
structure Registry.Conforming (reg : Registry) : Prop where
  schema : ∀ t ∈ reg.tools, ∃ s, t.desc.inputSchema = some (.obj s) ∧ lookup s t!"type" = some (.str t!"object")
  /-- …and so do the descriptors a tool list filter returns (it holds for every filter that selects among the registered
      descriptors: `Registry.listed_of_sublist`) -/
  listed : ∀ d ∈ reg.toolFilter (reg.tools.map (·.desc)), ∃ s, d.inputSchema = some (.obj s) ∧ lookup s t!"type" = some (.str t!"object")
  prompts : ∀ p ∈ reg.prompts, ∀ a r, p.run a = .result r → promptConforms r

/-- `arguments` of tools/call is absent, `null` or an object -/
def argumentsOk (m : Obj) : Bool :=
  match lookup m t!"arguments" with
  | none => true
  | some .null => true
  | some (.obj _) => true
  | some _ => false

/-- The REQUIRED parameters of a request are missing or of the wrong shape (the minimal reading of the MCP schema:
    `initialize`: an object with a string `protocolVersion`; `tools/call`: an object with a non-empty string `name` and —
    judged once the tool is known — `arguments` absent, `null` or an object; `prompts/get`: an object with a string `name`;
    `resources/read`: an object with a string `uri`). `params` is what the envelope decoder hands to the managers. -/
def badParams (reg : Registry) (method : Text) (params : Option Json) : Bool :=
  match params.bind asObj? with
  | none => method = t!"initialize" || method = t!"tools/call" || method = t!"prompts/get" || method = t!"resources/read"
  | some m =>
    if method = t!"initialize" then (lookupStr? m t!"protocolVersion").isNone
    else if method = t!"tools/call" then
      match lookupStr? m t!"name" with
      | none => true
      | some n => n.isEmpty || ((findTool reg.tools n).isSome && !argumentsOk m)
    else if method = t!"prompts/get" then (lookupStr? m t!"name").isNone
    else if method = t!"resources/read" then (lookupStr? m t!"uri").isNone
    else false

/-- the JSON value of a body -/
def Body.json? : Body → Option Json
  | .parseFail => none
  | .json j => some j

def isErrorMsg : Json → Bool
  | .obj o => hasKey o t!"error"
  | _ => false

/-- the input is answered by an HTTP error status or by a JSON-RPC error object -/
def Reaction.answeredWithError : Reaction → Bool
  | .resp r => (match r.status with | some s => decide (400 ≤ s) | none => false) || (r.body.toList ++ r.frames).any isErrorMsg
  | .panic => false

/-- The body is not a JSON-RPC message a server could act on: not JSON at all; a JSON value the envelope decoder rejects
    (not an object, `jsonrpc` / `method` of the wrong kind, an id holding a number no float64 can hold); an object with
    neither an id nor a method. -/
inductive Malformed : Body → Prop
  | unparsable : Malformed .parseFail
  | undecodable (j : Json) : decodeBase j = none → Malformed (.json j)
  | empty (j : Json) (b : Base) : decodeBase j = some b → b.id = none → b.method = [] → Malformed (.json j)

/-- the stdio line is not a JSON-RPC message: not JSON, or a value `parseJSONRPCMessageType` rejects (not an object, a
    version other than "2.0", neither id nor method, a number no float64 can hold) -/
inductive MalformedLine : Body → Prop
  | unparsable : MalformedLine .parseFail
  | invalid (j : Json) : classifyStdio j = none → MalformedLine (.json j)

/-- a history of HTTP exchanges with one Streamable server -/
def runStreamable (c : SCfg) (reg : Registry) : Mcp.Session.St → List HttpIn → Mcp.Session.St × List Reaction
  | st, [] => (st, [])
  | st, i :: is =>
    let r := serveStreamable c reg st i
    let rest := runStreamable c reg r.1 is
    (rest.1, r.2 :: rest.2)

/-- every input of the history is answered with an error at the time it arrives -/
def allRefused (c : SCfg) (reg : Registry) : Mcp.Session.St → List HttpIn → Bool
  | _, [] => true
  | st, i :: is => (serveStreamable c reg st i).2.answeredWithError && allRefused c reg (serveStreamable c reg st i).1 is

/-- the session reference of a request names nothing the server has not issued yet -/
def refKnown (st : Mcp.Session.St) : Mcp.Session.Ref → Bool
  | .sid s => decide (s < st.issued)
  | _ => true

/-- the normalised outcome of an exchange: the result, or the error code, of the only message emitted -/
inductive Norm
  | result (r : Json)
  | error (code : Option Json)
  | silent
  | other

def normMsg : Json → Norm
  | .obj o =>
    match lookup o t!"error", lookup o t!"result" with
    | some (.obj e), _ => .error (lookup e t!"code")
    | none, some r => .result r
    | _, _ => .other
  | _ => .other

def Reaction.outcome (r : Reaction) : Norm :=
  match r.messages with
  | [] => .silent
  | [m] => normMsg m
  | _ => .other

/-- the error code of the only message, if it is an error with an integer code -/
def Reaction.errorCode (r : Reaction) : Option Int :=
  match r.outcome with
  | .error (some (.int c)) => some c
  | _ => none

def Reaction.hasResult (r : Reaction) : Bool :=
  match r.outcome with
  | .result _ => true
  | _ => false

end Mcp.Rpc
