/-
  What would happen if `handleGet` performed its registration or its exit in TWO critical sections instead of one
  (the regenerated facts `handleGetStoreAtomic` / `handleGetExitAtomic` say it does not): the base model's `store` and
  `exit_` split into a look-up step and a commit step, with anything allowed in between.  Used only for the witness
  theorems in `Mcp.Props.C11` that justify why those facts are obligations.
-/
import Mcp.Model.Streams
namespace Mcp.Streams

inductive EvS where
  | base (e : Ev)
  | exitCheck (n : Nat)     -- under the table lock: "is the entry still mine?" — then the lock is released
  | exitDelete (n : Nat)    -- under the table lock again: delete the entry if the check said so
  | storeLookup (n : Nat)   -- read the session's current entry (the predecessor to cancel)
  | storeCommit (n : Nat)   -- cancel the predecessor seen by the look-up, store the new entry
  deriving Repr, DecidableEq

structure StS where
  s : St := {}
  mine : List (Nat × Bool) := []          -- result of each handler's exit check
  seen : List (Nat × Option Nat) := []    -- predecessor each handler's look-up saw

def stepS (f : Facts) (x : StS) : EvS → Option StS
  | .base e => (step f x.s e).map fun s' => { x with s := s' }
  | .exitCheck n =>
    let h := x.s.hs n
    if h.woken && !h.exited && !(x.mine.any (·.1 == n)) then
      some { x with mine := (n, decide (x.s.table = some n)) :: x.mine }
    else none
  | .exitDelete n =>
    match x.mine.find? (·.1 == n) with
    | none => none
    | some (_, wasMine) =>
      let h := x.s.hs n
      if h.exited then none else
      some { x with s := { x.s with hs := upd x.s.hs n { h with exited := true },
                                    table := if wasMine then none else x.s.table } }
  | .storeLookup n =>
    let h := x.s.hs n
    if h.opened && !h.stored && !(x.seen.any (·.1 == n)) then some { x with seen := (n, x.s.table) :: x.seen } else none
  | .storeCommit n =>
    match x.seen.find? (·.1 == n) with
    | none => none
    | some (_, pred) =>
      let h := x.s.hs n
      if h.stored then none else
      let hs1 := match pred with
        | some o => cancel x.s.hs o
        | none => x.s.hs
      some { x with s := { x.s with hs := upd hs1 n { hs1 n with stored := true }, table := some n } }

def runS (f : Facts) : StS → List EvS → Option StS
  | x, [] => some x
  | x, e :: es => match stepS f x e with
    | none => none
    | some x' => runS f x' es

end Mcp.Streams
