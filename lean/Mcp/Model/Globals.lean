/-
  C20 — package-level variables (the regenerated table `Mcp.Gen.rcGlobals`, `extract/races_globals.go`).

  A package-level variable is shared by every goroutine of the process — every client, every server.  The table lists,
  per variable of the library (root package and internal/…): what it holds (`VKind`), the functions that are treated
  as configuration setters (assumed to run before the library is used), and every distinct syntactic access as an
  `Mcp.Lockset.Acc` ⟨function, kind, sync, package-level mutexes lexically held, initialisation phase⟩ where
    write = the variable, an element or a field of it is assigned / incremented / deleted from / appended to / copied
            into / its address is taken,
    use   = a method is called through it or its value (a reference) is handed on,
    read  = a read that cannot change anything.
  Whether a `use` can change shared memory depends on what the variable holds: it does for containers (map, slice,
  pointer, struct with such parts), for opaque objects (`rand.New(…)`, `bytes.NewBuffer(…)`, interface values: the
  methods mutate the object and the type is not documented safe for concurrent use) and for anything the extractor
  did not understand; it does not for immutable values, sync primitives and objects that are safe for concurrent
  use.  `gDisciplined` promotes the mutating uses to writes and asks for one of the three disciplines of the field
  table (`Mcp.Lockset.disciplined`): never written after initialisation, every access atomic, one common mutex in
  the right mode — the disciplines `Props/C20` Part A proves race-free.
-/
import Mcp.Model.Lockset
namespace Mcp.Globals
open Mcp.Str Mcp.Lockset

/-- What a package-level variable holds. -/
inductive VKind
  | immutable   -- basic / flat struct / func value / error made by errors.New or fmt.Errorf: no interior to mutate
  | syncType    -- sync.Mutex, sync.RWMutex, sync.Map, sync.Once, sync.Pool, atomic.*, channel
  | safeObject  -- an object documented / assumed safe for concurrent use (Logger, *regexp.Regexp, a struct with its own locks)
  | container   -- slice / map / array / pointer / struct with such parts: mutable interior
  | opaque      -- an object whose methods may mutate it and whose type is not known to be safe for concurrent use
  | unknown     -- declaration not understood
  deriving Repr, DecidableEq

structure Global where
  pkg : Text
  name : Text
  type : Text             -- declared / inferred type text (or the initialiser's head), informational
  vkind : VKind
  config : List Text      -- functions whose accesses count as initialisation by the configuration-setter assumption
  accs : List Acc
  deriving Repr, DecidableEq

def gkey (g : Global) : Text × Text := (g.pkg, g.name)

/-- Can this access change memory other goroutines see, given what the variable holds? -/
def mutating (k : VKind) (a : Acc) : Bool :=
  a.kind == .write ||
  (a.kind == .use && (k == .container || k == .opaque || k == .unknown))

/-- The access record as the lock discipline has to see it: a mutating use is a write. -/
def promote (k : VKind) (a : Acc) : Acc :=
  if mutating k a then { a with kind := .write } else a

/-- The variable as an entry of the lock table. -/
def asField (g : Global) : Field := ⟨g.pkg, g.name, g.accs.map (promote g.vkind)⟩

/-- The variable is used with discipline: its declaration was understood, and after initialisation it is never
    written (nor mutated through), or only touched atomically, or always under one package-level mutex in the right
    mode. -/
def gDisciplined (g : Global) : Bool := g.vkind != .unknown && disciplined (asField g)

def AllGlobalsDisciplined (tab : List Global) : Prop := ∀ g ∈ tab, gDisciplined g = true

def undisciplinedGlobals (tab : List Global) : List (Text × Text) := (tab.filter fun g => !gDisciplined g).map gkey

/-- The variables whose verdict rests on the configuration-setter assumption, with the setters. -/
def configAssumed (tab : List Global) : List ((Text × Text) × List Text) :=
  (tab.filter fun g => !g.config.isEmpty).map fun g => (gkey g, g.config)

/-! ### literal records (not regenerated): what the predicate must reject / accept -/

/-- A `*rand.Rand` built with `rand.New` in a package-level variable, drawn from in the back-off step of
    `retry.Execute` — which runs on the goroutine of every client call — with no lock. -/
def jitterUnlocked : Global :=
  ⟨t!"retry", t!"jitterSource", t!"<rand.New(...)>", .opaque, [],
   [⟨t!"retry.var jitterSource", .write, .plain, [], true⟩,
    ⟨t!"retry.withJitter", .use, .plain, [], false⟩]⟩

/-- The same generator behind a package-level mutex at its only use. -/
def jitterLocked : Global :=
  ⟨t!"retry", t!"jitterSource", t!"<rand.New(...)>", .opaque, [],
   [⟨t!"retry.var jitterSource", .write, .plain, [], true⟩,
    ⟨t!"retry.withJitter", .use, .plain, [(t!"retry.jitterMu", true)], false⟩]⟩

/-- The same accesses on an object that is safe for concurrent use (a compiled regular expression). -/
def safeUsed : Global :=
  ⟨t!"retry", t!"statusRe", t!"*regexp.Regexp", .safeObject, [],
   [⟨t!"retry.var statusRe", .write, .plain, [], true⟩,
    ⟨t!"retry.isHTTPStatusRetryable", .use, .plain, [], false⟩]⟩

/-- A plain counter incremented by every call. -/
def counterPlain : Global :=
  ⟨t!"retry", t!"attempts", t!"int", .immutable, [],
   [⟨t!"retry.var attempts", .write, .plain, [], true⟩,
    ⟨t!"retry.Execute", .write, .plain, [], false⟩,
    ⟨t!"retry.Attempts", .read, .plain, [], false⟩]⟩

/-- A lookup map filled lazily by one function under the write lock and read by another under NO lock. -/
def cacheHalfLocked : Global :=
  ⟨t!"retry", t!"seen", t!"map[string]bool", .container, [],
   [⟨t!"retry.var seen", .write, .plain, [], true⟩,
    ⟨t!"retry.remember", .write, .plain, [(t!"retry.mu", true)], false⟩,
    ⟨t!"retry.IsRetryableError", .read, .plain, [], false⟩]⟩

/-- A lookup table handed out to callers (`return table`): whoever gets it can write into the shared backing array. -/
def tableHandedOut : Global :=
  ⟨t!"retry", t!"retryableStatusCodes", t!"[]string", .container, [],
   [⟨t!"retry.var retryableStatusCodes", .write, .plain, [], true⟩,
    ⟨t!"retry.Codes", .use, .plain, [], false⟩]⟩

end Mcp.Globals
