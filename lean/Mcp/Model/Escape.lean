/-
  The string and framing layer under the content model.

  * `escape` / `unescape`: Go `encoding/json` string escaping as `json.Marshal` does it (HTML escaping on), on code points.
  * `render`: compact JSON text of a model value as `json.Marshal` prints it (struct fields in declaration order = the
    order of the model's `Obj`; the driver hands maps over with sorted keys, as Go prints maps).
  * `writeEvent` (internal/sseutil/writer.go `WriteEvent`), `formatSSEEvent` (sse_server.go), a reference SSE parser
    written from the WHATWG event-stream rules, and `clientDataLines`, the per-line reader of
    streamable_client.go `handleSSEResponse`.
-/
import Mcp.Model.Json
namespace Mcp.Escape
open Mcp.Str Mcp.Json

/-! ## string escaping -/

def hexDigit (n : Nat) : Nat := if n < 10 then 48 + n else 87 + n

/-- four lower-case hex digits of `c` (`c < 65536`) -/
def hex4 (c : Nat) : Text := [hexDigit (c / 4096 % 16), hexDigit (c / 256 % 16), hexDigit (c / 16 % 16), hexDigit (c % 16)]

/-- `encodeState.appendString` with `escapeHTML = true`, one code point -/
def escChar (c : Nat) : Text :=
  if c = 34 then [92, 34]
  else if c = 92 then [92, 92]
  else if c = 8 then [92, 98]
  else if c = 12 then [92, 102]
  else if c = 10 then [92, 110]
  else if c = 13 then [92, 114]
  else if c = 9 then [92, 116]
  else if c < 32 ∨ c = 60 ∨ c = 62 ∨ c = 38 ∨ c = 8232 ∨ c = 8233 then 92 :: 117 :: hex4 c
  else [c]

def escape : Text → Text
  | [] => []
  | c :: s => escChar c ++ escape s

def hexVal (d : Nat) : Nat :=
  if 48 ≤ d ∧ d ≤ 57 then d - 48
  else if 97 ≤ d ∧ d ≤ 102 then d - 87
  else if 65 ≤ d ∧ d ≤ 70 then d - 55
  else 0

def hexVal4 (a b c d : Nat) : Nat := hexVal a * 4096 + hexVal b * 256 + hexVal c * 16 + hexVal d

/-- the character after a backslash (other than `u`) -/
def unescSimple (e : Nat) : Nat :=
  if e = 98 then 8 else if e = 102 then 12 else if e = 110 then 10 else if e = 114 then 13 else if e = 116 then 9 else e

/-- JSON string unescaping, first pass: every escape sequence becomes one UTF-16 code unit / code point -/
def unescUnits : Text → Text
  | [] => []
  | c :: rest =>
    if c = 92 then
      match rest with
      | 117 :: a :: b :: c' :: d :: rest' => hexVal4 a b c' d :: unescUnits rest'
      | e :: rest' => unescSimple e :: unescUnits rest'
      | [] => []
    else c :: unescUnits rest

def isHigh (c : Nat) : Bool := 55296 ≤ c && c < 56320
def isLow (c : Nat) : Bool := 56320 ≤ c && c < 57344
def fixLone (c : Nat) : Nat := if isHigh c || isLow c then 65533 else c

/-- second pass: a high surrogate followed by a low one is one code point; a lone surrogate is U+FFFD (as Go decodes) -/
def combine : Text → Text
  | [] => []
  | [c] => [fixLone c]
  | h :: l :: rest =>
    if isHigh h && isLow l then (65536 + (h - 55296) * 1024 + (l - 56320)) :: combine rest
    else fixLone h :: combine (l :: rest)

def unescape (s : Text) : Text := combine (unescUnits s)

/-! ## compact JSON text -/

def padDigits : Nat → Text → Text
  | 0, t => t
  | n + 1, t => if t.length < n + 1 then padDigits n (48 :: t) else t

/-- a non-integer decimal `m · 10^(−e)` in plain notation (the harness only uses magnitudes Go prints without exponent) -/
def decText (m : Int) (e : Nat) : Text :=
  let a := m.natAbs
  let ip := a / 10 ^ e
  let fp := a % 10 ^ e
  (if m < 0 then [45] else []) ++ natDigits ip ++ [46] ++ padDigits e (natDigits fp)

mutual
def render : Json → Text
  | .null => t!"null"
  | .bool true => t!"true"
  | .bool false => t!"false"
  | .int i => intText i
  | .dec m e => decText m e
  | .str s => 34 :: escape s ++ [34]
  | .arr xs => 91 :: renderList xs ++ [93]
  | .obj kvs => 123 :: renderFields kvs ++ [125]
def renderList : List Json → Text
  | [] => []
  | x :: rest => render x ++ (if rest.isEmpty then [] else [44]) ++ renderList rest
def renderFields : List (Text × Json) → Text
  | [] => []
  | (k, v) :: rest => 34 :: escape k ++ [34, 58] ++ render v ++ (if rest.isEmpty then [] else [44]) ++ renderFields rest
end

/-! ## SSE writers -/

/-- Go `strings.Split(s, sep)` for a one-character separator (always at least one piece) -/
def splitOn (sep : Nat) : Text → List Text
  | [] => [[]]
  | c :: s =>
    if c = sep then [] :: splitOn sep s
    else match splitOn sep s with
      | [] => [[c]]
      | l :: ls => (c :: l) :: ls

/-- `strings.TrimSuffix(s, "\n")` -/
def trimSuffixLF : Text → Text
  | [] => []
  | [c] => if c = 10 then [] else [c]
  | c :: d :: s => c :: trimSuffixLF (d :: s)

def dataLines (pre : Text) : List Text → Text
  | [] => []
  | l :: ls => pre ++ l ++ [10] ++ dataLines pre ls

/-- internal/sseutil/writer.go `WriteEvent` (for a non-empty id; an empty id is refused with an error) -/
def writeEvent (id data : Text) : Text :=
  t!"id: " ++ id ++ [10]
    ++ (if data = [] then [] else dataLines t!"data: " (splitOn 10 (trimSuffixLF data)))
    ++ [10]

/-- `strings.ReplaceAll(s, "\n", "\ndata: ")` -/
def replaceLF : Text → Text
  | [] => []
  | c :: s => if c = 10 then 10 :: t!"data: " ++ replaceLF s else c :: replaceLF s

/-- sse_server.go `formatSSEEvent` -/
def formatSSEEvent (event data : Text) : Text :=
  (if event = [] then [] else t!"event: " ++ event ++ [10])
    ++ (if data = [] then [] else t!"data: " ++ replaceLF data ++ [10])
    ++ [10]

/-! ## reference SSE reader (WHATWG HTML §9.2 "Interpreting an event stream") -/

/-- complete lines (terminated by CRLF, LF or CR) and the unterminated tail, which a reader never interprets -/
def cutLines : Text → List Text × Text
  | [] => ([], [])
  | c :: s =>
    if c = 10 then ([] :: (cutLines s).1, (cutLines s).2)
    else if c = 13 then
      -- CR LF is one terminator: the LF that follows ends the (same) line
      if s.head? = some 10 then cutLines s else ([] :: (cutLines s).1, (cutLines s).2)
    else
      match (cutLines s).1 with
      | [] => ([], c :: (cutLines s).2)
      | l :: ls => ((c :: l) :: ls, (cutLines s).2)

/-- field name and value of a non-empty, non-comment line: split at the first colon, drop one leading space -/
def field (line : Text) : Text × Text :=
  let name := line.takeWhile (· ≠ 58)
  match line.dropWhile (· ≠ 58) with
  | [] => (name, [])
  | _ :: 32 :: v => (name, v)
  | _ :: v => (name, v)

def joinLF : List Text → Text
  | [] => []
  | [l] => l
  | l :: m :: ls => l ++ 10 :: joinLF (m :: ls)

structure PS where
  lastId : Text
  /-- the data buffer, as the list of appended values in reverse (the buffer is empty iff the list is) -/
  data : List Text
  /-- dispatched events (last event id, data), newest first -/
  events : List (Text × Text)

def stepLine (st : PS) (line : Text) : PS :=
  if line = [] then
    if st.data = [] then st
    else { st with data := [], events := (st.lastId, joinLF st.data.reverse) :: st.events }
  else if line.head? = some 58 then st
  else
    let f := field line
    if f.1 = t!"data" then { st with data := f.2 :: st.data }
    else if f.1 = t!"id" then (if 0 ∈ f.2 then st else { st with lastId := f.2 })
    else st

/-- the events (last-event-id, data) a conforming reader dispatches for a stream -/
def parseSSE (stream : Text) : List (Text × Text) :=
  ((cutLines stream).1.foldl stepLine ⟨[], [], []⟩).events.reverse

/-! ## the library's own POST-SSE reader (streamable_client.go `handleSSEResponse`) -/

/-- code points `unicode.IsSpace` accepts (what `strings.TrimSpace` strips) -/
def isSpace (c : Nat) : Bool :=
  c = 32 || (9 ≤ c && c ≤ 13) || c = 133 || c = 160 || c = 5760 || (8192 ≤ c && c ≤ 8202)
    || c = 8232 || c = 8233 || c = 8239 || c = 8287 || c = 12288

def trimLeft : Text → Text
  | [] => []
  | c :: s => if isSpace c then trimLeft s else c :: s

def trimSpace (s : Text) : Text := (trimLeft (trimLeft s).reverse).reverse

/-- every `data:` line (after `TrimSpace`) is handed to the JSON decoder on its own: `ReadString('\n')` lines,
    the unterminated tail included only if … it is not (EOF ends the loop) -/
def clientDataLines (stream : Text) : List Text :=
  ((splitOn 10 stream).dropLast.map trimSpace).filterMap (fun line =>
    if line = [] then none
    else if hasPrefix line t!"id:" then none
    else if hasPrefix line t!"data:" then some (trimSpace (line.drop 5))
    else none)

end Mcp.Escape
