/-
  Pending client calls under faults (property C08): `streamable_client.go send / handleSSEResponse / close /
  establishGetSSE`, `sse_client.go sendRequestInternal / readSSE / close`, `transport_stdio.go sendRequest /
  readLoop / processWatcher / close`.

  A pending call is a `select` over {answer, closed pending channel, caller context, transport context, timer, failure of
  its own HTTP exchange}; which of these cases a transport's wait really has, whether its pending-table entry is removed
  on every exit path, whether the response body it obtains is closed, who closes a pending channel, how often `Cmd.Wait`
  is called and whether the asynchronously started listening stream looks at a closed flag are *facts* regenerated from
  the source (`Mcp.Gen.CallFacts`, turned into `Facts` by `factsOf` below).  The model is a family indexed by these facts.

  What is outside the model (the runtime part of the property): scheduling latency, kernel/TCP behaviour (when a FIN or
  RST is seen, what an RST destroys), Go runtime internals (net/http connection reuse, os/exec).  The two rules about
  net/http the ledger needs are stated as assumptions where they are used (`relBody`).
-/
import Mcp.Model.Str
namespace Mcp.Calls
open Mcp.Str

inductive Transport | streamJson | streamSse | sse | stdio
  deriving DecidableEq, Repr

def Transport.http : Transport → Bool
  | .streamJson | .streamSse => true
  | _ => false

/-- Transports whose answers arrive on one shared stream read by a reader goroutine, with a pending table. -/
def Transport.shared : Transport → Bool
  | .sse | .stdio => true
  | _ => false

/-- Structural facts of one transport's call path (regenerated from the source; `false` = absent or not understood). -/
structure Facts where
  selCtx : Bool          -- the wait ends on the caller's context
  selTctx : Bool         -- … on the transport's own context
  selClosed : Bool       -- … on the pending channel (a receive case exists)
  selTimeout : Bool      -- … on a timer
  recvOk : Bool          -- the receive checks `ok`: a closed channel yields an error, not a nil result
  hasTable : Bool        -- calls are entered in a pending table
  deleteDeferred : Bool  -- … and the delete is deferred (runs on every exit path)
  oneCloser : Bool       -- a pending channel is closed at one site only (never by both close() and the call's own defer)
  bodyClosed : Bool      -- every response body obtained on the call path is closed on every path (or handed to a callee that does)
  endCloses : Bool       -- the stream reader's exit path closes the transport (pending channels get closed)
  exitCancels : Bool     -- the process watcher cancels the transport context when the child exits
  oneWait : Bool         -- Cmd.Wait has a single call site
  startGuarded : Bool    -- the asynchronously started listening stream is refused once close() ran
  closeAny : Bool        -- the client's Close() closes the transport whatever the client's state (no guard but `transport != nil`)
  lockFree : Bool        -- no lock of the transport is held while a call reads its stream (calls, Close() and the handler registry are independent of a stalled call)
  answerBound : Bool     -- the POST that carries the client's answer to a request of the server is made with a context derived from the stream's (Close() cancels it)
  deriving DecidableEq, Repr

/-- Every fact present (the good corner of the family; witnesses switch single facts off). -/
def Facts.allGood : Facts :=
  ⟨true, true, true, true, true, true, true, true, true, true, true, true, true, true, true, true⟩

/-- Run-time configuration of a scenario. -/
structure Cfg where
  t : Transport
  handlers : Bool := false   -- Streamable SSE answers: a notification handler is registered (the reader goes on after the result, until the stream ends)
  getSSE : Bool := false     -- Streamable: Initialize starts the listening GET stream asynchronously
  connected : Bool := true   -- the client's state when Close() is called: false = Disconnected, which is the state before the
                             -- first use, but also after every failed handshake and while a handshake is in flight — when the
                             -- transport is already up (legacy SSE: event stream and reader; stdio: child, reader, watcher)
  deriving DecidableEq, Repr

inductive Res | ok | err | nilResult | crash
  deriving DecidableEq, Repr

/-- The cases of a call's wait. -/
inductive Case | answer | closedChan | ctx | tctx | timeout | connErr
  deriving DecidableEq, Repr

structure Call where
  issued : Bool := false
  returned : Option Res := none
  inTable : Bool := false
  slot : Bool := false       -- its complete answer was handed over (buffered in its channel / read from its response)
  ended : Bool := false      -- HTTP: its response ended properly (terminal chunk / EOF where EOF is the end)
  chClosed : Bool := false   -- its pending channel was closed by close()
  ctxDone : Bool := false
  timedOut : Bool := false
  connErr : Bool := false    -- its own HTTP exchange failed (peer closed or reset, truncated body, non-200 answer)
  refused : Bool := false    -- … because of a non-200 answer (a body was handed out)
  body : Bool := false       -- holds a response body that is neither closed nor read to its end
  deriving DecidableEq, Repr

structure St where
  calls : Nat → Call := fun _ => {}
  wire : Nat → Bool := fun _ => false   -- a complete, deliverable answer frame for request i is on the shared stream
  closing : Bool := false     -- close() has begun (closed flag set)
  closed : Bool := false      -- close() has closed the pending channels and cleared the table
  tctx : Bool := false        -- the transport context is cancelled
  streamDown : Bool := false  -- the shared stream has ended
  reader : Bool := false      -- the reader goroutine is alive
  child : Bool := false
  watcher : Bool := false     -- processWatcher is in Cmd.Wait
  closeWaiter : Bool := false -- close()'s own goroutine is in Cmd.Wait
  token : Bool := false       -- the Cmd's single context result has not been received yet (exactly one Wait can finish)
  starter : Bool := false     -- the goroutine that will open the listening stream has not run yet
  stream : Bool := false      -- the listening stream is open
  heldReads : Nat := 0        -- calls that are reading their stream with a read lock of the transport held (only where `lockFree` fails)
  writerWaiting : Bool := false -- somebody (Close(), Register/UnregisterNotificationHandler) waits for the write side of that lock:
                              -- a waiting writer of a sync.RWMutex keeps new readers out
  answerPost : Bool := false  -- a POST carrying the client's answer to a request of the server is in flight (with the goroutine
                              -- that performs it — the stream's reader, synchronously — and its connection)

def init (c : Cfg) : St :=
  { reader := c.t.shared, child := c.t = .stdio, watcher := c.t = .stdio, token := c.t = .stdio,
    starter := c.t.http && c.getSSE }

inductive Ev
  | issue (c : Nat)
  | headers (c : Nat) (ok : Bool)  -- HTTP: the response headers of c's exchange arrive (a body is handed out); ok = status 200/202
  | frame (c : Nat)                -- shared stream: a complete answer frame for request c is written by the peer
  | deliver (c : Nat)              -- the complete answer reaches the call (reader → channel; HTTP: read from its own response)
  | bodyEnd (c : Nat)              -- HTTP: c's response ends properly
  | connErr (c : Nat)              -- HTTP: c's exchange fails
  | streamEnd                      -- the shared stream ends (peer closed / reset / child's stdout at EOF)
  | readerExit
  | procExit
  | watcherExit
  | closeWaitExit
  | ctxDone (c : Nat)
  | timeout (c : Nat)
  | closeBegin
  | closeEnd
  | starterRun
  | handlerOp                      -- Register / UnregisterNotificationHandler: takes the write side of the handler registry's lock
  | srvRequest                     -- a request of the server arrives on the stream: the reader starts the POST with the client's answer
  | answerDone                     -- the peer responds to that POST (or its own 30 s timer fires)
  | complete (c : Nat) (k : Case)
  deriving DecidableEq, Repr

def setCall (s : St) (c : Nat) (v : Call) : St := { s with calls := fun d => if d = c then v else s.calls d }

/-- close() closes every registered pending channel and clears the table. -/
def closeChans (cl : Call) : Call := if cl.inTable then { cl with chClosed := true, inTable := false } else cl

def waiting (cl : Call) : Bool := cl.issued && cl.returned.isNone

/-- Is case `k` of call `cl`'s wait ready? -/
def ready (f : Facts) (cfg : Cfg) (s : St) (cl : Call) : Case → Bool
  | .answer => cl.slot && (!(cfg.t = .streamSse && cfg.handlers) || cl.ended)
  | .closedChan => f.selClosed && cl.chClosed && !cl.slot
  | .ctx => f.selCtx && cl.ctxDone
  | .tctx => f.selTctx && s.tctx
  | .timeout => f.selTimeout && cl.timedOut
  | .connErr => cl.connErr

/-- What the call returns through case `k`.  With two sites closing a pending channel (close() and the call's own deferred
    cleanup) a call that leaves after close() closed its channel closes it a second time: a panic. -/
def result (f : Facts) (cl : Call) (k : Case) : Res :=
  if !f.oneCloser && cl.chClosed then .crash
  else match k with
    | .answer => .ok
    | .closedChan => if f.recvOk then .err else .nilResult
    | _ => .err

/-- net/http releases a connection whose body was read to its end or failed, or whose request context ended; otherwise the
    body has to be closed by the library.  `true` = the body is still held after the call returned through `k`. -/
def relBody (f : Facts) (cfg : Cfg) (cl : Call) : Case → Bool
  | .answer => cl.body && !f.bodyClosed && !(cfg.t = .streamJson || (cfg.t = .streamSse && cfg.handlers))
  | .connErr => cl.body && !f.bodyClosed && cl.refused
  | .ctx => false
  | _ => cl.body && !f.bodyClosed

/-- The read lock a returning call releases (only where `lockFree` fails: a Streamable call that was reading its SSE answer). -/
def heldAfter (f : Facts) (cfg : Cfg) (cl : Call) (n : Nat) : Nat :=
  if !f.lockFree && cfg.t = .streamSse && cl.body && !cl.refused then n - 1 else n

def step (f : Facts) (cfg : Cfg) (s : St) : Ev → Option St
  | .issue c =>
    let cl := s.calls c
    if cl.issued then none
    else if s.closing && cfg.t.shared then some (setCall s c { cl with issued := true, returned := some .err })
    else some (setCall s c { cl with issued := true, inTable := f.hasTable })
  | .headers c ok =>
    let cl := s.calls c
    if cfg.t.http && waiting cl && !cl.body && !cl.connErr && !cl.slot then
      if !f.lockFree && cfg.t = .streamSse && ok then
        -- the call enters its stream read with the read lock held — unless a writer is waiting: then it blocks at the lock
        if s.writerWaiting then none
        else some { setCall s c { cl with body := true, refused := !ok, connErr := !ok } with heldReads := s.heldReads + 1 }
      else some (setCall s c { cl with body := true, refused := !ok, connErr := !ok })
    else none
  | .frame c => if cfg.t.shared && !s.streamDown then some { s with wire := fun d => if d = c then true else s.wire d } else none
  | .deliver c =>
    let cl := s.calls c
    if cfg.t.shared then
      if s.wire c && s.reader then
        let s1 := { s with wire := fun d => if d = c then false else s.wire d }
        some (if cl.inTable then setCall s1 c { cl with slot := true } else s1)
      else none
    else if waiting cl && cl.body && !cl.refused && !cl.connErr then some (setCall s c { cl with slot := true })
    else none
  | .bodyEnd c =>
    let cl := s.calls c
    if cfg.t.http && cl.body && !cl.connErr then some (setCall s c { cl with ended := true }) else none
  | .connErr c =>
    let cl := s.calls c
    if (cfg.t.http || cfg.t = .sse) && waiting cl && !cl.ended then some (setCall s c { cl with connErr := true }) else none
  | .streamEnd => if cfg.t.shared && !s.streamDown then some { s with streamDown := true } else none
  | .readerExit =>
    if s.reader && (s.streamDown || s.closing) then
      if f.endCloses && cfg.t = .sse then
        some { s with reader := false, closing := true, closed := true, streamDown := true, calls := fun d => closeChans (s.calls d),
                      answerPost := s.answerPost && !f.answerBound }
      else some { s with reader := false }
    else none
  | .procExit => if s.child then some { s with child := false, streamDown := true } else none
  | .watcherExit =>
    if s.watcher && !s.child && s.token then
      some { s with watcher := false, token := false, tctx := s.tctx || (f.exitCancels && !s.closing) }
    else none
  | .closeWaitExit =>
    if s.closeWaiter && !s.child && s.token then some { s with closeWaiter := false, token := false } else none
  | .ctxDone c =>
    let cl := s.calls c
    if cl.ctxDone then none
    else some (setCall s c { cl with ctxDone := true, body := cl.body && cl.returned.isNone })
  | .timeout c => some (setCall s c { (s.calls c) with timedOut := true })
  | .closeBegin =>
    if s.closing then none
    else if !(f.closeAny || cfg.connected) then none   -- Close() returns at its state guard: nothing is closed
    else if !f.lockFree && s.heldReads > 0 then some { s with writerWaiting := true }   -- Close() blocks at the lock a stalled call holds
    else match cfg.t with
      | .sse => some { s with closing := true, streamDown := true, answerPost := s.answerPost && !f.answerBound }
      | .stdio => some { s with closing := true, tctx := true, child := false, streamDown := true,
                                closeWaiter := !f.oneWait && s.watcher, answerPost := s.answerPost && !f.answerBound }
      | _ => some { s with closing := true, stream := false, answerPost := s.answerPost && !f.answerBound }
  | .closeEnd =>
    if s.closing && !s.closed then
      some { s with closed := true, calls := if cfg.t.shared then (fun d => closeChans (s.calls d)) else s.calls }
    else none
  | .starterRun =>
    if s.starter then some { s with starter := false, stream := !(f.startGuarded && s.closing) } else none
  | .handlerOp =>
    if !f.lockFree && s.heldReads > 0 then some { s with writerWaiting := true }   -- blocked behind the stalled call's read lock
    else some s
  | .srvRequest =>
    if !s.closing && !s.answerPost && ((cfg.t.shared && s.reader && !s.streamDown) || (cfg.t.http && s.stream)) then
      some { s with answerPost := true }
    else none
  | .answerDone => if s.answerPost then some { s with answerPost := false } else none
  | .complete c k =>
    let cl := s.calls c
    if waiting cl && ready f cfg s cl k then
      some { setCall s c { cl with returned := some (result f cl k),
                                   inTable := cl.inTable && !(f.deleteDeferred || k = .answer),
                                   body := relBody f cfg cl k } with
             heldReads := heldAfter f cfg cl s.heldReads }
    else none

def run (f : Facts) (cfg : Cfg) : St → List Ev → Option St
  | s, [] => some s
  | s, e :: es => match step f cfg s e with
    | none => none
    | some s' => run f cfg s' es

/-- No goroutine of the library can move any more and every issued call has returned. -/
def quiescent (f : Facts) (cfg : Cfg) (s : St) : Prop :=
  (∀ c, (s.calls c).issued = true → (s.calls c).returned ≠ none) ∧
  step f cfg s .readerExit = none ∧ step f cfg s .watcherExit = none ∧ step f cfg s .closeWaitExit = none ∧
  s.starter = false

/-- The resource ledger is zero: no response body held, no reader, no child, nobody in Cmd.Wait, no listening stream, no
    answer POST in flight. -/
def ledgerZero (s : St) : Prop :=
  (∀ c, (s.calls c).body = false) ∧ s.reader = false ∧ s.child = false ∧ s.watcher = false ∧ s.closeWaiter = false ∧
  s.stream = false ∧ s.answerPost = false

/-! ### What ends a call (the property's list) -/

/-- The events after which the property demands that a pending call returns. -/
inductive Cause | ctx | conn | timeout | streamEnd | procExit
  deriving DecidableEq, Repr

/-- Which causes concern which transport: the caller's context everywhere; the call's own HTTP exchange on the HTTP
    transports; the transport timer and the death of the child on stdio; the end of the event stream on legacy SSE. -/
def applicable (t : Transport) : Cause → Bool
  | .ctx => true
  | .conn => t.http || t = .sse
  | .timeout => t = .stdio
  | .streamEnd => t = .sse
  | .procExit => t = .stdio

def happened (s : St) (c : Nat) : Cause → Bool
  | .ctx => (s.calls c).ctxDone
  | .conn => (s.calls c).connErr
  | .timeout => (s.calls c).timedOut
  | .streamEnd => s.streamDown
  | .procExit => !s.child

/-! ### Frame rules of the readers (what counts as a complete answer) -/

inductive Framing | length | chunked | eof | pipe
  deriving DecidableEq, Repr

/-- How much of the answer the peer has written when the fault hits. -/
inductive Pos | none | hdrPartial | hdrDone | dataPartial | dataLine | frameEnd
  deriving DecidableEq, Repr

/-- What the reader sees after that prefix: the proper end of the stream, a read error, or nothing at all. -/
inductive Tail | fin | abort | stall
  deriving DecidableEq, Repr

inductive Fault | none | close | reset | stall | kill | exit | closeout | http500
  deriving DecidableEq, Repr

/-- The tail a fault produces under a framing: a FIN is the proper end only where EOF delimits the message. -/
def tailOf (fr : Framing) : Fault → Tail
  | .none => .fin
  | .close => if fr = .eof || fr = .pipe then .fin else .abort
  | .reset => .abort
  | .stall => .stall
  | .kill | .exit | .closeout => .fin
  | .http500 => .fin

/-- Does the reader hand the answer to the call?  (`send`: Content-Length / chunked body read by `io.ReadAll`;
    `handleSSEResponse`: a complete `data:` line; `readSSE`: the blank line, or a complete `data:` line at a clean EOF;
    `readLoop`: a complete JSON value.) -/
def delivers (t : Transport) (fr : Framing) (p : Pos) (tl : Tail) : Bool :=
  match t with
  | .streamJson => p = .frameEnd && (fr = .length || tl = .fin)
  | .streamSse => p = .dataLine || p = .frameEnd
  | .sse => p = .frameEnd || (p = .dataLine && tl = .fin)
  | .stdio => p = .dataLine || p = .frameEnd

def Pos.headersDone : Pos → Bool
  | .none | .hdrPartial => false
  | _ => true

/-! ### Regenerated tables (`Mcp.Gen.CallFacts`) and the facts derived from them -/

inductive Client | streamable | sse | stdio
  deriving DecidableEq, Repr

/-- How a function treats an `*http.Response` (or its body) it obtained or received. -/
inductive BodyHow
  | deferClose                      -- `defer X.Body.Close()` covers every path after the error check
  | passThenDefer (callee : Text)   -- `return callee(…, X, …)` on one path, `defer X.Body.Close()` covers the others
  | passTo (callee : Text)          -- closed on every error path, then handed to `callee` (go / return)
  | notClosed
  | unknown
  deriving DecidableEq, Repr

structure BodySite where
  client : Client
  fn : Text
  obtains : Bool      -- true: the function obtains the response itself (Handle / Do); false: it receives it as a parameter
  how : BodyHow
  reqCtx : Bool       -- the request it sends is built with the function's own context parameter
  deriving DecidableEq, Repr

structure InsertSite where
  client : Client
  fn : Text
  table : Text
  deleteDeferred : Bool   -- a top-level `defer` with `delete(table, key)` follows the insert with no `return` in between
  deriving DecidableEq, Repr

structure SelectSite where
  client : Client
  fn : Text
  ctx : Bool      -- `case <-P.Done()` for a context parameter P of the function
  tctx : Bool     -- `case <-t.ctx.Done()`
  recv : Bool     -- a receive from a channel variable
  recvOk : Bool   -- … of the form `v, ok := <-ch`
  timer : Bool    -- `case <-time.After(…)`
  dflt : Bool
  deriving DecidableEq, Repr

structure Tables where
  inserts : List InsertSite
  bodies : List BodySite
  selects : List SelectSite
  chanClosers : List (Client × Text)  -- functions that `close` a pending channel (made for / ranged over a pending table)
  lockFree : List Client              -- clients none of whose stream-reading functions holds a lock across its read loop (no deferred unlock, every lock taken before the loop released before it)
  answerBound : List Client           -- clients whose answer POST (to a request of the server) is made with a context derived from the stream's
  closeUnguarded : List Client        -- clients whose public `Close()` reaches `transport.close()` under no condition but `transport != nil`
  waitSites : List Text               -- functions of the stdio transport that call `Cmd.Wait`
  readerCloses : Bool                 -- `readSSE` ends with an unconditional `t.close()`
  watcherCancels : Bool               -- `processWatcher` calls `t.cancel()`
  startGuarded : Bool                 -- `establishGetSSE[Connection]` returns early on a closed flag
  startBounded : Bool                 -- legacy SSE `start`: the stream request ends with the caller's context while it is being established
  getExitDeadlineFirst : Bool         -- Streamable server `handleGet`, exit path: the write deadline is set before the stream's write lock is taken
  backoffCtx : Bool                   -- `retry.Execute` waits between two attempts in a select that has the caller's context case (and never sleeps)
  startSelStream : Bool               -- legacy SSE `start`: the wait for the endpoint event has the case of the stream's context (Close() cancels it)
  deriving Repr

def Transport.client : Transport → Client
  | .streamJson | .streamSse => .streamable
  | .sse => .sse
  | .stdio => .stdio

def BodyHow.closes : BodyHow → Bool
  | .deferClose => true
  | _ => false

/-- An obtaining site is compliant: it closes the body itself, or hands it to a function of the same client that does. -/
def siteOk (tb : Tables) (b : BodySite) : Bool :=
  match b.how with
  | .deferClose => true
  | .passThenDefer g | .passTo g => tb.bodies.any (fun x => x.client = b.client && x.fn = g && !x.obtains && x.how.closes)
  | _ => false

/-- … compliant as far as the path that does not hand the body on is concerned. -/
def siteOkOwnPath (b : BodySite) : Bool :=
  match b.how with
  | .deferClose | .passThenDefer _ => true
  | _ => false

def callFn : Transport → Text
  | .streamJson => t!"send"
  | .streamSse => t!"handleSSEResponse"
  | .sse => t!"sendRequestInternal"
  | .stdio => t!"sendRequest"

/-- The selects of the function in which a call of transport `t` waits (none ⇒ every case is absent). -/
def callSelects (tb : Tables) (t : Transport) : List SelectSite :=
  tb.selects.filter (fun x => x.client = t.client && x.fn = callFn t)

def selHas (tb : Tables) (t : Transport) (p : SelectSite → Bool) : Bool :=
  !(callSelects tb t).isEmpty && (callSelects tb t).all p

def sendSite (tb : Tables) (t : Transport) : List BodySite :=
  tb.bodies.filter (fun x => x.client = t.client && x.obtains && x.fn = (if t.http then t!"send" else callFn t))

def factsOf (tb : Tables) (t : Transport) : Facts :=
  let cl := t.client
  let sites := tb.bodies.filter (fun x => x.client = cl && x.obtains)
  let ins := tb.inserts.filter (fun x => x.client = cl)
  let reqCtx := !(sendSite tb t).isEmpty && (sendSite tb t).all (·.reqCtx)
  { selCtx := tb.backoffCtx && (match t with   -- every wait on the call path: the back-off between two attempts of a retrying client, …
      | .streamJson => reqCtx
      | .streamSse => reqCtx && selHas tb t (·.ctx)
      | .sse => reqCtx && selHas tb t (·.ctx) && tb.startBounded   -- … both stages of the first call: `start`, then the wait for the answer
      | .stdio => selHas tb t (·.ctx)),
    selTctx := t = .stdio && selHas tb t (·.tctx),
    selClosed := t.shared && selHas tb t (·.recv) && (t != .sse || tb.startSelStream),
    selTimeout := t = .stdio && selHas tb t (·.timer),
    recvOk := t.shared && selHas tb t (·.recvOk),
    hasTable := t.shared && !ins.isEmpty,
    deleteDeferred := !t.shared || (!ins.isEmpty && ins.all (·.deleteDeferred)),
    oneCloser := (tb.chanClosers.filter (fun x => x.1 = cl)).length ≤ 1,
    bodyClosed := match t with
      | .stdio => true
      | .streamJson => !(sendSite tb t).isEmpty && sites.all (fun b => siteOk tb b || (b.fn = t!"send" && siteOkOwnPath b))
      | _ => !(sendSite tb t).isEmpty && sites.all (siteOk tb),
    endCloses := t != .sse || tb.readerCloses,
    exitCancels := t != .stdio || tb.watcherCancels,
    oneWait := t != .stdio || tb.waitSites.length ≤ 1,
    startGuarded := !t.http || tb.startGuarded,
    closeAny := tb.closeUnguarded.any (· = cl),
    lockFree := tb.lockFree.any (· = cl),
    answerBound := t = .stdio || tb.answerBound.any (· = cl) }

/-! ### Server-issued requests (`Server.SendRequest / ListRoots` of the three servers)

A request the server sends to its peer waits exactly like a legacy-SSE client call: an entry (with a channel) in a pending
table, the answer routed to it by whoever reads the peer's messages, and the exits {answer, caller context, timer, the
write of the request failed / its queue was full}.  The model is the same family at `srvCfg`; the write failure is the
call's `connErr`.  The only regenerated fact is whether every insert's delete is deferred before any return. -/

inductive Server | streamable | sse | stdio
  deriving DecidableEq, Repr

structure SrvInsertSite where
  server : Server
  fn : Text
  table : Text
  deleteDeferred : Bool   -- a top-level `defer` that deletes the same key follows the insert with no `return` in between
  deriving DecidableEq, Repr

def srvCfg : Cfg := { t := .sse }

def srvFacts (ins : List SrvInsertSite) (sv : Server) : Facts :=
  let xs := ins.filter (fun x => x.server = sv)
  { Facts.allGood with hasTable := true, deleteDeferred := !xs.isEmpty && xs.all (·.deleteDeferred) }

/-- The region of the family in which the property holds for transport `t`. -/
def Facts.goodFor (f : Facts) (t : Transport) : Bool :=
  f.selCtx && f.bodyClosed && f.oneCloser && f.deleteDeferred && f.startGuarded && f.endCloses && f.exitCancels && f.oneWait &&
  f.closeAny && f.answerBound && f.lockFree &&
  (!t.shared || (f.hasTable && f.selClosed && f.recvOk)) &&
  (t != .stdio || (f.selTctx && f.selTimeout))

end Mcp.Calls
