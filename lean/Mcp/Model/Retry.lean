/-
  Model of `internal/retry/retry.go`: `Config.Validate`, `IsRetryableError`, `Execute`.
  Literal transcription; the numeric limits and the retryable status list are *parameters*
  (`Limits`), instantiated by the regenerated constants in `Mcp.Gen.Consts`.
-/
import Mcp.Model.Str
namespace Mcp.Retry
open Mcp.Str

/-- A Go `float64` back-off factor, as far as the code can tell values apart: NaN, ±Inf or a rational. -/
inductive Factor where
  | nan | ninf | pinf
  | q (num : Int) (den : Nat)      -- num/den, den > 0
  deriving Repr, DecidableEq

structure Cfg where
  maxRetries : Int
  initial    : Int      -- nanoseconds
  factor     : Factor
  maxBackoff : Int      -- nanoseconds
  deriving Repr, DecidableEq

/-- The constants of `retry.go` (regenerated from the source). Factor limits are integers in the code. -/
structure Limits where
  minRetries : Int
  maxRetries : Int
  minInitial : Int
  maxInitial : Int
  minFactor  : Int
  maxFactor  : Int
  maxMaxBackoff : Int
  codes : List Text               -- retryableStatusCodes (decimal strings, as in the source)
  nanClamped : Bool := true       -- `Validate` treats a NaN factor as too small (fact extracted from the source)
  deriving Repr, DecidableEq

def clampI (lo hi x : Int) : Int := if x < lo then lo else if x > hi then hi else x

/-- `if f < Min {Min} else if f > Max {Max}` on a float64: both comparisons are false for NaN, so NaN is only
    clamped when the code tests for it explicitly (`nanClamped`). -/
def clampF (lo hi : Int) (nanClamped : Bool := false) : Factor → Factor
  | .nan => if nanClamped then .q lo 1 else .nan
  | .ninf => .q lo 1
  | .pinf => .q hi 1
  | .q n d => if n < lo * d then .q lo 1 else if n > hi * d then .q hi 1 else .q n d

def validate (L : Limits) (c : Cfg) : Cfg :=
  let ib := clampI L.minInitial L.maxInitial c.initial
  { maxRetries := clampI L.minRetries L.maxRetries c.maxRetries
    initial := ib
    factor := clampF L.minFactor L.maxFactor L.nanClamped c.factor
    maxBackoff := if c.maxBackoff < ib then ib
                  else if c.maxBackoff > L.maxMaxBackoff then L.maxMaxBackoff else c.maxBackoff }

/-- The documented ranges. -/
def Factor.inRange (lo hi : Int) : Factor → Prop
  | .q n d => 0 < d ∧ lo * d ≤ n ∧ n ≤ hi * d
  | _ => False

instance (lo hi : Int) (f : Factor) : Decidable (Factor.inRange lo hi f) := by
  cases f <;> unfold Factor.inRange <;> infer_instance

def InRange (L : Limits) (c : Cfg) : Prop :=
  L.minRetries ≤ c.maxRetries ∧ c.maxRetries ≤ L.maxRetries ∧
  L.minInitial ≤ c.initial ∧ c.initial ≤ L.maxInitial ∧
  c.factor.inRange L.minFactor L.maxFactor ∧
  c.initial ≤ c.maxBackoff ∧ c.maxBackoff ≤ L.maxMaxBackoff

instance (L : Limits) (c : Cfg) : Decidable (InRange L c) := by unfold InRange; infer_instance

/-- Well-formedness of the limits themselves (decided on the regenerated constants). -/
def Limits.ok (L : Limits) : Prop :=
  L.minRetries ≤ L.maxRetries ∧ L.minInitial ≤ L.maxInitial ∧ L.minFactor ≤ L.maxFactor ∧
  L.maxInitial ≤ L.maxMaxBackoff ∧ 0 ≤ L.minRetries ∧ 0 < L.minInitial ∧ 1 ≤ L.minFactor

instance (L : Limits) : Decidable L.ok := by unfold Limits.ok; infer_instance

/-! ### classification -/

def netPatterns : List Text :=
  [t!"connection refused", t!"connection reset", t!"connection timeout",
   t!"connection lost", t!"connection aborted", t!"i/o timeout",
   t!"read timeout", t!"write timeout", t!"dial timeout"]

/-- `isHTTPStatusRetryable` for one code. -/
def codeMatches (s : Text) (code : Text) : Bool :=
  contains s (t!"http " ++ code) || contains s (t!"status " ++ code) ||
  contains s (t!"status: " ++ code) || contains s (t!"code " ++ code) ||
  contains s (t!"code: " ++ code) || contains s (code ++ [32])

def httpStatusRetryable (codes : List Text) (s : Text) : Bool :=
  codes.any (fun c => codeMatches s c)

/-- `IsRetryableError(err)` for `err != nil` with `err.Error() = msg`. -/
def isRetryable (codes : List Text) (msg : Text) : Bool :=
  let s := toLower msg
  netPatterns.any (contains s) || s == t!"eof" || hasSuffix s t!": eof" ||
  httpStatusRetryable codes s

/-! ### Execute -/

inductive Result where
  | success
  | opErr (attempt : Nat)      -- the error returned by the `attempt`-th call of the operation
  | ctxErr
  deriving Repr, DecidableEq

structure Run where
  attempts : Nat
  waits : List Int             -- effective waits actually slept in full (ns)
  result : Result
  deriving Repr, DecidableEq

def two63 : Int := 9223372036854775808

/-- `time.Duration(float64(initial) * factor^(attempt-1))` capped at `maxBackoff`, as the code computes it.
    A float64 → int64 conversion of a value ≥ 2^63 (or NaN) yields `math.MinInt64` on amd64/arm64-sat… the
    code then compares `backoff > MaxBackoff` (false) and sleeps a negative duration, i.e. not at all.
    `overflowZero = true` is that behaviour; `false` is the repaired code (cap applied in the float domain). -/
def backoff (overflowZero : Bool) (c : Cfg) (attempt : Nat) : Int :=
  match c.factor with
  | .q n d =>
      let v := c.initial * n ^ (attempt - 1) / ((d : Int) ^ (attempt - 1))
      if overflowZero && decide (v ≥ two63) then 0
      else if v > c.maxBackoff then c.maxBackoff else v
  | .pinf => if attempt ≤ 1 then (if c.initial > c.maxBackoff then c.maxBackoff else c.initial)
             else if overflowZero then 0 else c.maxBackoff
  | _ => if attempt ≤ 1 then (if c.initial > c.maxBackoff then c.maxBackoff else c.initial)
         else if overflowZero then 0 else c.maxBackoff

/-- what `time.After(backoff)` really waits: a negative duration fires immediately. -/
def effWait (oz : Bool) (c : Cfg) (attempt : Nat) : Int :=
  if backoff oz c attempt < 0 then 0 else backoff oz c attempt

/-- `ctx.Done()` is closed at virtual time `now`. -/
def doneAt (cancelAt : Option Int) (now : Int) : Bool :=
  match cancelAt with | some t => decide (t ≤ now) | none => false
/-- the context is cancelled strictly before the timer set at `now` for `w` fires. -/
def doneBefore (cancelAt : Option Int) (deadline : Int) : Bool :=
  match cancelAt with | some t => decide (t < deadline) | none => false

/-- The attempt loop. `script i` is the outcome of the (i+1)-th call (`none` = success, `some msg` = error),
    `cancelAt` the instant the caller's context is cancelled on the virtual clock. -/
def loop (R : Text → Bool) (oz : Bool) (c : Cfg) (script : Nat → Option Text) (cancelAt : Option Int)
    (maxAttempts : Nat) : (fuel : Nat) → (attempt : Nat) → (now : Int) → (waits : List Int) → Run
  | 0, attempt, _, waits => ⟨attempt - 1, waits, .success⟩   -- `lastErr` still nil: only when maxAttempts = 0
  | fuel + 1, attempt, now, waits =>
    if doneAt cancelAt now then
      ⟨attempt - 1, waits, .ctxErr⟩
    else match script (attempt - 1) with
      | none => ⟨attempt, waits, .success⟩
      | some msg =>
        if !R msg then ⟨attempt, waits, .opErr attempt⟩
        else if attempt == maxAttempts then ⟨attempt, waits, .opErr attempt⟩
        else
          if doneBefore cancelAt (now + effWait oz c attempt) then
            ⟨attempt, waits, .ctxErr⟩
          else loop R oz c script cancelAt maxAttempts fuel (attempt + 1) (now + effWait oz c attempt)
                 (waits ++ [effWait oz c attempt])

/-- `retry.Execute(ctx, op, config, _)`; `config = none` is the nil pointer (no retry option). -/
def execute (R : Text → Bool) (oz : Bool) (cfg : Option Cfg) (script : Nat → Option Text) (cancelAt : Option Int) : Run :=
  match cfg with
  | none => ⟨1, [], match script 0 with | none => .success | some _ => .opErr 1⟩
  | some c =>
    if c.maxRetries == 0 then ⟨1, [], match script 0 with | none => .success | some _ => .opErr 1⟩
    else
      let maxAttempts := (c.maxRetries + 1).toNat
      loop R oz c script cancelAt maxAttempts maxAttempts 1 0 []

def scriptOf (l : List (Option Text)) : Nat → Option Text := fun i => (l[i]?).getD none

end Mcp.Retry
