/-
  The region of the `Mcp.Routing` model family the current source is in, computed from the regenerated facts
  (`Mcp.Gen.PendingFacts`): used by the theorems of C05 (`C05_fact_region`) and by the driver that replays histories.
-/
import Mcp.Model.Routing
import Mcp.Gen.PendingFacts
namespace Mcp.Routing

/-- no pending-table lookup takes the posting session into account unless every table's lookup does; a legacy SSE session
    counts as initialisable if something calls `Initialize()` or the guard in `sendNotificationToSession` is gone; the
    deferred delete must be present at every insert. -/
def factsToday : Facts :=
  ⟨Mcp.Gen.pdTables.all (·.lookupUsesSession),
   Mcp.Gen.pdSessionInitializeCalled || !Mcp.Gen.pdSseSendChecksInitialized,
   Mcp.Gen.pdTables.all (·.deferredDelete)⟩

end Mcp.Routing
