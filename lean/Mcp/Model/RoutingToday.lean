/-
  The region of the `Mcp.Routing` model family the current source is in, computed from the regenerated facts
  (`Mcp.Gen.PendingFacts`): used by the theorems of C05 (`C05_fact_region`) and by the driver that replays histories.
-/
import Mcp.Model.Routing
import Mcp.Gen.PendingFacts
namespace Mcp.Routing
open Mcp.Str

def pdServerTable (n : List Nat) : Option Mcp.Gen.PdTable := Mcp.Gen.pdTables.find? (·.name = n)

/-- Streamable table: `requestIDKey` at the insert and at every lookup. -/
def streamableIdKeyToday : Bool :=
  match pdServerTable t!"streamable_server.pendingRequests" with
  | some t => t.insertKind = t!"idKey" && t.lookupKinds.all (· = t!"idKey") && !t.lookupKinds.isEmpty
  | none => false

/-- the two multi-session server tables: every lookup site compares the posting session with the entry's. -/
def answerChecksSessionToday : Bool :=
  [t!"streamable_server.pendingRequests", t!"sse_server.responses"].all (fun n =>
    match pdServerTable n with
    | some t => t.lookupUsesSession
    | none => false)

/-- A legacy SSE session counts as initialisable if something calls `Initialize()` or the guard in
    `sendNotificationToSession` is gone; the deferred delete must be present at every insert. -/
def factsToday : Facts :=
  ⟨streamableIdKeyToday, answerChecksSessionToday,
   Mcp.Gen.pdSessionInitializeCalled || !Mcp.Gen.pdSseSendChecksInitialized,
   Mcp.Gen.pdTables.all (·.deferredDelete)⟩

end Mcp.Routing
