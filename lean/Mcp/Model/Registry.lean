/-
  C12 — the registries of `manager_tools.go`, `manager_prompt.go`, `manager_resource.go` and the
  notification-handler table of `server.go`.

  Part 1 (`Mcp.Registry`): a registry is the Go map (association list, the key order of which is a ghost: Go's
  iteration order is unspecified and every observation of it is compared up to permutation) plus the order
  slice (`toolsOrder` / `promptsOrder` / `resourcesOrder`).  Every operation is ONE atomic step: this is what
  the locks give, and it is justified per function by the regenerated access table
  (`Mcp.Gen.registryAccesses`, predicates `guarded` / `oneSection` below, theorems in `Props/C12`).

  Part 2 (`Mcp.Registry.Lock`): the abstract reader/writer-lock trace semantics behind "lexically held lock ⇒
  no data race" (events, validity = mutual exclusion, happens-before, race).
-/
import Mcp.Model.Str
namespace Mcp.Registry
open Mcp.Str

notation "Key" => List Nat

/-- One registry. `map`: name/uri/method ↦ version (a version identifies the registered entry *and* its handler:
    the harness registers `Tool{Description:"v<ver>"}` with a handler answering `"<name>#<ver>"`). -/
structure Reg where
  map : List (Key × Nat) := []
  order : List Key := []
  deriving Repr, DecidableEq

def keys (m : List (Key × Nat)) : List Key := m.map Prod.fst

/-- `v, ok := m[k]`. -/
def lookup : List (Key × Nat) → Key → Option Nat
  | [], _ => none
  | (k', v) :: t, k => if k' = k then some v else lookup t k

/-- `m[k] = v`: replaces the binding in place, a new key goes to the end (ghost position). -/
def upsert : List (Key × Nat) → Key → Nat → List (Key × Nat)
  | [], k, v => [(k, v)]
  | (k', v') :: t, k, v => if k' = k then (k, v) :: t else (k', v') :: upsert t k v

/-- `delete(m, k)`. -/
def remove : List (Key × Nat) → Key → List (Key × Nat)
  | [], _ => []
  | (k', v') :: t, k => if k' = k then t else (k', v') :: remove t k

/-- `registerTool` / `registerPrompt` / `registerResource(s)`: nil or unnamed entries are ignored; a new name is
    appended to the order slice, an existing one keeps its position; the map entry is replaced. -/
def Reg.register (r : Reg) (k : Key) (v : Nat) : Reg :=
  if k = [] then r else
  { map := upsert r.map k v,
    order := if (lookup r.map k).isSome then r.order else r.order ++ [k] }

/-- `registerTemplate`: refuses an empty name and an existing name (the error is dropped by
    `Server.RegisterResourceTemplate`); there is no order slice for templates (ghost here). -/
def Reg.registerNew (r : Reg) (k : Key) (v : Nat) : Reg :=
  if k = [] then r else
  if (lookup r.map k).isSome then r else
  { map := upsert r.map k v, order := r.order ++ [k] }

/-- `RegisterNotificationHandler`: plain map store, no check on the method name (no order slice: ghost). -/
def Reg.store (r : Reg) (k : Key) (v : Nat) : Reg :=
  { map := upsert r.map k v,
    order := if (lookup r.map k).isSome then r.order else r.order ++ [k] }

/-- One iteration of the loop in `unregisterTools`: skip empty and unknown names, else delete from the map
    and cut the first occurrence out of the order slice. -/
def Reg.unregister1 (r : Reg) (k : Key) : Reg × Nat :=
  if k = [] then (r, 0) else
  match lookup r.map k with
  | none => (r, 0)
  | some _ => ({ map := remove r.map k, order := r.order.erase k }, 1)

/-- `unregisterTools(names...)`: the whole loop runs inside one critical section; returns the count. -/
def Reg.unregister (r : Reg) : List Key → Reg × Nat
  | [] => (r, 0)
  | k :: ks => ((Reg.unregister (r.unregister1 k).1 ks).1, (r.unregister1 k).2 + (Reg.unregister (r.unregister1 k).1 ks).2)

/-- `UnregisterNotificationHandler`: `delete(m, method)` (no name check). -/
def Reg.delete (r : Reg) (k : Key) : Reg :=
  { map := remove r.map k, order := r.order.erase k }

/-- `getTools` / `getPrompts` / `getTemplates`: one pass over the map (order unspecified). -/
def Reg.listMap (r : Reg) : List (Key × Nat) := r.map

/-- `getResources`: walks the order slice and looks every uri up in the map. -/
def Reg.listOrdered (r : Reg) : List (Key × Nat) :=
  r.order.filterMap fun k => (lookup r.map k).map fun v => (k, v)

/-- The invariant tying the order slice to the map. -/
def RegInv (r : Reg) : Prop := keys r.map = r.order ∧ r.order.Nodup

/-! ### the five registries of one server and the operations of the public API / the request paths -/

inductive Kind | tool | prompt | resource | template | notif
  deriving Repr, DecidableEq

structure St where
  tools : Reg := {}
  prompts : Reg := {}
  resources : Reg := {}
  templates : Reg := {}
  notifs : Reg := {}
  deriving Repr, DecidableEq

def St.proj (s : St) : Kind → Reg
  | .tool => s.tools | .prompt => s.prompts | .resource => s.resources | .template => s.templates | .notif => s.notifs

def St.set (s : St) (k : Kind) (r : Reg) : St :=
  match k with
  | .tool => { s with tools := r } | .prompt => { s with prompts := r } | .resource => { s with resources := r }
  | .template => { s with templates := r } | .notif => { s with notifs := r }

inductive Op
  | reg (k : Kind) (n : Key) (v : Nat)   -- Register{Tool,Prompt,Resource,Resources,ResourceTemplate,NotificationHandler}
  | unreg (k : Kind) (ns : List Key)     -- UnregisterTools(ns...) / UnregisterNotificationHandler (one name)
  | list (k : Kind)                      -- tools/list, prompts/list, resources/list, resources/templates/list
  | call (k : Kind) (n : Key)            -- tools/call, prompts/get, resources/read, a notification POST
  | get (n : Key)                        -- Server.GetTool
  | gets                                 -- Server.GetTools
  deriving Repr, DecidableEq

inductive Out
  | done                                 -- register: nothing to see
  | count (c : Nat)                      -- unregister: how many entries went away
  | entries (l : List (Key × Nat))       -- a list result
  | found (v : Nat)                      -- the handler of version v ran / the entry of version v was returned
  | notFound
  | invalid                              -- refused before the registry was consulted (tools/call without a name, GetTool(""))
  deriving Repr, DecidableEq

def regOf (k : Kind) (r : Reg) (n : Key) (v : Nat) : Reg :=
  match k with
  | .tool | .prompt | .resource => r.register n v
  | .template => r.registerNew n v
  | .notif => r.store n v

def unregOf (k : Kind) (r : Reg) (ns : List Key) : Reg × Nat :=
  match k with
  | .notif => (ns.foldl Reg.delete r, 0)
  | _ => r.unregister ns

def listOf (k : Kind) (r : Reg) : List (Key × Nat) :=
  match k with
  | .resource => r.listOrdered
  | _ => r.listMap

/-- tools/call checks `toolName == ""` before the lookup (-32602); the other paths look the empty name up. -/
def callOf (k : Kind) (r : Reg) (n : Key) : Out :=
  if k = .tool ∧ n = [] then .invalid else
  match lookup r.map n with
  | some v => .found v
  | none => .notFound

/-- One atomic step. -/
def step (s : St) : Op → St × Out
  | .reg k n v => (s.set k (regOf k (s.proj k) n v), .done)
  | .unreg k ns => (s.set k (unregOf k (s.proj k) ns).1, .count (unregOf k (s.proj k) ns).2)
  | .list k => (s, .entries (listOf k (s.proj k)))
  | .call k n => (s, callOf k (s.proj k) n)
  | .get n => (s, if n = [] then .invalid else match lookup s.tools.map n with | some v => .found v | none => .notFound)
  | .gets => (s, .entries s.tools.listMap)

/-- State after a history. -/
def run (s : St) : List Op → St
  | [] => s
  | o :: os => run (step s o).1 os

/-- Outcomes of a history. -/
def outs (s : St) : List Op → List Out
  | [] => []
  | o :: os => (step s o).2 :: outs (step s o).1 os

/-! ### the specification the registries are compared with: a history-defined finite map -/

/-- The binding of name `n` in registry `k` that a history *should* produce, defined on the history alone
    (no association list, no order slice). -/
def specStep (k : Kind) (n : Key) (cur : Option Nat) : Op → Option Nat
  | .reg k' n' v =>
    if k' = k ∧ n' = n then
      match k with
      | .notif => some v
      | .template => if n = [] then cur else if cur.isSome then cur else some v
      | _ => if n = [] then cur else some v
    else cur
  | .unreg k' ns =>
    if k' = k ∧ n ∈ ns then
      match k with
      | .notif => none
      | _ => if n = [] then cur else none
    else cur
  | _ => cur

def spec (k : Kind) (n : Key) (cur : Option Nat) : List Op → Option Nat
  | [] => cur
  | o :: os => spec k n (specStep k n cur o) os

/-- Names in first-registration order. -/
def firstOcc (acc : List Key) : List Key → List Key
  | [] => acc
  | k :: ks => firstOcc (if k ∈ acc then acc else acc ++ [k]) ks

/-- The non-empty names a history registers in registry `k`, in history order. -/
def regNames (k : Kind) : List Op → List Key
  | [] => []
  | .reg k' n _ :: os => if k' = k ∧ n ≠ [] then n :: regNames k os else regNames k os
  | _ :: os => regNames k os

def noUnreg (k : Kind) : List Op → Bool
  | [] => true
  | .unreg k' _ :: os => k' != k && noUnreg k os
  | _ :: os => noUnreg k os

/-- Does the operation (try to) change the binding of name `n` in registry `k`? -/
def touches (k : Kind) (n : Key) : Op → Bool
  | .reg k' n' _ => k' == k && n' == n
  | .unreg k' ns => k' == k && ns.contains n
  | _ => false

/-- A merge of per-goroutine programs (the goroutines' own orders are kept). -/
inductive Interleaving : List (List Op) → List Op → Prop
  | done : Interleaving [] []
  | drop (ts h) : Interleaving ts h → Interleaving ([] :: ts) h
  | take (pre post : List (List Op)) (o : Op) (t : List Op) (h : List Op) :
      Interleaving (pre ++ t :: post) h → Interleaving (pre ++ (o :: t) :: post) (o :: h)

/-! ### the regenerated lock facts (`extract/lockset.go`) -/

inductive Acc | read | write | escape   -- escape: the field value is aliased / handed out (conservative)
  deriving Repr, DecidableEq
inductive Held | none | r | w           -- how the guarding RWMutex is lexically held at the access
  deriving Repr, DecidableEq

/-- One syntactic access to a registry field. `section` numbers the critical sections of the function
    (0 = outside any); `init`: the object is still under construction (composite literal in a constructor). -/
structure Access where
  type : Text
  field : Text
  fn : Text
  acc : Acc
  held : Held
  sect : Nat
  init : Bool
  deriving Repr, DecidableEq

/-- Lock discipline of one access: writes under the write lock, reads under either; an escaping alias never. -/
def guarded (a : Access) : Bool :=
  a.init ||
  match a.acc, a.held with
  | .read, .r | .read, .w | .write, .w => true
  | _, _ => false

/-- All accesses of one function to one type sit in the same critical section (so the function is one atomic step). -/
def oneSection (tab : List Access) (a : Access) : Bool :=
  a.init || tab.all fun b => b.init || !(b.type == a.type && b.fn == a.fn) || b.sect == a.sect

/-- Per function and guarding mutex: number of separate critical sections (own + those of called functions of the
    tracked types, transitively; an unlocked access counts as one) touching the fields under that mutex. -/
structure FnFact where
  type : Text
  mutex : Text
  fn : Text
  sections : Nat
  writes : Bool
  deriving Repr, DecidableEq

/-- A function is one atomic step on a registry iff everything it does to it happens in ONE critical section: in
    particular the existence test and the insert of a register function (no locking getter called before the write
    lock is taken), and the walk of a list function. -/
def atomicFn (f : FnFact) : Bool :=
  decide (f.sections ≤ 1) ||
  -- a read-only function of ANOTHER type may call several readers (e.g. a request dispatcher: one call per case)
  (!f.writes && !hasPrefix f.fn (f.type ++ [46]))

/-- The functions that must appear in the table as single-section writers. -/
def expectedMutators : List Text :=
  [t!"toolManager.registerTool", t!"toolManager.unregisterTools", t!"promptManager.registerPrompt",
   t!"resourceManager.registerResource", t!"resourceManager.registerResources", t!"resourceManager.registerTemplate",
   t!"Server.RegisterTool", t!"Server.UnregisterTools", t!"Server.RegisterPrompt", t!"Server.RegisterResource",
   t!"Server.RegisterResources", t!"Server.RegisterResourceTemplate", t!"Server.RegisterNotificationHandler",
   t!"Server.UnregisterNotificationHandler"]

def AllAccessesLocked (tab : List Access) : Prop := ∀ a ∈ tab, guarded a = true

def site (a : Access) : Text × Text := (a.fn, a.field)

/-- The (function, field) pairs with an unguarded access, without repetitions, in table order. -/
def unguardedSites : List Access → List (Text × Text)
  | [] => []
  | a :: t => if guarded a || (t.any fun b => !guarded b && site b == site a) then unguardedSites t else site a :: unguardedSites t

/-- Finding D25 (fixed): the two request paths that used to index the map without taking the lock. -/
def d25Sites : List (Text × Text) :=
  [(t!"promptManager.handleGetPrompt", t!"prompts"), (t!"resourceManager.handleReadResource", t!"resources")]

/-- The access records of the prompt / resource request paths as the extractor emitted them BEFORE D25 was
    repaired (a literal, not regenerated): `handleGetPrompt` and `handleReadResource` read the map with no lock
    held while `registerPrompt` / `registerResource` write it under the write lock. -/
def d25Table : List Access :=
  [⟨t!"promptManager", t!"prompts", t!"promptManager.getPrompt", .read, .r, 1, false⟩,
   ⟨t!"promptManager", t!"prompts", t!"promptManager.handleGetPrompt", .read, .none, 0, false⟩,
   ⟨t!"promptManager", t!"prompts", t!"promptManager.registerPrompt", .read, .w, 1, false⟩,
   ⟨t!"promptManager", t!"prompts", t!"promptManager.registerPrompt", .write, .w, 1, false⟩,
   ⟨t!"resourceManager", t!"resources", t!"resourceManager.getResource", .read, .r, 1, false⟩,
   ⟨t!"resourceManager", t!"resources", t!"resourceManager.handleReadResource", .read, .none, 0, false⟩,
   ⟨t!"resourceManager", t!"resources", t!"resourceManager.registerResource", .read, .w, 1, false⟩,
   ⟨t!"resourceManager", t!"resources", t!"resourceManager.registerResource", .write, .w, 1, false⟩]

/-- The registry fields the property is about (owner type, field). -/
def expectedFields : List (Text × Text) :=
  [(t!"SSEServer", t!"notificationHandlers"), (t!"Server", t!"notificationHandlers"), (t!"StdioServer", t!"notificationHandlers"),
   (t!"promptManager", t!"prompts"), (t!"promptManager", t!"promptsOrder"),
   (t!"resourceManager", t!"resources"), (t!"resourceManager", t!"resourcesOrder"), (t!"resourceManager", t!"subscribers"),
   (t!"resourceManager", t!"templates"), (t!"toolManager", t!"tools"), (t!"toolManager", t!"toolsOrder")]

/-- The table has, for a field, a write under the write lock and a read under a lock (it is not empty or one-sided). -/
def covered (tab : List Access) (f : Text × Text) : Bool :=
  (tab.any fun a => a.type == f.1 && a.field == f.2 && a.acc == .write && a.held == .w) &&
  (tab.any fun a => a.type == f.1 && a.field == f.2 && a.acc == .read && a.held != .none)

/-! ### user callbacks and registry locks (`extract/lockset.go`, second pass) -/

/-- One call through a function value (the user's handlers, list filters and callbacks are function values) inside a
    function that takes a registry lock. `held`: how a guard mutex of a tracked type is POSSIBLY held at the call
    (may-analysis: on some path; `defer …Unlock()` = to the end of the function); `sure = false`: the control flow of
    the function was not understood (labels, goto). -/
structure CbCall where
  fn : Text
  callee : Text
  calleeType : Text
  held : Held
  sure : Bool
  deriving Repr, DecidableEq

/-- The callback runs with no registry lock held: it may itself register / unregister (a one-shot handler removing
    itself, a handler registering a follow-up) without deadlocking on the non-reentrant RWMutex, and however long it
    runs it blocks neither registration nor the dispatch of other entries. -/
def cbOutsideLocks (c : CbCall) : Bool := c.sure && c.held == .none

/-- The dispatch sites that must appear in the table: (function, type of the callee). -/
def expectedCallbackSites : List (Text × Text) :=
  [(t!"Server.handleServerNotification", t!"ServerNotificationHandler"),
   (t!"SSEServer.handleNotification", t!"ServerNotificationHandler"),
   (t!"stdioServerInternal.HandleNotification", t!"ServerNotificationHandler"),
   (t!"toolManager.handleCallTool", t!"toolHandler"),
   (t!"promptManager.handleGetPrompt", t!"promptHandler"),
   (t!"resourceManager.handleReadResource", t!"resourcesHandler")]

/-- The shape of seeded change C12-5 as the extractor reports it (a literal, not regenerated): `handleServerNotification`
    with `RLock(); defer RUnlock()` and the handler called before the function returns. -/
def c125Table : List CbCall :=
  [⟨t!"Server.handleServerNotification", t!"handler", t!"ServerNotificationHandler", .r, true⟩,
   ⟨t!"toolManager.handleCallTool", t!"registeredTool.Handler", t!"toolHandler", .none, true⟩]

/-! ### locks left held (`extract/lockset.go`, may-hold pass) -/

/-- One way out of a function that takes a registry lock: the `idx`-th return statement in source order, or the end of
    the body. `left`: a guard mutex of a tracked type possibly still held there — taken on some path to this exit, not
    released on it, and no unlock deferred on every path to it. `sure = false`: control flow not understood. -/
structure LockExit where
  fn : Text
  idx : Nat
  left : Held
  sure : Bool
  deriving Repr, DecidableEq

/-- Every lock taken is given back on every path: nothing is left held at this exit. A leaked read lock goes unnoticed
    by readers and wedges the registry at the next registration (a pending writer also stops every later reader). -/
def exitReleases (e : LockExit) : Bool := e.sure && e.left == .none

/-- Functions that must appear in the exit table (all take a lock): mutators, readers and the request paths. -/
def expectedLockers : List Text :=
  [t!"toolManager.registerTool", t!"toolManager.unregisterTools", t!"toolManager.getTool", t!"toolManager.getTools",
   t!"toolManager.handleCallTool", t!"promptManager.registerPrompt", t!"promptManager.getPrompts",
   t!"promptManager.handleGetPrompt", t!"resourceManager.registerResource", t!"resourceManager.registerResources",
   t!"resourceManager.registerTemplate", t!"resourceManager.getResources", t!"resourceManager.handleReadResource",
   t!"Server.RegisterNotificationHandler", t!"Server.UnregisterNotificationHandler", t!"Server.handleServerNotification"]

/-- The exits of `handleCallTool` as the extractor reports them for seeded change C12-10 (a literal): the early return
    for "arguments must be an object" leaves the read lock held. -/
def c1210Table : List LockExit :=
  [⟨t!"toolManager.handleCallTool", 1, .none, true⟩, ⟨t!"toolManager.handleCallTool", 2, .none, true⟩,
   ⟨t!"toolManager.handleCallTool", 3, .none, true⟩, ⟨t!"toolManager.handleCallTool", 4, .none, true⟩,
   ⟨t!"toolManager.handleCallTool", 5, .r, true⟩, ⟨t!"toolManager.handleCallTool", 6, .none, true⟩]

/-! ### the two halves of a registration (`extract/lockset.go`) -/

/-- A register function of a registry with an order slice: number of writes of the order slice, of stores into the map
    after the first of them, of `return`s between the first order write and the last map store. -/
structure StorePair where
  fn : Text
  orderWrites : Nat
  mapStores : Nat
  returnsBetween : Nat
  sure : Bool
  deriving Repr, DecidableEq

/-- Order append and map store always happen together (what `Reg.register` models as one step): no way out between them. -/
def storesBoth (p : StorePair) : Bool :=
  p.sure && decide (1 ≤ p.orderWrites) && decide (1 ≤ p.mapStores) && p.returnsBetween == 0

/-- The half-registration of seeded change C12-13 as a model step: the key is appended to the order slice (when the map
    does not have it) and nothing is stored. -/
def Reg.registerOrderOnly (r : Reg) (k : Key) : Reg :=
  if k = [] then r else if (lookup r.map k).isSome then r else { r with order := r.order ++ [k] }

def expectedStorePairs : List Text :=
  [t!"promptManager.registerPrompt", t!"resourceManager.registerResource", t!"resourceManager.registerResources",
   t!"toolManager.registerTool"]

/-! ### entries are immutable once published (`extract/lockset.go`) -/

/-- One assignment to a field of a registry entry (`*` = the whole entry through a pointer, `&f` = the address of a field
    handed out). -/
structure EntryWrite where
  type : Text
  field : Text
  fn : Text
  deriving Repr, DecidableEq

/-- Entries are built by composite literals and never written afterwards; all four entry types were found. -/
def entriesImmutable (tab : List EntryWrite) (typesSeen : Nat) : Bool := tab.isEmpty && typesSeen == 4

/-- The second half of a request path (tools/call, prompts/get, resources/read): the entry pointer was copied out under
    the read lock (`looked`: the version bound at that instant), the lock released, then — after whatever other
    goroutines did to the registry, `ops` — handler and descriptor are USED through the copy.  With immutable entries the
    copy still says what was looked up.  If an unregister may clear the entry in place (family index `immutable = false`)
    and one for this key ran in between, the use calls a nil handler / dereferences a nil descriptor: `none` = the
    request dies. -/
def useCopied (immutable : Bool) (k : Kind) (n : Key) (looked : Option Nat) (ops : List Op) : Option Out :=
  match looked with
  | none => some .notFound
  | some v =>
    if !immutable && ops.any (fun o => match o with | .unreg k' ns => k' == k && ns.contains n | _ => false)
    then none else some (.found v)

end Mcp.Registry

/-! ## Part 2 — reader/writer-lock traces -/
namespace Mcp.Registry.Lock

/-- Events of a multi-threaded execution: thread `t` acquires/releases lock `l` in write or read mode, or
    reads/writes location `x`. -/
inductive Ev
  | acqW (t l : Nat) | relW (t l : Nat) | acqR (t l : Nat) | relR (t l : Nat)
  | rd (t x : Nat) | wr (t x : Nat)
  deriving Repr, DecidableEq

def Ev.tid : Ev → Nat
  | .acqW t _ | .relW t _ | .acqR t _ | .relR t _ | .rd t _ | .wr t _ => t

/-- State of one RWMutex: the writer, and the readers (with multiplicity). -/
structure LS where
  writer : Option Nat := none
  readers : List Nat := []
  deriving Repr, DecidableEq

/-- Effect of an event on lock `l`. -/
def stepL (l : Nat) (s : LS) : Ev → LS
  | .acqW t l' => if l' = l then { s with writer := some t } else s
  | .relW _ l' => if l' = l then { s with writer := none } else s
  | .acqR t l' => if l' = l then { s with readers := t :: s.readers } else s
  | .relR t l' => if l' = l then { s with readers := s.readers.erase t } else s
  | _ => s

/-- May the event happen in lock state `s` (of lock `l`)? `Lock` needs the mutex free of writer and readers,
    `RLock` free of a writer; only a holder releases. -/
def okL (l : Nat) (s : LS) : Ev → Prop
  | .acqW _ l' => l' = l → s.writer = none ∧ s.readers = []
  | .relW t l' => l' = l → s.writer = some t
  | .acqR _ l' => l' = l → s.writer = none
  | .relR t l' => l' = l → t ∈ s.readers
  | _ => True

/-- Lock state before the `i`-th event. -/
def stateAt (l : Nat) (tr : List Ev) (i : Nat) : LS := (tr.take i).foldl (stepL l) {}

/-- A trace the mutexes allow. -/
def Valid (tr : List Ev) : Prop := ∀ l i e, tr[i]? = some e → okL l (stateAt l tr i) e

def holdsW (s : LS) (t : Nat) : Prop := s.writer = some t
def holdsAny (s : LS) (t : Nat) : Prop := s.writer = some t ∨ t ∈ s.readers

/-- Synchronisation edges of `sync.RWMutex` (Go memory model): `Unlock` → every later `Lock`/`RLock`,
    `RUnlock` → every later `Lock`. -/
def syncs : Ev → Ev → Prop
  | .relW _ l, .acqW _ l' => l = l'
  | .relW _ l, .acqR _ l' => l = l'
  | .relR _ l, .acqW _ l' => l = l'
  | _, _ => False

/-- Happens-before: program order ∪ synchronisation, transitively closed. -/
inductive HB (tr : List Ev) : Nat → Nat → Prop
  | po {i j a b} : i < j → tr[i]? = some a → tr[j]? = some b → a.tid = b.tid → HB tr i j
  | sync {i j a b} : i < j → tr[i]? = some a → tr[j]? = some b → syncs a b → HB tr i j
  | trans {i k j} : HB tr i k → HB tr k j → HB tr i j

def isAccess (x : Nat) : Ev → Bool
  | .rd _ y | .wr _ y => y == x
  | _ => false

def isWrite (x : Nat) : Ev → Bool
  | .wr _ y => y == x
  | _ => false

/-- A data race on `x`: two accesses by different threads, at least one a write, not ordered by happens-before. -/
def Race (tr : List Ev) (x : Nat) : Prop :=
  ∃ i j a b, i < j ∧ tr[i]? = some a ∧ tr[j]? = some b ∧ isAccess x a = true ∧ isAccess x b = true ∧
    (isWrite x a = true ∨ isWrite x b = true) ∧ a.tid ≠ b.tid ∧ ¬ HB tr i j

/-- The discipline the access table establishes for a location: writes under the write lock of `l`, reads under
    either mode. -/
def Disciplined (tr : List Ev) (x l : Nat) : Prop :=
  ∀ i e, tr[i]? = some e → isAccess x e = true →
    (isWrite x e = true → holdsW (stateAt l tr i) e.tid) ∧ holdsAny (stateAt l tr i) e.tid

end Mcp.Registry.Lock
