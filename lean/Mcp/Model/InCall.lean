/-
  In-call notifications on one POST-SSE stream (C10).

  Server side (streamable_server.go `handlePostRequest`, SSE branch): the tool handler emits notifications through the
  `sseNotificationSender` found in its context (notifier.go: `SendProgress`, `SendLogMessage`, `SendCustomNotification`,
  `SendNotification`), each one SSE event; after the handler returned the `sseResponder` writes the answer as the last
  event.  Every event carries an id `evt-<ms>-<counter>` (internal/sseutil/writer.go `GenerateEventID`): the counter
  belongs to the `sseutil.Writer` *object*; which objects write on the stream is a regenerated fact (`Facts.writers`).

  Client side (streamable_client.go `handleSSEResponse` / `processEventData` / `handleResponseMessage` /
  `handleNotificationMessage`): every `data:` line is decoded on its own; a message whose `id` prints (`%v`) like the
  request id is the answer, everything else is decoded as a notification and handed — synchronously, in the read loop —
  to the handler registered for its method (or dropped).  With no handler at all the loop returns at the answer frame,
  otherwise it reads to the end of the stream.  `Facts.syncDispatch` / `Facts.drainWithHandlers` are regenerated.

  `NotificationParams` (mcp_types.go): `MarshalJSON` flattens `AdditionalFields` next to `_meta`, `UnmarshalJSON` splits
  them again.  A nil map and an empty map are identified (both `[]`): the code only ever tests `len(...)`.
-/
import Mcp.Model.Json
import Mcp.Gen.PendingFacts
import Mcp.Model.Escape
namespace Mcp.InCall
open Mcp.Str Mcp.Json

/-! ## NotificationParams -/

def metaKey : Text := t!"_meta"

/-- `delete(m, key)` / "every entry but `key`" -/
def erase (m : Obj) (key : Text) : Obj := m.filter (fun kv => kv.1 != key)

structure NParams where
  /-- `Meta map[string]interface{}` (nil = empty) -/
  metaMap : Obj
  /-- `AdditionalFields map[string]interface{}` (nil = empty) -/
  extra : Obj

/-- `m["_meta"].(map[string]interface{})`, nothing otherwise -/
def metaOf (m : Obj) : Obj :=
  match lookup m metaKey with
  | some (.obj mm) => mm
  | _ => []

/-- `NotificationParams.MarshalJSON`: `_meta` from `Meta` when it is non-empty (then a `_meta` among the additional fields
    is skipped), otherwise the additional fields as they are (their own `_meta`, if any, included). -/
def marshalFields (p : NParams) : Obj :=
  if p.metaMap.isEmpty then p.extra else (metaKey, .obj p.metaMap) :: erase p.extra metaKey

def marshal (p : NParams) : Json := .obj (marshalFields p)

/-- `NotificationParams.UnmarshalJSON` on a fresh value; `none` = the decoder's type error (anything but an object or
    `null`).  A `_meta` that is not an object is dropped. -/
def unmarshal : Json → Option NParams
  | .null => some ⟨[], []⟩
  | .obj m => some ⟨metaOf m, erase m metaKey⟩
  | _ => none

/-- what a client sees of params that were marshalled by the server -/
def onWire (p : NParams) : NParams := ⟨metaOf (marshalFields p), erase (marshalFields p) metaKey⟩

/-- `SendCustomNotification(method, params)`: an object-valued `_meta` moves to `Meta` (and is deleted from the
    caller's map), anything else stays among the additional fields. -/
def splitCustom (fs : Obj) : NParams :=
  match lookup fs metaKey with
  | some (.obj mm) => ⟨mm, erase fs metaKey⟩
  | _ => ⟨[], fs⟩

/-- `NewNotification(method, params)` (the value handed to `SendNotification`): `_meta` is deleted from the fields
    whatever it is, and kept as `Meta` only if it is an object. -/
def splitNew (fs : Obj) : NParams :=
  match lookup fs metaKey with
  | some (.obj mm) => ⟨mm, erase fs metaKey⟩
  | some _ => ⟨[], erase fs metaKey⟩
  | none => ⟨[], fs⟩

/-! ## what a handler emits -/

structure Notif where
  method : Text
  params : NParams

def progressMethod : Text := t!"notifications/progress"
def messageMethod : Text := t!"notifications/message"

inductive Emit where
  /-- `SendProgress(progress, message)` -/
  | progress (p : Json) (msg : Text)
  /-- `SendLogMessage(level, message)` -/
  | log (level msg : Text)
  /-- `SendCustomNotification(method, params)` -/
  | custom (method : Text) (fs : Obj)
  /-- `SendNotification(NewNotification(method, params))` -/
  | viaNew (method : Text) (fs : Obj)

def Emit.notif : Emit → Notif
  | .progress p msg => ⟨progressMethod, splitCustom
      [(t!"progress", p), (t!"message", .str msg),
       (t!"data", .obj [(t!"type", .str t!"process_progress"), (t!"progress", p), (t!"message", .str msg)])]⟩
  | .log level msg => ⟨messageMethod, splitCustom
      [(t!"level", .str level), (t!"data", .obj [(t!"type", .str t!"log_message"), (t!"message", .str msg)])]⟩
  | .custom method fs => ⟨method, splitCustom fs⟩
  | .viaNew method fs => ⟨method, splitNew fs⟩

/-! ## messages on the stream -/

def jsonrpcField : Text × Json := (t!"jsonrpc", .str t!"2.0")

/-- `json.Marshal(newJSONRPCNotification(n))` as a value -/
def notifJson (n : Notif) : Json :=
  .obj [jsonrpcField, (t!"method", .str n.method), (t!"params", marshal n.params)]

inductive Answer where
  | ok (result : Json)
  | err (code : Int) (msg : Text)

/-- `JSONRPCResponse{…}` / `newJSONRPCErrorResponse(id, code, msg, nil)` as values -/
def answerJson (reqId : Nat) : Answer → Json
  | .ok r => .obj [jsonrpcField, (t!"id", .int reqId), (t!"result", r)]
  | .err c m => .obj [jsonrpcField, (t!"id", .int reqId), (t!"error", .obj [(t!"code", .int c), (t!"message", .str m)])]

/-- what `transport.sendRequest` hands back for an answer: the `result` member, or the whole error message -/
def answerRaw (reqId : Nat) : Answer → Json
  | .ok r => r
  | .err c m => answerJson reqId (.err c m)

/-- the messages of one POST-SSE stream, in writing order: the handler's notifications, then the answer -/
def serverFrames (reqId : Nat) (es : List Emit) (a : Answer) : List Json :=
  es.map (fun e => notifJson e.notif) ++ [answerJson reqId a]

/-! ## event ids -/

structure EvId where
  ms : Nat
  ctr : Nat
  deriving DecidableEq, Repr

/-- `fmt.Sprintf("evt-%d-%d", timestamp, counter)` -/
def idText (e : EvId) : Text := t!"evt-" ++ natDigits e.ms ++ 45 :: natDigits e.ctr

/-- `(*Writer).GenerateEventID` on a writer whose counter is `c`, the clock reading `ms`: the id and the new counter -/
def gen (ms c : Nat) : EvId × Nat := (⟨ms, c + 1⟩, c + 1)

/-- ids of `n` notification events written through one writer whose counter is `c`, the first being event number `k`
    of the stream; `clock k` = the clock reading (ms) when event `k` is written (any function: the clock may stand still
    or jump) -/
def notifIds (clock : Nat → Nat) : Nat → Nat → Nat → List EvId × Nat
  | 0, _, c => ([], c)
  | n + 1, k, c =>
    let g := gen (clock k) c
    let r := notifIds clock n (k + 1) g.2
    (g.1 :: r.1, r.2)

/-- ids on a stream with `n` notifications and the answer: the responder's writer is the sender's writer when the stream
    has one writer object, a fresh one (counter 0) otherwise -/
def streamIds (writers : Nat) (clock : Nat → Nat) (n : Nat) : List EvId :=
  let r := notifIds clock n 0 0
  r.1 ++ [(gen (clock n) (if writers = 1 then r.2 else 0)).1]

/-- the bytes of the stream: one `WriteEvent` per message -/
def streamText : List (EvId × Json) → Text
  | [] => []
  | (i, j) :: rest => Mcp.Escape.writeEvent (idText i) (Mcp.Escape.render j) ++ streamText rest

/-! ## the client's read loop -/

structure Facts where
  /-- independent event-id counters on one POST-SSE stream (1 = sender and responder share the writer) -/
  writers : Nat
  /-- the handler is called in the read loop, not in a goroutine -/
  syncDispatch : Bool
  /-- the early return at the answer frame is taken only when no handler is registered -/
  drainWithHandlers : Bool

/-- `processEventData`'s id comparison for the two renderings the tree has had (`id` comes out of
    `map[string]interface{}`: a number is a `float64`; `reqID` is the client's `int64` counter):
    `idKey = true` — `requestIDKey(id) == requestIDKey(reqID)`: a number matches iff it is the counter value, a string
    never; `idKey = false` — `%v` on both sides (before the D01 repair): exponent form from 10^6 on, a string of the same
    digits matches. -/
def idMatchesK (idKey : Bool) (id : Json) (reqId : Nat) : Bool :=
  match id with
  | .int i => decide (i = (reqId : Int)) && (idKey || decide (reqId < 1000000))
  | .str s => !idKey && s == natDigits reqId
  | _ => false

/-- regenerated fact: both sides of the Streamable POST-SSE matcher render ids with `requestIDKey` -/
def idKeyToday : Bool := Mcp.Gen.pdPostSseMatcher == (t!"idKey", t!"idKey")

def fmtVMatches (id : Json) (reqId : Nat) : Bool := idMatchesK idKeyToday id reqId

/-- the message is an answer to request `reqId` -/
def asResponse (reqId : Nat) (j : Json) : Option Obj :=
  match j with
  | .obj m =>
    match lookup m t!"id" with
    | some id => if fmtVMatches id reqId then some m else none
    | none => none
  | _ => none

/-- `handleResponseMessage`: an error answer is returned whole, otherwise the `result` member; neither ⇒ nothing -/
def responseOf (m : Obj) (whole : Json) : Option Json :=
  if hasKey m t!"error" then some whole else lookup m t!"result"

/-- a string-typed struct field under `json.Unmarshal`: absent / null leave `""`, another type is an error -/
def strField (m : Obj) (k : Text) : Option Text :=
  match lookup m k with
  | none => some []
  | some .null => some []
  | some (.str s) => some s
  | some _ => none

/-- `json.Unmarshal(raw, &JSONRPCNotification{})`; `none` = error (the whole call fails) -/
def decodeNotif : Json → Option Notif
  | .null => some ⟨[], ⟨[], []⟩⟩
  | .obj m =>
    match strField m t!"jsonrpc", strField m t!"method" with
    | some _, some method =>
      match lookup m t!"params" with
      | none => some ⟨method, ⟨[], []⟩⟩
      | some v =>
        match unmarshal v with
        | some p => some ⟨method, p⟩
        | none => none
    | _, _ => none
  | _ => none

inductive Step where
  | response (r : Option Json)
  | notif (n : Notif)
  | bad

/-- `processEventData` -/
def classify (reqId : Nat) (j : Json) : Step :=
  match asResponse reqId j with
  | some m => .response (responseOf m j)
  | none =>
    match decodeNotif j with
    | some n => .notif n
    | none => .bad

/-- what happens during one call, in temporal order -/
inductive Ev where
  | handled (n : Notif)      -- a registered handler ran on this notification
  | ret (raw : Json)         -- `sendRequest` returned this
  | failNoResult             -- "connection closed but no final response received" / missing result field
  | failDecode               -- a frame could not be decoded: the call returns the decoder's error

structure RS where
  trace : List Ev
  /-- handler invocations started with `go` and not yet run, newest first (only when `syncDispatch = false`) -/
  pending : List Notif
  result : Option Json

def RS.init : RS := ⟨[], [], none⟩

/-- `handleNotificationMessage` after decoding: `handlers[method]`, call it or drop the notification -/
def dispatch (f : Facts) (hs : List Text) (st : RS) (n : Notif) : RS :=
  if hs.contains n.method then
    if f.syncDispatch then { st with trace := st.trace ++ [.handled n] }
    else { st with pending := n :: st.pending }
  else st

/-- the function returns; goroutines still pending run afterwards (one legal schedule: newest first) -/
def finish (st : RS) (last : Ev) : List Ev := st.trace ++ [last] ++ st.pending.map .handled

/-- `handleSSEResponse`: the loop over the decoded `data:` lines; `[]` = end of stream -/
def readLoop (f : Facts) (hs : List Text) (reqId : Nat) : List Json → RS → List Ev
  | [], st =>
    match st.result with
    | some r => finish st (.ret r)
    | none => finish st .failNoResult
  | j :: rest, st =>
    match classify reqId j with
    | .response (some r) =>
      if hs.isEmpty || !f.drainWithHandlers then finish st (.ret r)
      else readLoop f hs reqId rest { st with result := some r }
    | .response none => readLoop f hs reqId rest st
    | .notif n => readLoop f hs reqId rest (dispatch f hs st n)
    | .bad => finish st .failDecode

/-- `send`, JSON branch (`Content-Type` is not an event stream): no id check, no notifications -/
def readJsonBody (body : Json) : List Ev :=
  match body with
  | .obj m =>
    if hasKey m t!"error" then [.ret body]
    else match lookup m t!"result" with
      | some r => [.ret r]
      | none => [.failNoResult]
  | _ => [.failDecode]

/-- one tool call: the handler emits `es` and answers `a`; `sse = false` is the JSON response mode (the handler's
    context holds the no-op sender: nothing is written but the answer) -/
def call (f : Facts) (sse : Bool) (hs : List Text) (reqId : Nat) (es : List Emit) (a : Answer) : List Ev :=
  if sse then readLoop f hs reqId (serverFrames reqId es a) RS.init
  else readJsonBody (answerJson reqId a)

/-! ## notifications the sender refuses

  `SendCustomNotification` / `SendNotification` (and through them `SendProgress` / `SendLogMessage`) first
  `json.Marshal` the whole notification and only then take an event id and write the event (notifier.go; regenerated
  fact `Mcp.Gen.icMarshalBeforeWrite`).  A notification that cannot be encoded (a NaN / ±Inf progress, a chan / func
  value, a failing `MarshalJSON` anywhere in the params or in `Meta`) is therefore refused with
  `ErrNotificationSerialization` before a single byte is written and before the writer's counter moves: on the stream
  the attempt has not happened. -/

/-- one `Send…` call of the tool handler -/
inductive Attempt where
  /-- the notification can be encoded: one event is written -/
  | enc (e : Emit)
  /-- `json.Marshal` fails: the sender returns `ErrNotificationSerialization`, nothing is written -/
  | refused

/-- the emits that reach the stream -/
def sent : List Attempt → List Emit
  | [] => []
  | .enc e :: rest => e :: sent rest
  | .refused :: rest => sent rest

/-- one tool call whose handler makes the attempts `as` and answers `a` -/
def callA (f : Facts) (sse : Bool) (hs : List Text) (reqId : Nat) (as : List Attempt) (a : Answer) : List Ev :=
  call f sse hs reqId (sent as) a

/-- the messages of the stream of such a call -/
def framesA (reqId : Nat) (as : List Attempt) (a : Answer) : List Json := serverFrames reqId (sent as) a

/-! ## handler registration histories

  `RegisterNotificationHandler(m, h)` is `t.notificationHandlers[m] = h`, `UnregisterNotificationHandler(m)` is
  `delete(t.notificationHandlers, m)` (client.go → streamable_client.go, under `handlersMutex`); `handleSSEResponse`
  copies that very map when a call's response starts and dispatches with `handlers[notification.Method]`.  A handler
  instance is a tag (`Nat`); the table is the map as an association list. -/

inductive RegOp where
  | register (m : Text) (h : Nat)
  | unregister (m : Text)

abbrev Table := List (Text × Nat)

def tableErase (t : Table) (m : Text) : Table := t.filter (fun kv => kv.1 != m)

def applyReg (t : Table) : RegOp → Table
  | .register m h => (m, h) :: tableErase t m
  | .unregister m => tableErase t m

/-- the client's table after a history of registrations on a fresh client -/
def tableAfter (ops : List RegOp) : Table := ops.foldl applyReg []

/-- `handler, ok := handlers[method]` -/
def handlerFor : Table → Text → Option Nat
  | [], _ => none
  | (k, h) :: rest, m => if k = m then some h else handlerFor rest m

/-- the methods that have a handler (`len(handlers) == 0` is `methods t = []`) -/
def methods (t : Table) : List Text := t.map Prod.fst

/-- which handler instance ran, for a handler event -/
def ranBy (t : Table) : Ev → Option Nat
  | .handled n => handlerFor t n.method
  | _ => none

/-- one call on a client whose handler table is `t`: the events, each handler invocation with the instance that ran -/
def callH (f : Facts) (sse : Bool) (t : Table) (reqId : Nat) (es : List Emit) (a : Answer) : List (Ev × Option Nat) :=
  (call f sse (methods t) reqId es a).map (fun e => (e, ranBy t e))

end Mcp.InCall
