/-
  Request middlewares.

  Go code modelled (all in package `mcp`):
  * `handler.go`  `Middleware = func(next HandlerFunc) HandlerFunc`, `mcpHandler.use` (append),
    `applyMiddlewares` (wraps from the last index down to 0 around the handler), `handleRequest`
    (builds the chain per request around the dispatch function and runs it once), `handleNotification`
    (never touches the chain);
  * `server.go`  `WithMiddleware(ms…)` appends to `pendingMiddlewares`, `initComponents` calls `use` for each
    pending one in order; `sse_server.go` `WithSSEMiddleware(ms…)` calls `use` directly;
  * the other options of `NewServer` / `NewSSEServer` as far as they can touch the handler the middlewares are
    registered on (the field `mcpHandler`; see "the other constructor options" below);
  * the outcome mapping of `streamable_server.go handlePostRequest` (both responder branches) and
    `sse_server.go processRequestAsync / handleRequestError`: `(nil, err)` is answered with a JSON-RPC error
    carrying the internal-error code and `err.Error()`, a `*JSONRPCError` value is sent as it is, anything
    else is wrapped as the `result` of a response with the request's id.

  A middleware is observed through what it does on one request (`Beh`): the five behaviours of the property.
  The method handler is an arbitrary function `Req → Out` (the theorems quantify over it).
-/
import Mcp.Model.Str
import Mcp.Gen.MiddlewareFacts
namespace Mcp.Middleware
open Mcp.Str

/-- What a stage can see of the request: the modifications outer stages made to it (in order). -/
structure Req where
  mods : List Nat := []
  deriving Repr, DecidableEq

/-- A result object (anything that is not a `*JSONRPCError`). -/
inductive Val
  | handler (echo : List Nat)   -- the method handler's own result; `echo` = the request modifications it reflects
  | short (r : Nat)             -- the object a short-circuiting middleware made up
  deriving Repr, DecidableEq

/-- What a `HandlerFunc` returns: `(JSONRPCMessage, error)`. `rm` = marks left by result-modifying stages. -/
inductive Out
  | ok (v : Val) (rm : List Nat)                      -- (result, nil)
  | rpcErr (code : Int) (msg : Text) (rm : List Nat)  -- (*JSONRPCError, nil); `rm` lives in `error.data`
  | err (e : Text)                                    -- (nil, err)
  deriving Repr, DecidableEq

/-- Trace events appended by the instrumented stages and handlers of one request. -/
inductive Ev
  | before (id : Nat) (mods : List Nat)   -- stage `id` entered and saw these request modifications
  | after (id : Nat) (o : Out)            -- `next` returned `o` to stage `id`
  | handler (mods : List Nat)             -- the method handler ran
  deriving Repr, DecidableEq

inductive ShortVal
  | okv (r : Nat)
  | rpc (code : Int) (msg : Text)
  deriving Repr, DecidableEq

def ShortVal.out : ShortVal → Out
  | .okv r => .ok (.short r) []
  | .rpc c m => .rpcErr c m []

inductive Beh
  | pass                 -- before; next; after; return what next returned
  | modReq               -- before; next on a modified copy of the request (and context); after
  | modRes               -- before; next; after; return the result with a mark added (errors are passed on untouched)
  | short (v : ShortVal) -- before; return `v` without calling next
  | fail (e : Text)      -- before; return `(nil, errors.New e)` without calling next
  deriving Repr, DecidableEq

structure Stage where
  id : Nat
  beh : Beh
  deriving Repr, DecidableEq

abbrev Handler := Req → List Ev × Out

def Out.addMod (i : Nat) : Out → Out
  | .ok v rm => .ok v (rm ++ [i])
  | .rpcErr c m rm => .rpcErr c m (rm ++ [i])
  | .err e => .err e

/-- `m(next)` for the instrumented middleware `m`. -/
def Stage.wrap (s : Stage) (next : Handler) : Handler := fun req =>
  match s.beh with
  | .pass =>
    let r := next req
    (.before s.id req.mods :: (r.1 ++ [.after s.id r.2]), r.2)
  | .modReq =>
    let r := next { req with mods := req.mods ++ [s.id] }
    (.before s.id req.mods :: (r.1 ++ [.after s.id r.2]), r.2)
  | .modRes =>
    let r := next req
    (.before s.id req.mods :: (r.1 ++ [.after s.id r.2]), r.2.addMod s.id)
  | .short v => ([.before s.id req.mods], v.out)
  | .fail e => ([.before s.id req.mods], .err e)

/-- The dispatch function `coreHandler` around an arbitrary method handler `h`. -/
def core (h : Req → Out) : Handler := fun req => ([.handler req.mods], h req)

/-- Structural facts of the Go source the model is indexed by (regenerated: `Mcp.Gen.MiddlewareFacts`). -/
structure Facts where
  /-- `applyMiddlewares` wraps from the last index down to 0: index 0 (first registered) is outermost. -/
  firstOutermost : Bool
  /-- no notification path reaches the chain -/
  notifBypass : Bool
  /-- code answered for `(nil, err)` on Streamable HTTP / on legacy SSE -/
  codeStreamable : Int
  codeSSE : Int
  deriving Repr, DecidableEq

/-- `applyMiddlewares`: `for i := len-1 … 0 { handler = ms[i](handler) }` is `foldr`; the ascending loop is `foldl`. -/
def applyMiddlewares (f : Facts) (ms : List Stage) (h : Handler) : Handler :=
  if f.firstOutermost then ms.foldr Stage.wrap h else ms.foldl (fun acc m => m.wrap acc) h

/-- The chain of the compliant region, used by the theorems. -/
def run (ms : List Stage) (h : Req → Out) : Handler := ms.foldr Stage.wrap (core h)

/-! ### registration -/

/-- `mcpHandler.use`. -/
def use (reg : List Stage) (m : Stage) : List Stage := reg ++ [m]

/-- `NewServer(opts…)`: every `WithMiddleware(ms…)` appends `ms…` to the pending list; `initComponents` then
    calls `use` for each pending middleware in order. -/
def newServer (opts : List (List Stage)) : List Stage :=
  (opts.foldl (fun pending ms => pending ++ ms) []).foldl use []

/-- `NewSSEServer(opts…)`: every `WithSSEMiddleware(ms…)` calls `use` for each argument in order. -/
def newSSEServer (opts : List (List Stage)) : List Stage :=
  opts.foldl (fun reg ms => ms.foldl use reg) []

/-! ### what the client receives -/

inductive Transport | streamable | sse
  deriving Repr, DecidableEq

inductive Resp
  | result (v : Val) (rm : List Nat)
  | error (code : Int) (msg : Text) (rm : List Nat)
  deriving Repr, DecidableEq

def Facts.code (f : Facts) : Transport → Int
  | .streamable => f.codeStreamable
  | .sse => f.codeSSE

def respond (code : Int) : Out → Resp
  | .ok v rm => .result v rm
  | .rpcErr c m rm => .error c m rm
  | .err e => .error code e []

inductive Msg
  | request (r : Req)
  | notification
  deriving Repr, DecidableEq

def registered (tr : Transport) (opts : List (List Stage)) : List Stage :=
  match tr with
  | .streamable => newServer opts
  | .sse => newSSEServer opts

/-- One message against a server built with `opts`: the per-request trace and what is sent back
    (`none` = nothing but the HTTP 202). -/
def serve (f : Facts) (tr : Transport) (opts : List (List Stage)) (h : Req → Out) : Msg → List Ev × Option Resp
  | .request r =>
    let x := applyMiddlewares f (registered tr opts) (core h) r
    (x.1, some (respond (f.code tr) x.2))
  | .notification =>
    if f.notifBypass then ([], none)
    else ((applyMiddlewares f (registered tr opts) (fun _ => ([], .ok (.handler []) [])) {}).1, none)

/-- Several requests (each with the behaviours its stages show on it) against the same server. -/
def serveAll (f : Facts) (tr : Transport) (h : Req → Out) (batch : List (List (List Stage) × Msg)) :
    List (List Ev × Option Resp) :=
  batch.map (fun p => serve f tr p.1 h p.2)

/-! ### the other constructor options

  `NewServer(opts…)` / `NewSSEServer(opts…)` take the middleware options interleaved with every other option
  (logger, context functions, list filters, paths, …). On the Streamable server `WithMiddleware` only appends to
  `pendingMiddlewares`; the handler is created by `initComponents` after the last option ran. On the legacy SSE server the
  handler exists before the options run and `WithSSEMiddleware` registers on the handler *of that moment*: an option whose
  closure assigned a fresh handler to the field `mcpHandler` would silently drop everything registered before it.
  The model is a family indexed by the regenerated list of the functions that write that field
  (`Mcp.Gen.mwHandlerWriters`). -/

/-- One constructor option, in the order given to the constructor. -/
inductive Opt
  | mw (ms : List Stage)    -- `WithMiddleware(ms…)` / `WithSSEMiddleware(ms…)`
  | other (name : Text)     -- any other option, named by the Go function that builds it (`WithSSEServerLogger`, …)
  deriving Repr, DecidableEq

/-- The middleware options of an option list, in order. -/
def Opt.groups : List Opt → List (List Stage)
  | [] => []
  | .mw ms :: r => ms :: Opt.groups r
  | .other _ :: r => Opt.groups r

/-- The functions that legitimately give the field `mcpHandler` its value: the constructors, one site each
    (`NewSSEServer`: the composite literal; `NewServer` → `Server.initComponents`: after the options). -/
def handlerConstructors : List Text := [t!"NewSSEServer", t!"Server.initComponents"]

/-- **No option / method replaces the handler**: the regenerated writers of the field (one entry per site, sorted) are
    exactly the constructors. A closure (`WithX.func1`), a method, a second site in a constructor, a site the extractor
    cannot classify (`…:address-taken`, …) or a missing constructor all make this `false`. -/
def handlerNotReplaced (writers : List Text) : Bool := writers == handlerConstructors

/-- Option `name` replaces the handler when the closure it returns (`name.func1`, as the Go tool chain and the extractor
    name it) is among the writers of the field. -/
def replacesHandler (writers : List Text) (name : Text) : Bool := writers.contains (name ++ t!".func1")

/-- `NewSSEServer(opts…)`, all options: a middleware option registers on the current handler, an option that replaces the
    handler starts again from an empty chain, any other option leaves it alone. -/
def sseOptStep (writers : List Text) (reg : List Stage) : Opt → List Stage
  | .mw ms => ms.foldl use reg
  | .other n => if replacesHandler writers n then [] else reg

def newSSEServerX (writers : List Text) (opts : List Opt) : List Stage := opts.foldl (sseOptStep writers) []

/-- `NewServer(opts…)`, all options: the pending list is untouched by whatever an option does to the field; the handler is
    created afterwards. -/
def newServerX (opts : List Opt) : List Stage := newServer (Opt.groups opts)

def registeredX (writers : List Text) (tr : Transport) (opts : List Opt) : List Stage :=
  match tr with
  | .streamable => newServerX opts
  | .sse => newSSEServerX writers opts

/-- `serve` for a server built from the full option list. -/
def serveX (f : Facts) (writers : List Text) (tr : Transport) (opts : List Opt) (h : Req → Out) : Msg → List Ev × Option Resp
  | .request r =>
    let x := applyMiddlewares f (registeredX writers tr opts) (core h) r
    (x.1, some (respond (f.code tr) x.2))
  | .notification =>
    if f.notifBypass then ([], none)
    else ((applyMiddlewares f (registeredX writers tr opts) (fun _ => ([], .ok (.handler []) [])) {}).1, none)

/-- The writers of today's source. -/
def codeWriters : List Text := Mcp.Gen.mwHandlerWriters

/-! ### overlapping requests of one session

  The legacy SSE server answers the POST with 202 *before* the request is processed: `handleMessage` →
  `handleRequestMessage` (`go s.processRequestAsync(…)`) → `mcpHandler.handleRequest`. Anything conditional between the
  acknowledgement and the hand-over — e.g. a bounded token channel taken with a non-blocking `select … default: return` —
  would make a request that arrives while enough others of its session are still being processed vanish: acknowledged,
  never in the chain, never answered. The Streamable server runs the chain inside the HTTP handler of the POST
  (straight-line code up to both `handleRequest` calls). The model is a family indexed by such an admission gate. -/

/-- Is a request admitted to the chain when `inflight` requests of its session are being processed?
    `gate = none`: unconditional hand-over; `some cap`: a non-blocking gate with `cap` tokens. -/
def admitted (gate : Option Nat) (inflight : Nat) : Bool :=
  match gate with
  | none => true
  | some cap => inflight < cap

/-- One message that arrives while `inflight` requests of the same session are in flight. A request that is not admitted
    leaves no trace and gets no answer. -/
def serveOverlapping (f : Facts) (gate : Option Nat) (tr : Transport) (opts : List (List Stage)) (h : Req → Out)
    (inflight : Nat) (m : Msg) : List Ev × Option Resp :=
  if admitted gate inflight then serve f tr opts h m else ([], none)

/-- The shape of `SSEServer.handleRequestMessage` with an unconditional hand-over (the parse guard can only fire for a body
    that `handleMessage` already parsed as a JSON-RPC message). -/
def sseDispatchDirect : List Text := [t!"decl", t!"unmarshal-guard", t!"go-dispatch"]

/-- … and of `processRequestAsync` up to `mcpHandler.handleRequest` (the roots-response guard needs a message without method). -/
def sseProcessDirect : List Text := [t!"detach", t!"roots-response-guard"]

/-- **No request is dropped between its acknowledgement and the chain** (legacy SSE), **nothing conditional on the
    Streamable POST path**: the regenerated shapes are exactly the straight-line ones. -/
def dispatchNeverDrops (shape pre : List Text) (ackThenDispatch : Bool) (streamableSelects : Nat) : Bool :=
  shape == sseDispatchDirect && pre == sseProcessDirect && ackThenDispatch && streamableSelects == 0

/-- The gate of today's source: none when the shapes are the straight-line ones; an unrecognised shape is read in the
    most pessimistic way (a gate without tokens), so that the differential run cannot agree by accident. -/
def codeGate (_tr : Transport) : Option Nat :=
  if dispatchNeverDrops Mcp.Gen.mwSSEDispatchShape Mcp.Gen.mwSSEProcessPrefix Mcp.Gen.mwSSEAckThenDispatch
      Mcp.Gen.mwStreamableDispatchSelects then none else some 0

/-! ### vocabulary of the theorems -/

def Beh.calls : Beh → Bool
  | .pass | .modReq | .modRes => true
  | .short _ | .fail _ => false

def Beh.isModReq : Beh → Bool
  | .modReq => true
  | _ => false

def Beh.isModRes : Beh → Bool
  | .modRes => true
  | _ => false

/-- What a stage that does not call `next` returns. -/
def Beh.stopOut : Beh → Out
  | .short v => v.out
  | .fail e => .err e
  | _ => .err []

/-- The stages in front of the first one that does not call `next`. -/
def live : List Stage → List Stage
  | [] => []
  | s :: ms => if s.beh.calls then s :: live ms else []

/-- The first stage that does not call `next`. -/
def stopper : List Stage → Option Stage
  | [] => none
  | s :: ms => if s.beh.calls then stopper ms else some s

/-- Everything behind the first stage that does not call `next`. -/
def inside : List Stage → List Stage
  | [] => []
  | s :: ms => if s.beh.calls then inside ms else ms

/-- Ids of the request-modifying stages, outermost first. -/
def reqMods (ms : List Stage) : List Nat := (ms.filter (·.beh.isModReq)).map (·.id)

/-- The result marks the stages `ms` (outermost first) leave on what comes back from inside. -/
def resMods : List Stage → Out → Out
  | [], o => o
  | s :: ms, o => if s.beh.isModRes then (resMods ms o).addMod s.id else resMods ms o

inductive Tag
  | b (id : Nat) | a (id : Nat) | h
  deriving Repr, DecidableEq

def Ev.tag : Ev → Tag
  | .before i _ => .b i
  | .after i _ => .a i
  | .handler _ => .h

def tags (t : List Ev) : List Tag := t.map Ev.tag

def beforeIds (t : List Ev) : List Nat := t.filterMap (fun | .before i _ => some i | _ => none)
def afterIds (t : List Ev) : List Nat := t.filterMap (fun | .after i _ => some i | _ => none)
def handlerRuns (t : List Ev) : Nat := (t.filter (fun | .handler _ => true | _ => false)).length

/-- What is printed of a trace: handler events only where the harness can observe the handler
    (`tools/call` through the tool, the `…/list` methods through the list filters). -/
def visible (handlerObservable : Bool) (t : List Ev) : List Ev :=
  if handlerObservable then t else t.filter (fun | .handler _ => false | _ => true)

/-- The facts of today's source. -/
def codeFacts : Facts :=
  { firstOutermost := Mcp.Gen.mwLoopDescending
    notifBypass := Mcp.Gen.mwNotificationsBypass
    codeStreamable := Mcp.Gen.mwInternalCodeStreamable
    codeSSE := Mcp.Gen.mwInternalCodeSSE }

/-! ## fresh results (`extract/middleware.go` `mwSharedResults`) -/

/-- Every request handler hands out a result of its own: none returns a package-level variable, and `handlePing`
    returns a composite literal (or a `make`), built per call. -/
def freshResults (shared : List (List Nat × List Nat)) (ping : List Nat) : Bool :=
  shared.isEmpty && (ping == t!"literal" || ping == t!"make")

/-- Two requests of one method, a result-modifying stage (mark `m`, written into the result object in place) on the path
    of the FIRST only: the marks the second one's answer carries.  With one object handed out to both, the first
    request's modification travels with it. -/
def secondAnswerMarks (fresh : Bool) (m : Nat) : List Nat := if fresh then [] else [m]

/-- Whether the after-stages of two requests work on one object, as read from today's source. -/
def codeFreshResults : Bool := freshResults Mcp.Gen.mwSharedResultReturns Mcp.Gen.mwPingResultShape

end Mcp.Middleware
