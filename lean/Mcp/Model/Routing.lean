/-
  Server-initiated traffic (C05): notifications and requests a server sends to its sessions, and the answers clients
  post back.

  * Streamable HTTP (`server.go SendNotification / BroadcastNotification / SendFilteredNotification / ListRoots`,
    `streamable_server.go sendNotificationToGetSSE / SendRequest / handlePostResponse`, `responseManager`):
    a frame for session `s` is written on the GET stream registered for `s`; no stream ⇒ the send fails.
    Pending server→client requests live in one server-wide map keyed by `requestIDKey(id)` (`fmt.Sprintf("%v", id)` before
    the D01 repair); the entry remembers the session the request was sent to and `DeliverResponse` accepts an answer only
    from that session (before the D13 repair: looked up by the id alone).
  * legacy SSE (`sse_server.go SendNotification / ListRoots / SendRequest / handleResponseMessage`): a session *is* its
    SSE connection; notifications go through `notificationChannel`, requests through `eventQueue` (two queues, so order is
    kept per kind only); `sendNotificationToSession` refuses sessions that are not `Initialized()`; the pending map is
    keyed by `uint64(id)`; the entry remembers its session and `handleResponseMessage` compares it with the posting session
    (before the D13 repair the `session` argument was ignored); `notifications/initialized` marks the session initialized
    (before the D14 repair nothing did).
  * stdio (`stdio_server.go SendRequest / HandleResponse`): one session; notifications through the session's
    notification channel, requests through its message channel; pending map keyed by `uint64(id)`.

  `delivered` is the global write log `(session whose stream was written, frame)` in write (enqueue) order; the outbox of
  a session is its projection.  Structural facts of the source (`Facts`) are regenerated in `Mcp.Gen.PendingFacts`.
-/
import Mcp.Model.Pending
namespace Mcp.Routing
open Mcp.Str Mcp.Ids Mcp.Pending

inductive Server where
  | streamable (stateless : Bool)
  | legacySse
  | stdio
  deriving DecidableEq, Repr

structure Facts where
  streamableIdKey : Bool       -- the Streamable pending table renders ids with requestIDKey on both sides (else `%v`)
  answerChecksSession : Bool   -- every lookup site of the pending tables takes the posting session into account
  sseInitialized : Bool        -- something marks a legacy SSE session initialized (or the guard is gone)
  deferredDelete : Bool        -- the insert into the pending table has its matching deferred delete
  deriving DecidableEq, Repr

inductive Kind where
  | notif
  | req
  deriving DecidableEq, Repr

structure Frame where
  kind : Kind
  to : Nat        -- the session the sender addressed
  tag : Nat       -- nonce of the send
  deriving DecidableEq, Repr

structure PEntry where
  key : Key
  to : Nat                       -- the session the request was sent to
  tag : Nat
  slot : Option (Nat × Nat)      -- (posting session, payload) put into the 1-slot channel
  deriving DecidableEq, Repr

structure Result where
  tag : Nat
  to : Nat
  answer : Option (Nat × Nat)    -- (posting session, payload); none = timeout / cancellation
  deriving DecidableEq, Repr

structure St where
  nextSid : Nat := 0
  sessions : List Nat := []              -- active sessions
  streams : List Nat := []               -- sessions with an open listening stream
  broken : List Nat := []                -- sessions whose registered stream fails every write (peer reset, failing writer)
  delivered : List (Nat × Frame) := []   -- write log
  nextId : Nat := 0                      -- server-wide request counter
  pending : List PEntry := []
  waiting : List Nat := []               -- requests whose `SendRequest` call has not returned yet
  results : List Result := []
  deriving Repr

inductive Op where
  | newSession                      -- initialize (Streamable) / GET /sse (legacy: session and stream at once)
  | delSession (s : Nat)            -- DELETE (Streamable) / disconnect (legacy SSE)
  | openStream (s : Nat)            -- GET (Streamable)
  | breakStream (s : Nat)           -- GET (Streamable) whose stream is registered but fails every write from now on
  | closeStream (s : Nat)
  | send (s m : Nat)                -- SendNotification(s, …) tagged m
  | broadcast (m : Nat)
  | filtered (sel : List Nat) (m : Nat)
  | request (s m : Nat)             -- ListRoots inside session s, tagged m
  | postAnswer (p : Nat) (id : WireId) (payload : Nat)   -- a client of session p posts a JSON-RPC response
  | complete (m : Nat)              -- the waiting SendRequest of m wakes up on its channel
  | timeout (m : Nat)
  | cancel (m : Nat)
  deriving DecidableEq, Repr

inductive Err where
  | stateless | noStream | writeFailed | notFound | notInitialized | allFailed | unsupported | disabled
  deriving DecidableEq, Repr

inductive Ret where
  | ok
  | err (e : Err)
  | sid (s : Nat)
  | count (n : Nat) (e : Option Err)                 -- BroadcastNotification
  | counts (n failed : Nat) (e : Option Err)         -- SendFilteredNotification
  | issued (id : Nat)                                -- the request frame is out, the caller waits
  | posted (status : Nat)                            -- HTTP status of the client's POST
  | answered (p payload : Nat)                       -- ListRoots returned the payload posted by session p
  | failed                                           -- ListRoots returned an error (timeout / cancelled)
  deriving DecidableEq, Repr

def keyKind (f : Facts) : Server → KeyKind
  | .streamable _ => if f.streamableIdKey then .idKey else .sprintfV
  | _ => .uint64

def hasStream (s : St) (a : Nat) : Bool := s.streams.contains a

/-- a write to session `a`'s stream succeeds: it has a registered stream and that stream is not broken. -/
def reaches (s : St) (a : Nat) : Bool := hasStream s a && !s.broken.contains a

def notifFrame (a m : Nat) : Nat × Frame := (a, ⟨.notif, a, m⟩)

/-- can a notification for session `a` be written? (Streamable: its GET stream exists; legacy SSE: session exists and
    is initialized; stdio: the one session) -/
def canNotify (srv : Server) (f : Facts) (s : St) (a : Nat) : Except Err Unit :=
  match srv with
  | .streamable _ => if !hasStream s a then .error .noStream else if s.broken.contains a then .error .writeFailed else .ok ()
  | .legacySse => if !s.sessions.contains a then .error .notFound else if !f.sseInitialized then .error .notInitialized else .ok ()
  | .stdio => if a = 0 then .ok () else .error .notFound

/-- does the server know session `a`? (stdio: the one session 0) -/
def sessionExists (srv : Server) (s : St) (a : Nat) : Bool :=
  match srv with
  | .stdio => a == 0
  | _ => s.sessions.contains a

/-- can a request frame for session `a` be written? (Streamable: its GET stream exists; the others queue it) -/
def streamOk (srv : Server) (s : St) (a : Nat) : Bool :=
  match srv with
  | .streamable _ => hasStream s a
  | _ => true

def fillP (checkSession : Bool) (key : Key) (p payload : Nat) : List PEntry → List PEntry
  | [] => []
  | e :: es =>
    if e.key = key then
      (if e.slot.isNone && (!checkSession || e.to = p) then { e with slot := some (p, payload) } else e) :: es
    else e :: fillP checkSession key p payload es

def findTag (m : Nat) : List PEntry → Option PEntry
  | [] => none
  | e :: es => if e.tag = m then some e else findTag m es

def removeTag (m : Nat) (p : List PEntry) : List PEntry := p.filter (fun e => e.tag ≠ m)

def step (srv : Server) (f : Facts) (s : St) : Op → St × Ret
  | .newSession =>
    match srv with
    | .streamable true => (s, .err .stateless)
    | .streamable false => ({ s with nextSid := s.nextSid + 1, sessions := s.sessions ++ [s.nextSid] }, .sid s.nextSid)
    | .legacySse => ({ s with nextSid := s.nextSid + 1, sessions := s.sessions ++ [s.nextSid], streams := s.streams ++ [s.nextSid] }, .sid s.nextSid)
    | .stdio => (s, .err .unsupported)
  | .delSession a =>
    if s.sessions.contains a then
      ({ s with sessions := s.sessions.filter (· ≠ a), streams := s.streams.filter (· ≠ a), broken := s.broken.filter (· ≠ a) }, .ok)
    else (s, .err .notFound)
  | .openStream a =>
    match srv with
    | .streamable false =>
      if s.sessions.contains a then
        ({ s with streams := s.streams.filter (· ≠ a) ++ [a], broken := s.broken.filter (· ≠ a) }, .ok)
      else (s, .err .notFound)
    | _ => (s, .err .unsupported)
  | .breakStream a =>
    match srv with
    | .streamable false =>
      if s.sessions.contains a then
        ({ s with streams := s.streams.filter (· ≠ a) ++ [a], broken := s.broken.filter (· ≠ a) ++ [a] }, .ok)
      else (s, .err .notFound)
    | _ => (s, .err .unsupported)
  | .closeStream a =>
    match srv with
    | .streamable false => ({ s with streams := s.streams.filter (· ≠ a), broken := s.broken.filter (· ≠ a) }, .ok)
    | .legacySse => ({ s with sessions := s.sessions.filter (· ≠ a), streams := s.streams.filter (· ≠ a) }, .ok)
    | _ => (s, .err .unsupported)
  | .send a m =>
    match srv with
    | .streamable true => (s, .err .stateless)
    | _ =>
      match canNotify srv f s a with
      | .ok _ => ({ s with delivered := s.delivered ++ [notifFrame a m] }, .ok)
      | .error e => (s, .err e)
  | .broadcast m =>
    match srv with
    | .streamable true => (s, .err .stateless)
    | .streamable false =>
      let reached := s.sessions.filter (reaches s)
      let failedN := s.sessions.length - reached.length
      ({ s with delivered := s.delivered ++ reached.map (fun a => notifFrame a m) },
       if failedN = s.sessions.length ∧ failedN > 0 then .count 0 (some .allFailed) else .count reached.length none)
    | _ => (s, .err .unsupported)
  | .filtered sel m =>
    match srv with
    | .streamable true => (s, .err .stateless)
    | .streamable false =>
      let chosen := s.sessions.filter (sel.contains ·)
      let reached := chosen.filter (reaches s)
      let failedN := chosen.length - reached.length
      ({ s with delivered := s.delivered ++ reached.map (fun a => notifFrame a m) },
       if failedN > 0 ∧ reached.length = 0 then .counts 0 failedN (some .allFailed) else .counts reached.length failedN none)
    | _ => (s, .err .unsupported)
  | .request a m =>
    match srv with
    | .streamable true => (s, .err .stateless)
    | _ =>
      if !sessionExists srv s a then (s, .err .notFound) else
      -- the counter is consumed before the stream is looked up
      if !streamOk srv s a then ({ s with nextId := s.nextId + 1 }, .err .noStream) else
      -- the frame cannot be written: the entry registered for it is removed again by the deferred delete
      if s.broken.contains a then ({ s with nextId := s.nextId + 1 }, .err .writeFailed) else
      match keyOfReq (keyKind f srv) (.int (Int.ofNat (s.nextId + 1))) with
      | none => ({ s with nextId := s.nextId + 1 }, .err .unsupported)
      | some key =>
        ({ s with nextId := s.nextId + 1, pending := s.pending ++ [⟨key, a, m, none⟩], waiting := s.waiting ++ [m],
                  delivered := s.delivered ++ [(a, ⟨.req, a, m⟩)] }, .issued (s.nextId + 1))
  | .postAnswer p idw payload =>
    match srv with
    | .streamable true => (s, .posted 202)      -- a throw-away session per POST: nothing is ever pending
    | _ =>
      if !sessionExists srv s p then (s, .posted 404) else
      match keyOfWire (keyKind f srv) idw with
      | none => (s, .posted 202)
      | some key => ({ s with pending := fillP f.answerChecksSession key p payload s.pending }, .posted 202)
  | .complete m =>
    match findTag m s.pending with
    | some e =>
      match e.slot with
      | some (p, pl) =>
        ({ s with pending := removeTag m s.pending, waiting := s.waiting.filter (· ≠ m), results := s.results ++ [⟨m, e.to, some (p, pl)⟩] }, .answered p pl)
      | none => (s, .err .disabled)
    | none => (s, .err .disabled)
  | .timeout m =>
    match findTag m s.pending with
    | some e =>
      ({ s with pending := if f.deferredDelete then removeTag m s.pending else s.pending,
                waiting := s.waiting.filter (· ≠ m), results := s.results ++ [⟨m, e.to, none⟩] }, .failed)
    | none => (s, .err .disabled)
  | .cancel m =>
    match findTag m s.pending with
    | some e =>
      ({ s with pending := if f.deferredDelete then removeTag m s.pending else s.pending,
                waiting := s.waiting.filter (· ≠ m), results := s.results ++ [⟨m, e.to, none⟩] }, .failed)
    | none => (s, .err .disabled)

def run (srv : Server) (f : Facts) : St → List Op → St × List Ret
  | s, [] => (s, [])
  | s, o :: os =>
    let (s1, r) := step srv f s o
    let (s2, rs) := run srv f s1 os
    (s2, r :: rs)

/-- initial state: a server whose request counter stands at `start`; stdio has its one session with its stream. -/
def init (srv : Server) (start : Nat) : St :=
  match srv with
  | .stdio => { nextId := start, sessions := [0], streams := [0], nextSid := 1 }
  | _ => { nextId := start }

/-- frames written on session `a`'s stream, of kind `k`, in write order (tags). -/
def outboxTags (s : St) (a : Nat) (k : Kind) : List Nat :=
  (s.delivered.filter (fun x => x.1 = a ∧ x.2.kind = k)).map (fun x => x.2.tag)

/-- tags of the sends of kind `k` in a history, in sending order. -/
def opTags (k : Kind) : List Op → List Nat
  | [] => []
  | .send _ m :: os => (if k = .notif then [m] else []) ++ opTags k os
  | .broadcast m :: os => (if k = .notif then [m] else []) ++ opTags k os
  | .filtered _ m :: os => (if k = .notif then [m] else []) ++ opTags k os
  | .request _ m :: os => (if k = .req then [m] else []) ++ opTags k os
  | _ :: os => opTags k os

end Mcp.Routing
