/-
  The GET-stream table of one session (`streamable_server.go handleGet`, `cleanupSession`,
  `sendNotificationToGetSSE`) under interleaving.  Each GET is a handler thread that performs, as separate
  atomic steps: flush the response headers, store itself in the table (cancelling the stream it replaces),
  wait, wake up once cancelled, and leave (removing a table entry).  Sends interleave anywhere.
  Two structural facts of the source are parameters (regenerated in `Mcp.Gen.HandleGet`):
  * `flushBeforeStore`   – the headers are flushed before the table store,
  * `identityCheckOnExit` – the exit path removes the entry only if it is the handler's own connection.
-/
namespace Mcp.Streams

structure Facts where
  flushBeforeStore : Bool
  identityCheckOnExit : Bool
  /-- the exit path marks the connection closed under its write lock, and writers check the mark under that lock
      (otherwise a writer that looked the connection up before the exit writes to a finished response) -/
  closedMarkOnExit : Bool := true
  deriving Repr, DecidableEq

def Facts.good (f : Facts) : Bool := !f.flushBeforeStore && f.identityCheckOnExit

/-- One handler thread (one GET request). -/
structure H where
  opened : Bool := false
  stored : Bool := false
  flushed : Bool := false     -- the client has (or can have) received this stream's response headers
  cancelled : Bool := false   -- its context is cancelled (replaced by a newer stream, DELETE, or client gone)
  woken : Bool := false
  exited : Bool := false
  deriving Repr, DecidableEq

inductive Ev where
  | open_ (n : Nat)          -- a new GET arrives (fresh n)
  | flush (n : Nat)
  | store (n : Nat)
  | clientClose (n : Nat)    -- the client drops stream n
  | wake (n : Nat)
  | exit_ (n : Nat)
  | delete                   -- DELETE of the session: cleanupSession
  | send (m : Nat)           -- SendNotification / SendRequest addressed to the session (lookup and write back to back)
  | sendBegin (m : Nat)      -- …the table lookup of a send
  | sendEnd (m : Nat)        -- …its write on the connection it found
  | breakStream (n : Nat)    -- from now on writes on stream n fail (dead peer: EPIPE)
  deriving Repr, DecidableEq

structure St where
  hs : Nat → H := fun _ => {}
  table : Option Nat := none
  delivered : List (Nat × Nat) := []    -- (stream, message)
  failed : List Nat := []               -- messages whose send returned "session not found"
  inflight : List (Nat × Nat) := []     -- (message, connection found by the lookup) of sends between lookup and write
  crashed : List Nat := []              -- messages whose write hit a response whose handler had already returned (panic)
  broken : List Nat := []               -- streams on which writes fail
  dead : Bool := false                  -- the session was terminated (DELETE): a GET that has not yet passed the session lookup gets 404

def upd (f : Nat → H) (i : Nat) (v : H) : Nat → H := fun j => if j = i then v else f j
@[simp] theorem upd_same (f : Nat → H) (i : Nat) (v : H) : upd f i v i = v := by simp [upd]
theorem upd_other (f : Nat → H) (i j : Nat) (v : H) (h : j ≠ i) : upd f i v j = f j := by simp [upd, h]

def cancel (hs : Nat → H) (n : Nat) : Nat → H := upd hs n { hs n with cancelled := true }

def step (f : Facts) (s : St) : Ev → Option St
  | .open_ n => if (s.hs n).opened then none else some { s with hs := upd s.hs n { s.hs n with opened := true } }
  | .flush n =>
    let h := s.hs n
    if h.opened && !h.flushed && (f.flushBeforeStore || h.stored) && !(s.dead && !h.stored && !h.flushed) then
      some { s with hs := upd s.hs n { h with flushed := true } }
    else none
  | .store n =>
    let h := s.hs n
    if h.opened && !h.stored && (!f.flushBeforeStore || h.flushed) && !(s.dead && !h.stored && !h.flushed) then
      -- under the table lock: cancel the stream being replaced, then store
      let hs1 := match s.table with
        | some o => cancel s.hs o
        | none => s.hs
      some { s with hs := upd hs1 n { hs1 n with stored := true }, table := some n }
    else none
  | .clientClose n =>
    if (s.hs n).opened && !(s.hs n).exited then some { s with hs := cancel s.hs n } else none
  | .wake n =>
    let h := s.hs n
    if h.stored && h.flushed && h.cancelled && !h.woken then some { s with hs := upd s.hs n { h with woken := true } } else none
  | .exit_ n =>
    let h := s.hs n
    if h.woken && !h.exited then
      some { s with hs := upd s.hs n { h with exited := true },
                    table := if f.identityCheckOnExit then (if s.table = some n then none else s.table) else none }
    else none
  | .delete =>
    match s.table with
    | some o => some { s with hs := cancel s.hs o, table := none, dead := true }
    | none => some { s with dead := true }
  | .send m =>
    match s.table with
    | some c =>
      -- a failed write is reported to the caller and changes nothing else (in particular not the table)
      if s.broken.contains c then some { s with failed := s.failed ++ [m] }
      else some { s with delivered := s.delivered ++ [(c, m)] }
    | none => some { s with failed := s.failed ++ [m] }
  | .breakStream n => some { s with broken := n :: s.broken }
  | .sendBegin m =>
    if s.inflight.any (·.1 == m) then none else
    match s.table with
    | some c => some { s with inflight := s.inflight ++ [(m, c)] }
    | none => some { s with failed := s.failed ++ [m] }
  | .sendEnd m =>
    match s.inflight.find? (·.1 == m) with
    | none => none
    | some (_, c) =>
      let rest := s.inflight.filter (·.1 != m)
      if (s.hs c).exited then
        if f.closedMarkOnExit then some { s with inflight := rest, failed := s.failed ++ [m] }
        else some { s with inflight := rest, crashed := s.crashed ++ [m] }
      else if s.broken.contains c then some { s with inflight := rest, failed := s.failed ++ [m] }
      else some { s with inflight := rest, delivered := s.delivered ++ [(c, m)] }

def run (f : Facts) : St → List Ev → Option St
  | s, [] => some s
  | s, e :: es => match step f s e with
    | none => none
    | some s' => run f s' es

/-- A stream whose headers the client has seen and that nobody has ended. -/
def listening (s : St) (n : Nat) : Bool := (s.hs n).flushed && !(s.hs n).cancelled

end Mcp.Streams
