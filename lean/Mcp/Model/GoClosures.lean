/-
  C20 — local variables shared with goroutines started inside one function (the regenerated table
  `Mcp.Gen.rcSharedLocals`, `extract/races_goclosures.go`).

  A function that starts goroutines with `go func(){…}()` (or `go f()` for a literal bound to a local) shares its
  locals, parameters and named results with them.  The table lists every such variable that a goroutine literal WRITES
  (assignment, op-assignment, ++, `v = append(v, …)`, a store into a captured map or into a field of a captured struct
  value), the number of goroutine INSTANCES that write it (a go statement in a loop, or repeated, counts as two = many)
  and per write the mutexes lexically held inside the literal.  A variable is used with discipline when at most one
  goroutine instance writes it (the function joins — WaitGroup, channel — before it looks itself: not checked) or when
  all its writes hold one common mutex exclusively (`Mcp.Lockset.disciplined` over the write records).
-/
import Mcp.Model.Lockset
namespace Mcp.GoClosures
open Mcp.Str Mcp.Lockset

structure SharedLocal where
  fn : Text
  var : Text
  type : Text
  writers : Nat          -- goroutine instances that write the variable; 2 = two or more
  accs : List Acc        -- the distinct write records ⟨goroutine literal, .write, .plain, mutexes held in the literal, false⟩
  deriving Repr, DecidableEq

def asField (l : SharedLocal) : Field := ⟨l.fn, l.var, l.accs⟩

def lDisciplined (l : SharedLocal) : Bool :=
  decide (l.writers ≤ 1) || ((l.accs.any fun a => a.kind == .write) && disciplined (asField l))

def AllSharedLocalsDisciplined (tab : List SharedLocal) : Prop := ∀ l ∈ tab, lDisciplined l = true

/-! ### literal records (not regenerated) -/

/-- `close` closes three pipes in three goroutines (`go closePipe(…)` three times) and each appends its failure to the
    function's `errs` slice with no lock. -/
def errsAppendedByClosers : SharedLocal :=
  ⟨t!"stdioClientTransport.close", t!"errs", t!"[]error", 2,
   [⟨t!"stdioClientTransport.close.go#1", .write, .plain, [], false⟩]⟩

/-- The same with a mutex of the function around the append. -/
def errsAppendedUnderMutex : SharedLocal :=
  ⟨t!"stdioClientTransport.close", t!"errs", t!"[]error", 2,
   [⟨t!"stdioClientTransport.close.go#1", .write, .plain, [(t!"errsMu", true)], false⟩]⟩

/-- One goroutine reports its outcome in a variable the function reads after joining. -/
def singleWriter : SharedLocal :=
  ⟨t!"sseClientTransport.start", t!"startErr", t!"error", 1,
   [⟨t!"sseClientTransport.start.go#1", .write, .plain, [], false⟩]⟩

/-- Workers in a loop: the total under the mutex in one place, without it in another. -/
def halfGuardedTotal : SharedLocal :=
  ⟨t!"Server.broadcast", t!"failed", t!"int", 2,
   [⟨t!"Server.broadcast.go#1", .write, .plain, [(t!"mu", true)], false⟩,
    ⟨t!"Server.broadcast.go#1", .write, .plain, [], false⟩]⟩

/-- Only a read lock around the write. -/
def underReadLock : SharedLocal :=
  ⟨t!"Server.broadcast", t!"failed", t!"int", 2,
   [⟨t!"Server.broadcast.go#1", .write, .plain, [(t!"mu", false)], false⟩]⟩

end Mcp.GoClosures
