/-
  C18 — schema generation (internal/schema/converter.go) against encoding/json.

  * `GoType`     the Go type grammar (fields carry the raw `json` / `jsonschema` tag values, exactly what
                 `reflect.StructTag.Get` hands to the generators, and the embedded flag);
  * `jsonFieldNames`, `enc` (= `encodeFull`)   encoding/json on that grammar (field naming, `-`, `omitempty`,
                 `,string`, promotion of embedded structs; tag names are assumed valid and pairwise distinct);
  * `Sch`, `Doc` the JSON-Schema fragment the generators emit;
  * `genInline`  convertReflectTypeToSchemaWithVisited on types without named (recursive) struct types — there
                 the visited table is a pure memo;
  * `genNestedDoc` convertWithNestedRefs (the default style) with its seen table and path, named types through an
                 environment, fuel only for unfolding a named type;
  * `genDefsDoc` generateWithRefs ($defs style) with its visited table and placeholder pattern;
  * `validates`  JSON-Schema validation for the fragment, `$ref` resolved as a JSON pointer inside the document.
  Exported struct fields only.  Everything is total and computable (no `partial`): Lean's termination checker is
  the termination argument for the transcribed generators.
-/
import Mcp.Model.Str
namespace Mcp.Schema
open Mcp.Str

/-! ## Go types -/

structure FieldMeta where
  goName : Text
  jsonTag : Text      -- value of the `json` key of the struct tag ("" = absent)
  jsTag : Text        -- value of the `jsonschema` key
  embedded : Bool
deriving DecidableEq, Repr

inductive GoType where
  | str
  | int (k : Nat)        -- k: which of int, int8 … uint64 (all generate "integer")
  | float (k : Nat)
  | bool
  | bytes                -- []byte (a slice of uint8 is always written `bytes`)
  | time                 -- time.Time
  | iface                -- interface{}
  | ptr (e : GoType)
  | slice (e : GoType)
  | array (n : Nat) (e : GoType)
  | map (e : GoType)     -- map[string]e
  | struct (fs : List (FieldMeta × GoType))   -- anonymous struct type
  | named (n : Text)     -- named struct type, looked up in the environment

abbrev Fields := List (FieldMeta × GoType)
abbrev Env := List (Text × Fields)

-- reflect.Type identity on the grammar: structural for unnamed types, by name for named ones.
mutual
def GoType.beq : GoType → GoType → Bool
  | .str, .str => true
  | .int a, .int b => a == b
  | .float a, .float b => a == b
  | .bool, .bool => true
  | .bytes, .bytes => true
  | .time, .time => true
  | .iface, .iface => true
  | .ptr a, .ptr b => GoType.beq a b
  | .slice a, .slice b => GoType.beq a b
  | .array n a, .array m b => n == m && GoType.beq a b
  | .map a, .map b => GoType.beq a b
  | .struct fs, .struct gs => beqFields fs gs
  | .named a, .named b => a == b
  | _, _ => false
def beqFields : Fields → Fields → Bool
  | [], [] => true
  | (m, t) :: fs, (m', t') :: gs => m == m' && GoType.beq t t' && beqFields fs gs
  | _, _ => false
end

def isPtr : GoType → Bool
  | .ptr _ => true
  | _ => false

/-! ## struct tags -/

/-- `strings.Split(s, sep)` for a one-character separator. -/
def splitOn (sep : Nat) : Text → List Text
  | [] => [[]]
  | c :: s =>
    if c == sep then [] :: splitOn sep s
    else match splitOn sep s with
      | p :: ps => (c :: p) :: ps
      | [] => [[c]]

def tagName (tag : Text) : Text := (splitOn 44 tag).headD []
def tagOpts (tag : Text) : List Text := (splitOn 44 tag).tail

/-- converter.go getJSONFieldName. -/
def legacyName (m : FieldMeta) : Text :=
  if m.jsonTag == [] then m.goName
  else if tagName m.jsonTag != [] then tagName m.jsonTag else m.goName

/-- the `jsonName == "" || jsonName == "-"` test of the inline and $defs generators. -/
def legacySkip (m : FieldMeta) : Bool := legacyName m == [] || legacyName m == t!"-"

/-- converter.go isRequiredField. -/
def isRequired (m : FieldMeta) (fieldIsPtr : Bool) : Bool :=
  let js := m.jsTag
  if js == t!"required" || hasPrefix js t!"required," || hasPrefix js t!"required;" ||
     contains js t!",required," || contains js t!";required;" ||
     hasSuffix js t!",required" || hasSuffix js t!";required" then true
  else if js != [] then false
  else if contains m.jsonTag t!"omitempty" then false
  else !fieldIsPtr

/-- the nested generator's own tag handling (generateStructSchema). -/
def nestedName (m : FieldMeta) : Text :=
  if m.jsonTag != [] && tagName m.jsonTag != [] then tagName m.jsonTag else m.goName
def nestedOmit (m : FieldMeta) : Bool := m.jsonTag != [] && (tagOpts m.jsonTag).contains t!"omitempty"

/-- encoding/json: field name, options. -/
def jsonName (m : FieldMeta) : Text := if tagName m.jsonTag != [] then tagName m.jsonTag else m.goName
def jsonSkip (m : FieldMeta) : Bool := m.jsonTag == t!"-"
def jsonOmit (m : FieldMeta) : Bool := (tagOpts m.jsonTag).contains t!"omitempty"
def jsonString (m : FieldMeta) : Bool := (tagOpts m.jsonTag).contains t!"string"
def promotes (m : FieldMeta) : Bool := m.embedded && tagName m.jsonTag == []

mutual
/-- The JSON member names encoding/json uses for a struct with these fields (no name conflicts). -/
def jsonFieldNames : Fields → List Text
  | [] => []
  | (m, t) :: fs =>
    if jsonSkip m then jsonFieldNames fs
    else if promotes m then
      match promotedNames t with
      | some ns => ns ++ jsonFieldNames fs
      | none => jsonName m :: jsonFieldNames fs
    else jsonName m :: jsonFieldNames fs
def promotedNames : GoType → Option (List Text)
  | .struct fs => some (jsonFieldNames fs)
  | .ptr (.struct fs) => some (jsonFieldNames fs)
  | _ => none
end

/-! ## JSON, values, encoding -/

inductive Json where
  | null
  | bool (b : Bool)
  | num (m : Int) (e : Nat)          -- m · 10^(-e); e = 0: an integer
  | str (s : Text)
  | arr (xs : List Json)
  | obj (kvs : List (Text × Json))

instance : Inhabited Json := ⟨.null⟩

inductive GoVal where
  | str (s : Text) | int (i : Int) | float (m : Int) (e : Nat) | bool (b : Bool)
  | bytes (b64 : Text)               -- the base64 text encoding/json prints
  | time (rfc3339 : Text)            -- the text Time.MarshalJSON prints
  | iface (j : Json)                 -- dynamic value, by its encoding
  | nil                              -- nil pointer
  | ptr (v : GoVal)
  | list (vs : List GoVal)           -- slice or array
  | map (kvs : List (Text × GoVal))
  | struct (vs : List GoVal)         -- one value per field, in field order

/-- encoding/json isEmptyValue. -/
def isEmptyVal : GoVal → Bool
  | .nil => true
  | .bool b => !b
  | .int i => i == 0
  | .float m _ => m == 0
  | .str s => s == []
  | .list vs => vs.isEmpty
  | .map kvs => kvs.isEmpty
  | _ => false

def isScalar : GoType → Bool
  | .str | .int _ | .float _ | .bool => true
  | _ => false

/-- `,string` applies to scalar fields, looking through one pointer. -/
def quotedFor (m : FieldMeta) (t : GoType) : Bool :=
  jsonString m && (isScalar t || match t with | .ptr e => isScalar e | _ => false)

def lookupEnv (env : Env) (n : Text) : Option Fields := env.lookup n

mutual
/-- json.Marshal of a value at a type (`q`: the field carried the `,string` option). Ill-typed pairs give `null`. -/
def enc (env : Env) : GoVal → GoType → Bool → Json
  | .str s, _, q => if q then .str (34 :: s ++ [34]) else .str s
  | .int i, _, q => if q then .str (intText i) else .num i 0
  | .float m e, _, _ => .num m e
  | .bool b, _, q => if q then .str (if b then t!"true" else t!"false") else .bool b
  | .bytes b, _, _ => .str b
  | .time s, _, _ => .str s
  | .iface j, _, _ => j
  | .nil, _, _ => .null
  | .ptr v, .ptr e, q => enc env v e q
  | .ptr _, _, _ => .null
  | .list vs, .slice e, _ => .arr (encList env vs e)
  | .list vs, .array _ e, _ => .arr (encList env vs e)
  | .list _, _, _ => .null
  | .map kvs, .map e, _ => .obj (encMap env kvs e)
  | .map _, _, _ => .null
  | .struct vs, .struct fs, _ => .obj (encFields env vs fs)
  | .struct vs, .named n, _ =>
    match lookupEnv env n with
    | some fs => .obj (encFields env vs fs)
    | none => .null
  | .struct _, _, _ => .null
def encList (env : Env) : List GoVal → GoType → List Json
  | [], _ => []
  | v :: vs, e => enc env v e false :: encList env vs e
def encMap (env : Env) : List (Text × GoVal) → GoType → List (Text × Json)
  | [], _ => []
  | (k, v) :: kvs, e => (k, enc env v e false) :: encMap env kvs e
def encFields (env : Env) : List GoVal → Fields → List (Text × Json)
  | v :: vs, (m, t) :: fs =>
    if jsonSkip m then encFields env vs fs
    else if jsonOmit m && isEmptyVal v then encFields env vs fs
    else if promotes m then
      match enc env v t false with
      | .obj kvs => kvs ++ encFields env vs fs
      | .null => encFields env vs fs
      | j => (jsonName m, j) :: encFields env vs fs
    else (jsonName m, enc env v t (quotedFor m t)) :: encFields env vs fs
  | _, _ => []
end

/-- `encodeFull`: json.Marshal of a value of type `T`. -/
def encodeFull (env : Env) (T : GoType) (v : GoVal) : Json := enc env v T false

/-! ## schemas -/

inductive Ty where
  | string | integer | number | boolean | object | null
deriving DecidableEq, Repr

inductive Sch where
  | any                                         -- {}
  | prim (t : Ty)                               -- {"type": t}
  | arr (items : Sch)                           -- {"type":"array","items":…}
  | mapOf (v : Sch)                             -- {"type":"object","additionalProperties":…}
  | obj (props : List (Text × Sch)) (req : List Text) (closed : Bool)
                                                -- {"type":"object","properties","required"[,"additionalProperties":false]}
  | ref (typed : Bool) (target : Text)          -- {"$ref": target} (with "type":"object" if typed)
  | anyOf (alts : List Sch)

structure Doc where
  root : Sch
  defs : List (Text × Sch)

def tyOk : Ty → Json → Bool
  | .string, .str _ => true
  | .integer, .num _ e => e == 0
  | .number, .num _ _ => true
  | .boolean, .bool _ => true
  | .object, .obj _ => true
  | .null, .null => true
  | _, _ => false

def isObj : Json → Bool
  | .obj _ => true
  | _ => false

def hasKey (k : Text) : List (Text × Json) → Bool
  | [] => false
  | (k', _) :: r => k' == k || hasKey k r

mutual
/-- validation with `$ref` delegated to `onRef`. -/
def vGo (onRef : Text → Json → Bool) : Sch → Json → Bool
  | .any, _ => true
  | .prim t, j => tyOk t j
  | .arr it, j =>
    match j with
    | .arr xs => xs.all (fun x => vGo onRef it x)
    | _ => false
  | .mapOf s, j =>
    match j with
    | .obj kvs => kvs.all (fun kv => vGo onRef s kv.2)
    | _ => false
  | .obj props req closed, j =>
    match j with
    | .obj kvs =>
      req.all (fun r => hasKey r kvs) &&
      kvs.all (fun kv => match vProp onRef props kv.1 kv.2 with
        | some b => b
        | none => !closed)
    | _ => false
  | .ref typed tgt, j => (!typed || isObj j) && onRef tgt j
  | .anyOf alts, j => vAny onRef alts j
def vProp (onRef : Text → Json → Bool) : List (Text × Sch) → Text → Json → Option Bool
  | [], _, _ => none
  | (n, s) :: ps, k, j => if n == k then some (vGo onRef s j) else vProp onRef ps k j
def vAny (onRef : Text → Json → Bool) : List Sch → Json → Bool
  | [], _ => false
  | s :: ss, j => vGo onRef s j || vAny onRef ss j
end

/-! ### JSON pointer -/

def unescape : Text → Text
  | 126 :: 49 :: r => 47 :: unescape r
  | 126 :: 48 :: r => 126 :: unescape r
  | c :: r => c :: unescape r
  | [] => []

def parseNatAux : Text → Nat → Option Nat
  | [], acc => some acc
  | c :: r, acc => if 48 ≤ c ∧ c ≤ 57 then parseNatAux r (acc * 10 + (c - 48)) else none
def parseNat (t : Text) : Option Nat := if t == [] then none else parseNatAux t 0

/-- Walk pointer segments below a schema. -/
def walk : List Text → Sch → Option Sch
  | [], s => some s
  | seg :: rest, s =>
    match s with
    | .obj props _ _ =>
      if seg == t!"properties" then
        match rest with
        | n :: rest' =>
          match props.lookup n with
          | some s' => walk rest' s'
          | none => none
        | [] => none
      else none
    | .arr it => if seg == t!"items" then walk rest it else none
    | .mapOf v => if seg == t!"additionalProperties" then walk rest v else none
    | .anyOf alts =>
      if seg == t!"anyOf" then
        match rest with
        | i :: rest' =>
          match parseNat i with
          | some k =>
            match alts[k]? with
            | some s' => walk rest' s'
            | none => none
          | none => none
        | [] => none
      else none
    | _ => none

def hexVal (c : Nat) : Option Nat :=
  if 48 ≤ c ∧ c ≤ 57 then some (c - 48)
  else if 65 ≤ c ∧ c ≤ 70 then some (c - 55)
  else if 97 ≤ c ∧ c ≤ 102 then some (c - 87)
  else none

/-- URI percent-decoding of the fragment (ASCII escapes; anything else is left as it is). -/
def pctDecode : Text → Text
  | 37 :: a :: b :: r =>
    match hexVal a, hexVal b with
    | some x, some y => if x * 16 + y < 128 then (x * 16 + y) :: pctDecode r else 37 :: a :: b :: pctDecode r
    | _, _ => 37 :: pctDecode (a :: b :: r)
  | c :: r => c :: pctDecode r
  | [] => []

/-- Resolve a same-document reference `#/a/b`: URI fragment, percent-decoded, then an RFC 6901 pointer. -/
def resolve (doc : Doc) (target : Text) : Option Sch :=
  match splitOn 47 (pctDecode target) with
  | hd :: segs =>
    if hd == t!"#" then
      match segs.map unescape with
      | d :: n :: rest =>
        if d == t!"$defs" then
          match doc.defs.lookup n with
          | some s => walk rest s
          | none => none
        else walk (d :: n :: rest) doc.root
      | segs' => walk segs' doc.root
    else none
  | [] => none

/-- `validates`: a `$ref` costs one unit of fuel. -/
def validates (doc : Doc) : Nat → Sch → Json → Bool
  | 0, s, j => vGo (fun _ _ => false) s j
  | f + 1, s, j =>
    vGo (fun tgt j' =>
      match resolve doc tgt with
      | some s' => validates doc f s' j'
      | none => false) s j

mutual
def jsonDepth : Json → Nat
  | .arr xs => jsonDepthList xs + 1
  | .obj kvs => jsonDepthMembers kvs + 1
  | _ => 0
def jsonDepthList : List Json → Nat
  | [] => 0
  | x :: xs => max (jsonDepth x) (jsonDepthList xs)
def jsonDepthMembers : List (Text × Json) → Nat
  | [] => 0
  | (_, x) :: xs => max (jsonDepth x) (jsonDepthMembers xs)
end

/-- enough fuel for the generated documents: at most two references per level of the instance. -/
def fuelFor (j : Json) : Nat := 2 * jsonDepth j + 4

def validatesDoc (doc : Doc) (j : Json) : Bool := validates doc (fuelFor j) doc.root j

/-! ### references of a document -/

mutual
def refsOf : Sch → List Text
  | .arr it => refsOf it
  | .mapOf v => refsOf v
  | .obj props _ _ => refsOfProps props
  | .ref _ t => [t]
  | .anyOf alts => refsOfList alts
  | _ => []
def refsOfProps : List (Text × Sch) → List Text
  | [] => []
  | (_, s) :: ps => refsOf s ++ refsOfProps ps
def refsOfList : List Sch → List Text
  | [] => []
  | s :: ss => refsOf s ++ refsOfList ss
end

def Doc.refs (d : Doc) : List Text := refsOf d.root ++ refsOfProps d.defs

def refsResolve (d : Doc) : Bool := d.refs.all (fun t => (resolve d t).isSome)

def propertyNames : Sch → List Text
  | .obj props _ _ => props.map (·.1)
  | _ => []

/-! ## the inline generator (legacy mode) on types without named struct types -/

/-- convertStructToSchemaWithVisited: the required list. -/
def inlineReq : Fields → List Text
  | [] => []
  | (m, t) :: fs =>
    if legacySkip m then inlineReq fs
    else if isRequired m (isPtr t) then legacyName m :: inlineReq fs else inlineReq fs

mutual
/-- convertReflectTypeToSchemaWithVisited. `named` is outside this transcription (placeholder). -/
def genInline : GoType → Sch
  | .str => .prim .string
  | .int _ => .prim .integer
  | .float _ => .prim .number
  | .bool => .prim .boolean
  | .bytes => .arr (.prim .integer)            -- a slice of uint8
  | .time => .obj [] [] false                  -- a struct without exported fields
  | .iface => .prim .object                    -- "fallback to object type for unknown types"
  | .ptr e => genInline e
  | .slice e => .arr (genInline e)
  | .array _ e => .arr (genInline e)
  | .map e => .mapOf (genInline e)
  | .struct fs => .obj (inlineProps fs) (inlineReq fs) false
  | .named _ => .prim .object
/-- convertStructToSchemaWithVisited: the properties … -/
def inlineProps : Fields → List (Text × Sch)
  | [] => []
  | (m, t) :: fs =>
    if legacySkip m then inlineProps fs else (legacyName m, genInline t) :: inlineProps fs
end

def genInlineDoc (T : GoType) : Doc := ⟨genInline T, []⟩


/-! ## the inline generator with named (recursive) struct types: visited table, cycle "references" by bounded expansion -/

def derefAll : GoType → GoType
  | .ptr e => derefAll e
  | t => t

/-- the properties of convertStructToSchemaWithDepthLimit, the field schemas produced by `f` (pointers dereferenced first). -/
def depthProps (f : GoType → Sch) : Fields → List (Text × Sch)
  | [] => []
  | (m, t) :: fs => if legacySkip m then depthProps f fs else (legacyName m, f (derefAll t)) :: depthProps f fs

/-- convertTypeWithDepthLimit / convertStructToSchemaWithDepthLimit: at depth 0 everything is `{"type":"object"}`
    (whatever the Go type is); pointers below a container are not dereferenced ("default" branch). -/
def depthType (env : Env) : Nat → GoType → Sch
  | 0, _ => .prim .object
  | d + 1, T =>
    match T with
    | .str => .prim .string
    | .int _ => .prim .integer
    | .float _ => .prim .number
    | .bool => .prim .boolean
    | .bytes => .arr (depthType env d (.int 6))
    | .slice e => .arr (depthType env d e)
    | .array _ e => .arr (depthType env d e)
    | .map e => .mapOf (depthType env d e)
    | .ptr _ => .prim .object
    | .iface => .prim .object
    | .time => .obj [] [] false
    | .struct fs => .obj (depthProps (depthType env d) fs) (inlineReq fs) false
    | .named n =>
      match lookupEnv env n with
      | some fs => .obj (depthProps (depthType env d) fs) (inlineReq fs) false
      | none => .prim .object

abbrev Vis := List (GoType × Option Sch)

def lookupVis (vis : Vis) (t : GoType) : Option (Option Sch) :=
  match vis with
  | [] => none
  | (k, o) :: r => if GoType.beq k t then some o else lookupVis r t

mutual
/-- convertReflectTypeToSchemaWithVisited with its visited table (`none` = being processed); `cyc` = generateCycleRef,
    `exp` unfolds a named struct type. A finished entry is put in front of the table (it shadows the marker). -/
def genI (cyc : GoType → Sch) (exp : Text → Vis → Sch × Vis) : GoType → Vis → Sch × Vis
  | .ptr e, vis => genI cyc exp e vis
  | .named n, vis => exp n vis
  | .time, vis =>
    match lookupVis vis .time with
    | some (some s) => (s, vis)
    | some none => (cyc .time, vis)
    | none => (.obj [] [] false, (.time, some (.obj [] [] false)) :: vis)
  | .struct fs, vis =>
    match lookupVis vis (.struct fs) with
    | some (some s) => (s, vis)
    | some none => (cyc (.struct fs), vis)
    | none =>
      let r := genIFields cyc exp fs ((.struct fs, none) :: vis)
      (.obj r.1.1 r.1.2 false, (.struct fs, some (.obj r.1.1 r.1.2 false)) :: r.2)
  | .slice e, vis => let r := genI cyc exp e vis; (.arr r.1, r.2)
  | .array _ e, vis => let r := genI cyc exp e vis; (.arr r.1, r.2)
  | .map e, vis => let r := genI cyc exp e vis; (.mapOf r.1, r.2)
  | .bytes, vis => (.arr (.prim .integer), vis)
  | .str, vis => (.prim .string, vis)
  | .int _, vis => (.prim .integer, vis)
  | .float _, vis => (.prim .number, vis)
  | .bool, vis => (.prim .boolean, vis)
  | .iface, vis => (.prim .object, vis)
def genIFields (cyc : GoType → Sch) (exp : Text → Vis → Sch × Vis) : Fields → Vis → (List (Text × Sch) × List Text) × Vis
  | [], vis => (([], []), vis)
  | (m, t) :: fs, vis =>
    if legacySkip m then genIFields cyc exp fs vis
    else
      let r := genI cyc exp t vis
      let rest := genIFields cyc exp fs r.2
      (((legacyName m, r.1) :: rest.1.1, if isRequired m (isPtr t) then legacyName m :: rest.1.2 else rest.1.2), rest.2)
end

def genInlineNamed (env : Env) (cyc : GoType → Sch) : Nat → Text → Vis → Sch × Vis
  | 0 => fun _ vis => (.prim .object, vis)
  | f + 1 => fun n vis =>
    match lookupVis vis (.named n) with
    | some (some s) => (s, vis)
    | some none => (cyc (.named n), vis)
    | none =>
      match lookupEnv env n with
      | none => (.prim .object, vis)
      | some fs =>
        let r := genIFields cyc (genInlineNamed env cyc f) fs ((.named n, none) :: vis)
        (.obj r.1.1 r.1.2 false, (.named n, some (.obj r.1.1 r.1.2 false)) :: r.2)

/-- RefStyleInline for any type of the grammar (generateCycleRef expands to depth 6). -/
def genInlineEnvDoc (env : Env) (T : GoType) : Doc :=
  ⟨(genI (depthType env 6) (genInlineNamed env (depthType env 6) (env.length + 1)) T []).1, []⟩

mutual
def hasNamed : GoType → Bool
  | .named _ => true
  | .ptr e => hasNamed e
  | .slice e => hasNamed e
  | .array _ e => hasNamed e
  | .map e => hasNamed e
  | .struct fs => hasNamedFields fs
  | _ => false
def hasNamedFields : Fields → Bool
  | [] => false
  | (_, t) :: fs => hasNamed t || hasNamedFields fs
end

/-! ## the nested-ref generator (default style) -/

abbrev Path := List Text

def joinPath : Path → Text
  | [] => []
  | [s] => s
  | s :: r => s ++ 47 :: joinPath r

abbrev Seen := List (GoType × Path)

def lookupSeen (seen : Seen) (t : GoType) : Option Path :=
  match seen with
  | [] => none
  | (k, p) :: r => if GoType.beq k t then some p else lookupSeen r t

mutual
/-- NestedRefGenerator.generateSchema; `exp` unfolds a named struct type. -/
def genN (exp : Text → Seen → Path → Sch × Seen) : GoType → Seen → Path → Sch × Seen
  | .str, seen, _ => (.prim .string, seen)
  | .int _, seen, _ => (.prim .integer, seen)
  | .float _, seen, _ => (.prim .number, seen)
  | .bool, seen, _ => (.prim .boolean, seen)
  | .ptr e, seen, p => genN exp e seen p
  | .bytes, seen, _ => (.arr (.prim .integer), seen)
  | .slice e, seen, p =>
    let r := genN exp e seen (p ++ [t!"items"])
    (.arr r.1, r.2)
  | .array _ e, seen, p =>
    let r := genN exp e seen (p ++ [t!"items"])
    (.arr r.1, r.2)
  | .map e, seen, p =>
    let r := genN exp e seen (p ++ [t!"additionalProperties"])
    (.mapOf r.1, r.2)
  | .time, seen, p =>
    match lookupSeen seen .time with
    | some q => (.ref false (joinPath q), seen)
    | none => (.obj [] [] true, (.time, p) :: seen)
  | .iface, seen, p =>
    match lookupSeen seen .iface with
    | some q => (.ref false (joinPath q), seen)
    | none => (.any, (.iface, p) :: seen)
  | .struct fs, seen, p =>
    match lookupSeen seen (.struct fs) with
    | some q => (.ref false (joinPath q), seen)
    | none =>
      let r := genNFields exp fs ((.struct fs, p) :: seen) p
      (.obj r.1.1 r.1.2 true, r.2)
  | .named n, seen, p => exp n seen p
/-- NestedRefGenerator.generateStructSchema: (properties, required) and the seen table. -/
def genNFields (exp : Text → Seen → Path → Sch × Seen) : Fields → Seen → Path → (List (Text × Sch) × List Text) × Seen
  | [], seen, _ => (([], []), seen)
  | (m, t) :: fs, seen, p =>
    if m.jsonTag == t!"-" then genNFields exp fs seen p
    else
      let name := nestedName m
      let nullable := isPtr t && nestedOmit m
      let p' := if nullable then p ++ [t!"properties", name, t!"anyOf", t!"0"] else p ++ [t!"properties", name]
      let r := genN exp t seen p'
      let s := if nullable then Sch.anyOf [r.1, .prim .null] else r.1
      let rest := genNFields exp fs r.2 p
      (((name, s) :: rest.1.1, if nestedOmit m then rest.1.2 else name :: rest.1.2), rest.2)
end

/-- A named struct type: seen → reference to the first occurrence, otherwise record the path and unfold. -/
def genNestedNamed (env : Env) : Nat → Text → Seen → Path → Sch × Seen
  | 0 => fun _ seen _ => (.any, seen)
  | f + 1 => fun n seen p =>
    match lookupSeen seen (.named n) with
    | some q => (.ref false (joinPath q), seen)
    | none =>
      match lookupEnv env n with
      | none => (.any, seen)
      | some fs =>
        let r := genNFields (genNestedNamed env f) fs ((.named n, p) :: seen) p
        (.obj r.1.1 r.1.2 true, r.2)

/-- convertWithNestedRefs. Every unfolding of a named type adds it to the seen table, so `|env| + 1` fuel is never used up. -/
def genNestedDoc (env : Env) (T : GoType) : Doc :=
  ⟨(genN (genNestedNamed env (env.length + 1)) T [] [t!"#"]).1, []⟩

/-! ## the $defs generator -/

structure DState where
  visited : List (GoType × Text)
  defs : List (Text × Sch)

def lookupVisited (vis : List (GoType × Text)) (t : GoType) : Option Text :=
  match vis with
  | [] => none
  | (k, n) :: r => if GoType.beq k t then some n else lookupVisited r t

/-- `g.defs[name] = s` (Go map assignment). -/
def setDef (name : Text) (s : Sch) : List (Text × Sch) → List (Text × Sch)
  | [] => [(name, s)]
  | (k, v) :: r => if k == name then (k, s) :: r else (k, v) :: setDef name s r

def defsRef (name : Text) : Sch := .ref true (t!"#/$defs/" ++ name)

/-- getTypeName of an anonymous struct type prints the run-time address of its type descriptor: one key per TYPE, the
    same for every occurrence of the type, different for different types. The model numbers the types by the size of
    the visited table when the type is first met (the comparison renames both sides' `Type0x…` keys canonically). -/
def anonName (k : Nat) : Text := t!"Type0x" ++ natDigits k

mutual
/-- Generator.generateFieldSchemaWithRefs. -/
def genD (exp : Text → DState → Sch × DState) : GoType → DState → Sch × DState
  | .ptr e, st => genD exp e st
  | .named n, st => exp n st
  | .time, st =>
    match lookupVisited st.visited .time with
    | some n => (defsRef n, st)
    | none => (defsRef t!"time.Time", ⟨(.time, t!"time.Time") :: st.visited, setDef t!"time.Time" (.obj [] [] false) st.defs⟩)
  | .struct fs, st =>
    match lookupVisited st.visited (.struct fs) with
    | some n => (defsRef n, st)
    | none =>
      let nm := anonName st.visited.length
      let st1 : DState := ⟨(.struct fs, nm) :: st.visited, setDef nm (.obj [] [] false) st.defs⟩
      let r := genDFields exp fs st1
      (defsRef nm, ⟨r.2.visited, setDef nm (.obj r.1.1 r.1.2 false) r.2.defs⟩)
  | .slice e, st => let r := genD exp e st; (.arr r.1, r.2)
  | .array _ e, st => let r := genD exp e st; (.arr r.1, r.2)
  | .map e, st => let r := genD exp e st; (.mapOf r.1, r.2)
  | .bytes, st => (.arr (.prim .integer), st)
  | .str, st => (.prim .string, st)
  | .int _, st => (.prim .integer, st)
  | .float _, st => (.prim .number, st)
  | .bool, st => (.prim .boolean, st)
  | .iface, st => (.prim .object, st)
/-- Generator.generateStructSchemaWithRefs. -/
def genDFields (exp : Text → DState → Sch × DState) : Fields → DState → (List (Text × Sch) × List Text) × DState
  | [], st => (([], []), st)
  | (m, t) :: fs, st =>
    if legacySkip m then genDFields exp fs st
    else
      let r := genD exp t st
      let rest := genDFields exp fs r.2
      (((legacyName m, r.1) :: rest.1.1, if isRequired m (isPtr t) then legacyName m :: rest.1.2 else rest.1.2), rest.2)
end

/-- A named struct type in the $defs style: visited → reference; otherwise mark, placeholder, generate, replace. -/
def genDefsNamed (env : Env) : Nat → Text → DState → Sch × DState
  | 0 => fun _ st => (.prim .object, st)
  | f + 1 => fun n st =>
    match lookupVisited st.visited (.named n) with
    | some nm => (defsRef nm, st)
    | none =>
      match lookupEnv env n with
      | none => (.prim .object, st)
      | some fs =>
        let st1 : DState := ⟨(.named n, n) :: st.visited, setDef n (.obj [] [] false) st.defs⟩
        let r := genDFields (genDefsNamed env f) fs st1
        (defsRef n, ⟨r.2.visited, setDef n (.obj r.1.1 r.1.2 false) r.2.defs⟩)

/-- ConvertStructToOpenAPISchemaWithOptions, RefStyleDefs, for a struct root. -/
def genDefsDoc (env : Env) (T : GoType) : Doc :=
  let r := genD (genDefsNamed env (env.length + 1)) T ⟨[], []⟩
  ⟨r.1, r.2.defs⟩


/-! ## the fragment on which soundness is proved, and fully populated values -/

def nodup : List Text → Bool
  | [] => true
  | x :: xs => !xs.contains x && nodup xs

/-- A field the generators treat the way encoding/json does: not embedded, no `,string`, and a tag name `-` only as the
    whole tag (`json:"-,"` names the field "-" for encoding/json, the inline and $defs generators drop it). -/
def metaOk (m : FieldMeta) : Bool :=
  !m.embedded && !jsonString m && m.goName != [] && m.goName != t!"-" && (tagName m.jsonTag != t!"-" || m.jsonTag == t!"-")

mutual
/-- No `[]byte`, `time.Time`, interface, embedded field, `,string`; no named (possibly recursive) struct type;
    pairwise distinct JSON names inside every struct. -/
def frag : GoType → Bool
  | .str => true
  | .int _ => true
  | .float _ => true
  | .bool => true
  | .bytes => false
  | .time => false
  | .iface => false
  | .named _ => false
  | .ptr e => frag e
  | .slice e => frag e
  | .array _ e => frag e
  | .map e => frag e
  | .struct fs => fragFields fs && nodup (jsonFieldNames fs)
def fragFields : Fields → Bool
  | [] => true
  | (m, t) :: fs => metaOk m && frag t && fragFields fs
end

mutual
/-- `v` is a fully populated value of type `T`: every pointer set, every container non-empty, every scalar non-zero
    (nothing for `omitempty` to drop). -/
def populated (env : Env) : GoVal → GoType → Bool
  | .str s, .str => s != []
  | .int i, .int _ => i != 0
  | .float m _, .float _ => m != 0
  | .bool b, .bool => b
  | .bytes b, .bytes => b != []
  | .time s, .time => s != []
  | .iface j, .iface => !(match j with | .null => true | _ => false)
  | .ptr v, .ptr e => populated env v e
  | .list vs, .slice e => !vs.isEmpty && populatedList env vs e
  | .list vs, .array n e => !vs.isEmpty && vs.length == n && populatedList env vs e
  | .map kvs, .map e => !kvs.isEmpty && populatedMap env kvs e
  | .struct vs, .struct fs => populatedFields env vs fs
  | .struct vs, .named n =>
    match lookupEnv env n with
    | some fs => populatedFields env vs fs
    | none => false
  | _, _ => false
def populatedList (env : Env) : List GoVal → GoType → Bool
  | [], _ => true
  | v :: vs, e => populated env v e && populatedList env vs e
def populatedMap (env : Env) : List (Text × GoVal) → GoType → Bool
  | [], _ => true
  | (_, v) :: kvs, e => populated env v e && populatedMap env kvs e
def populatedFields (env : Env) : List GoVal → Fields → Bool
  | [], [] => true
  | v :: vs, (_, t) :: fs => populated env v t && populatedFields env vs fs
  | _, _ => false
end



/-! ## argument binding (typed_handlers.go bindArguments): map[string]any → json.Marshal → json.Unmarshal into the type -/

def bitLenAux : Nat → Nat → Nat
  | 0, _ => 0
  | f + 1, n => if n == 0 then 0 else bitLenAux f (n / 2) + 1
def bitLen (n : Nat) : Nat := bitLenAux (n + 1) n

/-- The integer a float64 holds after parsing the decimal integer `i` (round to nearest, ties to even) — the request's
    numbers reach the handler side as float64. Exact up to 2^53. (Beyond 2^54 Go re-prints the float64 with the shortest
    digits that identify it, which need not be this integer; the statements only use the exact range.) -/
def f64Int (i : Int) : Int :=
  let n := i.natAbs
  if n ≤ 9007199254740992 then i
  else
    let shift := bitLen n - 53
    let q := n / 2 ^ shift
    let rem := n % 2 ^ shift
    let half := 2 ^ (shift - 1)
    let q' := if rem > half || (rem == half && q % 2 == 1) then q + 1 else q
    if i < 0 then -((q' * 2 ^ shift : Nat) : Int) else ((q' * 2 ^ shift : Nat) : Int)

mutual
/-- the zero value a missing member leaves in the target -/
def zeroVal : GoType → GoVal
  | .str => .str []
  | .int _ => .int 0
  | .float _ => .float 0 0
  | .bool => .bool false
  | .struct fs => .struct (zeroFields fs)
  | _ => .nil
def zeroFields : Fields → List GoVal
  | [] => []
  | (_, t) :: fs => zeroVal t :: zeroFields fs
end

def collect {α : Type} : List (Option α) → Option (List α)
  | [] => some []
  | none :: _ => none
  | some a :: r => (collect r).map (a :: ·)

mutual
/-- json.Unmarshal into a type of the binding fragment (`num`: what became of an integer literal on the way).
    Byte slices, time, interfaces, arrays and named types are outside this transcription (`none`). -/
def dec (num : Int → Int) : GoType → Json → Option GoVal
  | .str, j => match j with
    | .str s => some (.str s)
    | _ => none
  | .int _, j => match j with
    | .num m e => if e == 0 then some (.int (num m)) else none
    | _ => none
  | .float _, j => match j with
    | .num m e => some (.float m e)
    | _ => none
  | .bool, j => match j with
    | .bool b => some (.bool b)
    | _ => none
  | .ptr e, j => match j with
    | .null => some .nil
    | _ => (dec num e j).map .ptr
  | .slice e, j => match j with
    | .null => some .nil
    | .arr xs => (collect (xs.map (fun x => dec num e x))).map .list
    | _ => none
  | .map e, j => match j with
    | .null => some .nil
    | .obj kvs => (collect (kvs.map (fun kv => (dec num e kv.2).map (fun v => (kv.1, v))))).map .map
    | _ => none
  | .struct fs, j => match j with
    | .obj kvs => (decFields num fs kvs).map .struct
    | _ => none
  | _, _ => none
def decFields (num : Int → Int) : Fields → List (Text × Json) → Option (List GoVal)
  | [], _ => some []
  | (m, t) :: fs, kvs =>
    if jsonSkip m then (decFields num fs kvs).map (zeroVal t :: ·)
    else match kvs.lookup (jsonName m) with
      | none => (decFields num fs kvs).map (zeroVal t :: ·)
      | some j =>
        match dec num t j with
        | none => none
        | some v => (decFields num fs kvs).map (v :: ·)
end

/-- bindArguments on the JSON the caller sent. -/
def bindArguments (T : GoType) (args : Json) : Option GoVal := dec f64Int T args

mutual
def bindFrag : GoType → Bool
  | .str => true
  | .int _ => true
  | .float _ => true
  | .bool => true
  | .ptr e => bindFrag e
  | .slice e => bindFrag e
  | .map e => bindFrag e
  | .struct fs => bindFragFields fs && nodup (jsonFieldNames fs)
  | _ => false
def bindFragFields : Fields → Bool
  | [] => true
  | (m, t) :: fs => metaOk m && !jsonSkip m && bindFrag t && bindFragFields fs
end

mutual
/-- every integer of the value is within ±2^53 -/
def smallInts : GoVal → Bool
  | .int i => i.natAbs ≤ 9007199254740992
  | .ptr v => smallInts v
  | .list vs => smallIntsList vs
  | .map kvs => smallIntsMap kvs
  | .struct vs => smallIntsList vs
  | _ => true
def smallIntsList : List GoVal → Bool
  | [] => true
  | v :: vs => smallInts v && smallIntsList vs
def smallIntsMap : List (Text × GoVal) → Bool
  | [] => true
  | (_, v) :: kvs => smallInts v && smallIntsMap kvs
end

/-! ## concrete types and values used by the counterexample / witness / non-vacuity statements of C18 -/
namespace Ex

def fm (go tag : Text) : FieldMeta := ⟨go, tag, [], false⟩

/-- `struct{ Name string `json:"name"`; Blob []byte `json:"blob"` }` -/
def tBytes : GoType := .struct [(fm t!"Name" t!"name", .str), (fm t!"Blob" t!"blob", .bytes)]
def vBytes : GoVal := .struct [.str t!"n", .bytes t!"aGk="]

/-- `struct{ At time.Time `json:"at"` }` -/
def tTime : GoType := .struct [(fm t!"At" t!"at", .time)]
def vTime : GoVal := .struct [.time t!"2021-03-04T05:06:07Z"]

/-- `struct{ Base; Extra bool `json:"extra"` }` with `Base struct{ ID string `json:"id"`; Rank int `json:"rank,omitempty"` }` -/
def fsEmb : Fields :=
  [(⟨t!"Base", [], [], true⟩, .struct [(fm t!"ID" t!"id", .str), (fm t!"Rank" t!"rank,omitempty", .int 0)]),
   (fm t!"Extra" t!"extra", .bool)]
def tEmb : GoType := .struct fsEmb
def vEmb : GoVal := .struct [.struct [.str t!"x", .int 3], .bool true]

/-- `struct{ N int `json:"n,string"` }` -/
def tStrOpt : GoType := .struct [(fm t!"N" t!"n,string", .int 0)]
def vStrOpt : GoVal := .struct [.int 5]

/-- `struct{ V interface{} `json:"v"` }` holding a string -/
def tIface : GoType := .struct [(fm t!"V" t!"v", .iface)]
def vIface : GoVal := .struct [.iface (.str t!"s")]

/-- two DIFFERENT anonymous struct types under equally named fields of different parents (and the first one again):
    `struct{ Primary struct{ Limits struct{Max int} }; Backup struct{ Limits struct{Codes []string}; Again struct{Max int} } }` -/
def tLimA : GoType := .struct [(fm t!"Max" t!"max", .int 0)]
def tLimB : GoType := .struct [(fm t!"Codes" t!"codes", .slice .str)]
def tTwins : GoType := .struct [
  (fm t!"Primary" t!"primary", .struct [(fm t!"Limits" t!"limits", tLimA)]),
  (fm t!"Backup" t!"backup", .struct [(fm t!"Limits" t!"limits", tLimB), (fm t!"Again" t!"again", tLimA)])]
def vTwins : GoVal := .struct [.struct [.struct [.int 3]], .struct [.struct [.list [.str t!"c"]], .struct [.int 4]]]

/-- one struct type under two properties, the first named `a/b` -/
def tInner : GoType := .struct [(fm t!"X" t!"x", .int 0)]
def tEsc : GoType := .struct [(fm t!"A" t!"a/b", tInner), (fm t!"B" t!"c", tInner)]
def vEsc : GoVal := .struct [.struct [.int 1], .struct [.int 2]]

/-- a generic instantiation: its reflect name contains the type argument's package path -/
def envGeneric : Env :=
  [(t!"main.Box[example.com/x/deep.T]", [(fm t!"V" t!"v", .int 0)]),
   (t!"main.H", [(fm t!"A" t!"a", .named t!"main.Box[example.com/x/deep.T]")])]

/-- `struct{ D int `json:"-,"`; E int `json:"e"` }`: encoding/json names the first field "-" -/
def fsDash : Fields := [(fm t!"D" t!"-,", .int 0), (fm t!"E" t!"e", .int 0)]

/-- `type List struct{ Val string `json:"val"`; Next *List `json:"next,omitempty"` }` -/
def envList : Env :=
  [(t!"main.List", [(fm t!"Val" t!"val", .str), (fm t!"Next" t!"next,omitempty", .ptr (.named t!"main.List"))])]
def tList : GoType := .named t!"main.List"
def listOf : Nat → GoVal
  | 0 => .struct [.str t!"end", .nil]
  | n + 1 => .struct [.str t!"v", .ptr (listOf n)]

/-- `type Chain struct{ ID int64 `json:"id"`; Next *Chain `json:"next"` }`: no omitempty on the recursive pointer -/
def envChain : Env :=
  [(t!"main.Chain", [(fm t!"ID" t!"id", .int 4), (fm t!"Next" t!"next", .ptr (.named t!"main.Chain"))])]
def tChain : GoType := .named t!"main.Chain"
def vChain : GoVal := .struct [.int 1, .ptr (.struct [.int 2, .nil])]

/-- a fragment type with every fragment construct: tags, omitempty, `-`, jsonschema required, pointer, slice, array, map, nested struct -/
def tFrag : GoType :=
  .struct [
    (⟨t!"Name", t!"name", t!"required,description=the name", false⟩, .str),
    (fm t!"Count" t!"count,omitempty", .int 4),
    (fm t!"Ratio" [], .float 1),
    (fm t!"Hidden" t!"-", .bool),
    (fm t!"Opt" t!"opt,omitempty", .ptr (.struct [(fm t!"On" t!"on", .bool)])),
    (fm t!"Tags" t!"tags", .slice .str),
    (fm t!"Grid" t!"grid", .array 2 (.slice (.int 0))),
    (fm t!"Index" t!"index", .map (.struct [(fm t!"K" t!"k", .str), (fm t!"P" t!"p", .ptr (.int 0))]))]
def vFrag : GoVal :=
  .struct [.str t!"n", .int 7, .float 15 1, .bool true, .ptr (.struct [.bool true]), .list [.str t!"a", .str t!"b"],
    .list [.list [.int 1], .list [.int 2, .int 3]], .map [(t!"k0", .struct [.str t!"x", .ptr (.int 9)])]]

end Ex

/-- A type name that needs no escaping inside a `#/$defs/<name>` reference. -/
def cleanName (n : Text) : Bool := !n.contains 47 && !n.contains 126 && !n.contains 37

def cleanEnv (env : Env) : Bool := env.all (fun e => cleanName e.1)

/-- the document's declared property names at the root (through a root `$ref`, as in the $defs style) -/
def Doc.propertyNames (d : Doc) : List Text :=
  match d.root with
  | .ref _ t =>
    match resolve d t with
    | some s => Mcp.Schema.propertyNames s
    | none => []
  | s => Mcp.Schema.propertyNames s

/-- C18 as stated, for one generation style: for every struct type and every fully populated value of it the generated
    document accepts the value's encoding, all its references resolve, and it names exactly encoding/json's field names. -/
def SoundFor (gen : Env → GoType → Doc) : Prop :=
  ∀ (env : Env) (fs : Fields) (v : GoVal), populated env v (.struct fs) = true →
    validatesDoc (gen env (.struct fs)) (encodeFull env (.struct fs) v) = true ∧
    refsResolve (gen env (.struct fs)) = true ∧
    (gen env (.struct fs)).propertyNames = jsonFieldNames fs

end Mcp.Schema
