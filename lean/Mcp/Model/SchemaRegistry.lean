/-
  C18 — "the schema a client reads from tools/list is the schema the server registered", over HISTORIES of
  registrations: manager_tools.go toolManager.registerTool / unregisterTools / getTools (shared by Server, SSEServer and
  StdioServer). The registry maps a tool name to the descriptor registered LAST under it — the whole descriptor:
  registering a name again REPLACES what was there (nothing of the earlier descriptor survives); unregistering removes
  the entry. getTools walks a Go map: the listing is a SET of descriptors, its order is unspecified (the `toolsOrder`
  slice the manager keeps is not consulted by getTools / tools/list) — the comparison sorts both sides by name.
  Generic in the descriptor type `α` (the driver runs it on JSON descriptors).
-/
import Mcp.Model.Str
namespace Mcp.Schema
open Mcp.Str

inductive RegOp (α : Type) where
  | register (name : Text) (d : α)
  | unregister (name : Text)

/-- `m.tools[name] = …`: replace, or add. -/
def regSet {α : Type} (name : Text) (d : α) : List (Text × α) → List (Text × α)
  | [] => [(name, d)]
  | (k, v) :: r => if k == name then (k, d) :: r else (k, v) :: regSet name d r

/-- unregisterTools(name): `delete(m.tools, name)`. -/
def regErase {α : Type} (name : Text) : List (Text × α) → List (Text × α)
  | [] => []
  | (k, v) :: r => if k == name then regErase name r else (k, v) :: regErase name r

/-- registerTool ignores a descriptor without a name. -/
def regStep {α : Type} (reg : List (Text × α)) : RegOp α → List (Text × α)
  | .register name d => if name == [] then reg else regSet name d reg
  | .unregister name => regErase name reg

/-- the registry after a history (getTools / tools/list show its entries, in no particular order) -/
def regRun {α : Type} (h : List (RegOp α)) : List (Text × α) := h.foldl regStep []

/-- what the history says about one name: the descriptor of the most recent registration, unless an unregistration
    came after it -/
def lastOp {α : Type} (n : Text) (acc : Option α) : RegOp α → Option α
  | .register name d => if name == n && name != [] then some d else acc
  | .unregister name => if name == n then none else acc

def lastRegistered {α : Type} (h : List (RegOp α)) (n : Text) : Option α := h.foldl (lastOp n) none

/-- the MERGE variant (a re-registration inherits the parts the new descriptor leaves unset), for descriptors with
    optional parts -/
structure Parts where
  description : Text
  input : Nat
  output : Option Nat
  annotations : Option Nat
deriving DecidableEq, Repr

def mergeParts (prev next : Parts) : Parts :=
  { description := if next.description == [] then prev.description else next.description
    input := next.input
    output := match next.output with | some o => some o | none => prev.output
    annotations := match next.annotations with | some a => some a | none => prev.annotations }

def regStepMerge (reg : List (Text × Parts)) : RegOp Parts → List (Text × Parts)
  | .register name d =>
    if name == [] then reg
    else match reg.lookup name with
      | some prev => regSet name (mergeParts prev d) reg
      | none => regSet name d reg
  | .unregister name => regErase name reg

end Mcp.Schema
