/-
  Streamable-HTTP session life-cycle (`streamable_server.go` handlePost / handleGet / handleDelete,
  `internal/session`, the per-session initialisation flag of `manager_lifecycle.go`), over symbolic
  session ids: `Sid n` = the n-th id the server ever issued.  Clock-free (the 1 h expiry sweep is outside).
-/
namespace Mcp.Session

inductive Mode | stateful | stateless | sessionsOff
  deriving Repr, DecidableEq

structure Cfg where
  mode : Mode
  getEnabled : Bool
  /-- `handleGet` guards the nil session manager (false on the tree where D12 is unrepaired). -/
  getGuardsNoSessions : Bool := true
  deriving Repr, DecidableEq

notation "Sid" => Nat

/-- What the `Mcp-Session-Id` request header carries. -/
inductive Ref
  | none                  -- header absent / empty
  | sid (s : Sid)         -- an id this server issued (live or already deleted)
  | bogus                 -- a string this server never issued (garbage, foreign-made)
  deriving Repr, DecidableEq

/-- POST body kinds as the envelope classifier sees them. -/
inductive Kind
  | initOk          -- id + method "initialize", valid params
  | initBad         -- id + method "initialize", params rejected with -32602
  | request         -- id + any other method
  | notifInitialized
  | notifOther
  | response        -- id, no method, has result or error
  | responseEmpty   -- id, no method, neither result nor error
  | invalid         -- neither id nor method
  deriving Repr, DecidableEq

inductive Op
  | post (k : Kind) (r : Ref)
  | get (r : Ref)
  | closeStream (s : Sid)     -- the client closes its listening stream
  | delete (r : Ref)
  deriving Repr, DecidableEq

structure St where
  issued : Nat := 0                      -- ids issued so far: 0 … issued-1
  live : List Sid := []                  -- session table
  lstate : List (Sid × Bool) := []       -- lifecycleManager.sessionStates (newest entry first)
  streams : List Sid := []               -- sessions whose listening stream is open (client view)
  deriving Repr, DecidableEq

/-- Status 0 = the connection was aborted without an HTTP answer (handler panic recovered by net/http). -/
structure Out where
  status : Nat
  sid : Option Sid := none               -- session header on the answer
  closed : List Sid := []                -- streams the server ended as a consequence of this operation
  deriving Repr, DecidableEq

def lookupState (l : List (Sid × Bool)) (s : Sid) : Option Bool :=
  match l with
  | [] => none
  | (k, v) :: t => if k = s then some v else lookupState t s

def isInit : Kind → Bool
  | .initOk | .initBad => true
  | _ => false

/-- What a POST does once the session is resolved (`sess = none` only when sessions are disabled). -/
def postBody (c : Cfg) (st : St) (k : Kind) (sess : Option Sid) : St × Out :=
  let hdr : Option Sid := if c.mode = .stateful then sess else none
  match k with
  | .initOk =>
    match sess, c.mode with
    | some s, .stateful => ({ st with lstate := (s, false) :: st.lstate }, ⟨200, hdr, []⟩)
    | _, _ => (st, ⟨200, hdr, []⟩)
  | .initBad | .request => (st, ⟨200, hdr, []⟩)
  | .notifInitialized =>
    match c.mode, sess with
    | .stateful, some s =>
      match lookupState st.lstate s with
      | some false => ({ st with lstate := (s, true) :: st.lstate }, ⟨202, hdr, []⟩)
      | _ => (st, ⟨500, none, []⟩)
    | _, _ => (st, ⟨202, hdr, []⟩)
  | .notifOther => (st, ⟨202, hdr, []⟩)
  | .response =>
    match sess with
    | none => (st, ⟨404, none, []⟩)
    | some _ => (st, ⟨202, hdr, []⟩)
  | .responseEmpty =>
    -- an id with neither method nor result nor error is refused (it used to be accepted with an empty 202)
    match sess with
    | none => (st, ⟨404, none, []⟩)
    | some _ => (st, ⟨400, none, []⟩)
  | .invalid => (st, ⟨400, none, []⟩)

def noSessGet (c : Cfg) (st : St) : St × Out :=
  if c.getGuardsNoSessions then (st, ⟨501, none, []⟩) else (st, ⟨0, none, []⟩)

def stepPost (c : Cfg) (st : St) (k : Kind) (r : Ref) : St × Out :=
  match c.mode, r with
  -- throw-away session: a fresh id that is never entered in the table and never shown
  | .stateless, _ => postBody c st k (some st.issued)
  | .sessionsOff, _ => postBody c st k none
  | .stateful, .none =>
    if isInit k then
      postBody c { st with issued := st.issued + 1, live := st.issued :: st.live } k (some st.issued)
    else (st, ⟨400, none, []⟩)
  | .stateful, .bogus => (st, ⟨404, none, []⟩)
  | .stateful, .sid s => if s ∈ st.live then postBody c st k (some s) else (st, ⟨404, none, []⟩)

def stepGet (c : Cfg) (st : St) (r : Ref) : St × Out :=
  if c.getEnabled = false then (st, ⟨405, none, []⟩)
  else match c.mode, r with
    | .stateless, _ => (st, ⟨405, none, []⟩)
    | .sessionsOff, .none => (st, ⟨400, none, []⟩)
    | .sessionsOff, .bogus => noSessGet c st
    | .sessionsOff, .sid _ => noSessGet c st
    | .stateful, .none => (st, ⟨400, none, []⟩)
    | .stateful, .bogus => (st, ⟨404, none, []⟩)
    | .stateful, .sid s =>
      if s ∈ st.live then
        ({ st with streams := s :: st.streams.filter (· ≠ s) }, ⟨200, some s, if s ∈ st.streams then [s] else []⟩)
      else (st, ⟨404, none, []⟩)

def stepDelete (c : Cfg) (st : St) (r : Ref) : St × Out :=
  match r, c.mode with
  | .none, _ => (st, ⟨400, none, []⟩)
  | .bogus, .sessionsOff => (st, ⟨501, none, []⟩)
  | .bogus, .stateless => (st, ⟨404, none, []⟩)
  | .bogus, .stateful => (st, ⟨404, none, []⟩)
  | .sid _, .sessionsOff => (st, ⟨501, none, []⟩)
  | .sid _, .stateless => (st, ⟨404, none, []⟩)
  | .sid s, .stateful =>
    if s ∈ st.live then
      ({ st with live := st.live.filter (· ≠ s), streams := st.streams.filter (· ≠ s) },
       ⟨200, none, if s ∈ st.streams then [s] else []⟩)
    else (st, ⟨404, none, []⟩)

def step (c : Cfg) (st : St) : Op → St × Out
  | .post k r => stepPost c st k r
  | .get r => stepGet c st r
  | .closeStream s => ({ st with streams := st.streams.filter (· ≠ s) }, ⟨200, none, []⟩)
  | .delete r => stepDelete c st r

def run (c : Cfg) : St → List Op → St × List Out
  | st, [] => (st, [])
  | st, op :: ops =>
    let (st', o) := step c st op
    let (st'', os) := run c st' ops
    (st'', o :: os)

def final (c : Cfg) (st : St) (ops : List Op) : St := ops.foldl (fun s op => (step c s op).1) st

/-- What `GetActiveSessions` reports. -/
def reported (c : Cfg) (st : St) : Option (List Sid) :=
  match c.mode with
  | .stateless => none
  | .sessionsOff => some []
  | .stateful => some st.live

/-! ### the abstract specification: which ids does a history leave alive? -/

/-- Spec state: how many initialize-without-id were accepted, and which of those ids were deleted since. -/
structure Spec where
  issued : Nat := 0
  deleted : List Sid := []
  deriving Repr, DecidableEq

def Spec.alive (sp : Spec) (s : Sid) : Bool := decide (s < sp.issued) && !sp.deleted.contains s

def Spec.step (c : Cfg) (sp : Spec) : Op → Spec
  | .post k .none => if c.mode = .stateful ∧ isInit k then { sp with issued := sp.issued + 1 } else sp
  | .delete (.sid s) => if c.mode = .stateful ∧ sp.alive s then { sp with deleted := s :: sp.deleted } else sp
  | _ => sp

def Spec.run (c : Cfg) (ops : List Op) : Spec := ops.foldl (Spec.step c) {}

end Mcp.Session
