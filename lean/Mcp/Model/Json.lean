/-
  JSON values as the Go code sees them after `json.Unmarshal` into `interface{}` / `map[string]interface{}`,
  with lookup helpers that mirror Go's comma-ok type assertions (`v, ok := m[k].(string)`).

  Objects are association lists.  `lookup` returns the first binding; the Go decoders work on maps (unique keys), the
  encoders of this library never emit a key twice, and the driver builds objects from `Lean.Json` (unique keys), so
  first-match is the map lookup on everything the models are run on.
-/
import Mcp.Model.Str
namespace Mcp.Json
open Mcp.Str

inductive Json where
  | null
  | bool (b : Bool)
  | int (i : Int)
  /-- a number that is not an integer: `m · 10^(−e)` (normalised by the driver: `e > 0`, `10 ∤ m`) -/
  | dec (m : Int) (e : Nat)
  | str (s : Text)
  | arr (xs : List Json)
  | obj (kvs : List (Text × Json))

instance : Inhabited Json := ⟨.null⟩

/-- a JSON object as a Go `map[string]interface{}` -/
abbrev Obj := List (Text × Json)

/-- `v, ok := m[key]` -/
def lookup : Obj → Text → Option Json
  | [], _ => none
  | (k, v) :: rest, key => if k = key then some v else lookup rest key

/-- `_, ok := m[key]` -/
def hasKey (m : Obj) (key : Text) : Bool := (lookup m key).isSome

/-- `s, ok := v.(string)` -/
def asStr? : Json → Option Text
  | .str s => some s
  | _ => none

/-- `m, ok := v.(map[string]interface{})` -/
def asObj? : Json → Option Obj
  | .obj m => some m
  | _ => none

/-- `a, ok := v.([]interface{})` -/
def asArr? : Json → Option (List Json)
  | .arr a => some a
  | _ => none

/-- `b, ok := v.(bool)` -/
def asBool? : Json → Option Bool
  | .bool b => some b
  | _ => none

/-- `mcp.extractString` / `utils.ExtractString`: the value if the key is present *and* a string, otherwise `""`
    (a missing key, a non-string value and an empty string are not told apart). -/
def extractString (m : Obj) (key : Text) : Text :=
  match lookup m key with
  | some (.str s) => s
  | _ => []

/-- `mcp.extractMap` / `utils.ExtractMap`: `nil` unless present and an object (an empty object is a non-nil map). -/
def extractMap (m : Obj) (key : Text) : Option Obj :=
  match lookup m key with
  | some (.obj o) => some o
  | _ => none

/-- `utils.ExtractArray`: `nil` unless present and an array (`[]` is a non-nil empty slice: ranging over it is the same). -/
def extractArray (m : Obj) (key : Text) : Option (List Json) :=
  match lookup m key with
  | some (.arr a) => some a
  | _ => none

/-- `x, ok := m[key].(string)` keeping the comma-ok result (present-and-string vs anything else). -/
def lookupStr? (m : Obj) (key : Text) : Option Text :=
  match lookup m key with
  | some (.str s) => some s
  | _ => none

/-- A JSON value as the target of `json.Unmarshal(data, &m)` with `m map[string]interface{}`:
    an object gives the map, `null` leaves the nil map (no error), everything else is an error. -/
inductive AsMap where
  | map (m : Obj)
  | nilMap
  | typeError

def asMapTarget : Json → AsMap
  | .obj m => .map m
  | .null => .nilMap
  | _ => .typeError

@[simp] theorem lookup_nil (k : Text) : lookup [] k = none := rfl
@[simp] theorem lookup_cons_eq (k : Text) (v : Json) (rest : Obj) : lookup ((k, v) :: rest) k = some v := by
  simp [lookup]
theorem lookup_cons_ne (k k' : Text) (v : Json) (rest : Obj) (h : k ≠ k') : lookup ((k, v) :: rest) k' = lookup rest k' := by
  simp [lookup, h]

end Mcp.Json
